(* float64(int64) of the C06 model is exact, hence strictly monotone, on |n| <= 2^53. *)
From Miller Require Import Base.Record C06.Model C09.Model.
Open Scope Z_scope.

Lemma rpr_exact n e : 0 <= e < 52 -> 2 ^ e <= n < 2 ^ (e + 1) ->
  round_pos_rational n 1 = Some ((e + 1023) * 2 ^ 52 + (n * 2 ^ (52 - e) - 2 ^ 52)).
Proof.
  intros He Hn.
  assert (Hl : Z.log2 n = e) by (apply Z.log2_unique; lia).
  unfold round_pos_rational. rewrite Hl. change (Z.log2 1) with 0. rewrite Z.sub_0_r.
  cbv zeta.
  replace (0 <=? e) with true by (symmetry; apply Z.leb_le; lia).
  replace (1 * 2 ^ e <=? n) with true by (symmetry; apply Z.leb_le; lia).
  replace (Z.max (e - 52) (-1074)) with (e - 52) by lia.
  replace (0 <=? e - 52) with false by (symmetry; apply Z.leb_gt; lia).
  cbv iota beta.
  replace (- (e - 52)) with (52 - e) by lia.
  assert (Hp : 0 < 2 ^ (52 - e)) by (apply Z.pow_pos_nonneg; lia).
  assert (H1 : 2 ^ e * 2 ^ (52 - e) = 2 ^ 52) by (rewrite <- Z.pow_add_r by lia; f_equal; lia).
  assert (H2 : 2 ^ (e + 1) * 2 ^ (52 - e) = 2 ^ 53) by (rewrite <- Z.pow_add_r by lia; f_equal; lia).
  set (p := 2 ^ (52 - e)) in *.
  rewrite Z.mod_1_r, Z.div_1_r. change (2 * 0 <? 1) with true. cbv iota.
  assert (Hlo : 2 ^ 52 <= n * p) by (rewrite <- H1; apply Z.mul_le_mono_nonneg_r; lia).
  assert (Hhi : n * p < 2 ^ 53) by (rewrite <- H2; apply Z.mul_lt_mono_pos_r; lia).
  replace (n * p =? 2 ^ 53) with false by (symmetry; apply Z.eqb_neq; lia).
  cbv iota beta.
  replace (n * p <? 2 ^ 52) with false by (symmetry; apply Z.ltb_ge; lia).
  replace (2047 <=? e - 52 + 52 + 1023) with false by (symmetry; apply Z.leb_gt; lia).
  f_equal. f_equal. f_equal. lia.
Qed.

Lemma rpr_exact52 n : 2 ^ 52 <= n < 2 ^ 53 ->
  round_pos_rational n 1 = Some ((52 + 1023) * 2 ^ 52 + (n * 2 ^ (52 - 52) - 2 ^ 52)).
Proof.
  intros Hn.
  assert (Hl : Z.log2 n = 52) by (apply Z.log2_unique; [lia|exact Hn]).
  unfold round_pos_rational. rewrite Hl. change (Z.log2 1) with 0.
  cbv zeta. change (52 - 0) with 52. change (0 <=? 52) with true. cbv iota.
  replace (1 * 2 ^ 52 <=? n) with true by (symmetry; apply Z.leb_le; lia).
  change (Z.max (52 - 52) (-1074)) with 0. change (0 <=? 0) with true. cbv iota beta.
  change (1 * 2 ^ 0) with 1.
  rewrite Z.mod_1_r, Z.div_1_r. change (2 * 0 <? 1) with true. cbv iota.
  replace (n =? 2 ^ 53) with false by (symmetry; apply Z.eqb_neq; lia).
  cbv iota beta.
  replace (n <? 2 ^ 52) with false by (symmetry; apply Z.ltb_ge; lia).
  change (2047 <=? 0 + 52 + 1023) with false. cbv iota.
  f_equal. change (2 ^ (52 - 52)) with 1. lia.
Qed.

Definition enc (n e : Z) : Z := (e + 1023) * 2 ^ 52 + (n * 2 ^ (52 - e) - 2 ^ 52).

Lemma rpr_enc n e : 0 <= e <= 52 -> 2 ^ e <= n < 2 ^ (e + 1) -> round_pos_rational n 1 = Some (enc n e).
Proof.
  intros He Hn. destruct (Z.eq_dec e 52) as [->|Hne].
  - apply rpr_exact52. exact Hn.
  - apply rpr_exact; [lia|exact Hn].
Qed.

Lemma enc_bounds n e : 0 <= e <= 52 -> 2 ^ e <= n < 2 ^ (e + 1) ->
  (e + 1023) * 2 ^ 52 <= enc n e < (e + 1024) * 2 ^ 52.
Proof.
  intros He Hn. unfold enc.
  assert (Hp : 0 < 2 ^ (52 - e)) by (apply Z.pow_pos_nonneg; lia).
  assert (H1 : 2 ^ e * 2 ^ (52 - e) = 2 ^ 52) by (rewrite <- Z.pow_add_r by lia; f_equal; lia).
  assert (H2 : 2 ^ (e + 1) * 2 ^ (52 - e) = 2 ^ 53) by (rewrite <- Z.pow_add_r by lia; f_equal; lia).
  set (p := 2 ^ (52 - e)) in *.
  assert (Hlo : 2 ^ 52 <= n * p) by (rewrite <- H1; apply Z.mul_le_mono_nonneg_r; lia).
  assert (Hhi : n * p < 2 ^ 53) by (rewrite <- H2; apply Z.mul_lt_mono_pos_r; lia).
  change (2 ^ 53) with (2 * 2 ^ 52) in Hhi. lia.
Qed.

Lemma enc_mono x y e1 e2 : 0 <= e1 <= 52 -> 0 <= e2 <= 52 ->
  2 ^ e1 <= x < 2 ^ (e1 + 1) -> 2 ^ e2 <= y < 2 ^ (e2 + 1) -> x < y -> enc x e1 < enc y e2.
Proof.
  intros H1 H2 Hx Hy Hxy.
  destruct (Z.lt_trichotomy e1 e2) as [Hlt|[->|Hgt]].
  - pose proof (enc_bounds x e1 H1 Hx). pose proof (enc_bounds y e2 H2 Hy).
    assert ((e1 + 1024) * 2 ^ 52 <= (e2 + 1023) * 2 ^ 52) by (apply Z.mul_le_mono_nonneg_r; lia).
    lia.
  - unfold enc. assert (Hp : 0 < 2 ^ (52 - e2)) by (apply Z.pow_pos_nonneg; lia).
    assert (x * 2 ^ (52 - e2) < y * 2 ^ (52 - e2)) by (apply Z.mul_lt_mono_pos_r; lia). lia.
  - exfalso. assert (2 ^ (e2 + 1) <= 2 ^ e1) by (apply Z.pow_le_mono_r; lia). lia.
Qed.

Lemma log2_range n : 0 < n -> 2 ^ Z.log2 n <= n < 2 ^ (Z.log2 n + 1).
Proof. intros H. pose proof (Z.log2_spec n H). rewrite <- Z.add_1_r in H0. replace (Z.succ (Z.log2 n)) with (Z.log2 n + 1) in H0 by lia. exact H0. Qed.

Lemma log2_small n : 0 < n < 2 ^ 53 -> 0 <= Z.log2 n <= 52.
Proof.
  intros H. split; [apply Z.log2_nonneg|].
  assert (Z.log2 n < 53); [|lia]. apply Z.log2_lt_pow2; lia.
Qed.

(* float_of_int on 1 .. 2^53 *)
Definition penc (n : Z) : Z := if n =? 2 ^ 53 then 1076 * 2 ^ 52 else enc n (Z.log2 n).

Lemma float_of_int_pos n : 0 < n <= 2 ^ 53 -> float_of_int n = penc n.
Proof.
  intros H. unfold float_of_int, penc.
  replace (n =? 0) with false by (symmetry; apply Z.eqb_neq; lia).
  replace (n <? 0) with false by (symmetry; apply Z.ltb_ge; lia).
  rewrite Z.abs_eq by lia.
  destruct (Z.eqb_spec n (2 ^ 53)) as [->|Hne]; [vm_compute; reflexivity|].
  rewrite (rpr_enc n (Z.log2 n)); [reflexivity|apply log2_small; lia|apply log2_range; lia].
Qed.
Lemma float_of_int_neg n : 0 < n <= 2 ^ 53 -> float_of_int (- n) = two63 + penc n.
Proof.
  intros H. unfold float_of_int, penc.
  replace (- n =? 0) with false by (symmetry; apply Z.eqb_neq; lia).
  replace (- n <? 0) with true by (symmetry; apply Z.ltb_lt; lia).
  rewrite Z.abs_opp, Z.abs_eq by lia.
  destruct (Z.eqb_spec n (2 ^ 53)) as [->|Hne]; [vm_compute; reflexivity|].
  rewrite (rpr_enc n (Z.log2 n)); [reflexivity|apply log2_small; lia|apply log2_range; lia].
Qed.

Lemma penc_bounds n : 0 < n <= 2 ^ 53 -> 1023 * 2 ^ 52 <= penc n <= 1076 * 2 ^ 52.
Proof.
  intros H. unfold penc. destruct (Z.eqb_spec n (2 ^ 53)) as [->|Hne]; [lia|].
  pose proof (log2_small n ltac:(lia)) as Hl.
  pose proof (enc_bounds n (Z.log2 n) Hl (log2_range n ltac:(lia))) as Hb.
  assert ((Z.log2 n + 1024) * 2 ^ 52 <= 1076 * 2 ^ 52) by (apply Z.mul_le_mono_nonneg_r; lia).
  assert (1023 * 2 ^ 52 <= (Z.log2 n + 1023) * 2 ^ 52) by (apply Z.mul_le_mono_nonneg_r; lia).
  lia.
Qed.
Lemma penc_mono x y : 0 < x -> y <= 2 ^ 53 -> x < y -> penc x < penc y.
Proof.
  intros Hx Hy Hxy. unfold penc.
  destruct (Z.eqb_spec x (2 ^ 53)) as [->|Hnx]; [lia|].
  pose proof (log2_small x ltac:(lia)) as Hlx.
  pose proof (enc_bounds x (Z.log2 x) Hlx (log2_range x ltac:(lia))) as Hbx.
  destruct (Z.eqb_spec y (2 ^ 53)) as [->|Hny].
  - assert ((Z.log2 x + 1024) * 2 ^ 52 <= 1076 * 2 ^ 52) by (apply Z.mul_le_mono_nonneg_r; lia). lia.
  - apply enc_mono; try (apply log2_small; lia); try (apply log2_range; lia). exact Hxy.
Qed.

(* the key used by the numeric comparator is strictly increasing on -2^53 .. 2^53 *)
Theorem float_of_int_mono x y : - 2 ^ 53 <= x -> y <= 2 ^ 53 -> x < y ->
  fkey (float_of_int x) < fkey (float_of_int y).
Proof.
  intros Hx Hy Hxy.
  assert (K : forall n, 0 < n <= 2 ^ 53 -> fkey (float_of_int n) = penc n /\ fkey (float_of_int (- n)) = - penc n /\ 0 < penc n).
  { intros n Hn. pose proof (penc_bounds n Hn) as Hb. rewrite float_of_int_pos, float_of_int_neg by assumption.
    unfold fkey. change two63 with (2048 * 2 ^ 52) in *.
    replace (penc n <? 2048 * 2 ^ 52) with true by (symmetry; apply Z.ltb_lt; lia).
    replace (2048 * 2 ^ 52 + penc n <? 2048 * 2 ^ 52) with false by (symmetry; apply Z.ltb_ge; lia).
    repeat split; lia. }
  assert (K0 : fkey (float_of_int 0) = 0) by reflexivity.
  destruct (Z.lt_trichotomy x 0) as [Hx0|[->|Hx0]]; destruct (Z.lt_trichotomy y 0) as [Hy0|[->|Hy0]]; try lia.
  - destruct (K (- x) ltac:(lia)) as (_ & Kx & _). destruct (K (- y) ltac:(lia)) as (_ & Ky & _).
    rewrite Z.opp_involutive in Kx, Ky. rewrite Kx, Ky.
    assert (penc (- y) < penc (- x)) by (apply penc_mono; lia). lia.
  - destruct (K (- x) ltac:(lia)) as (_ & Kx & Px). rewrite Z.opp_involutive in Kx. rewrite Kx, K0. lia.
  - destruct (K (- x) ltac:(lia)) as (_ & Kx & Px). rewrite Z.opp_involutive in Kx.
    destruct (K y ltac:(lia)) as (Ky & _ & Py). rewrite Kx, Ky. lia.
  - destruct (K y ltac:(lia)) as (Ky & _ & Py). rewrite K0, Ky. lia.
  - destruct (K x ltac:(lia)) as (Kx & _). destruct (K y ltac:(lia)) as (Ky & _). rewrite Kx, Ky. apply penc_mono; lia.
Qed.

(* ================================================================== beyond 2^53
   An integer n with 2^e <= |n| < 2^(e+1), e >= 53, is exactly representable as a binary64 iff it is a multiple of
   2^(e-52).  [exact_int] is that predicate (all |n| <= 2^53 included); on it float64(int64) of the model is exact, hence
   strictly monotone. *)
Definition exact_int (n : Z) : bool :=
  let a := Z.abs n in
  (a <=? 2 ^ 53) || ((a <? 2 ^ 64) && (a mod 2 ^ (Z.log2 a - 52) =? 0)).

Definition benc (n e : Z) : Z := (e + 1023) * 2 ^ 52 + (n / 2 ^ (e - 52) - 2 ^ 52).

Lemma big_quot n e : 52 <= e -> 2 ^ e <= n < 2 ^ (e + 1) -> n mod 2 ^ (e - 52) = 0 ->
  n = 2 ^ (e - 52) * (n / 2 ^ (e - 52)) /\ 2 ^ 52 <= n / 2 ^ (e - 52) < 2 ^ 53.
Proof.
  intros He Hn Hm.
  assert (Hp : 0 < 2 ^ (e - 52)) by (apply Z.pow_pos_nonneg; lia).
  assert (H1 : 2 ^ e = 2 ^ (e - 52) * 2 ^ 52) by (rewrite <- Z.pow_add_r by lia; f_equal; lia).
  assert (H2 : 2 ^ (e + 1) = 2 ^ (e - 52) * 2 ^ 53) by (rewrite <- Z.pow_add_r by lia; f_equal; lia).
  assert (Hq : n = 2 ^ (e - 52) * (n / 2 ^ (e - 52))) by (apply Z.div_exact; lia).
  split; [exact Hq|].
  set (p := 2 ^ (e - 52)) in *. set (q := n / p) in *.
  rewrite H1, H2, Hq in Hn. destruct Hn as [Hlo Hhi].
  split; [apply (Z.mul_le_mono_pos_l _ _ p Hp); exact Hlo|apply (Z.mul_lt_mono_pos_l p); [exact Hp|exact Hhi]].
Qed.

Lemma rpr_big n e : 52 <= e <= 63 -> 2 ^ e <= n < 2 ^ (e + 1) -> n mod 2 ^ (e - 52) = 0 ->
  round_pos_rational n 1 = Some (benc n e).
Proof.
  intros He Hn Hm.
  destruct (big_quot n e (proj1 He) Hn Hm) as [Hq Hb].
  assert (Hp : 0 < 2 ^ (e - 52)) by (apply Z.pow_pos_nonneg; lia).
  assert (Hl : Z.log2 n = e) by (apply Z.log2_unique; lia).
  unfold round_pos_rational, benc. rewrite Hl. change (Z.log2 1) with 0. rewrite Z.sub_0_r.
  cbv zeta.
  replace (0 <=? e) with true by (symmetry; apply Z.leb_le; lia).
  replace (1 * 2 ^ e <=? n) with true by (symmetry; apply Z.leb_le; lia).
  replace (Z.max (e - 52) (-1074)) with (e - 52) by lia.
  replace (0 <=? e - 52) with true by (symmetry; apply Z.leb_le; lia).
  cbv iota beta.
  rewrite Z.mul_1_l. rewrite Hm.
  replace (2 * 0 <? 2 ^ (e - 52)) with true by (symmetry; apply Z.ltb_lt; lia).
  cbv iota.
  replace (n / 2 ^ (e - 52) =? 2 ^ 53) with false by (symmetry; apply Z.eqb_neq; lia).
  cbv iota beta.
  replace (n / 2 ^ (e - 52) <? 2 ^ 52) with false by (symmetry; apply Z.ltb_ge; lia).
  replace (2047 <=? e - 52 + 52 + 1023) with false by (symmetry; apply Z.leb_gt; lia).
  f_equal. f_equal. f_equal. lia.
Qed.

Lemma benc_bounds n e : 52 <= e -> 2 ^ e <= n < 2 ^ (e + 1) -> n mod 2 ^ (e - 52) = 0 ->
  (e + 1023) * 2 ^ 52 <= benc n e < (e + 1024) * 2 ^ 52.
Proof.
  intros He Hn Hm. destruct (big_quot n e He Hn Hm) as [_ Hb]. unfold benc.
  change (2 ^ 53) with (2 * 2 ^ 52) in Hb. lia.
Qed.

Lemma benc_mono x y e1 e2 : 52 <= e1 -> 52 <= e2 ->
  2 ^ e1 <= x < 2 ^ (e1 + 1) -> 2 ^ e2 <= y < 2 ^ (e2 + 1) ->
  x mod 2 ^ (e1 - 52) = 0 -> y mod 2 ^ (e2 - 52) = 0 -> x < y -> benc x e1 < benc y e2.
Proof.
  intros H1 H2 Hx Hy Mx My Hxy.
  destruct (Z.lt_trichotomy e1 e2) as [Hlt|[->|Hgt]].
  - pose proof (benc_bounds x e1 H1 Hx Mx). pose proof (benc_bounds y e2 H2 Hy My).
    assert ((e1 + 1024) * 2 ^ 52 <= (e2 + 1023) * 2 ^ 52) by (apply Z.mul_le_mono_nonneg_r; lia).
    lia.
  - destruct (big_quot x e2 H2 Hx Mx) as [Qx _]. destruct (big_quot y e2 H2 Hy My) as [Qy _].
    assert (Hp : 0 < 2 ^ (e2 - 52)) by (apply Z.pow_pos_nonneg; lia).
    unfold benc. set (p := 2 ^ (e2 - 52)) in *.
    assert (x / p < y / p); [|lia].
    apply (Z.mul_lt_mono_pos_l p); [exact Hp|]. rewrite <- Qx, <- Qy. exact Hxy.
  - exfalso. assert (2 ^ (e2 + 1) <= 2 ^ e1) by (apply Z.pow_le_mono_r; lia). lia.
Qed.

(* positive exactly-representable integers below 2^64 *)
Definition exact_pos (n : Z) : Prop := 0 < n /\ (n <= 2 ^ 53 \/ (n < 2 ^ 64 /\ n mod 2 ^ (Z.log2 n - 52) = 0)).
Definition pk (n : Z) : Z := if n <=? 2 ^ 53 then penc n else benc n (Z.log2 n).

Lemma log2_big n : 2 ^ 53 < n < 2 ^ 64 -> 53 <= Z.log2 n <= 63.
Proof.
  intros H. split.
  - apply Z.log2_le_pow2; lia.
  - assert (Z.log2 n < 64); [|lia]. apply Z.log2_lt_pow2; lia.
Qed.

Lemma pk_rpr n : exact_pos n -> round_pos_rational n 1 = Some (pk n) /\ 1023 * 2 ^ 52 <= pk n < 1087 * 2 ^ 52.
Proof.
  intros [Hpos Hn]. unfold pk. destruct (Z.leb_spec n (2 ^ 53)) as [Hle|Hgt].
  - pose proof (penc_bounds n (conj Hpos Hle)) as Hb. split; [|lia].
    assert (F := float_of_int_pos n (conj Hpos Hle)). unfold float_of_int in F.
    replace (n =? 0) with false in F by (symmetry; apply Z.eqb_neq; lia).
    replace (n <? 0) with false in F by (symmetry; apply Z.ltb_ge; lia).
    rewrite Z.abs_eq in F by lia.
    unfold penc in *. destruct (Z.eqb_spec n (2 ^ 53)) as [->|Hne]; [vm_compute; reflexivity|].
    rewrite (rpr_enc n (Z.log2 n)); [reflexivity|apply log2_small; lia|apply log2_range; lia].
  - destruct Hn as [Hn|[Hlt Hm]]; [lia|].
    pose proof (log2_big n (conj Hgt Hlt)) as He. pose proof (log2_range n Hpos) as Hr.
    split; [apply rpr_big; [lia|exact Hr|exact Hm]|].
    pose proof (benc_bounds n (Z.log2 n) ltac:(lia) Hr Hm) as Hb.
    assert (1023 * 2 ^ 52 <= (Z.log2 n + 1023) * 2 ^ 52) by (apply Z.mul_le_mono_nonneg_r; lia).
    assert ((Z.log2 n + 1024) * 2 ^ 52 <= 1087 * 2 ^ 52) by (apply Z.mul_le_mono_nonneg_r; lia).
    lia.
Qed.

Lemma pk_mono x y : exact_pos x -> exact_pos y -> x < y -> pk x < pk y.
Proof.
  intros [Px Hx] [Py Hy] Hxy. unfold pk.
  destruct (Z.leb_spec x (2 ^ 53)) as [Lx|Gx]; destruct (Z.leb_spec y (2 ^ 53)) as [Ly|Gy]; try lia.
  - apply penc_mono; lia.
  - destruct Hy as [Hy|[Hlt My]]; [lia|].
    pose proof (penc_bounds x (conj Px Lx)) as Bx.
    pose proof (log2_big y (conj Gy Hlt)) as He. pose proof (log2_range y Py) as Hr.
    destruct (big_quot y (Z.log2 y) ltac:(lia) Hr My) as [Qy Bq].
    unfold benc.
    destruct (Z.eq_dec (Z.log2 y) 53) as [E|NE].
    + rewrite E in *. change (2 ^ (53 - 52)) with 2 in *.
      assert (2 ^ 52 < y / 2) by lia. lia.
    + assert (1077 * 2 ^ 52 <= (Z.log2 y + 1023) * 2 ^ 52) by (apply Z.mul_le_mono_nonneg_r; lia). lia.
  - destruct Hx as [Hx|[Hltx Mx]]; [lia|]. destruct Hy as [Hy|[Hlty My]]; [lia|].
    pose proof (log2_big x (conj Gx Hltx)). pose proof (log2_big y (conj Gy Hlty)).
    apply benc_mono; try lia; try (apply log2_range; lia).
Qed.

Lemma exact_int_pos n : exact_int n = true -> n <> 0 -> exact_pos (Z.abs n).
Proof.
  unfold exact_int, exact_pos. cbv zeta. intros H Hn. split; [lia|].
  apply orb_true_iff in H. destruct H as [H|H]; [left; apply Z.leb_le; exact H|right].
  apply andb_true_iff in H. destruct H as [H1 H2]. split; [apply Z.ltb_lt; exact H1|apply Z.eqb_eq; exact H2].
Qed.

(* the key used by the numeric comparator is strictly increasing on ALL exactly representable integers *)
Theorem float_of_int_mono_exact x y : exact_int x = true -> exact_int y = true -> x < y ->
  fkey (float_of_int x) < fkey (float_of_int y).
Proof.
  intros Ex Ey Hxy.
  assert (K : forall n, exact_pos n -> fkey (float_of_int n) = pk n /\ fkey (float_of_int (- n)) = - pk n /\ 0 < pk n).
  { intros n Hn. destruct (pk_rpr n Hn) as [Hr Hb]. destruct Hn as [Hpos _].
    unfold float_of_int.
    replace (n =? 0) with false by (symmetry; apply Z.eqb_neq; lia).
    replace (- n =? 0) with false by (symmetry; apply Z.eqb_neq; lia).
    replace (n <? 0) with false by (symmetry; apply Z.ltb_ge; lia).
    replace (- n <? 0) with true by (symmetry; apply Z.ltb_lt; lia).
    rewrite Z.abs_opp, Z.abs_eq by lia. rewrite Hr.
    unfold fkey. change two63 with (2048 * 2 ^ 52) in *. rewrite Z.add_0_l.
    replace (pk n <? 2048 * 2 ^ 52) with true by (symmetry; apply Z.ltb_lt; lia).
    replace (2048 * 2 ^ 52 + pk n <? 2048 * 2 ^ 52) with false by (symmetry; apply Z.ltb_ge; lia).
    repeat split; lia. }
  assert (K0 : fkey (float_of_int 0) = 0) by reflexivity.
  destruct (Z.lt_trichotomy x 0) as [Hx0|[->|Hx0]]; destruct (Z.lt_trichotomy y 0) as [Hy0|[->|Hy0]]; try lia.
  - pose proof (exact_int_pos x Ex ltac:(lia)) as Px. pose proof (exact_int_pos y Ey ltac:(lia)) as Py.
    rewrite Z.abs_neq in Px, Py by lia.
    destruct (K (- x) Px) as (_ & Kx & _). destruct (K (- y) Py) as (_ & Ky & _).
    rewrite Z.opp_involutive in Kx, Ky. rewrite Kx, Ky.
    assert (pk (- y) < pk (- x)) by (apply pk_mono; [exact Py|exact Px|lia]). lia.
  - pose proof (exact_int_pos x Ex ltac:(lia)) as Px. rewrite Z.abs_neq in Px by lia.
    destruct (K (- x) Px) as (_ & Kx & Qx). rewrite Z.opp_involutive in Kx. rewrite Kx, K0. lia.
  - pose proof (exact_int_pos x Ex ltac:(lia)) as Px. pose proof (exact_int_pos y Ey ltac:(lia)) as Py.
    rewrite Z.abs_neq in Px by lia. rewrite Z.abs_eq in Py by lia.
    destruct (K (- x) Px) as (_ & Kx & Qx). rewrite Z.opp_involutive in Kx.
    destruct (K y Py) as (Ky & _ & Qy). rewrite Kx, Ky. lia.
  - pose proof (exact_int_pos y Ey ltac:(lia)) as Py. rewrite Z.abs_eq in Py by lia.
    destruct (K y Py) as (Ky & _ & Qy). rewrite K0, Ky. lia.
  - pose proof (exact_int_pos x Ex ltac:(lia)) as Px. pose proof (exact_int_pos y Ey ltac:(lia)) as Py.
    rewrite Z.abs_eq in Px, Py by lia.
    destruct (K x Px) as (Kx & _). destruct (K y Py) as (Ky & _). rewrite Kx, Ky. apply pk_mono; assumption.
Qed.

(* every |n| <= 2^53 is in the domain; beyond it exactly the multiples of the binade's unit in the last place *)
Lemma exact_int_small n : - 2 ^ 53 <= n <= 2 ^ 53 -> exact_int n = true.
Proof. intros H. unfold exact_int. cbv zeta. apply orb_true_iff. left. apply Z.leb_le. lia. Qed.

Example exact_int_examples :
  exact_int (2 ^ 53 + 2) = true /\ exact_int (2 ^ 53 + 1) = false /\ exact_int (2 ^ 63 - 1) = false
  /\ exact_int (- 2 ^ 63) = true /\ exact_int (2 ^ 63 - 1024) = true /\ exact_int (2 ^ 63 - 512) = false
  /\ exact_int (- (2 ^ 60 + 256)) = true /\ exact_int (2 ^ 60 + 128) = false /\ exact_int 9007199254740993 = false.
Proof. vm_compute. repeat split; reflexivity. Qed.
