(* C09 -- sort-within-records with its options, on records whose values may be nested maps (JSON):
     (no option)   Mlrmap.SortByKey: keys lexically ascending
     -r            Mlrmap.SortByKeyRecursively: every map level (maps inside arrays are not visited)
     -n            natural order of the keys: sort.SliceStable with less = natsort.Compare (NON-strict; at most 20 keys
                   per map: insertion sort)
     -f a,b,c      the named fields first, sorted; the others after them in record order
   (-r with a regular expression is not modelled.)  pkg/transformers/sort_within_records.go, pkg/mlrval/mlrmap_accessors.go *)
From Miller Require Import Base.Record C09.Model.
Open Scope Z_scope.

Inductive jv := JS (s : bytes) | JA (l : list jv) | JM (m : list (bytes * jv)).
Definition jrec := list (bytes * jv).

Definition lex_lt (a b : bytes) : bool := lex_cmp a b <? 0.
Definition key_lt {V} (lt : bytes -> bytes -> bool) (e f : bytes * V) : bool := lt (fst e) (fst f).
(* keys are distinct within a map, so slices.Sort (unstable) has one possible result: that of insertion sort *)
Definition sort_fields {V} (lt : bytes -> bytes -> bool) (m : list (bytes * V)) : list (bytes * V) := isort (key_lt lt) m.

Fixpoint jsort (lt : bytes -> bytes -> bool) (v : jv) : jv :=
  match v with
  | JM m => JM (sort_fields lt (map (fun e => (fst e, jsort lt (snd e))) m))
  | _ => v
  end.
Definition jsort_rec (lt : bytes -> bytes -> bool) (r : jrec) : jrec := sort_fields lt (map (fun e => (fst e, jsort lt (snd e))) r).

Definition swr_model (nat_less : bytes -> bytes -> bool) (recurse natural : bool) (sel : option (list bytes)) (r : jrec) : jrec :=
  let lt := if natural then nat_less else lex_lt in
  match sel with
  | Some names => sort_fields lt (filter (fun e => mem (fst e) names) r) ++ filter (fun e => negb (mem (fst e) names)) r
  | None => if recurse then jsort_rec lt r else sort_fields lt r
  end.

(* ---- equality test for the correspondence *)
Fixpoint jeqb (a b : jv) : bool :=
  match a, b with
  | JS s, JS t => beqb s t
  | JA l, JA l' => (fix go (x y : list jv) : bool := match x, y with [] , [] => true | p :: x', q :: y' => jeqb p q && go x' y' | _, _ => false end) l l'
  | JM m, JM m' => (fix go (x y : list (bytes * jv)) : bool :=
                      match x, y with [], [] => true | p :: x', q :: y' => beqb (fst p) (fst q) && jeqb (snd p) (snd q) && go x' y' | _, _ => false end) m m'
  | _, _ => false
  end.
Definition jrec_eqb (a b : jrec) : bool := jeqb (JM a) (JM b).
Fixpoint jrecs_eqb (a b : list jrec) : bool :=
  match a, b with [], [] => true | x :: a', y :: b' => jrec_eqb x y && jrecs_eqb a' b' | _, _ => false end.

