(* C09 -- proofs: the sort checker is sound for the specification; accepted outputs are permutations of the input;
   the comparators are total preorders. *)
From Miller Require Import Base.Record C06.Model C11.Model C11.Proofs C11.Checkers C11.CheckerProofs C09.Model.
From Coq Require Import Permutation.
Open Scope Z_scope.

(* ================================================================== total preorders given by a three-way comparison *)
Definition total_preorder_on {A} (D : A -> Prop) (c : A -> A -> Z) : Prop :=
  (forall a, D a -> c a a = 0)
  /\ (forall a b, D a -> D b -> c a b = - c b a)
  /\ (forall a b x, D a -> D b -> D x -> c a b <= 0 -> c b x <= 0 -> c a x <= 0).

Lemma total_preorder_total {A} (D : A -> Prop) c a b : total_preorder_on D c -> D a -> D b -> c a b <= 0 \/ c b a <= 0.
Proof. intros (_ & Hs & _) Ha Hb. rewrite (Hs a b Ha Hb). lia. Qed.

Lemma total_preorder_flip {A} (D : A -> Prop) c : total_preorder_on D c -> total_preorder_on D (fun a b => c b a).
Proof.
  intros (Hr & Hs & Ht). split; [auto|]. split; [intros a b Ha Hb; apply Hs; auto|].
  intros a b x Ha Hb Hx H1 H2. apply (Ht x b a); auto.
Qed.
Lemma total_preorder_neg {A} (D : A -> Prop) c : total_preorder_on D c -> total_preorder_on D (fun a b => - c a b).
Proof.
  intros (Hr & Hs & Ht). split; [intros a Ha; rewrite Hr; auto|]. split; [intros a b Ha Hb; rewrite (Hs a b); auto|].
  intros a b x Ha Hb Hx H1 H2. rewrite (Hs a x) by auto. rewrite (Hs a b) in H1 by auto. rewrite (Hs b x) in H2 by auto.
  assert (c x a <= 0); [apply (Ht x b a); auto; lia|lia].
Qed.
Lemma total_preorder_key {A B} (D : B -> Prop) (k : A -> B) c :
  total_preorder_on D c -> total_preorder_on (fun a => D (k a)) (fun a b => c (k a) (k b)).
Proof.
  intros (Hr & Hs & Ht). split; [intros; apply Hr; auto|]. split; [intros; apply Hs; auto|].
  intros a b x Ha Hb Hx. apply Ht; auto.
Qed.
Lemma total_preorder_weaken {A} (D D' : A -> Prop) c : (forall a, D' a -> D a) -> total_preorder_on D c -> total_preorder_on D' c.
Proof. intros Hd (Hr & Hs & Ht). split; [auto|]. split; [auto|]. intros a b x Ha Hb Hx. apply Ht; auto. Qed.

(* ---- integers *)
Lemma cmpZ_refl a : cmpZ a a = 0.
Proof. unfold cmpZ. rewrite Z.ltb_irrefl. reflexivity. Qed.
Lemma cmpZ_sym a b : cmpZ a b = - cmpZ b a.
Proof. unfold cmpZ. destruct (Z.ltb_spec a b), (Z.ltb_spec b a); lia. Qed.
Lemma cmpZ_le a b : cmpZ a b <= 0 <-> a <= b.
Proof. unfold cmpZ. destruct (Z.ltb_spec a b), (Z.ltb_spec b a); lia. Qed.
Lemma cmpZ_preorder : total_preorder_on (fun _ => True) cmpZ.
Proof.
  split; [intros; apply cmpZ_refl|]. split; [intros; apply cmpZ_sym|].
  intros a b x _ _ _. rewrite !cmpZ_le. lia.
Qed.

(* ---- byte strings *)
Lemma lex_refl a : lex_cmp a a = 0.
Proof. induction a as [|x a IH]; cbn; [reflexivity|]. now rewrite N.ltb_irrefl. Qed.
Lemma lex_sym a : forall b, lex_cmp a b = - lex_cmp b a.
Proof.
  induction a as [|x a IH]; intros [|y b]; cbn; try reflexivity.
  destruct (N.ltb_spec (code x) (code y)) as [H1|H1], (N.ltb_spec (code y) (code x)) as [H2|H2]; try lia; auto.
Qed.
Lemma lex_range a : forall b, lex_cmp a b = -1 \/ lex_cmp a b = 0 \/ lex_cmp a b = 1.
Proof.
  induction a as [|x a IH]; intros [|y b]; cbn; auto.
  destruct (N.ltb (code x) (code y)); auto. destruct (N.ltb (code y) (code x)); auto.
Qed.
Lemma code_inj x y : code x = code y -> x = y.
Proof. unfold code. intros H. rewrite <- (ascii_N_embedding x), <- (ascii_N_embedding y). now rewrite H. Qed.
Lemma lex_eq a : forall b, lex_cmp a b = 0 -> a = b.
Proof.
  induction a as [|x a IH]; intros [|y b]; cbn; try discriminate; [reflexivity|].
  destruct (N.ltb_spec (code x) (code y)) as [H1|H1]; [discriminate|]. destruct (N.ltb_spec (code y) (code x)) as [H2|H2]; [discriminate|].
  intros H. f_equal; [apply code_inj; lia|auto].
Qed.
Lemma lex_trans a : forall b x, lex_cmp a b <= 0 -> lex_cmp b x <= 0 -> lex_cmp a x <= 0.
Proof.
  induction a as [|p a IH]; intros [|q b] [|r x]; cbn; try lia.
  destruct (N.ltb_spec (code p) (code q)) as [H1|H1], (N.ltb_spec (code q) (code p)) as [H2|H2],
           (N.ltb_spec (code q) (code r)) as [H3|H3], (N.ltb_spec (code r) (code q)) as [H4|H4],
           (N.ltb_spec (code p) (code r)) as [H5|H5], (N.ltb_spec (code r) (code p)) as [H6|H6]; try lia.
  apply IH.
Qed.
Lemma lex_preorder : total_preorder_on (fun _ => True) lex_cmp.
Proof.
  split; [intros; apply lex_refl|]. split; [intros; apply lex_sym|].
  intros a b x _ _ _. apply lex_trans.
Qed.

Section Cmp.
  Variable infer : bytes -> ival.
  Variable nat_less : bytes -> bytes -> bool.

  (* lexical and case-folded comparators: total preorders on ALL byte strings *)
  Lemma lexical_total_preorder :
    total_preorder_on (fun _ => True) (flag_cmp infer nat_less Ff) /\ total_preorder_on (fun _ => True) (flag_cmp infer nat_less Fr).
  Proof. split; [exact lex_preorder|exact (total_preorder_flip _ _ lex_preorder)]. Qed.

  Lemma casefold_total_preorder :
    total_preorder_on (fun _ => True) (flag_cmp infer nat_less Fc) /\ total_preorder_on (fun _ => True) (flag_cmp infer nat_less Fcr).
  Proof.
    assert (H : total_preorder_on (fun _ : bytes => True) case_cmp)
      by exact (total_preorder_key (fun _ => True) fold_text lex_cmp lex_preorder).
    split; [exact H|exact (total_preorder_flip _ _ H)].
  Qed.

  (* numeric comparator.  [exact] is any set of integers on which conversion to binary64 is strictly monotone
     (it is for |n| <= 2^53, where the conversion is exact; it is NOT for all int64: 2^53 and 2^53+1 collide). *)
  Variable exact : Z -> Prop.
  Hypothesis exact_mono : forall x y, exact x -> exact y -> x < y -> fkey (float_of_int x) < fkey (float_of_int y).

  Definition num_dom (a : bytes) : Prop := match infer a with VInt x => exact x | _ => True end.

  Inductive nv := NNum (k : Z) | NOther (s : bytes).
  Definition nview (a : bytes) : nv :=
    match infer a with VInt x => NNum (fkey (float_of_int x)) | VFloat f => NNum (fkey f) | _ => NOther a end.
  Definition nv_cmp (u v : nv) : Z :=
    match u, v with
    | NNum x, NNum y => cmpZ x y
    | NNum _, NOther _ => -1
    | NOther _, NNum _ => 1
    | NOther s, NOther t => lex_cmp s t
    end.

  Lemma cmpZ_mono x y : exact x -> exact y -> cmpZ x y = cmpZ (fkey (float_of_int x)) (fkey (float_of_int y)).
  Proof.
    intros Hx Hy. unfold cmpZ.
    destruct (Z.ltb_spec x y) as [H|H].
    - pose proof (exact_mono x y Hx Hy H). destruct (Z.ltb_spec (fkey (float_of_int x)) (fkey (float_of_int y))); [reflexivity|lia].
    - destruct (Z.ltb_spec y x) as [H'|H'].
      + pose proof (exact_mono y x Hy Hx H'). destruct (Z.ltb_spec (fkey (float_of_int x)) (fkey (float_of_int y))); [lia|].
        destruct (Z.ltb_spec (fkey (float_of_int y)) (fkey (float_of_int x))); [reflexivity|lia].
      + assert (x = y) by lia. subst. now rewrite !Z.ltb_irrefl.
  Qed.

  Lemma num_cmp_view a b : num_dom a -> num_dom b -> num_cmp infer a b = nv_cmp (nview a) (nview b).
  Proof.
    unfold num_dom, num_cmp, nview. destruct (infer a), (infer b); cbn; intros Ha Hb; try reflexivity.
    now apply cmpZ_mono.
  Qed.

  Lemma nv_cmp_preorder : total_preorder_on (fun _ => True) nv_cmp.
  Proof.
    split; [|split].
    - intros [k|s] _; cbn; [apply cmpZ_refl|apply lex_refl].
    - intros [k|s] [k'|s'] _ _; cbn; try reflexivity; [apply cmpZ_sym|apply lex_sym].
    - intros [k|s] [k'|s'] [k2|s2] _ _ _; cbn; try lia; [rewrite !cmpZ_le; lia|apply lex_trans].
  Qed.

  Lemma numeric_total_preorder :
    total_preorder_on num_dom (flag_cmp infer nat_less Fnf) /\ total_preorder_on num_dom (flag_cmp infer nat_less Fnr).
  Proof.
    assert (H : total_preorder_on num_dom (num_cmp infer)).
    { destruct nv_cmp_preorder as (Hr & Hs & Ht). split; [|split].
      - intros a Ha. rewrite num_cmp_view by assumption. apply Hr. exact I.
      - intros a b Ha Hb. rewrite !num_cmp_view by assumption. apply Hs; exact I.
      - intros a b x Ha Hb Hx. rewrite !num_cmp_view by assumption. apply Ht; exact I. }
    split; [exact H|exact (total_preorder_neg _ _ H)].
  Qed.

  (* collation: numbers (by value) before empties and strings; reversed by -nr *)
  Lemma numeric_collation a b :
    (exists n, infer a = VInt n) \/ (exists f, infer a = VFloat f) ->
    infer b = VEmpty \/ infer b = VString ->
    flag_cmp infer nat_less Fnf a b = -1 /\ flag_cmp infer nat_less Fnr a b = 1
    /\ flag_cmp infer nat_less Fnf b a = 1 /\ flag_cmp infer nat_less Fnr b a = -1.
  Proof.
    intros [[n Ha]|[f Ha]] [Hb|Hb]; cbn [flag_cmp]; unfold num_cmp; rewrite Ha, Hb; repeat split; reflexivity.
  Qed.
  Lemma numeric_void_before_string a b : infer a = VEmpty -> a = [] -> infer b = VString -> b <> [] ->
    flag_cmp infer nat_less Fnf a b = -1.
  Proof. intros Ha -> Hb Hne. cbn [flag_cmp]. unfold num_cmp. rewrite Ha, Hb. destruct b; [congruence|reflexivity]. Qed.

  (* descending flags are the ascending comparators with the arguments exchanged (the natural pair included) *)
  Lemma descending_is_flipped a b :
    flag_cmp infer nat_less Fr a b = flag_cmp infer nat_less Ff b a
    /\ flag_cmp infer nat_less Fcr a b = flag_cmp infer nat_less Fc b a
    /\ (num_dom a -> num_dom b -> flag_cmp infer nat_less Fnr a b = flag_cmp infer nat_less Fnf b a)
    /\ flag_cmp infer nat_less Ftr a b = flag_cmp infer nat_less Ft b a.
  Proof.
    repeat split; try reflexivity. intros Ha Hb. cbn [flag_cmp].
    destruct numeric_total_preorder as [(_ & Hs & _) _]. cbn [flag_cmp] in Hs. rewrite (Hs b a Hb Ha). lia.
  Qed.

  (* the sort.Slice callback over several keys: a total preorder on value tuples whenever each key's comparator is one *)
  Lemma chain_preorder (D : bytes -> Prop) fl :
    (forall f, In f fl -> total_preorder_on D (flag_cmp infer nat_less f)) ->
    total_preorder_on (fun l => List.length l = List.length fl /\ Forall D l) (chain_cmp infer nat_less fl).
  Proof.
    induction fl as [|f fl IH]; intros Hf.
    - split; [|split]; intros; destruct a; reflexivity || (cbn; lia).
    - assert (Hc : total_preorder_on D (flag_cmp infer nat_less f)) by (apply Hf; cbn; auto).
      specialize (IH (fun g Hg => Hf g (or_intror Hg))).
      destruct Hc as (Cr & Cs & Ct). destruct IH as (Ir & Is & It).
      split; [|split].
      + intros [|x a] [Hl Hd]; [discriminate|]. inversion Hd as [|? ? Hx Ha]; subst. cbn [chain_cmp]. cbn zeta.
        rewrite (Cr x Hx). cbn. apply Ir. cbn in Hl. split; [lia|assumption].
      + intros [|x a] [|y b] [Hl1 Hd1] [Hl2 Hd2]; try discriminate.
        inversion Hd1 as [|? ? Hx Ha]; subst. inversion Hd2 as [|? ? Hy Hb]; subst. cbn [chain_cmp]. cbn zeta.
        rewrite (Cs x y Hx Hy). cbn in Hl1, Hl2.
        destruct (Z.ltb_spec (- flag_cmp infer nat_less f y x) 0), (Z.ltb_spec 0 (- flag_cmp infer nat_less f y x)),
                 (Z.ltb_spec (flag_cmp infer nat_less f y x) 0), (Z.ltb_spec 0 (flag_cmp infer nat_less f y x)); try lia.
        apply Is; split; auto; lia.
      + intros [|x a] [|y b] [|z c] [Hl1 Hd1] [Hl2 Hd2] [Hl3 Hd3]; try discriminate.
        inversion Hd1 as [|? ? Hx Ha]; subst. inversion Hd2 as [|? ? Hy Hb]; subst. inversion Hd3 as [|? ? Hz Hc]; subst.
        cbn [chain_cmp]. cbn zeta. cbn in Hl1, Hl2, Hl3.
        pose proof (Cs x y Hx Hy) as Sxy. pose proof (Cs y z Hy Hz) as Syz. pose proof (Cs x z Hx Hz) as Sxz.
        pose proof (Ct x y z Hx Hy Hz) as Txyz. pose proof (Ct z y x Hz Hy Hx) as Tzyx.
        pose proof (Ct y z x Hy Hz Hx) as Tyzx. pose proof (Ct z x y Hz Hx Hy) as Tzxy.
        pose proof (Cs z y Hz Hy) as Szy. pose proof (Cs y x Hy Hx) as Syx. pose proof (Cs z x Hz Hx) as Szx.
        destruct (Z.ltb_spec (flag_cmp infer nat_less f x y) 0), (Z.ltb_spec 0 (flag_cmp infer nat_less f x y)),
                 (Z.ltb_spec (flag_cmp infer nat_less f y z) 0), (Z.ltb_spec 0 (flag_cmp infer nat_less f y z)),
                 (Z.ltb_spec (flag_cmp infer nat_less f x z) 0), (Z.ltb_spec 0 (flag_cmp infer nat_less f x z)); try lia.
        apply It; split; auto; lia.
  Qed.

  Lemma std_flag_preorder f : In f [Ff; Fr; Fc; Fcr; Fnf; Fnr] -> total_preorder_on num_dom (flag_cmp infer nat_less f).
  Proof.
    intros Hin. cbn in Hin.
    destruct Hin as [<-|[<-|[<-|[<-|[<-|[<-|[]]]]]]].
    - apply (total_preorder_weaken (fun _ => True)); [auto|apply lexical_total_preorder].
    - apply (total_preorder_weaken (fun _ => True)); [auto|apply lexical_total_preorder].
    - apply (total_preorder_weaken (fun _ => True)); [auto|apply casefold_total_preorder].
    - apply (total_preorder_weaken (fun _ => True)); [auto|apply casefold_total_preorder].
    - apply numeric_total_preorder.
    - apply numeric_total_preorder.
  Qed.
  Lemma std_chain_preorder fl : (forall f, In f fl -> In f [Ff; Fr; Fc; Fcr; Fnf; Fnr]) ->
    total_preorder_on (fun l => List.length l = List.length fl /\ Forall num_dom l) (chain_cmp infer nat_less fl).
  Proof. intros H. apply chain_preorder. intros f Hf. apply std_flag_preorder. auto. Qed.

  (* ================================================================ the sort checker *)
  Lemma ordered_by_spec {A} (lt : A -> A -> bool) l :
    ordered_by lt l = true <-> ForallOrdPairs (fun x y => lt y x = false) l.
  Proof.
    induction l as [|x t IH]; cbn [ordered_by].
    - split; [constructor|reflexivity].
    - rewrite andb_true_iff, forallb_forall, IH. split.
      + intros [H1 H2]. constructor; [|assumption]. apply Forall_forall. intros y Hy. specialize (H1 y Hy).
        now rewrite negb_true_iff in H1.
      + intros H. inversion H as [|? ? H1 H2]; subst. split; [|assumption].
        intros y Hy. rewrite Forall_forall in H1. rewrite negb_true_iff. auto.
  Qed.

  Lemma filter_partition_perm {A} (f : A -> bool) l : Permutation (filter f l ++ filter (fun x => negb (f x)) l) l.
  Proof.
    induction l as [|x t IH]; cbn; [constructor|].
    destruct (f x); cbn; [now constructor|]. symmetry. apply Permutation_cons_app. now symmetry.
  Qed.

  (* every accepted arrangement is a permutation of the input: nothing lost, duplicated or altered *)
  Lemma sort_output_perm ks inp gs :
    Permutation gs (dkeys (sort_keyf ks) inp) -> Permutation (sort_output ks inp gs) inp.
  Proof.
    intros Hp. unfold sort_output, spill.
    rewrite (Permutation_flat_map (fun g => group_of (sort_keyf ks) g inp) Hp).
    rewrite groups_permutation. apply filter_partition_perm.
  Qed.

  Lemma group_of_group_of keyf g h l :
    group_of keyf g (group_of keyf h l) = if beqb h g then group_of keyf g l else [].
  Proof.
    destruct (beqb_spec h g) as [->|Hne].
    - unfold group_of. apply filter_filter_imp. auto.
    - apply (group_of_none keyf g h); [assumption|]. intros r Hr. eapply group_of_key; eauto.
  Qed.
  Lemma group_of_flat_groups keyf g inp gs : NoDup gs ->
    group_of keyf g (flat_map (fun h => group_of keyf h inp) gs) = if mem g gs then group_of keyf g inp else [].
  Proof.
    induction 1 as [|h gs Hni Hnd IH]; [reflexivity|].
    cbn [flat_map]. rewrite group_of_app, group_of_group_of, IH. cbn [mem existsb]. fold (mem g gs).
    rewrite (beqb_sym g h). destruct (beqb_spec h g) as [->|Hne]; cbn [orb].
    - destruct (mem g gs) eqn:Em; [apply mem_In in Em; tauto|apply app_nil_r].
    - reflexivity.
  Qed.

  Definition sort_spec (ks : list (bytes * sflag)) (inp out : list record) : Prop :=
    exists gs,
      Permutation gs (dkeys (sort_keyf ks) inp)           (* every group exactly once *)
      /\ out = sort_output ks inp gs                        (* groups contiguous, each in input order; key-less records last, in input order *)
      /\ ForallOrdPairs (fun g h => less infer nat_less (map snd ks) (head_vals ks inp h) (head_vals ks inp g) = false) gs
      (* stable: groups whose heads compare equal under the flag chain are in first-appearance order *)
      /\ ForallOrdPairs (fun g h => chain_cmp infer nat_less (map snd ks) (head_vals ks inp g) (head_vals ks inp h) = 0 ->
                                    (index_of g (dkeys (sort_keyf ks) inp) < index_of h (dkeys (sort_keyf ks) inp))%nat) gs.

  Lemma stable_by_spec eqv pos l :
    stable_by eqv pos l = true <-> ForallOrdPairs (fun x y => eqv x y = true -> (pos x < pos y)%nat) l.
  Proof.
    induction l as [|x t IH]; cbn [stable_by].
    - split; [constructor|reflexivity].
    - rewrite andb_true_iff, forallb_forall, IH. split.
      + intros [H1 H2]. constructor; [|assumption]. apply Forall_forall. intros y Hy He. specialize (H1 y Hy).
        rewrite He in H1. cbn in H1. now apply Nat.ltb_lt.
      + intros H. inversion H as [|? ? H1 H2]; subst. split; [|assumption].
        intros y Hy. rewrite Forall_forall in H1. destruct (eqv x y) eqn:E; [|reflexivity]. cbn. apply Nat.ltb_lt. auto.
  Qed.
  Lemma FOP_impl {A} (P Q : A -> A -> Prop) l : (forall x y, P x y -> Q x y) -> ForallOrdPairs P l -> ForallOrdPairs Q l.
  Proof.
    intros H. induction 1 as [|x t Hx Ht IH]; constructor; [|assumption].
    eapply Forall_impl; [|exact Hx]. auto.
  Qed.

  Lemma check_sort_sound ks inp out : check_sort infer nat_less ks inp out = true -> sort_spec ks inp out.
  Proof.
    unfold check_sort. cbn zeta. rewrite !andb_true_iff. intros [[[[H1 H2] H3] H4] H5].
    exists (dkeys (sort_keyf ks) out). split; [|split; [|split]].
    - symmetry. apply NoDup_Permutation_bis.
      + apply dkeys_NoDup.
      + apply Nat.eqb_eq in H2. lia.
      + intros g Hg. rewrite forallb_forall in H3. apply mem_In. auto.
    - destruct (records_eqb_spec out (sort_output ks inp (dkeys (sort_keyf ks) out))); congruence.
    - now apply ordered_by_spec.
    - unfold check_stable in H5. cbn zeta in H5. apply stable_by_spec in H5.
      eapply FOP_impl; [|exact H5]. cbn beta. intros x y H E. apply H. now apply Z.eqb_eq.
  Qed.

  (* completeness: every output allowed by the specification is accepted by the checker *)
  Lemma dkeys_same_key_prefix keyf g xs rest : xs <> [] -> (forall r, In r xs -> keyf r = Some g) ->
    dkeys keyf (xs ++ rest) = g :: filter (fun x => negb (beqb x g)) (dkeys keyf rest).
  Proof.
    induction xs as [|r t IH]; [congruence|]. intros _ Hk. cbn [app dkeys]. rewrite (Hk r (or_introl eq_refl)).
    destruct t as [|r' t'].
    - reflexivity.
    - rewrite IH by (congruence || (intros x Hx; apply Hk; cbn; auto)). cbn [filter]. rewrite beqb_refl. cbn [negb].
      f_equal. apply filter_filter_imp. auto.
  Qed.
  Lemma dkeys_keyless keyf l : (forall r, In r l -> keyf r = None) -> dkeys keyf l = [].
  Proof.
    induction l as [|r t IH]; intros H; [reflexivity|]. cbn [dkeys]. rewrite (H r (or_introl eq_refl)). apply IH.
    intros x Hx. apply H. cbn. auto.
  Qed.
  Lemma dkeys_flat_groups keyf inp gs tail : NoDup gs -> (forall g, In g gs -> In g (dkeys keyf inp)) ->
    (forall r, In r tail -> keyf r = None) ->
    dkeys keyf (flat_map (fun g => group_of keyf g inp) gs ++ tail) = gs.
  Proof.
    induction 1 as [|g gs Hni Hnd IH]; intros Hin Ht.
    - cbn. now apply dkeys_keyless.
    - cbn [flat_map]. rewrite <- app_assoc. rewrite (dkeys_same_key_prefix keyf g).
      + rewrite IH by (auto; intros x Hx; apply Hin; cbn; auto). f_equal. apply filter_true.
        intros x Hx. rewrite negb_true_iff. apply beqb_false_iff. congruence.
      + destruct (dkeys_sound keyf g inp (Hin g (or_introl eq_refl))) as (r & Hr & Hk).
        intros E. assert (Hg : In r (group_of keyf g inp)).
        { unfold group_of. apply filter_In. split; [assumption|]. rewrite Hk. cbn. apply beqb_refl. }
        rewrite E in Hg. destruct Hg.
      + intros r Hr. eapply group_of_key; eauto.
  Qed.

  Lemma check_sort_complete ks inp out : sort_spec ks inp out -> check_sort infer nat_less ks inp out = true.
  Proof.
    intros (gs & Hp & -> & Ho & Hs). unfold check_sort. cbn zeta.
    assert (Hnd : NoDup gs) by (eapply Permutation_NoDup; [symmetry; exact Hp|apply dkeys_NoDup]).
    assert (Hd : dkeys (sort_keyf ks) (sort_output ks inp gs) = gs).
    { unfold sort_output. apply dkeys_flat_groups; [assumption| |].
      - intros g Hg. eapply Permutation_in; eauto.
      - intros r Hr. unfold spill in Hr. apply filter_In in Hr. destruct Hr as [_ Hr]. unfold has_key in Hr.
        destruct (sort_keyf ks r); [discriminate|reflexivity]. }
    rewrite Hd. rewrite !andb_true_iff. repeat split.
    - destruct (records_eqb_spec (sort_output ks inp gs) (sort_output ks inp gs)); congruence.
    - apply Nat.eqb_eq. now apply Permutation_length.
    - apply forallb_forall. intros g Hg. apply mem_In. eapply Permutation_in; [symmetry; exact Hp|exact Hg].
    - now apply ordered_by_spec.
    - unfold check_stable. cbn zeta. rewrite Hd. apply stable_by_spec.
      eapply FOP_impl; [|exact Hs]. cbn beta. intros x y H E. apply H. now apply Z.eqb_eq.
  Qed.

  (* the weaker specification for callbacks that are not strict weak orders (natural-order keys) *)
  Lemma adjacent_by_spec {A} (lt : A -> A -> bool) l :
    adjacent_by lt l = true <-> (forall pre x y post, l = pre ++ x :: y :: post -> lt y x = false).
  Proof.
    induction l as [|a t IH].
    - split; [intros _ pre x y post E; destruct pre; discriminate|reflexivity].
    - cbn [adjacent_by]. rewrite andb_true_iff, IH. split.
      + intros [H1 H2] pre x y post E. destruct pre as [|p pre]; cbn [app] in E.
        * injection E as E1 E2. subst a t. now apply negb_true_iff.
        * injection E as E1 E2. subst p. eapply H2; eauto.
      + intros H. split.
        * destruct t as [|y t']; [reflexivity|]. apply negb_true_iff. apply (H [] a y t'). reflexivity.
        * intros pre x y post E. apply (H (a :: pre) x y post). cbn [app]. now rewrite E.
  Qed.
  Definition sort_spec_adj (ks : list (bytes * sflag)) (inp out : list record) : Prop :=
    exists gs,
      Permutation gs (dkeys (sort_keyf ks) inp)
      /\ out = sort_output ks inp gs
      /\ (forall pre g h post, gs = pre ++ g :: h :: post ->
           less infer nat_less (map snd ks) (head_vals ks inp h) (head_vals ks inp g) = false).
  Lemma check_sort_adj_sound ks inp out : check_sort_adj infer nat_less ks inp out = true -> sort_spec_adj ks inp out.
  Proof.
    unfold check_sort_adj. cbn zeta. rewrite !andb_true_iff. intros [[[H1 H2] H3] H4].
    exists (dkeys (sort_keyf ks) out). split; [|split].
    - symmetry. apply NoDup_Permutation_bis.
      + apply dkeys_NoDup.
      + apply Nat.eqb_eq in H2. lia.
      + intros g Hg. rewrite forallb_forall in H3. apply mem_In. auto.
    - destruct (records_eqb_spec out (sort_output ks inp (dkeys (sort_keyf ks) out))); congruence.
    - now apply adjacent_by_spec.
  Qed.
  Lemma sort_spec_adj_permutation ks inp out : sort_spec_adj ks inp out -> Permutation out inp.
  Proof. intros (gs & Hp & -> & _). now apply sort_output_perm. Qed.
  (* a strict-weak-order callback: the full specification implies the weak one *)
  Lemma FOP_adjacent {A} (P : A -> A -> Prop) l : ForallOrdPairs P l -> forall pre x y post, l = pre ++ x :: y :: post -> P x y.
  Proof.
    induction 1 as [|a t Ha Ht IH]; intros pre x y post E.
    - destruct pre; discriminate.
    - destruct pre as [|p pre]; cbn [app] in E; injection E as E1 E2; subst.
      + rewrite Forall_forall in Ha. apply Ha. cbn. auto.
      + eapply IH; reflexivity.
  Qed.
  Lemma sort_spec_implies_adj ks inp out : sort_spec ks inp out -> sort_spec_adj ks inp out.
  Proof.
    intros (gs & Hp & Ho & Hord & _). exists gs. split; [exact Hp|split; [exact Ho|]].
    intros pre g h post E. exact (FOP_adjacent _ gs Hord pre g h post E).
  Qed.

  Lemma sort_spec_permutation ks inp out : sort_spec ks inp out -> Permutation out inp.
  Proof. intros (gs & Hp & -> & _). now apply sort_output_perm. Qed.

  (* the stability clause in terms of the output: if the heads of two groups compare equal under the whole flag chain,
     the group seen first in the input is emitted first *)
  Lemma sort_spec_stable ks inp out : sort_spec ks inp out ->
    exists gs, out = sort_output ks inp gs
      /\ ForallOrdPairs (fun g h => chain_cmp infer nat_less (map snd ks) (head_vals ks inp g) (head_vals ks inp h) = 0 ->
                                    (index_of g (dkeys (sort_keyf ks) inp) < index_of h (dkeys (sort_keyf ks) inp))%nat) gs.
  Proof. intros (gs & _ & Ho & _ & Hs). exists gs. auto. Qed.

  (* records with the same key text stay together and keep their input order; key-less records come last *)
  Lemma sort_spec_groups ks inp out : sort_spec ks inp out ->
    forall g, group_of (sort_keyf ks) g out = group_of (sort_keyf ks) g inp.
  Proof.
    intros (gs & Hp & -> & _) g. unfold sort_output. rewrite group_of_app.
    assert (Hs : group_of (sort_keyf ks) g (spill ks inp) = []).
    { apply filter_false. intros r Hr. unfold spill in Hr. apply filter_In in Hr. destruct Hr as [_ Hr].
      unfold has_key in Hr. destruct (sort_keyf ks r); [discriminate|reflexivity]. }
    rewrite Hs, app_nil_r.
    assert (Hnd : NoDup gs) by (eapply Permutation_NoDup; [symmetry; exact Hp|apply dkeys_NoDup]).
    rewrite group_of_flat_groups by assumption.
    destruct (mem g gs) eqn:Em; [reflexivity|]. symmetry. apply dkeys_complete.
    intros Hd. apply (Permutation_in _ (Permutation_sym Hp)) in Hd. apply mem_In in Hd. congruence.
  Qed.

  Definition top_group_spec (domax : bool) (k : Z) (x : bytes) (G O : list record) : Prop :=
    exists rest, Permutation G (O ++ rest)
      /\ Z.of_nat (List.length O) = Z.min k (Z.of_nat (List.length G))
      /\ ForallOrdPairs (fun r s => top_cmp infer domax x s r <= 0) O
      /\ (forall r o, In r rest -> In o O -> top_cmp infer domax x r o <= 0).

  Lemma check_top_group_sound domax k x G O : check_top_group infer domax k x G O = true -> top_group_spec domax k x G O.
  Proof.
    unfold check_top_group. destruct (msub O G) as [rest|] eqn:E; [|discriminate].
    rewrite !andb_true_iff. intros [[H1 H2] H3]. exists rest. split; [now apply C11.CheckerProofs.msub_sound|].
    split; [now apply Z.eqb_eq|]. split.
    - apply ordered_by_spec in H2. eapply FOP_impl; [|exact H2]. cbn beta. intros r s H. apply Z.ltb_ge. exact H.
    - intros r o Hr Ho. rewrite forallb_forall in H3. specialize (H3 r Hr). rewrite forallb_forall in H3.
      specialize (H3 o Ho). rewrite negb_true_iff in H3. now apply Z.ltb_ge.
  Qed.

  (* what acceptance of a `top -a` output means *)
  Lemma check_top_sound domax k x fs inp out : check_top infer domax k x fs inp out = true ->
    let keyf := top_keyf x fs in
    out = flat_map (fun g => group_of keyf g out) (dkeys keyf inp)
    /\ (forall r, In r out -> has_key keyf r = true)
    /\ (forall g, In g (dkeys keyf inp) -> top_group_spec domax k x (group_of keyf g inp) (group_of keyf g out)).
  Proof.
    unfold check_top. cbn zeta. rewrite !andb_true_iff. intros [[H1 H2] H3]. split; [|split].
    - destruct (records_eqb_spec out (flat_map (fun g => group_of (top_keyf x fs) g out) (dkeys (top_keyf x fs) inp))); congruence.
    - now apply forallb_forall.
    - intros g Hg. rewrite forallb_forall in H3. apply check_top_group_sound. auto.
  Qed.

  Lemma check_array_sort_spec name f inp out :
    check_array_sort infer nat_less name f inp out = true
    <-> Permutation inp out
        /\ ForallOrdPairs (fun r s => (flag_cmp infer nat_less f (field_val name s) (field_val name r) <? 0) = false) out.
  Proof.
    unfold check_array_sort. rewrite andb_true_iff, C11.CheckerProofs.perm_b_spec, ordered_by_spec. reflexivity.
  Qed.
End Cmp.

(* ------------------------------------------------------------------ witnesses / sort-within-records *)
From Miller Require Import C06.Harness C09.Harness.

Lemma num_not_transitive_witness :
  flag_cmp dinfer natsort_less Fnf (B "9007199254740992") (B "9007199254740992.0") = 0
  /\ flag_cmp dinfer natsort_less Fnf (B "9007199254740992.0") (B "9007199254740993") = 0
  /\ flag_cmp dinfer natsort_less Fnf (B "9007199254740992") (B "9007199254740993") <> 0.
Proof. vm_compute. repeat split; try reflexivity. discriminate. Qed.

Lemma nat_cycle_witness :
  flag_cmp dinfer natsort_less Ft (B "9") (B "10") < 0 /\ flag_cmp dinfer natsort_less Ft (B "10") (B "100000000000000000000") < 0
  /\ flag_cmp dinfer natsort_less Ft (B "100000000000000000000") (B "9") < 0.
Proof. vm_compute. repeat split; reflexivity. Qed.
Inductive keys_ascending : record -> Prop :=
| ka_nil : keys_ascending []
| ka_one f : keys_ascending [f]
| ka_cons f g t : lex_cmp (fst f) (fst g) <= 0 -> keys_ascending (g :: t) -> keys_ascending (f :: g :: t).

Lemma insert_field_perm f r : Permutation (insert_field f r) (f :: r).
Proof.
  induction r as [|g t IH]; cbn [insert_field]; [reflexivity|].
  destruct (lex_cmp (fst f) (fst g) <=? 0); [reflexivity|].
  etransitivity; [apply perm_skip, IH|apply perm_swap].
Qed.
Lemma sort_within_record_perm r : Permutation (sort_within_record r) r.
Proof.
  induction r as [|f t IH]; [reflexivity|]. cbn. etransitivity; [apply insert_field_perm|]. now apply perm_skip.
Qed.
Lemma insert_field_sorted f r : keys_ascending r -> keys_ascending (insert_field f r).
Proof.
  induction 1 as [|g|g h t Hgh Hs IH]; cbn [insert_field].
  - constructor.
  - destruct (Z.leb_spec (lex_cmp (fst f) (fst g)) 0) as [H|H]; constructor; try constructor; auto.
    rewrite lex_sym. lia.
  - destruct (Z.leb_spec (lex_cmp (fst f) (fst g)) 0) as [H|H].
    + constructor; [assumption|]. constructor; assumption.
    + cbn [insert_field] in IH. destruct (Z.leb_spec (lex_cmp (fst f) (fst h)) 0) as [H2|H2].
      * constructor; [rewrite lex_sym; lia|]. exact IH.
      * constructor; [assumption|]. exact IH.
Qed.
Lemma sort_within_record_sorted r : keys_ascending (sort_within_record r).
Proof. induction r as [|f t IH]; [constructor|]. cbn. now apply insert_field_sorted. Qed.
