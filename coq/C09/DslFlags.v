(* C09 -- decodeSortFlags (pkg/dsl/cst/hofs.go): the flag string of the DSL functions sort(collection, "flags").
   Every character is looked at in turn: n / f / c / t select the sort type (the LAST one wins; default numerical),
   r sets reverse, v sets by-map-value; any other character is ignored. *)
From Miller Require Import Base.Record C09.Model.
Open Scope Z_scope.

Inductive stype := TLex | TCase | TNum | TNat.
Fixpoint decode_from (s : bytes) (st : stype) (rev byv : bool) : stype * bool * bool :=
  match s with
  | [] => (st, rev, byv)
  | c :: t =>
    if Ascii.eqb c "n" then decode_from t TNum rev byv
    else if Ascii.eqb c "f" then decode_from t TLex rev byv
    else if Ascii.eqb c "c" then decode_from t TCase rev byv
    else if Ascii.eqb c "t" then decode_from t TNat rev byv
    else if Ascii.eqb c "r" then decode_from t st true byv
    else if Ascii.eqb c "v" then decode_from t st rev true
    else decode_from t st rev byv
  end.
Definition decode_sort_flags (s : bytes) : stype * bool * bool := decode_from s TNum false false.
(* the comparator of sortA / sortM the decoded flags select (C09.Model.flag_cmp) *)
Definition dsl_flag (st : stype) (rev : bool) : sflag :=
  match st, rev with
  | TLex, false => Ff | TLex, true => Fr
  | TCase, false => Dc | TCase, true => Dcr
  | TNum, false => Fnf | TNum, true => Fnr
  | TNat, false => Dt | TNat, true => Dtr
  end.
Definition dsl_flag_of (s : bytes) : sflag * bool := let '(st, rev, byv) := decode_sort_flags s in (dsl_flag st rev, byv).

Definition is_type_char (c : ascii) : bool := Ascii.eqb c "n" || Ascii.eqb c "f" || Ascii.eqb c "c" || Ascii.eqb c "t".
Definition type_of_char (c : ascii) : stype :=
  if Ascii.eqb c "n" then TNum else if Ascii.eqb c "f" then TLex else if Ascii.eqb c "c" then TCase else TNat.

Ltac split_char c :=
  destruct (Ascii.eqb c "n") eqn:?; [|destruct (Ascii.eqb c "f") eqn:?; [|destruct (Ascii.eqb c "c") eqn:?; [|destruct (Ascii.eqb c "t") eqn:?;
    [|destruct (Ascii.eqb c "r") eqn:?; [|destruct (Ascii.eqb c "v") eqn:?]]]]].

(* decoding is a left-to-right scan *)
Lemma decode_from_app s1 : forall s2 st rev byv,
  decode_from (s1 ++ s2) st rev byv = let '(st', rev', byv') := decode_from s1 st rev byv in decode_from s2 st' rev' byv'.
Proof.
  induction s1 as [|c t IH]; intros s2 st rev byv; [reflexivity|].
  cbn [app decode_from]. split_char c; apply IH.
Qed.
(* r anywhere reverses, v anywhere selects the map values *)
Lemma decode_from_rev s : forall st rev byv, snd (fst (decode_from s st rev byv)) = rev || existsb (fun c => Ascii.eqb c "r") s.
Proof.
  induction s as [|c t IH]; intros st rev byv; [cbn; now rewrite orb_false_r|].
  cbn [decode_from existsb]. split_char c; rewrite IH;
    repeat match goal with H : Ascii.eqb c _ = true |- _ => apply Ascii.eqb_eq in H; subst c end; cbn;
    try reflexivity; try (now rewrite orb_true_r); try (rewrite Heqb3; reflexivity).
Qed.
Lemma decode_from_byv s : forall st rev byv, snd (decode_from s st rev byv) = byv || existsb (fun c => Ascii.eqb c "v") s.
Proof.
  induction s as [|c t IH]; intros st rev byv; [cbn; now rewrite orb_false_r|].
  cbn [decode_from existsb]. split_char c; rewrite IH;
    repeat match goal with H : Ascii.eqb c _ = true |- _ => apply Ascii.eqb_eq in H; subst c end; cbn;
    try reflexivity; try (now rewrite orb_true_r); try (rewrite Heqb4; reflexivity).
Qed.
(* characters other than n f c t leave the sort type alone; the last of n f c t decides it *)
Lemma decode_from_type_other s : forall st rev byv, forallb (fun c => negb (is_type_char c)) s = true ->
  fst (fst (decode_from s st rev byv)) = st.
Proof.
  induction s as [|c t IH]; intros st rev byv H; [reflexivity|].
  cbn [forallb] in H. apply andb_true_iff in H. destruct H as [Hc Ht]. unfold is_type_char in Hc.
  cbn [decode_from]. split_char c; cbn in Hc; try discriminate; now apply IH.
Qed.
Lemma decode_last_type_wins s1 c s2 : is_type_char c = true -> forallb (fun c => negb (is_type_char c)) s2 = true ->
  fst (fst (decode_sort_flags (s1 ++ c :: s2))) = type_of_char c.
Proof.
  intros Hc H2. unfold decode_sort_flags. rewrite decode_from_app.
  destruct (decode_from s1 TNum false false) as [[st rev] byv].
  unfold is_type_char in Hc. unfold type_of_char. cbn [decode_from].
  split_char c; cbn in Hc; try discriminate; now apply decode_from_type_other.
Qed.
