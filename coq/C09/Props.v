(* C09 property theorems.  Only statements closed by [exact], each followed by Print Assumptions.
   [dinfer] is the C06 inference model over the digit tables regenerated from /repo; [natsort_less] the natsort model:
   these are the instances C09/Harness.v runs on the implementation's output. *)
From Miller Require Import Base.Record C06.Model C06.Harness C11.Model C11.Proofs C09.Model C09.Proofs C09.FloatMono C09.Harness.
From Miller Require Import C09.Natural C09.StableSort C09.VerbAny C09.WithinModel C09.Within C09.DslFlags.
From Coq Require Import Permutation.
Open Scope Z_scope.

(* ---- the checker run on mlr's output decides the specification exactly ... *)
Theorem C09_check_sort_correct : forall ks inp out,
  check_sort dinfer natsort_less ks inp out = true <-> sort_spec dinfer natsort_less ks inp out.
Proof. exact (fun ks inp out => conj (check_sort_sound dinfer natsort_less ks inp out) (check_sort_complete dinfer natsort_less ks inp out)). Qed.
Print Assumptions C09_check_sort_correct.

(* ... and the specification says: a permutation of the input with every record unchanged, *)
Theorem C09_sorted_output_is_permutation : forall ks inp out,
  sort_spec dinfer natsort_less ks inp out -> Permutation out inp.
Proof. exact (sort_spec_permutation dinfer natsort_less). Qed.
Print Assumptions C09_sorted_output_is_permutation.

(* records with identical key texts stay together in input order, key-less records last in input order
   (by the shape of [sort_output]), no group head strictly smaller than an earlier one under the flag chain,
   and -- the sort being stable -- groups whose heads compare equal are in first-appearance order *)
Theorem C09_sort_spec_unfolded : forall ks inp out,
  sort_spec dinfer natsort_less ks inp out <->
  exists gs, Permutation gs (dkeys (sort_keyf ks) inp)
    /\ out = flat_map (fun g => group_of (sort_keyf ks) g inp) gs ++ filter (fun r => negb (has_key (sort_keyf ks) r)) inp
    /\ ForallOrdPairs (fun g h => chain_cmp dinfer natsort_less (map snd ks) (head_vals ks inp h) (head_vals ks inp g) <? 0 = false) gs
    /\ ForallOrdPairs (fun g h => chain_cmp dinfer natsort_less (map snd ks) (head_vals ks inp g) (head_vals ks inp h) = 0 ->
                                  (index_of g (dkeys (sort_keyf ks) inp) < index_of h (dkeys (sort_keyf ks) inp))%nat) gs.
Proof. exact (fun ks inp out => conj (fun H => H) (fun H => H)). Qed.
Print Assumptions C09_sort_spec_unfolded.

(* "The sort is stable": groups that compare equal under the whole flag chain come out in the order in which they were
   first encountered (the code after the repair 4e85fa106: sort.SliceStable) *)
Theorem C09_sort_is_stable : forall ks inp out,
  sort_spec dinfer natsort_less ks inp out ->
  exists gs, out = sort_output ks inp gs
    /\ ForallOrdPairs (fun g h => chain_cmp dinfer natsort_less (map snd ks) (head_vals ks inp g) (head_vals ks inp h) = 0 ->
                                  (index_of g (dkeys (sort_keyf ks) inp) < index_of h (dkeys (sort_keyf ks) inp))%nat) gs.
Proof. exact (sort_spec_stable dinfer natsort_less). Qed.
Print Assumptions C09_sort_is_stable.

Theorem C09_same_key_text_keeps_input_order : forall ks inp out,
  sort_spec dinfer natsort_less ks inp out ->
  forall g, group_of (sort_keyf ks) g out = group_of (sort_keyf ks) g inp.
Proof. exact (sort_spec_groups dinfer natsort_less). Qed.
Print Assumptions C09_same_key_text_keeps_input_order.

(* ---- DSL sort(array, flags | function): the checker run on its output means permutation + ordered *)
Theorem C09_check_array_sort_correct : forall name f inp out,
  check_array_sort dinfer natsort_less name f inp out = true
  <-> Permutation inp out
      /\ ForallOrdPairs (fun r s => (flag_cmp dinfer natsort_less f (field_val name s) (field_val name r) <? 0) = false) out.
Proof. exact (check_array_sort_spec dinfer natsort_less). Qed.
Print Assumptions C09_check_array_sort_correct.

(* ---- top -n k -f x [-g ..] -a [--min]: the checker run on its output means: groups in first-appearance order; of each
   group a sub-multiset of min(k, size) records, best first, and no record left out is strictly better than a chosen one *)
Theorem C09_check_top_sound : forall domax k x fs inp out,
  check_top dinfer domax k x fs inp out = true ->
  let keyf := top_keyf x fs in
  out = flat_map (fun g => group_of keyf g out) (dkeys keyf inp)
  /\ (forall r, In r out -> has_key keyf r = true)
  /\ (forall g, In g (dkeys keyf inp) -> top_group_spec dinfer domax k x (group_of keyf g inp) (group_of keyf g out)).
Proof. exact (check_top_sound dinfer). Qed.
Print Assumptions C09_check_top_sound.

(* ---- comparators: total preorders *)
Theorem C09_lexical_total_preorder :
  total_preorder_on (fun _ => True) (flag_cmp dinfer natsort_less Ff) /\ total_preorder_on (fun _ => True) (flag_cmp dinfer natsort_less Fr).
Proof. exact (lexical_total_preorder dinfer natsort_less). Qed.
Print Assumptions C09_lexical_total_preorder.

Theorem C09_casefold_total_preorder :
  total_preorder_on (fun _ => True) (flag_cmp dinfer natsort_less Fc) /\ total_preorder_on (fun _ => True) (flag_cmp dinfer natsort_less Fcr).
Proof. exact (casefold_total_preorder dinfer natsort_less). Qed.
Print Assumptions C09_casefold_total_preorder.

(* numeric: on ALL values exactly representable as doubles (NaN excluded): every float reading (finite, +-0, +-Inf),
   every empty and string, and every integer reading n that is exactly representable -- |n| <= 2^53, or, beyond,
   n a multiple of 2^(floor(log2 |n|) - 52) ([exact_int], C09/FloatMono.v: conversion of those integers to binary64
   by the C06 model's float_of_int is exact, hence strictly monotone).  NaN is excluded by the property; in the model
   [fkey] places NaN bit patterns beyond the infinities, which is not claimed to be what the code does. *)
Definition exact_dom (n : Z) : Prop := exact_int n = true.
Theorem C09_numeric_total_preorder :
  total_preorder_on (num_dom dinfer exact_dom) (flag_cmp dinfer natsort_less Fnf)
  /\ total_preorder_on (num_dom dinfer exact_dom) (flag_cmp dinfer natsort_less Fnr).
Proof. exact (numeric_total_preorder dinfer natsort_less exact_dom float_of_int_mono_exact). Qed.
Print Assumptions C09_numeric_total_preorder.

(* the domain contains -2^53 .. 2^53 (the previous statement of this theorem) and, e.g., 2^53+2, -2^63, 2^63-1024 *)
Theorem C09_exact_domain_contains_int53 : forall n, - 2 ^ 53 <= n <= 2 ^ 53 -> exact_dom n.
Proof. exact exact_int_small. Qed.
Print Assumptions C09_exact_domain_contains_int53.

(* ... and the restriction to exactly representable integers cannot be dropped: 2^53+1 is not one, and the
   comparator is not transitive on ties there *)
Theorem C09_numeric_total_preorder_all_int64_refuted : exists a b c,
  flag_cmp dinfer natsort_less Fnf a b = 0 /\ flag_cmp dinfer natsort_less Fnf b c = 0 /\ flag_cmp dinfer natsort_less Fnf a c <> 0.
Proof.
  exact (ex_intro _ (B "9007199254740992") (ex_intro _ (B "9007199254740992.0") (ex_intro _ (B "9007199254740993") num_not_transitive_witness))).
Qed.
Print Assumptions C09_numeric_total_preorder_all_int64_refuted.

(* several keys in precedence order: the chain of lexical / case-folded / numeric / natural comparators (all eight verb
   flags) is a total preorder on value tuples over the numeric domain intersected with the clean domain of natural order *)
Theorem C09_key_chain_total_preorder : forall fl,
  (forall f, In f fl -> In f [Ff; Fr; Fc; Fcr; Fnf; Fnr; Ft; Ftr]) ->
  total_preorder_on (fun l => List.length l = List.length fl /\ Forall (sort_dom dinfer exact_dom) l) (chain_cmp dinfer natsort_less fl).
Proof. exact (verb_chain_preorder dinfer exact_dom float_of_int_mono_exact). Qed.
Print Assumptions C09_key_chain_total_preorder.

(* ---- natural order (github.com/facette/natsort through NaturalAscending/DescendingComparator).
   The property text claims no order law for it, and none holds on all strings:
   (1) a digit run above 2^63-1 makes strconv.Atoi fail, the chunk is then compared bytewise: a strict 3-cycle
       9 < 10 < 100000000000000000000 < 9 under -t (so NO arrangement of these three is ordered); *)
Theorem C09_natural_transitive_refuted : exists a b c,
  flag_cmp dinfer natsort_less Ft a b < 0 /\ flag_cmp dinfer natsort_less Ft b c < 0 /\ flag_cmp dinfer natsort_less Ft c a < 0.
Proof. exact (ex_intro _ (B "9") (ex_intro _ (B "10") (ex_intro _ (B "100000000000000000000") nat_cycle_witness))). Qed.
Print Assumptions C09_natural_transitive_refuted.

(* (2) everywhere else it IS an order.  natsort.Compare is the non-strict part "<=" of the three-way chunk-list comparison
       [nat_cmp3] (chunks both numeric: by value; otherwise bytewise; a proper prefix first) on ALL non-empty texts; *)
Theorem C09_natsort_compare_is_le_of_chunk_order : forall a b, a <> [] -> b <> [] ->
  natsort_less a b = (nat_cmp3 a b <=? 0).
Proof. exact natsort_less_cmp3. Qed.
Print Assumptions C09_natsort_compare_is_le_of_chunk_order.

(*     the verb's comparators are exactly that comparison, on ALL texts (the empty text first; distinct texts natsort deems
       equal, 01 and 1, TIE -- since the repair of natural-ties-hide-later-keys -- so that later keys are consulted); *)
Theorem C09_natural_flags_are_chunk_order : forall a b,
  flag_cmp dinfer natsort_less Ft a b = nat_cmp3 a b /\ flag_cmp dinfer natsort_less Ftr a b = nat_cmp3 b a.
Proof. exact (natural_flags_are_cmp3 dinfer). Qed.
Print Assumptions C09_natural_flags_are_chunk_order.

(*     and it is a total preorder on the clean domain: texts none of whose digit runs exceeds 2^63-1 (the statement that was
       NOT PROVED in the previous round; by (1) the restriction is necessary). *)
Theorem C09_natural_total_preorder_on_clean_domain :
  total_preorder_on (fun a => clean a = true) (flag_cmp dinfer natsort_less Ft)
  /\ total_preorder_on (fun a => clean a = true) (flag_cmp dinfer natsort_less Ftr).
Proof. exact (natural_total_preorder dinfer). Qed.
Print Assumptions C09_natural_total_preorder_on_clean_domain.

(* ---- sort.SliceStable beyond its insertion-sort blocks, abstractly.  The stable sorted arrangement of the group list is
   UNIQUE, so with ANY function [ssort] that meets the contract of sort.SliceStable for this call (a permutation; no element
   less than an earlier one; equivalent elements in arrival order) in the place of sort.SliceStable, the verb's output is
   the output of [sort_model] (insertion sort) and satisfies the full specification -- for any number of groups. *)
Theorem C09_sort_with_any_stable_sort : forall ks inp,
  std_keys ks -> keys_in_dom dinfer exact_dom ks inp ->
  forall ssort, meets_contract dinfer ks inp ssort ->
  sort_with dinfer ssort ks inp = sort_model dinfer natsort_less ks inp
  /\ sort_spec dinfer natsort_less ks inp (sort_with dinfer ssort ks inp).
Proof. exact (sort_with_any_stable_sort dinfer exact_dom float_of_int_mono_exact). Qed.
Print Assumptions C09_sort_with_any_stable_sort.
(* the contract is met by insertion sort and by a top-down merge sort, on lists of any length *)
Theorem C09_insertion_sort_meets_contract : forall ks inp,
  std_keys ks -> keys_in_dom dinfer exact_dom ks inp -> meets_contract dinfer ks inp (@isort bytes).
Proof. exact (isort_meets_contract dinfer exact_dom float_of_int_mono_exact). Qed.
Print Assumptions C09_insertion_sort_meets_contract.
Theorem C09_merge_sort_meets_contract : forall ks inp,
  std_keys ks -> keys_in_dom dinfer exact_dom ks inp -> meets_contract dinfer ks inp (fun lt l => msort lt (List.length l) l).
Proof. exact (msort_meets_contract dinfer exact_dom float_of_int_mono_exact). Qed.
Print Assumptions C09_merge_sort_meets_contract.
(* the general statements behind it *)
Theorem C09_stable_sorted_arrangement_is_unique : forall (A : Type) (lt : A -> A -> bool) (before : A -> A -> Prop) (D : A -> Prop),
  (forall x y, before x y -> before y x -> False) ->
  forall l o1 o2, Forall D l -> stable_sorted lt before l o1 -> stable_sorted lt before l o2 -> o1 = o2.
Proof. exact (fun A => @stable_sorted_unique A). Qed.
Print Assumptions C09_stable_sorted_arrangement_is_unique.
(* a sort by an INCONSISTENT callback (user comparator functions, natural order outside the clean domain) still returns
   a permutation: insertion sort does for any callback whatever *)
Theorem C09_insertion_sort_permutation_any_callback : forall (A : Type) (lt : A -> A -> bool) l, Permutation (isort lt l) l.
Proof. exact (fun A => @isort_perm_any A). Qed.
Print Assumptions C09_insertion_sort_permutation_any_callback.

(* What still holds for sorts with natural-order keys on ALL inputs: the weak checker run on such outputs means a
   permutation, groups contiguous in input order, key-less records last, and no group head strictly less than its
   immediate predecessor (what insertion sort -- sort.SliceStable on at most 20 groups -- guarantees for any callback);
   every output satisfying the full specification satisfies it. *)
Theorem C09_check_sort_adj_sound : forall ks inp out,
  check_sort_adj dinfer natsort_less ks inp out = true ->
  Permutation out inp
  /\ exists gs, Permutation gs (dkeys (sort_keyf ks) inp) /\ out = sort_output ks inp gs
       /\ (forall pre g h post, gs = pre ++ g :: h :: post ->
            less dinfer natsort_less (map snd ks) (head_vals ks inp h) (head_vals ks inp g) = false).
Proof.
  exact (fun ks inp out H => conj (sort_spec_adj_permutation dinfer natsort_less ks inp out (check_sort_adj_sound dinfer natsort_less ks inp out H))
                                  (check_sort_adj_sound dinfer natsort_less ks inp out H)).
Qed.
Print Assumptions C09_check_sort_adj_sound.
Theorem C09_sort_spec_implies_adjacent_spec : forall ks inp out,
  sort_spec dinfer natsort_less ks inp out -> sort_spec_adj dinfer natsort_less ks inp out.
Proof. exact (sort_spec_implies_adj dinfer natsort_less). Qed.
Print Assumptions C09_sort_spec_implies_adjacent_spec.

(* flag mapping: every descending flag is its ascending comparator with the arguments exchanged, including the
   deliberately inverted natural pair (-t selects NaturalDescendingComparator, which sorts ascending) *)
Theorem C09_descending_flags_flip_ascending : forall a b,
  flag_cmp dinfer natsort_less Fr a b = flag_cmp dinfer natsort_less Ff b a
  /\ flag_cmp dinfer natsort_less Fcr a b = flag_cmp dinfer natsort_less Fc b a
  /\ flag_cmp dinfer natsort_less Ftr a b = flag_cmp dinfer natsort_less Ft b a
  /\ flag_cmp dinfer natsort_less Fnr a b = - flag_cmp dinfer natsort_less Fnf a b.
Proof. exact (fun a b => conj eq_refl (conj eq_refl (conj eq_refl eq_refl))). Qed.
Print Assumptions C09_descending_flags_flip_ascending.

(* numeric collation: numbers before empties and strings, reversed for -nr; empties before strings *)
Theorem C09_numeric_collation : forall a b,
  (exists n, dinfer a = VInt n) \/ (exists f, dinfer a = VFloat f) ->
  dinfer b = VEmpty \/ dinfer b = VString ->
  flag_cmp dinfer natsort_less Fnf a b = -1 /\ flag_cmp dinfer natsort_less Fnr a b = 1
  /\ flag_cmp dinfer natsort_less Fnf b a = 1 /\ flag_cmp dinfer natsort_less Fnr b a = -1.
Proof. exact (numeric_collation dinfer natsort_less). Qed.
Print Assumptions C09_numeric_collation.

(* sort-within-records: a permutation of the fields, keys ascending *)
Theorem C09_sort_within_record : forall r,
  Permutation (sort_within_record r) r /\ keys_ascending (sort_within_record r).
Proof. exact (fun r => conj (sort_within_record_perm r) (sort_within_record_sorted r)). Qed.
Print Assumptions C09_sort_within_record.

(* sort-within-records with options, nested (JSON) records ([swr_model], C09/WithinModel.v; its output must equal mlr's):
   -r: keys ascending at EVERY map level, every (path, leaf) pair kept (maps inside arrays are not visited);
   -f names: the named fields first, sorted, the others after them in record order (a permutation of the fields);
   -n (natural, a non-strict callback): still a permutation at every level. *)
Theorem C09_sort_within_records_recursive_sorted : forall r, jsorted (JM (swr_model natsort_less true false None r)).
Proof. exact (swr_model_recursive_sorted natsort_less). Qed.
Print Assumptions C09_sort_within_records_recursive_sorted.
Theorem C09_sort_within_records_recursive_keeps_leaves : forall natural r,
  Permutation (jflat (JM (swr_model natsort_less true natural None r))) (jflat (JM r)).
Proof. exact (swr_model_recursive_keeps_leaves natsort_less). Qed.
Print Assumptions C09_sort_within_records_recursive_keeps_leaves.
Theorem C09_sort_within_records_selected_permutation : forall recurse natural names r,
  Permutation (swr_model natsort_less recurse natural (Some names) r) r.
Proof. exact (swr_model_perm natsort_less). Qed.
Print Assumptions C09_sort_within_records_selected_permutation.
Theorem C09_sort_within_records_top_level : forall natural r,
  Permutation (swr_model natsort_less false natural None r) r
  /\ Permutation (swr_model natsort_less true natural None r) (map (fun e => (fst e, jsort (if natural then natsort_less else lex_lt) (snd e))) r).
Proof. exact (swr_model_top_level natsort_less). Qed.
Print Assumptions C09_sort_within_records_top_level.

(* the flag string of the DSL functions sort(collection, "flags") (decodeSortFlags, modelled in C09/DslFlags.v): scanned left to
   right; the LAST of n f c t selects the sort type (default numerical), r anywhere reverses, v anywhere selects map values,
   every other character is ignored *)
Theorem C09_dsl_flags_last_type_letter_wins : forall s1 c s2,
  is_type_char c = true -> forallb (fun c => negb (is_type_char c)) s2 = true ->
  fst (fst (decode_sort_flags (s1 ++ c :: s2))) = type_of_char c.
Proof. exact decode_last_type_wins. Qed.
Print Assumptions C09_dsl_flags_last_type_letter_wins.
Theorem C09_dsl_flags_reverse_and_by_value : forall s,
  snd (fst (decode_sort_flags s)) = existsb (fun c => Ascii.eqb c "r") s /\ snd (decode_sort_flags s) = existsb (fun c => Ascii.eqb c "v") s.
Proof. exact (fun s => conj (decode_from_rev s TNum false false) (decode_from_byv s TNum false false)). Qed.
Print Assumptions C09_dsl_flags_reverse_and_by_value.
(* the flag strings the correspondence uses (DSL_FLAGS in c09.py) and the comparators it checks their outputs with *)
Example C09_dsl_flag_table :
  map dsl_flag_of [B "f"; B "fr"; B "c"; B "cr"; B ""; B "n"; B "nr"; B "t"; B "tr"; B "rc"; B "rt"; B "fv"; B "xnqc"]
  = [(Ff, false); (Fr, false); (Dc, false); (Dcr, false); (Fnf, false); (Fnf, false); (Fnr, false); (Dt, false); (Dtr, false);
     (Dcr, false); (Dtr, false); (Ff, true); (Dc, false)].
Proof. vm_compute. reflexivity. Qed.

(* ---- non-vacuity *)
Definition ex_in : list record :=
  [ [(B "x", B "10"); (B "i", B "0")]; [(B "x", B "abc"); (B "i", B "1")]; [(B "i", B "2")]; [(B "x", B "0x9"); (B "i", B "3")];
    [(B "x", B ""); (B "i", B "4")]; [(B "x", B "10"); (B "i", B "5")]; [(B "x", B "-1.5"); (B "i", B "6")] ].
Definition ex_out : list record :=
  [ nth 6 ex_in []; nth 3 ex_in []; nth 0 ex_in []; nth 5 ex_in []; nth 4 ex_in []; nth 1 ex_in []; nth 2 ex_in [] ].
Example C09_nonvacuous :
  check_sort dinfer natsort_less [(B "x", Fnf)] ex_in ex_out = true
  /\ check_sort dinfer natsort_less [(B "x", Fnf)] ex_in (rev ex_out) = false
  /\ check_sort dinfer natsort_less [(B "x", Fnr)] ex_in ex_out = false
  /\ check_sort dinfer natsort_less [(B "x", Fnf)] [[(B "x", B "1.0")]; [(B "x", B "1")]] [[(B "x", B "1.0")]; [(B "x", B "1")]] = true
  /\ check_sort dinfer natsort_less [(B "x", Fnf)] [[(B "x", B "1.0")]; [(B "x", B "1")]] [[(B "x", B "1")]; [(B "x", B "1.0")]] = false
  /\ num_dom dinfer exact_dom (B "9007199254740992") /\ num_dom dinfer exact_dom (B "9007199254740994") /\ num_dom dinfer exact_dom (B "-9223372036854775808")
  /\ num_dom dinfer exact_dom (B "0x7ffffffffffffc00") /\ num_dom dinfer exact_dom (B "-12") /\ num_dom dinfer exact_dom (B "abc") /\ num_dom dinfer exact_dom (B "1e300")
  /\ flag_cmp dinfer natsort_less Fc (B "Pan") (B "pAN") = 0 /\ flag_cmp dinfer natsort_less Ft (B "a2") (B "a10") = -1.
Proof. vm_compute. repeat split; try reflexivity; discriminate. Qed.
(* the 3-cycle: the weak checker accepts the arrangement mlr prints for the input order 9, 1e20, 10 and the full one rejects every arrangement *)
Definition cyc (l : list bytes) : list record := map (fun v => [(B "a", v)]) l.
Example C09_nonvacuous_natural :
  check_sort_adj dinfer natsort_less [(B "a", Ft)] (cyc [B "9"; B "100000000000000000000"; B "10"]) (cyc [B "100000000000000000000"; B "9"; B "10"]) = true
  /\ check_sort_adj dinfer natsort_less [(B "a", Ft)] (cyc [B "9"; B "100000000000000000000"; B "10"]) (cyc [B "10"; B "9"; B "100000000000000000000"]) = false
  /\ forallb (fun o => negb (check_sort dinfer natsort_less [(B "a", Ft)] (cyc [B "9"; B "100000000000000000000"; B "10"]) (cyc o)))
       [[B "9"; B "10"; B "100000000000000000000"]; [B "9"; B "100000000000000000000"; B "10"]; [B "10"; B "9"; B "100000000000000000000"];
        [B "10"; B "100000000000000000000"; B "9"]; [B "100000000000000000000"; B "9"; B "10"]; [B "100000000000000000000"; B "10"; B "9"]] = true.
Proof. vm_compute. repeat split; reflexivity. Qed.
Definition ex_j : jrec := [(B "id", JS (B "1")); (B "meta", JM [(B "z", JS (B "1")); (B "x", JA [JM [(B "q", JS (B "0")); (B "p", JS (B "0"))]])])].
Example C09_nonvacuous_round3 :
  clean (B "a01b9223372036854775807") = true /\ clean (B "a9223372036854775808") = false
  /\ flag_cmp dinfer natsort_less Ft (B "01") (B "1") = 0 /\ flag_cmp dinfer natsort_less Ft (B "") (B "0") = -1
  /\ less dinfer natsort_less [Ft; Ff] [B "1"; B "y"] [B "01"; B "z"] = true
  /\ sort_with dinfer (fun lt l => msort lt (List.length l) l) [(B "x", Fnf)] ex_in = ex_out
  /\ sort_model dinfer natsort_less [(B "x", Fnf)] ex_in = ex_out
  /\ swr_model natsort_less true false None ex_j
     = [(B "id", JS (B "1")); (B "meta", JM [(B "x", JA [JM [(B "q", JS (B "0")); (B "p", JS (B "0"))]]); (B "z", JS (B "1"))])].
Proof. vm_compute. repeat split; reflexivity. Qed.
