(* C09 -- the sort verb with ANY stable sorting function in place of sort.SliceStable: no bound on the number of groups. *)
From Miller Require Import Base.Record C06.Model C11.Model C11.Proofs C09.Model C09.Proofs C09.StableSort C09.Natural.
From Coq Require Import Permutation.
Open Scope Z_scope.

Lemma FOP_impl_in {A} (P Q : A -> A -> Prop) l :
  (forall x y, In x l -> In y l -> P x y -> Q x y) -> ForallOrdPairs P l -> ForallOrdPairs Q l.
Proof.
  induction l as [|a t IH]; intros H F; [constructor|].
  apply FOP_cons_intro.
  - intros y Hy. apply H; cbn; auto. exact (FOP_In _ _ _ F y Hy).
  - apply IH; [intros x y Hx Hy; apply H; cbn; auto|eapply FOP_tail; eauto].
Qed.

(* the arrival position of a group key is its index in the first-appearance list *)
Lemma index_of_arrival l : NoDup l -> ForallOrdPairs (fun x y => (index_of x l < index_of y l)%nat) l.
Proof.
  induction 1 as [|a t Hni Hnd IH]; [constructor|].
  assert (Hne : forall y, In y t -> beqb y a = false) by (intros y Hy; apply beqb_false_iff; congruence).
  apply FOP_cons_intro.
  - intros y Hy. cbn [index_of]. rewrite beqb_refl, (Hne y Hy). apply Nat.lt_0_succ.
  - eapply FOP_impl_in; [|exact IH]. intros x y Hx Hy Hlt. cbn [index_of]. rewrite (Hne x Hx), (Hne y Hy). apply -> Nat.succ_lt_mono. exact Hlt.
Qed.

Lemma selected_values_spec fs : forall r vs, selected_values fs r = Some vs ->
  List.length vs = List.length fs /\ Forall (fun v => exists k, In k fs /\ get k r = Some v) vs.
Proof.
  induction fs as [|f t IH]; intros r vs; cbn [selected_values].
  - intros E. injection E as <-. split; [reflexivity|constructor].
  - destruct (get f r) as [v|] eqn:G; [|discriminate]. destruct (selected_values t r) as [vs'|] eqn:S; [|discriminate].
    intros E. injection E as <-. destruct (IH r vs' S) as [L F]. split; [cbn; lia|].
    constructor; [exists f; cbn; auto|]. eapply Forall_impl; [|exact F]. intros v' (k & Hk & Hg). exists k. cbn. auto.
Qed.

Section Verb.
  Variable infer : bytes -> ival.
  Let nat_less := natsort_less.
  Variable exact : Z -> Prop.
  Hypothesis exact_mono : forall x y, exact x -> exact y -> x < y -> fkey (float_of_int x) < fkey (float_of_int y).

  Definition head_lt (ks : list (bytes * sflag)) (inp : list record) (g h : bytes) : bool :=
    less infer nat_less (map snd ks) (head_vals ks inp g) (head_vals ks inp h).
  Definition gpos (ks : list (bytes * sflag)) (inp : list record) (g : bytes) : nat := index_of g (dkeys (sort_keyf ks) inp).
  Definition gbefore (ks : list (bytes * sflag)) (inp : list record) (g h : bytes) : Prop := (gpos ks inp g < gpos ks inp h)%nat.
  Lemma gbefore_asym ks inp g h : gbefore ks inp g h -> gbefore ks inp h g -> False.
  Proof. unfold gbefore. lia. Qed.
  (* the verb with the sorting function [ssort] where the code calls sort.SliceStable *)
  Definition sort_with (ssort : (bytes -> bytes -> bool) -> list bytes -> list bytes) (ks : list (bytes * sflag)) (inp : list record) : list record :=
    sort_output ks inp (ssort (head_lt ks inp) (dkeys (sort_keyf ks) inp)).
  Lemma sort_model_is_sort_with ks inp : sort_model infer nat_less ks inp = sort_with (@isort bytes) ks inp.
  Proof. reflexivity. Qed.

  (* the inputs on which the flag chain is a total preorder: any of the eight flags, every sort-key value in the numeric
     comparator's domain (any float, empty, string; integers exactly representable as doubles) and without a digit run
     above 2^63-1 *)
  Definition std_keys (ks : list (bytes * sflag)) : Prop := forall f, In f (map snd ks) -> In f verb_flags.
  Definition keys_in_dom (ks : list (bytes * sflag)) (inp : list record) : Prop :=
    forall r k v, In r inp -> In k (map fst ks) -> get k r = Some v -> sort_dom infer exact v.
  Definition vdom (ks : list (bytes * sflag)) (l : list bytes) : Prop :=
    List.length l = List.length (map snd ks) /\ Forall (sort_dom infer exact) l.

  Lemma head_vals_dom ks inp g : keys_in_dom ks inp -> In g (dkeys (sort_keyf ks) inp) -> vdom ks (head_vals ks inp g).
  Proof.
    intros Hk Hg. destruct (dkeys_sound (sort_keyf ks) g inp Hg) as (r & Hr & Kr).
    assert (Hin : In r (group_of (sort_keyf ks) g inp)).
    { unfold group_of. apply filter_In. split; [exact Hr|]. rewrite Kr. cbn. apply beqb_refl. }
    unfold head_vals. destruct (group_of (sort_keyf ks) g inp) as [|r0 rest] eqn:E; [destruct Hin|].
    assert (H0 : In r0 (group_of (sort_keyf ks) g inp)) by (rewrite E; cbn; auto).
    pose proof (group_of_key (sort_keyf ks) g inp r0 H0) as K0.
    assert (I0 : In r0 inp) by (unfold group_of in H0; apply filter_In in H0; tauto).
    unfold sort_keyf, grouping_key in K0. destruct (selected_values (map fst ks) r0) as [vs|] eqn:S; [|discriminate].
    destruct (selected_values_spec _ _ _ S) as [L F]. split; [rewrite L, !map_length; reflexivity|].
    eapply Forall_impl; [|exact F]. intros v (k & Hk' & Hg'). eapply Hk; eauto.
  Qed.

  Section WithChain.
    Variable ks : list (bytes * sflag).
    Variable inp : list record.
    Hypothesis Hstd : std_keys ks.
    Hypothesis Hdom : keys_in_dom ks inp.
    Let Dg (g : bytes) : Prop := In g (dkeys (sort_keyf ks) inp).

    Lemma chain_pre : total_preorder_on (vdom ks) (chain_cmp infer nat_less (map snd ks)).
    Proof. apply (verb_chain_preorder infer exact exact_mono). exact Hstd. Qed.

    Lemma head_lt_asym a b : Dg a -> Dg b -> head_lt ks inp a b = true -> head_lt ks inp b a = false.
    Proof.
      intros Da Db. unfold head_lt, less. destruct chain_pre as (_ & Hs & _).
      rewrite (Hs _ _ (head_vals_dom ks inp a Hdom Da) (head_vals_dom ks inp b Hdom Db)).
      intros H. apply Z.ltb_lt in H. apply Z.ltb_ge. lia.
    Qed.
    Lemma head_lt_negtrans a b c : Dg a -> Dg b -> Dg c ->
      head_lt ks inp b a = false -> head_lt ks inp c b = false -> head_lt ks inp c a = false.
    Proof.
      intros Da Db Dc. unfold head_lt, less. destruct chain_pre as (_ & Hs & Ht).
      pose proof (head_vals_dom ks inp a Hdom Da) as Va. pose proof (head_vals_dom ks inp b Hdom Db) as Vb.
      pose proof (head_vals_dom ks inp c Hdom Dc) as Vc.
      rewrite !Z.ltb_ge. intros H1 H2. rewrite (Hs _ _ Vb Va) in H1. rewrite (Hs _ _ Vc Vb) in H2. rewrite (Hs _ _ Vc Va).
      assert (chain_cmp infer nat_less (map snd ks) (head_vals ks inp a) (head_vals ks inp c) <= 0); [|lia].
      apply (Ht _ (head_vals ks inp b)); auto; lia.
    Qed.

    Lemma dkeys_Dg : Forall Dg (dkeys (sort_keyf ks) inp).
    Proof. apply Forall_forall. auto. Qed.
    Lemma dkeys_arrival : arrival_ordered (gbefore ks inp) (dkeys (sort_keyf ks) inp).
    Proof. apply index_of_arrival. apply dkeys_NoDup. Qed.

    (* the contract of sort.SliceStable for this call *)
    Definition meets_contract (ssort : (bytes -> bytes -> bool) -> list bytes -> list bytes) : Prop :=
      stable_sorted (head_lt ks inp) (gbefore ks inp) (dkeys (sort_keyf ks) inp) (ssort (head_lt ks inp) (dkeys (sort_keyf ks) inp)).

    Theorem sort_with_any_stable_sort ssort : meets_contract ssort ->
      sort_with ssort ks inp = sort_model infer nat_less ks inp /\ sort_spec infer nat_less ks inp (sort_with ssort ks inp).
    Proof.
      intros Hc. split.
      - unfold sort_with, sort_model. f_equal.
        apply (any_stable_sort_is_isort (head_lt ks inp) (gbefore ks inp) Dg head_lt_asym head_lt_negtrans (gbefore_asym ks inp) (ssort (head_lt ks inp)));
          [exact dkeys_Dg|exact dkeys_arrival|exact Hc].
      - destruct Hc as [Hp Hf]. exists (ssort (head_lt ks inp) (dkeys (sort_keyf ks) inp)). split; [exact Hp|]. split; [reflexivity|]. split.
        + eapply FOP_impl; [|exact Hf]. intros g h [H _]. exact H.
        + eapply FOP_impl; [|exact Hf]. intros g h [_ H] E. apply H. unfold head_lt, less. rewrite E. reflexivity.
    Qed.

    Theorem isort_meets_contract : meets_contract (@isort bytes).
    Proof. apply (isort_stable_sorted (head_lt ks inp) (gbefore ks inp) Dg head_lt_asym head_lt_negtrans); [exact dkeys_Dg|exact dkeys_arrival]. Qed.
    Theorem msort_meets_contract : meets_contract (fun lt l => msort lt (List.length l) l).
    Proof.
      apply (msort_stable_sorted (head_lt ks inp) (gbefore ks inp) Dg head_lt_asym head_lt_negtrans); [lia|exact dkeys_Dg|exact dkeys_arrival].
    Qed.
  End WithChain.
End Verb.
