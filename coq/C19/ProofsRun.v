(* C19 proofs: success equals the run without -I, file by file (composition with C05's model). *)
From Miller Require Import Base.Record C05.Model C19.Model C19.Proofs C19.ModelRun.
Open Scope list_scope.

Lemma inplace_plan_succeeds o vs wr chunk files e :
  In e (inplace_plan o vs wr chunk files) -> succeeds (e_out e) = true.
Proof.
  unfold inplace_plan. rewrite in_map_iff. intros ([[[p t] m] f] & He & _). subst e. reflexivity.
Qed.

Theorem success_equals_stdout_run_per_file o vs wr chunk files st :
  (forall b, List.concat (chunk b) = b) ->
  wf (inplace_plan o vs wr chunk files) st ->
  forall p t m f, In (p, t, m, f) files ->
  exec (all_ops (inplace_plan o vs wr chunk files)) st p = Some (stdout_alone o vs wr f, m) /\
  exec (all_ops (inplace_plan o vs wr chunk files)) st t = None.
Proof.
  intros Hchunk Hwf p t m f Hin.
  set (e := (p, t, m, Succeeds (chunk (stdout_alone o vs wr f))) : entry).
  assert (He : In e (inplace_plan o vs wr chunk files)).
  { unfold inplace_plan. apply in_map_iff. exists (p, t, m, f). split; [reflexivity|exact Hin]. }
  destruct (all_succeed _ st Hwf (fun e' H => inplace_plan_succeeds o vs wr chunk files e' H) e He) as [H1 H2].
  cbn in H1, H2. rewrite Hchunk in H1. split; assumption.
Qed.
