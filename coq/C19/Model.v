(* C19 -- in-place mode as a file-system state machine.  Definitions only.

   Mirrors pkg/entrypoint/entrypoint.go processFilesInPlace / processFileInPlace:
     os.Stat(f)                       (missing file: return the error)
     climain.ParseCommandLine         (fresh options + verb chain per file)
     lib.IsUpdateableInPlace          (URL / --prepipe: refuse)
     os.Stat(f)                       -> originalMode
     os.CreateTemp(dir(f), "mlr-in-place-")           new empty file, mode 0600, a name that does not exist
     lib.WrapOutputHandle             (bzip2: Remove(temp), refuse; gzip/zlib/zstd: compressing wrapper)
     stream.Stream -> temp            a sequence of appends (flushes of the buffered writer); error: Remove(temp)
     wrapped.Close                    the compressor writes its buffered tail + trailer (appends); error: Remove(temp)
     handle.Close                     error: Remove(temp)
     os.Rename(temp, f)               atomic replace; error: Remove(temp)
     os.Chmod(f, originalMode)        error: returned (the file already holds the new bytes)
   iterated over the file names, stopping at the first error.
   A crash (kill -9, power cut as seen by the process) is a truncation of the op sequence at any prefix. *)
From Miller Require Export Base.Bytes.
Open Scope list_scope.

Definition path := bytes.
Definition fmode := N.
Definition file := (bytes * fmode)%type.
Definition fsys := path -> option file.

Definition set (p : path) (v : option file) (st : fsys) : fsys := fun q => if beqb q p then v else st q.

Definition temp_mode : fmode := 384%N.   (* 0600, os.CreateTemp *)

Inductive op :=
| OStat (f : path)
| OCreate (tmp : path)
| OAppend (tmp : path) (chunk : bytes)
| OWrapClose (tmp : path)                (* Close() of the gzip/zlib/zstd wrapper: its writes are appends; no other effect *)
| OClose (tmp : path)
| ORename (tmp f : path)
| OChmod (f : path) (m : fmode)
| ORemove (tmp : path).

Definition exec_op (o : op) (st : fsys) : fsys :=
  match o with
  | OStat _ | OClose _ | OWrapClose _ => st
  | OCreate tmp => set tmp (Some ([], temp_mode)) st
  | OAppend tmp ch =>
      match st tmp with Some (b, m) => set tmp (Some (b ++ ch, m)) st | None => st end
  | ORename tmp f =>
      match st tmp with Some x => set f (Some x) (set tmp None st) | None => st end
  | OChmod f m =>
      match st f with Some (b, _) => set f (Some (b, m)) st | None => st end
  | ORemove tmp => set tmp None st
  end.

Definition exec (ops : list op) (st : fsys) : fsys := fold_left (fun s o => exec_op o s) ops st.

(* how the processing of ONE file ends; chunks = what the stream flushed into the temp file, in order *)
Inductive outcome :=
| Missing                               (* first Stat: not exist *)
| RefusedEarly                          (* argv re-parse error, URL, --prepipe(x), second Stat error *)
| CreateFails                           (* CreateTemp error (unwritable directory) *)
| RefusedAfterCreate                    (* bzip2: temp created, removed, refused *)
| StreamFails (written : list bytes)    (* DSL run-time error, malformed input, write error ... after these flushes *)
| WrapCloseFails (chunks : list bytes)   (* the recompressor's Close() fails while flushing its tail: Remove(temp) *)
| CloseFails (chunks : list bytes)
| RenameFails (chunks : list bytes)
| ChmodFails (chunks : list bytes)
| Succeeds (chunks : list bytes).

Definition opening (f tmp : path) : list op := [OStat f; OStat f; OCreate tmp].
Definition appends (tmp : path) (chunks : list bytes) : list op := map (OAppend tmp) chunks.

Definition file_ops (f tmp : path) (mode0 : fmode) (oc : outcome) : list op :=
  match oc with
  | Missing => [OStat f]
  | RefusedEarly => [OStat f]
  | CreateFails => [OStat f; OStat f]
  | RefusedAfterCreate => opening f tmp ++ [ORemove tmp]
  | StreamFails w => opening f tmp ++ appends tmp w ++ [ORemove tmp]
  (* chunks of the outcomes below = everything written by the stream AND by the wrapper's Close() before the next step *)
  | WrapCloseFails ch => opening f tmp ++ appends tmp ch ++ [OWrapClose tmp; ORemove tmp]
  | CloseFails ch => opening f tmp ++ appends tmp ch ++ [OWrapClose tmp; OClose tmp; ORemove tmp]
  | RenameFails ch => opening f tmp ++ appends tmp ch ++ [OWrapClose tmp; OClose tmp; ORemove tmp]   (* the failed rename changes nothing *)
  | ChmodFails ch => opening f tmp ++ appends tmp ch ++ [OWrapClose tmp; OClose tmp; ORename tmp f]  (* the failed chmod changes nothing *)
  | Succeeds ch => opening f tmp ++ appends tmp ch ++ [OWrapClose tmp; OClose tmp; ORename tmp f; OChmod f mode0]
  end.

Definition succeeds (oc : outcome) : bool := match oc with Succeeds _ => true | _ => false end.
Definition renames (oc : outcome) : bool := match oc with Succeeds _ | ChmodFails _ => true | _ => false end.
(* everything the stream hands to the temp file in this outcome *)
Definition produced (oc : outcome) : bytes :=
  match oc with
  | StreamFails w | WrapCloseFails w | CloseFails w | RenameFails w | ChmodFails w | Succeeds w => List.concat w
  | _ => []
  end.

(* a run over several files: (file, its temp name, its original mode, how it ends); stops after the first failure *)
Definition entry := (path * path * fmode * outcome)%type.
Fixpoint all_ops (plan : list entry) : list op :=
  match plan with
  | [] => []
  | (f, tmp, mode0, oc) :: rest => file_ops f tmp mode0 oc ++ (if succeeds oc then all_ops rest else [])
  end.

Definition e_file (e : entry) : path := let '(f, _, _, _) := e in f.
Definition e_tmp (e : entry) : path := let '(_, tmp, _, _) := e in tmp.
Definition e_mode (e : entry) : fmode := let '(_, _, m, _) := e in m.
Definition e_out (e : entry) : outcome := let '(_, _, _, oc) := e in oc.

Fixpoint nodup_paths (l : list path) : bool :=
  match l with [] => true | x :: t => negb (existsb (beqb x) t) && nodup_paths t end.

(* the crash state after k steps *)
Definition crash_state (plan : list entry) (k : nat) (st : fsys) : fsys := exec (firstn k (all_ops plan)) st.

Fixpoint is_prefix (p s : bytes) : bool :=
  match p, s with
  | [], _ => true
  | x :: p', y :: s' => Ascii.eqb x y && is_prefix p' s'
  | _ :: _, [] => false
  end.

(* ---------------------------------------------------------------- the pre-pass of processFilesInPlace (after the repair
   "mlr -I refuses URLs, --prepipe and bzip2 inputs before any file is modified"): for EVERY name, before the first file
   is processed,  lib.IsUpdateableInPlace(name, prepipe)  and  lib.FindInputEncoding(name, flag) == bzip2  are checked;
   the first name that fails makes the whole command return the error with nothing done. *)
Inductive encoding := EncDefault | EncBzip2 | EncGzip | EncZlib | EncZstd.    (* --bz2in --gzin --zin --zstdin *)

Definition has_suffix (suf s : bytes) : bool := is_prefix (rev suf) (rev s).

(* lib.IsUpdateableInPlace: strings.HasPrefix(filename, "http://") || "https://" || "file://" *)
Definition is_url (f : path) : bool :=
  is_prefix (B "http://") f || is_prefix (B "https://") f || is_prefix (B "file://") f.

(* lib.FindInputEncoding: the flag wins; else the suffix .bz2 .gz .z .zst, in this order *)
Definition input_encoding (flag : encoding) (f : path) : encoding :=
  match flag with
  | EncDefault =>
      if has_suffix (B ".bz2") f then EncBzip2 else if has_suffix (B ".gz") f then EncGzip
      else if has_suffix (B ".z") f then EncZlib else if has_suffix (B ".zst") f then EncZstd else EncDefault
  | e => e
  end.

Definition is_bzip2 (e : encoding) : bool := match e with EncBzip2 => true | _ => false end.

Definition updatable (prepipe : bool) (flag : encoding) (f : path) : bool :=
  negb (is_url f) && negb prepipe && negb (is_bzip2 (input_encoding flag f)).

(* the whole command: nothing at all unless every name is updatable *)
Definition inplace_ops (prepipe : bool) (flag : encoding) (plan : list entry) : list op :=
  if forallb (fun e => updatable prepipe flag (e_file e)) plan then all_ops plan else [].
