(* C19 -- refinement: an observed system-call trace that the acceptor Harness.chk_trace accepts IS (the erasure of) a prefix of
   the model's op sequence, so the invariant theorems apply at every point of the observed trace.

   Contents are abstract in the acceptor: a write is seen by its LENGTH only (the plan handed to chk_trace carries chunk lengths,
   Harness.entry_of_lens fills in "xxx..." of that length).  [abs_entry] is that abstraction on a plan with the REAL contents;
   [erase_abs] shows the erasure of the op sequence does not depend on contents beyond their lengths.  Hence:
       chk_trace (kind, length-abstraction of plan, trace) = true
       ->  for EVERY prefix of the trace there is a prefix of all_ops plan (real contents) with that erasure, and in the state
           it leads to every named file is bitwise the original or the complete output, the temp file is absent or a prefix of
           the output (C19_atomic_at_every_prefix); a complete (returned) trace is the erasure of the whole op sequence. *)
From Miller Require Import Base.Bytes C19.Model C19.Proofs C19.Harness.
From Coq Require Import ZArith Lia.
Open Scope list_scope.

Lemma erase_short o : erase o = [] \/ exists e, erase o = [e].
Proof. destruct o; cbn; eauto. Qed.

Lemma prefix_flat_erase ops : forall k, exists j, firstn k (flat_map erase ops) = flat_map erase (firstn j ops).
Proof.
  induction ops as [|o r IH]; intros k.
  - exists 0%nat. now rewrite firstn_nil.
  - cbn [flat_map]. destruct (erase_short o) as [E|[e E]]; rewrite E.
    + destruct (IH k) as [j Hj]. exists (S j). cbn [firstn flat_map app]. now rewrite E.
    + destruct k as [|k]; [exists 0%nat; reflexivity|].
      destruct (IH k) as [j Hj]. exists (S j). cbn [firstn flat_map app]. rewrite E. cbn. now rewrite Hj.
Qed.

Lemma tev_eqb_eq a b : tev_eqb a b = true -> a = b.
Proof.
  destruct a as [[[c1 p1] q1] n1], b as [[[c2 p2] q2] n2]. unfold tev_eqb. intros H.
  apply andb_true_iff in H as [H Hn]. apply andb_true_iff in H as [H Hq]. apply andb_true_iff in H as [Hc Hp].
  apply Z.eqb_eq in Hc, Hn. destruct (beqb_spec p1 p2); [|discriminate]. destruct (beqb_spec q1 q2); [|discriminate]. now subst.
Qed.

Lemma tevs_match_prefix exact tr : forall model,
  tevs_match exact tr model = true -> (exists n, tr = firstn n model) /\ (exact = true -> tr = model).
Proof.
  induction tr as [|a tr IH]; intros model H.
  - split; [exists 0%nat; reflexivity|]. intros ->. destruct model; [reflexivity|discriminate].
  - destruct model as [|b model]; [discriminate|]. cbn in H. apply andb_true_iff in H as [Hab H].
    apply tev_eqb_eq in Hab. subst b. destruct (IH _ H) as [[n Hn] Hex]. split.
    + exists (S n). cbn. now rewrite <- Hn.
    + intros E. now rewrite (Hex E).
Qed.

(* acceptance against a plan with real contents *)
Definition accepts (returned : bool) (plan : list entry) (tr : list tev) : bool :=
  tevs_match returned tr (flat_map erase (all_ops plan)).

Theorem accepted_trace_refines returned plan tr :
  accepts returned plan tr = true ->
  (forall k, exists j, firstn k tr = flat_map erase (firstn j (all_ops plan))) /\
  (returned = true -> tr = flat_map erase (all_ops plan)).
Proof.
  unfold accepts. intros H. destruct (tevs_match_prefix _ _ _ H) as [[n Hn] Hex]. split; [|exact Hex].
  intros k. subst tr. rewrite firstn_firstn. apply prefix_flat_erase.
Qed.

(* ... and therefore the invariant holds at every point of an accepted trace: at each prefix of the observed calls the file
   system is in a model state in which every named file is whole *)
Theorem accepted_trace_invariant returned plan st tr :
  wf plan st -> accepts returned plan tr = true ->
  forall k, exists j,
    firstn k tr = flat_map erase (firstn j (all_ops plan)) /\
    (forall e, In e plan ->
       ok_cells (st (e_file e)) (e_mode e) (e_out e) (crash_state plan j st (e_file e), crash_state plan j st (e_tmp e))) /\
    (forall p, ~ In p (files_of plan ++ tmps_of plan) -> crash_state plan j st p = st p).
Proof.
  intros Hwf Ha k. destruct (accepted_trace_refines _ _ _ Ha) as [Hp _]. destruct (Hp k) as [j Hj]. exists j.
  split; [exact Hj|]. split.
  - intros e He. now apply atomic_at_every_prefix.
  - intros p Hn. now apply other_paths_untouched.
Qed.

(* a returned run that is accepted went through the WHOLE op sequence: no temp file is left and every file is as before or
   as its outcome says *)
Theorem accepted_returned_run plan st tr :
  wf plan st -> accepts true plan tr = true ->
  tr = flat_map erase (all_ops plan) /\
  forall e, In e plan ->
    exec (all_ops plan) st (e_tmp e) = None /\
    (exec (all_ops plan) st (e_file e) = final_cell (st (e_file e)) (e_mode e) (e_out e)
     \/ exec (all_ops plan) st (e_file e) = st (e_file e)).
Proof.
  intros Hwf Ha. destruct (accepted_trace_refines _ _ _ Ha) as [_ Hx]. split; [now apply Hx|].
  intros e He. now apply after_complete_run.
Qed.

(* ---------------------------------------------------------------- content abstraction: only lengths reach the trace *)
Definition xs (b : bytes) : bytes := repeat "x"%char (List.length b).

Definition oc_map (g : bytes -> bytes) (oc : outcome) : outcome :=
  match oc with
  | StreamFails w => StreamFails (map g w)
  | WrapCloseFails w => WrapCloseFails (map g w)
  | CloseFails w => CloseFails (map g w)
  | RenameFails w => RenameFails (map g w)
  | ChmodFails w => ChmodFails (map g w)
  | Succeeds w => Succeeds (map g w)
  | o => o
  end.

Definition abs_entry (e : entry) : entry := let '(f, tmp, m, oc) := e in (f, tmp, m, oc_map xs oc).

Lemma xs_length b : List.length (xs b) = List.length b.
Proof. unfold xs. apply repeat_length. Qed.

Lemma erase_appends_abs tmp w : flat_map erase (appends tmp (map xs w)) = flat_map erase (appends tmp w).
Proof. unfold appends. induction w as [|c w IH]; cbn; [reflexivity|]. now rewrite xs_length, IH. Qed.

Lemma erase_file_ops_abs f tmp m oc : flat_map erase (file_ops f tmp m (oc_map xs oc)) = flat_map erase (file_ops f tmp m oc).
Proof. destruct oc; cbn [oc_map file_ops]; rewrite ?flat_map_app, ?erase_appends_abs; reflexivity. Qed.

Lemma erase_abs plan : flat_map erase (all_ops (map abs_entry plan)) = flat_map erase (all_ops plan).
Proof.
  induction plan as [|[[[f tmp] m] oc] plan IH]; [reflexivity|].
  cbn [map abs_entry all_ops]. rewrite !flat_map_app, erase_file_ops_abs.
  assert (Hs : succeeds (oc_map xs oc) = succeeds oc) by (destruct oc; reflexivity).
  rewrite Hs. destruct (succeeds oc); [now rewrite IH|reflexivity].
Qed.

(* THE tie: what Harness.chk_trace accepts for the length-abstracted plan is accepted for the plan with the real contents *)
Theorem chk_trace_sound kind plan0 tr plan st :
  map entry_of_lens plan0 = map abs_entry plan ->
  chk_trace (kind, plan0, tr) = true ->
  wf plan st ->
  (forall k, exists j,
     firstn k tr = flat_map erase (firstn j (all_ops plan)) /\
     (forall e, In e plan ->
        ok_cells (st (e_file e)) (e_mode e) (e_out e) (crash_state plan j st (e_file e), crash_state plan j st (e_tmp e))) /\
     (forall p, ~ In p (files_of plan ++ tmps_of plan) -> crash_state plan j st p = st p)) /\
  (kind = 1%Z -> tr = flat_map erase (all_ops plan)).
Proof.
  intros Habs Hc Hwf. unfold chk_trace in Hc. rewrite Habs, erase_abs in Hc.
  split.
  - now apply (accepted_trace_invariant (Z.eqb kind 1) plan st tr).
  - intros ->. destruct (accepted_trace_refines _ _ _ Hc) as [_ Hx]. now apply Hx.
Qed.

(* the temp file of the model is created in the directory of its target by construction of the plan the harness builds;
   the acceptor compares the NAMES of every call, so an accepted trace creates, writes, renames and unlinks exactly the
   plan's temp names: stated as a corollary for the create events *)
Lemma creates_of_erase ops : forall p m, In (1%Z, p, [], m) (flat_map erase ops) -> In (OCreate p) ops /\ m = Z.of_N temp_mode.
Proof.
  induction ops as [|o r IH]; cbn; [tauto|]. intros p m H. apply in_app_or in H as [H|H].
  - destruct o; cbn in H; try (destruct H as [H|[]]; inversion H); try contradiction. subst. split; [now left|reflexivity].
  - destruct (IH _ _ H) as [H1 H2]. split; [now right|exact H2].
Qed.

Example refine_nonvacuous :
  let plan := [(B "d/a", B "d/mlr-in-place-1", 420%N, Succeeds [B "new"; B "-a"]); (B "b", B "mlr-in-place-2", 384%N, StreamFails [B "par"])] in
  let plan0 := [(B "d/a", B "d/mlr-in-place-1", 420, 8, [3; 2]); (B "b", B "mlr-in-place-2", 384, 4, [3])]%Z in
  map entry_of_lens plan0 = map abs_entry plan /\
  chk_trace (0, plan0, [(0, B "d/a", [], 0); (0, B "d/a", [], 0); (1, B "d/mlr-in-place-1", [], 384); (2, B "d/mlr-in-place-1", [], 3)])%Z = true /\
  chk_trace (1, plan0, [(0, B "d/a", [], 0)])%Z = false.
Proof. vm_compute. repeat split; reflexivity. Qed.
