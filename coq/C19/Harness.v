(* C19 correspondence harness: evaluated by vm_compute on directory snapshots written by harness/py/checks/c19.py.
   The SAME definitions (Model.all_ops, Model.crash_state, Model.exec) the theorems of Props.v are about. *)
From Miller Require Import Base.Bytes C19.Model.
Open Scope Z_scope.

Definition oc_of (code : Z) (chunks : list bytes) : outcome :=
  if code =? 0 then Missing else if code =? 1 then RefusedEarly else if code =? 2 then CreateFails
  else if code =? 3 then RefusedAfterCreate else if code =? 4 then StreamFails chunks
  else if code =? 5 then CloseFails chunks else if code =? 6 then RenameFails chunks
  else if code =? 7 then ChmodFails chunks else Succeeds chunks.

Definition entry_of (e : bytes * bytes * Z * Z * list bytes) : entry :=
  let '(f, tmp, m, code, chunks) := e in (f, tmp, Z.to_N m, oc_of code chunks).

Fixpoint store_of (l : list (bytes * bytes * Z)) : fsys :=
  match l with
  | [] => fun _ => None
  | (p, content, m) :: r => set p (Some (content, Z.to_N m)) (store_of r)
  end.

Definition cell_eqb (a : option file) (b : option (bytes * Z)) : bool :=
  match a, b with
  | None, None => true
  | Some (c, m), Some (c', m') => beqb c c' && (Z.of_N m =? m')
  | _, _ => false
  end.

Definition matches (st : fsys) (obs : list (bytes * option (bytes * Z))) : bool :=
  forallb (fun pv => cell_eqb (st (fst pv)) (snd pv)) obs.

(* case = (kind, plan, files before, observed cells of every named file, every temp name of the plan and every
   other file found in the directory).
   kind 0: the process was killed -- the snapshot must be the model state after SOME prefix of the op list;
   kind 1: the process returned -- the snapshot must be the state after the complete op list. *)
Definition chk (c : Z * list (bytes * bytes * Z * Z * list bytes) * list (bytes * bytes * Z) * list (bytes * option (bytes * Z))) : bool :=
  let '(kind, plan0, before, obs) := c in
  let plan := map entry_of plan0 in
  let st := store_of before in
  let wfb := nodup_paths (map e_file plan ++ map e_tmp plan) in
  wfb &&
  (if kind =? 0
   then existsb (fun k => matches (crash_state plan k st) obs) (seq 0 (S (List.length (all_ops plan))))
   else matches (exec (all_ops plan) st) obs).
