(* C19 correspondence harness: evaluated by vm_compute on directory snapshots written by harness/py/checks/c19.py.
   The SAME definitions (Model.all_ops, Model.crash_state, Model.exec) the theorems of Props.v are about. *)
From Miller Require Import Base.Bytes C19.Model.
Open Scope Z_scope.

Definition oc_of (code : Z) (chunks : list bytes) : outcome :=
  if code =? 0 then Missing else if code =? 1 then RefusedEarly else if code =? 2 then CreateFails
  else if code =? 3 then RefusedAfterCreate else if code =? 4 then StreamFails chunks
  else if code =? 5 then CloseFails chunks else if code =? 6 then RenameFails chunks
  else if code =? 7 then ChmodFails chunks else if code =? 9 then WrapCloseFails chunks else Succeeds chunks.

Definition entry_of (e : bytes * bytes * Z * Z * list bytes) : entry :=
  let '(f, tmp, m, code, chunks) := e in (f, tmp, Z.to_N m, oc_of code chunks).

Fixpoint store_of (l : list (bytes * bytes * Z)) : fsys :=
  match l with
  | [] => fun _ => None
  | (p, content, m) :: r => set p (Some (content, Z.to_N m)) (store_of r)
  end.

Definition cell_eqb (a : option file) (b : option (bytes * Z)) : bool :=
  match a, b with
  | None, None => true
  | Some (c, m), Some (c', m') => beqb c c' && (Z.of_N m =? m')
  | _, _ => false
  end.

Definition matches (st : fsys) (obs : list (bytes * option (bytes * Z))) : bool :=
  forallb (fun pv => cell_eqb (st (fst pv)) (snd pv)) obs.

(* case = (kind, plan, files before, observed cells of every named file, every temp name of the plan and every
   other file found in the directory).
   kind 0: the process was killed -- the snapshot must be the model state after SOME prefix of the op list;
   kind 1: the process returned -- the snapshot must be the state after the complete op list. *)
Definition chk_core (kind : Z) (plan : list entry) (st : fsys) (obs : list (bytes * option (bytes * Z))) : bool :=
  let wfb := nodup_paths (map e_file plan ++ map e_tmp plan) in
  wfb &&
  (if kind =? 0
   then existsb (fun k => matches (crash_state plan k st) obs) (seq 0 (S (List.length (all_ops plan))))
   else matches (exec (all_ops plan) st) obs).

Definition chk (c : Z * list (bytes * bytes * Z * Z * list bytes) * list (bytes * bytes * Z) * list (bytes * option (bytes * Z))) : bool :=
  let '(kind, plan0, before, obs) := c in
  chk_core kind (map entry_of plan0) (store_of before) obs.

(* ---------------------------------------------------------------- trace acceptor: the file-system calls the real mlr -I issued
   on the scratch files, in order (recorded by the ptrace supervisor and projected by the driver: calls that failed
   and changed nothing are dropped except stat/close, reads of the input and os.Rename's own lstat are dropped),
   must be exactly the model's op sequence (complete runs) or a prefix of it (killed runs).
   event = (code, path, path2, number): 0 stat p | 1 create p mode | 2 write p nbytes | 3 close p | 4 rename p p2 |
   5 chmod p mode | 6 unlink p *)
Definition tev := (Z * bytes * bytes * Z)%type.

Definition erase (o : op) : list tev :=
  match o with
  | OStat f => [(0, f, [], 0)]
  | OCreate t => [(1, t, [], Z.of_N temp_mode)]
  | OAppend t ch => [(2, t, [], Z.of_nat (List.length ch))]
  | OWrapClose _ => []                       (* the wrapper's Close() is seen only through its writes *)
  | OClose t => [(3, t, [], 0)]
  | ORename t f => [(4, t, f, 0)]
  | OChmod f m => [(5, f, [], Z.of_N m)]
  | ORemove t => [(6, t, [], 0)]
  end.

Definition tev_eqb (a b : tev) : bool :=
  let '(c1, p1, q1, n1) := a in let '(c2, p2, q2, n2) := b in
  (c1 =? c2) && beqb p1 p2 && beqb q1 q2 && (n1 =? n2).

Fixpoint tevs_match (exact : bool) (tr model : list tev) : bool :=
  match tr, model with
  | [], [] => true
  | [], _ :: _ => negb exact                  (* killed: the trace may stop anywhere *)
  | a :: tr', b :: model' => tev_eqb a b && tevs_match exact tr' model'
  | _ :: _, [] => false
  end.

(* chunks are given by their lengths (the write sizes seen in the trace): only lengths are compared *)
Definition entry_of_lens (e : bytes * bytes * Z * Z * list Z) : entry :=
  let '(f, tmp, m, code, lens) := e in
  (f, tmp, Z.to_N m, oc_of code (map (fun n => repeat "x"%char (Z.to_nat n)) lens)).

(* case = (kind (1 = returned, 0 = killed), plan with chunk lengths, projected trace) *)
Definition chk_trace (c : Z * list (bytes * bytes * Z * Z * list Z) * list tev) : bool :=
  let '(kind, plan0, tr) := c in
  tevs_match (kind =? 1) tr (flat_map erase (all_ops (map entry_of_lens plan0))).

(* ---------------------------------------------------------------- the pre-pass: case = (prepipe given (1/0), encoding flag
   (0 none, 1 --bz2in, 2 --gzin, 3 --zin, 4 --zstdin), the names of the command line, observed: 1 = mlr refused with
   one of its two "not updatable in place" messages, 0 = it did not).  The model must predict exactly that. *)
Definition enc_of (n : Z) : encoding :=
  if n =? 1 then EncBzip2 else if n =? 2 then EncGzip else if n =? 3 then EncZlib else if n =? 4 then EncZstd else EncDefault.

Definition chk_pre (c : Z * Z * list bytes * Z) : bool :=
  let '(pp, fl, names, refused) := c in
  let plan := map (fun f => (f, B "t", 0%N, Missing)) names in
  Bool.eqb (match inplace_ops (pp =? 1) (enc_of fl) plan with [] => true | _ => false end) (refused =? 1).

(* ---------------------------------------------------------------- snapshots with ABSTRACT contents (outputs of many write calls, large
   compressed files): a content is (tag, literal, n):  tag 0 = the literal bytes (an identifier the driver chose: "O:<name>" for
   "bitwise the original of <name>", "?" for anything that is neither the original nor a prefix of the output);  tag 1 = n x's =
   "the first n bytes of the output" (the model's chunks are x's of the observed write sizes, Harness.entry_of_lens, the same
   abstraction the trace acceptor uses -- Refine.abs_entry).  The driver abstracts a cell to tag 1 only after comparing the
   bytes with the expected output; everything else is as in [chk]. *)
Definition acont (c : Z * bytes * Z) : bytes :=
  let '(tag, lit, n) := c in if tag =? 1 then repeat "x"%char (Z.to_nat n) else lit.

Definition chk_abs (c : Z * list (bytes * bytes * Z * Z * list Z) * list (bytes * (Z * bytes * Z) * Z)
                        * list (bytes * option ((Z * bytes * Z) * Z))) : bool :=
  let '(kind, plan0, before, obs) := c in
  chk_core kind (map entry_of_lens plan0)
           (store_of (map (fun x => let '(p, a, m) := x in (p, acont a, m)) before))
           (map (fun x => let '(p, v) := x in (p, match v with Some (a, m) => Some (acont a, m) | None => None end)) obs).
