(* C19 -- what each file receives under -I, composed with C05's model of the reader, the contexts and the verb chain.
   Definitions only.

   pkg/entrypoint/entrypoint.go processFilesInPlace / processFileInPlace: for EVERY file name the command line is parsed
   again (climain.ParseCommandLine(os.Args): fresh options, fresh verb chain -- every verb starts from its initial state)
   and stream.Stream([]string{fileName}, ...) is run with a new reader and a new context (types.NewContext) into the temp
   file.  In C05's model a verb value carries its initial state and C05.Model.read_files starts from rs0 (context ctx0,
   no header), so "fresh per file" is: apply the SAME functions to each file alone. *)
From Miller Require Import Base.Record C05.Model C19.Model.
Open Scope list_scope.

Section PerFile.
  (* reader options, verb chain and record writer of the command line (the writer: any function from the output
     records to bytes -- the formats are C01's subject) *)
  Variable o : ropts.
  Variable vs : list verb.
  Variable wr : list record -> bytes.

  (* what `mlr <options> <chain> f` prints for the file f alone: read with a new context (NR = FNR = 1.., FILENUM = 1,
     own header), every verb from its initial state (own head counts, own begin/end accumulation), then the writer *)
  Definition records_alone (f : C05.Model.file) : list record := map fst (snd (read_files o [f])).
  Definition stdout_alone (f : C05.Model.file) : bytes := wr (run_list vs (records_alone f)).

  (* what `mlr <options> <chain> f1 .. fn` WITHOUT -I prints: one reader run over all files (NR continues, one verb chain) *)
  Definition stdout_together (fs : list C05.Model.file) : bytes := wr (run_list vs (map fst (snd (read_files o fs)))).

  (* a named file: its path, the temp name CreateTemp will return, its mode, its content as C05 sees it *)
  Definition named := (path * path * fmode * C05.Model.file)%type.

  (* the -I run when every file can be processed: each temp file receives stdout_alone of ITS file (in any chunking) *)
  Definition inplace_plan (chunk : bytes -> list bytes) (files : list named) : list entry :=
    map (fun x : named => let '(p, t, m, f) := x in (p, t, m, Succeeds (chunk (stdout_alone f)))) files.
End PerFile.
