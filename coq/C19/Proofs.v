(* C19 proofs: every prefix of the in-place op sequence leaves each named file whole. *)
From Miller Require Import Base.Bytes C19.Model.
From Coq Require Import Arith PeanoNat.
Open Scope list_scope.

Notation len := List.length.

Lemma beqb_refl a : beqb a a = true.
Proof. destruct (beqb_spec a a); congruence. Qed.
Lemma beqb_neq a b : a <> b -> beqb a b = false.
Proof. destruct (beqb_spec a b); congruence. Qed.

Lemma set_same p v st : set p v st p = v.
Proof. unfold set. now rewrite beqb_refl. Qed.
Lemma set_other p v st q : q <> p -> set p v st q = st q.
Proof. unfold set. intros H. now rewrite (beqb_neq _ _ H). Qed.

Lemma exec_app a b st : exec (a ++ b) st = exec b (exec a st).
Proof. unfold exec. apply fold_left_app. Qed.

(* ---------------------------------------------------------------- frame: an op changes only the paths it names *)
Definition op_paths (o : op) : list path :=
  match o with
  | OStat f => [f] | OCreate t => [t] | OAppend t _ => [t] | OClose t => [t] | OWrapClose t => [t]
  | ORename t f => [t; f] | OChmod f _ => [f] | ORemove t => [t]
  end.

Lemma exec_op_frame o st p : ~ In p (op_paths o) -> exec_op o st p = st p.
Proof.
  destruct o; cbn; intros H; try reflexivity.
  - apply set_other. intuition congruence.
  - destruct (st tmp) as [[b m]|]; [apply set_other; intuition congruence|reflexivity].
  - destruct (st tmp) as [x|]; [|reflexivity]. rewrite !set_other by intuition congruence. reflexivity.
  - destruct (st f) as [[b m0]|]; [apply set_other; intuition congruence|reflexivity].
  - apply set_other. intuition congruence.
Qed.

Lemma exec_frame ops st p : (forall o, In o ops -> ~ In p (op_paths o)) -> exec ops st p = st p.
Proof.
  revert st. induction ops as [|o ops IH]; intros st H; [reflexivity|].
  cbn. change (exec ops (exec_op o st) p = st p). rewrite IH by (intros o' Ho'; apply H; now right).
  apply exec_op_frame. apply H. now left.
Qed.

Lemma firstn_In {A} k (l : list A) x : In x (firstn k l) -> In x l.
Proof. revert l. induction k; intros [|y l]; cbn; try tauto. intros [E|E]; auto. Qed.

(* ---------------------------------------------------------------- two-cell projection of a single file's run *)
Definition cells := (option file * option file)%type.

Definition exec2_op (o : op) (s : cells) : cells :=
  let '(a, b) := s in
  match o with
  | OStat _ | OClose _ | OWrapClose _ => s
  | OCreate _ => (a, Some ([], temp_mode))
  | OAppend _ ch => (a, match b with Some (c, m) => Some (c ++ ch, m) | None => None end)
  | ORename _ _ => match b with Some x => (Some x, None) | None => s end
  | OChmod _ m => (match a with Some (c, _) => Some (c, m) | None => None end, b)
  | ORemove _ => (a, None)
  end.
Definition exec2 (ops : list op) (s : cells) : cells := fold_left (fun s o => exec2_op o s) ops s.

Definition addressed (f tmp : path) (o : op) : Prop :=
  match o with
  | OStat p | OChmod p _ => p = f
  | OCreate p | OAppend p _ | OClose p | OWrapClose p | ORemove p => p = tmp
  | ORename p q => p = tmp /\ q = f
  end.

Lemma exec_op_cells f tmp o st :
  f <> tmp -> addressed f tmp o ->
  (exec_op o st f, exec_op o st tmp) = exec2_op o (st f, st tmp).
Proof.
  intros Hne Ha. assert (Hne' : tmp <> f) by congruence.
  destruct o as [p|p|p ch|p|p|p q|p m|p]; cbn in Ha.
  - reflexivity.
  - rewrite Ha. cbn. now rewrite set_same, set_other.
  - rewrite Ha. cbn. destruct (st tmp) as [[b m]|] eqn:E; [now rewrite set_same, set_other|now rewrite E].
  - reflexivity.
  - reflexivity.
  - destruct Ha as [-> ->]. cbn. destruct (st tmp) as [x|] eqn:E; [|now rewrite E]. now rewrite set_same, set_other, set_same.
  - rewrite Ha. cbn. destruct (st f) as [[b m0]|] eqn:E; [now rewrite set_same, set_other|now rewrite E].
  - rewrite Ha. cbn. now rewrite set_same, set_other.
Qed.

Lemma exec_cells f tmp ops st :
  f <> tmp -> Forall (addressed f tmp) ops ->
  (exec ops st f, exec ops st tmp) = exec2 ops (st f, st tmp).
Proof.
  intros Hne. revert st. induction ops as [|o ops IH]; intros st Hall; [reflexivity|].
  inversion Hall as [|? ? Ho Hall']; subst. cbn.
  change ((exec ops (exec_op o st) f, exec ops (exec_op o st) tmp) = exec2 ops (exec2_op o (st f, st tmp))).
  rewrite IH by exact Hall'. now rewrite (exec_op_cells f tmp o st Hne Ho).
Qed.

Lemma file_ops_addressed f tmp m0 oc : Forall (addressed f tmp) (file_ops f tmp m0 oc).
Proof.
  assert (Ha : forall w, Forall (addressed f tmp) (appends tmp w)).
  { intros w. unfold appends. apply Forall_forall. intros o Ho. apply in_map_iff in Ho. destruct Ho as (c & <- & _). reflexivity. }
  destruct oc; cbn; repeat (apply Forall_cons; [cbn; auto|]); try apply Forall_nil;
    apply Forall_app; split; try apply Ha; repeat (apply Forall_cons; [cbn; auto|]); apply Forall_nil.
Qed.

Lemma addressed_paths f tmp o : addressed f tmp o -> incl (op_paths o) [f; tmp].
Proof.
  destruct o as [p|p|p ch|p|p|p q|p m|p]; cbn; intros Ha x Hx.
  - destruct Hx as [<-|[]]. rewrite Ha. now left.
  - destruct Hx as [<-|[]]. rewrite Ha. right. now left.
  - destruct Hx as [<-|[]]. rewrite Ha. right. now left.
  - destruct Hx as [<-|[]]. rewrite Ha. right. now left.
  - destruct Hx as [<-|[]]. rewrite Ha. right. now left.
  - destruct Ha as [-> ->]. destruct Hx as [<-|[<-|[]]]; [right; now left|now left].
  - destruct Hx as [<-|[]]. rewrite Ha. now left.
  - destruct Hx as [<-|[]]. rewrite Ha. right. now left.
Qed.

Lemma file_ops_paths f tmp m0 oc o : In o (file_ops f tmp m0 oc) -> incl (op_paths o) [f; tmp].
Proof.
  intros Hin. pose proof (file_ops_addressed f tmp m0 oc) as H. rewrite Forall_forall in H.
  apply addressed_paths. apply H. exact Hin.
Qed.

(* ---------------------------------------------------------------- the appends *)
Lemma is_prefix_app a b : is_prefix a (a ++ b) = true.
Proof. induction a as [|x a IH]; cbn; [reflexivity|]. now rewrite IH, Ascii.eqb_refl. Qed.

Lemma concat_firstn_prefix (w : list bytes) k : is_prefix (List.concat (firstn k w)) (List.concat w) = true.
Proof.
  rewrite <- (firstn_skipn k w) at 2. rewrite concat_app. apply is_prefix_app.
Qed.

Lemma exec2_appends tmp k w post a0 b m :
  exec2 (firstn k (appends tmp w ++ post)) (a0, Some (b, m)) =
  if Nat.leb k (len w) then (a0, Some (b ++ List.concat (firstn k w), m))
  else exec2 (firstn (k - len w) post) (a0, Some (b ++ List.concat w, m)).
Proof.
  revert k b. induction w as [|c w IH]; intros k b; cbn [appends map app len].
  - destruct k; cbn; now rewrite ?app_nil_r, ?Nat.sub_0_r.
  - destruct k as [|k]; [cbn; now rewrite app_nil_r|].
    cbn [firstn]. change (exec2 (OAppend tmp c :: ?l) ?s) with (exec2 l (exec2_op (OAppend tmp c) s)).
    cbn [exec2_op]. fold (appends tmp w). rewrite IH. cbn [Nat.leb Nat.sub List.concat].
    destruct (Nat.leb k (len w)); now rewrite <- ?app_assoc.
Qed.

(* ---------------------------------------------------------------- the states a single file's run can be cut in *)
Definition ok_cells (a0 : option file) (mode0 : fmode) (oc : outcome) (s : cells) : Prop :=
  (fst s = a0 /\ (snd s = None \/ exists w, snd s = Some (w, temp_mode) /\ is_prefix w (produced oc) = true))
  \/ (renames oc = true /\ snd s = None /\
      (fst s = Some (produced oc, temp_mode) \/ fst s = Some (produced oc, mode0))).

Definition final_cell (a0 : option file) (mode0 : fmode) (oc : outcome) : option file :=
  match oc with
  | Succeeds ch => Some (List.concat ch, mode0)
  | ChmodFails ch => Some (List.concat ch, temp_mode)
  | _ => a0
  end.

Ltac small_k k := repeat (destruct k as [|k]; [cbn; auto 10|]); cbn; auto 10.

Lemma cells_opening_then f tmp a0 k rest :
  exec2 (firstn (3 + k) (opening f tmp ++ rest)) (a0, None) = exec2 (firstn k rest) (a0, Some ([], temp_mode)).
Proof. reflexivity. Qed.

Lemma cells_prefix f tmp a0 mode0 oc k :
  ok_cells a0 mode0 oc (exec2 (firstn k (file_ops f tmp mode0 oc)) (a0, None)).
Proof.
  assert (Hstart : forall rest, (forall j, ok_cells a0 mode0 oc (exec2 (firstn j rest) (a0, Some ([], temp_mode)))) ->
                   ok_cells a0 mode0 oc (exec2 (firstn k (opening f tmp ++ rest)) (a0, None))).
  { intros rest H. destruct k as [|[|[|k]]]; try (left; cbn; auto; fail).
    change (S (S (S k))) with (3 + k). rewrite cells_opening_then. apply H. }
  assert (Hpre : forall w j, Nat.leb j (len w) = true -> produced oc = List.concat w ->
                 ok_cells a0 mode0 oc (a0, Some ([] ++ List.concat (firstn j w), temp_mode))).
  { intros w j _ Hp. left. cbn. split; [reflexivity|]. right. eexists. split; [reflexivity|]. rewrite Hp. apply concat_firstn_prefix. }
  destruct oc as [| | | |w|w|w|w|w|w]; cbn [file_ops].
  (* the outcomes with appends: cut inside the appends (Hpre), or inside the short tail of ops (enumerated) *)
  5-10: (apply Hstart; intros j; rewrite exec2_appends; destruct (Nat.leb j (len w)) eqn:E; [apply (Hpre w j E eq_refl)|];
       destruct (j - len w) as [|[|[|[|[|j']]]]]; cbn;
       first [ left; cbn; split; [reflexivity|];
               first [ left; reflexivity
                     | right; eexists; split; [reflexivity|]; rewrite <- (app_nil_r (List.concat w)) at 2; apply is_prefix_app ]
             | right; cbn; solve [auto 10] ]).
  - destruct k as [|[|k]]; left; cbn; auto.
  - destruct k as [|[|k]]; left; cbn; auto.
  - destruct k as [|[|[|k]]]; left; cbn; auto.
  - apply Hstart. intros j. destruct j as [|[|j]]; left; cbn; auto. split; [reflexivity|]. right. exists []. auto.
Qed.

Lemma exec2_all_appends tmp w post a0 b m :
  exec2 (appends tmp w ++ post) (a0, Some (b, m)) = exec2 post (a0, Some (b ++ List.concat w, m)).
Proof.
  pose proof (exec2_appends tmp (len w + len post) w post a0 b m) as H.
  rewrite firstn_all2 in H by (rewrite app_length; unfold appends; rewrite map_length; lia).
  rewrite H. destruct (Nat.leb (len w + len post) (len w)) eqn:E.
  - apply Nat.leb_le in E. assert (len post = 0) by lia. destruct post; [|discriminate]. cbn.
    replace (len w + 0) with (len w) by lia. now rewrite firstn_all.
  - replace (len w + len post - len w) with (len post) by lia. now rewrite firstn_all.
Qed.

(* after the complete op list of one file: no temp file, and the file is what the outcome says.
   a0 = Some (b, mode0) is needed only where the file is renamed over (chmod acts on the new content anyway). *)
Lemma cells_final f tmp a0 mode0 oc :
  exec2 (file_ops f tmp mode0 oc) (a0, None) = (final_cell a0 mode0 oc, None).
Proof.
  destruct oc as [| | | |w|w|w|w|w|w]; cbn [file_ops]; try reflexivity;
    change (exec2 (opening f tmp ++ ?r) (a0, None)) with (exec2 r (a0, Some ([], temp_mode)));
    rewrite exec2_all_appends; reflexivity.
Qed.

(* ---------------------------------------------------------------- several files *)
Definition files_of (plan : list entry) : list path := map e_file plan.
Definition tmps_of (plan : list entry) : list path := map e_tmp plan.

Record wf (plan : list entry) (st : fsys) : Prop := {
  wf_nodup : NoDup (files_of plan ++ tmps_of plan);
  wf_fresh : forall e, In e plan -> st (e_tmp e) = None
}.

Lemma all_ops_paths plan o : In o (all_ops plan) -> incl (op_paths o) (files_of plan ++ tmps_of plan).
Proof.
  induction plan as [|[[[f tmp] m0] oc] rest IH]; cbn; [tauto|].
  intros Hin. apply in_app_or in Hin. destruct Hin as [Hin|Hin].
  - apply file_ops_paths in Hin. intros x Hx. apply Hin in Hx. destruct Hx as [<-|[<-|[]]]; [now left|].
    right. apply in_or_app. right. now left.
  - destruct (succeeds oc); [|contradiction]. intros x Hx. apply (IH Hin) in Hx.
    apply in_app_or in Hx. destruct Hx as [Hx|Hx]; [right; apply in_or_app; now left|].
    right. apply in_or_app. right. now right.
Qed.

(* paths that are neither a named file nor one of the run's temp files are never changed *)
Theorem other_paths_untouched plan st k p :
  ~ In p (files_of plan ++ tmps_of plan) -> crash_state plan k st p = st p.
Proof.
  intros Hp. unfold crash_state. apply exec_frame. intros o Ho Hin. apply firstn_In in Ho.
  apply Hp. eapply all_ops_paths; eauto.
Qed.

Lemma wf_tail e rest st st1 :
  wf (e :: rest) st -> (forall p, p <> e_file e -> p <> e_tmp e -> st1 p = st p) -> wf rest st1.
Proof.
  intros [Hnd Hfr] Hsame. destruct e as [[[f tmp] m0] oc]. cbn in *.
  inversion Hnd as [|? ? Hf Hnd1]; subst.
  assert (Hnd2 := NoDup_remove_1 _ _ _ Hnd1). assert (Hnt := NoDup_remove_2 _ _ _ Hnd1).
  split; [exact Hnd2|].
  intros e' He'. rewrite Hsame; [apply Hfr; now right| |].
  - intros E. apply Hf. rewrite <- E. apply in_or_app. right. right. apply in_map. exact He'.
  - intros E. apply Hnt. rewrite <- E. apply in_or_app. right. apply in_map. exact He'.
Qed.

Lemma entry_paths_fresh e rest st : wf (e :: rest) st ->
  e_file e <> e_tmp e /\
  forall e', In e' rest -> e_file e' <> e_file e /\ e_file e' <> e_tmp e /\ e_tmp e' <> e_file e /\ e_tmp e' <> e_tmp e.
Proof.
  intros [Hnd _]. destruct e as [[[f tmp] m0] oc]. cbn in *.
  inversion Hnd as [|? ? Hf Hnd1]; subst. assert (Hnt := NoDup_remove_2 _ _ _ Hnd1).
  split.
  - intros ->. apply Hf. apply in_or_app. right. now left.
  - intros e' He'. repeat split; intros E.
    + apply Hf. rewrite <- E. apply in_or_app. left. apply in_map. exact He'.
    + apply Hnt. rewrite <- E. apply in_or_app. left. apply in_map. exact He'.
    + apply Hf. rewrite <- E. apply in_or_app. right. right. apply in_map. exact He'.
    + apply Hnt. rewrite <- E. apply in_or_app. right. apply in_map. exact He'.
Qed.

(* THE theorem: cut the run anywhere; every named file is whole *)
Theorem atomic_at_every_prefix plan :
  forall st k, wf plan st ->
  forall e, In e plan ->
  ok_cells (st (e_file e)) (e_mode e) (e_out e) (crash_state plan k st (e_file e), crash_state plan k st (e_tmp e)).
Proof.
  induction plan as [|e0 rest IH]; intros st k Hwf e He; [destruct He|].
  destruct (entry_paths_fresh e0 rest st Hwf) as [Hft Hothers].
  destruct e0 as [[[f tmp] m0] oc] eqn:Ee0. cbn [e_file e_tmp] in Hft, Hothers.
  unfold crash_state. cbn [all_ops]. rewrite firstn_app, exec_app.
  set (A := file_ops f tmp m0 oc) in *. set (R := if succeeds oc then all_ops rest else []) in *.
  set (st1 := exec (firstn k A) st).
  assert (Hst1 : forall p, p <> f -> p <> tmp -> st1 p = st p).
  { intros p H1 H2. apply exec_frame. intros o Ho Hin. apply firstn_In in Ho. apply file_ops_paths in Ho.
    apply Ho in Hin. destruct Hin as [<-|[<-|[]]]; congruence. }
  assert (Hwf1 : wf rest st1) by (eapply wf_tail; [exact Hwf|exact Hst1]).
  destruct He as [<-|He].
  - (* the file being processed *)
    cbn [e_file e_tmp e_mode e_out].
    assert (HR : forall p, p = f \/ p = tmp -> exec (firstn (k - len A) R) st1 p = st1 p).
    { intros p Hp. apply exec_frame. intros o Ho Hin. apply firstn_In in Ho. unfold R in Ho.
      destruct (succeeds oc); [|destruct Ho]. apply all_ops_paths in Ho. apply Ho in Hin.
      destruct Hwf as [Hnd _]. cbn in Hnd. inversion Hnd as [|? ? Hf Hnd1]; subst. assert (Hnt := NoDup_remove_2 _ _ _ Hnd1).
      destruct Hp as [-> | ->].
      - apply Hf. apply in_app_or in Hin. apply in_or_app. destruct Hin; [now left|right; now right].
      - apply Hnt. exact Hin. }
    rewrite (HR f), (HR tmp) by auto. unfold st1.
    rewrite (exec_cells f tmp (firstn k A) st Hft).
    + pose proof (wf_fresh _ _ Hwf _ (or_introl eq_refl)) as Hfr0. cbn in Hfr0. rewrite Hfr0. apply cells_prefix.
    + apply Forall_forall. intros o Ho. apply firstn_In in Ho. revert o Ho. apply Forall_forall. apply file_ops_addressed.
  - (* a later file *)
    destruct (Hothers e He) as (H1 & H2 & H3 & H4).
    rewrite <- (Hst1 (e_file e)) by assumption.
    unfold R. destruct (succeeds oc).
    + apply (IH st1 (k - len A) Hwf1 e He).
    + rewrite firstn_nil. cbn. left. cbn. split; [reflexivity|]. left.
      rewrite Hst1 by assumption. apply (wf_fresh _ _ Hwf). now right.
Qed.

Lemma NoDup_app_inv {A} (a b : list A) :
  NoDup (a ++ b) -> NoDup a /\ NoDup b /\ (forall x, In x a -> In x b -> False).
Proof.
  induction a as [|y a IH]; cbn; intros H; [repeat split; [constructor|exact H|tauto]|].
  inversion H as [|? ? Hy Hnd]; subst. destruct (IH Hnd) as (Ha & Hb & Hd).
  repeat split; [constructor; [|exact Ha]|exact Hb|].
  - intros Hin. apply Hy. apply in_or_app. now left.
  - intros x [<-|Hx] Hxb; [apply Hy; apply in_or_app; now right|eauto].
Qed.

Lemma split_disjoint {A} (a : list A) x b p : NoDup (a ++ x :: b) -> In p (a ++ [x]) -> In p b -> False.
Proof.
  intros Hnd Hp Hb. destruct (NoDup_app_inv _ _ Hnd) as (_ & Hxb & Hd).
  apply in_app_or in Hp. destruct Hp as [Hp|[<-|[]]].
  - apply (Hd p Hp). now right.
  - inversion Hxb; subst. contradiction.
Qed.

(* files after the one whose processing fails are untouched, at every prefix *)
Theorem later_files_untouched before e after :
  succeeds (e_out e) = false ->
  forall st k, wf (before ++ e :: after) st ->
  forall e', In e' after ->
  crash_state (before ++ e :: after) k st (e_file e') = st (e_file e') /\
  crash_state (before ++ e :: after) k st (e_tmp e') = None.
Proof.
  intros Hfail st k Hwf e' He'.
  assert (Hops : forall o, In o (all_ops (before ++ e :: after)) -> incl (op_paths o) (files_of (before ++ [e]) ++ tmps_of (before ++ [e]))).
  { clear - Hfail. induction before as [|[[[f tmp] m0] oc] before IH]; cbn.
    - destruct e as [[[f tmp] m0] oc]. cbn in *. intros o Ho. rewrite Hfail, app_nil_r in Ho.
      apply file_ops_paths in Ho. intros x Hx. apply Ho in Hx. destruct Hx as [<-|[<-|[]]]; cbn; auto.
    - intros o Ho. apply in_app_or in Ho. destruct Ho as [Ho|Ho].
      + apply file_ops_paths in Ho. intros x Hx. apply Ho in Hx. destruct Hx as [<-|[<-|[]]]; [now left|].
        right. apply in_or_app. right. now left.
      + destruct (succeeds oc); [|destruct Ho]. intros x Hx. apply (IH o Ho) in Hx.
        apply in_app_or in Hx. destruct Hx; [right; apply in_or_app; now left|right; apply in_or_app; right; now right]. }
  destruct Hwf as [Hnd Hfr].
  assert (Hsep : forall p, In p [e_file e'; e_tmp e'] -> ~ In p (files_of (before ++ [e]) ++ tmps_of (before ++ [e]))).
  { intros p Hp Hin. unfold files_of, tmps_of in *. rewrite !map_app in *. cbn [map] in *.
    destruct (NoDup_app_inv _ _ Hnd) as (HndF & HndT & Hdis).
    assert (HpF : In p (map e_file after) \/ In p (map e_tmp after)).
    { destruct Hp as [<-|[<-|[]]]; [left|right]; apply in_map; exact He'. }
    apply in_app_or in Hin. destruct Hin as [Hin|Hin]; destruct HpF as [Ha|Ha].
    - eapply split_disjoint; [exact HndF|exact Hin|exact Ha].
    - apply (Hdis p).
      + apply in_app_or in Hin. apply in_or_app. destruct Hin as [Hin|[<-|[]]]; [now left|right; now left].
      + apply in_or_app. right. now right.
    - apply (Hdis p).
      + apply in_or_app. right. now right.
      + apply in_app_or in Hin. apply in_or_app. destruct Hin as [Hin|[<-|[]]]; [now left|right; now left].
    - eapply split_disjoint; [exact HndT|exact Hin|exact Ha]. }
  split.
  - unfold crash_state. apply exec_frame. intros o Ho Hin. apply firstn_In in Ho. apply (Hsep (e_file e')); [now left|]. eapply Hops; eauto.
  - unfold crash_state. rewrite exec_frame.
    + apply Hfr. apply in_or_app. right. now right.
    + intros o Ho Hin. apply firstn_In in Ho. apply (Hsep (e_tmp e')); [right; now left|]. eapply Hops; eauto.
Qed.

(* after the run has returned (normally or with a reported error) no temp file is left; and each file the run
   got to is what its outcome says *)
Theorem after_complete_run plan :
  forall st, wf plan st ->
  forall e, In e plan ->
  exec (all_ops plan) st (e_tmp e) = None /\
  (exec (all_ops plan) st (e_file e) = final_cell (st (e_file e)) (e_mode e) (e_out e)
   \/ exec (all_ops plan) st (e_file e) = st (e_file e)).
Proof.
  induction plan as [|e0 rest IH]; intros st Hwf e He; [destruct He|].
  destruct (entry_paths_fresh e0 rest st Hwf) as [Hft Hothers].
  destruct e0 as [[[f tmp] m0] oc] eqn:Ee0. cbn [e_file e_tmp] in Hft, Hothers.
  cbn [all_ops]. rewrite exec_app.
  set (A := file_ops f tmp m0 oc) in *. set (R := if succeeds oc then all_ops rest else []) in *.
  set (st1 := exec A st).
  assert (Hst1 : forall p, p <> f -> p <> tmp -> st1 p = st p).
  { intros p H1 H2. apply exec_frame. intros o Ho Hin. apply file_ops_paths in Ho.
    apply Ho in Hin. destruct Hin as [<-|[<-|[]]]; congruence. }
  assert (Hwf1 : wf rest st1) by (eapply wf_tail; [exact Hwf|exact Hst1]).
  destruct He as [<-|He].
  - cbn [e_file e_tmp e_mode e_out].
    assert (HR : forall p, p = f \/ p = tmp -> exec R st1 p = st1 p).
    { intros p Hp. apply exec_frame. intros o Ho Hin. unfold R in Ho.
      destruct (succeeds oc); [|destruct Ho]. apply all_ops_paths in Ho. apply Ho in Hin.
      destruct Hwf as [Hnd _]. cbn in Hnd. inversion Hnd as [|? ? Hf Hnd1]; subst. assert (Hnt := NoDup_remove_2 _ _ _ Hnd1).
      destruct Hp as [-> | ->].
      - apply Hf. apply in_app_or in Hin. apply in_or_app. destruct Hin; [now left|right; now right].
      - apply Hnt. exact Hin. }
    rewrite (HR f), (HR tmp) by auto. unfold st1.
    pose proof (exec_cells f tmp A st Hft (file_ops_addressed f tmp m0 oc)) as Hc.
    pose proof (wf_fresh _ _ Hwf _ (or_introl eq_refl)) as Hfr0. cbn in Hfr0.
    rewrite Hfr0 in Hc. unfold A in Hc. rewrite cells_final in Hc.
    inversion Hc as [[H1 H2]]. split; [reflexivity|now left].
  - destruct (Hothers e He) as (H1 & H2 & H3 & H4).
    unfold R. destruct (succeeds oc).
    + destruct (IH st1 Hwf1 e He) as [Ht Hf]. split; [exact Ht|]. rewrite (Hst1 (e_file e)) in Hf by assumption. exact Hf.
    + cbn. split.
      * rewrite Hst1 by assumption. apply (wf_fresh _ _ Hwf). now right.
      * right. apply Hst1; assumption.
Qed.

(* all files succeed: each holds its complete transformed bytes with its original mode *)
Theorem all_succeed plan :
  forall st, wf plan st -> (forall e, In e plan -> succeeds (e_out e) = true) ->
  forall e, In e plan ->
  exec (all_ops plan) st (e_file e) = Some (produced (e_out e), e_mode e) /\ exec (all_ops plan) st (e_tmp e) = None.
Proof.
  induction plan as [|e0 rest IH]; intros st Hwf Hall e He; [destruct He|].
  destruct (entry_paths_fresh e0 rest st Hwf) as [Hft Hothers].
  pose proof (Hall e0 (or_introl eq_refl)) as Hs0.
  destruct e0 as [[[f tmp] m0] oc] eqn:Ee0. cbn [e_file e_tmp e_out] in Hft, Hothers, Hs0.
  cbn [all_ops]. rewrite exec_app, Hs0.
  set (A := file_ops f tmp m0 oc) in *. set (st1 := exec A st).
  assert (Hst1 : forall p, p <> f -> p <> tmp -> st1 p = st p).
  { intros p H1 H2. apply exec_frame. intros o Ho Hin. apply file_ops_paths in Ho.
    apply Ho in Hin. destruct Hin as [<-|[<-|[]]]; congruence. }
  assert (Hwf1 : wf rest st1) by (eapply wf_tail; [exact Hwf|exact Hst1]).
  destruct He as [<-|He].
  - cbn [e_file e_tmp e_mode e_out].
    assert (HR : forall p, p = f \/ p = tmp -> exec (all_ops rest) st1 p = st1 p).
    { intros p Hp. apply exec_frame. intros o Ho Hin. apply all_ops_paths in Ho. apply Ho in Hin.
      destruct Hwf as [Hnd _]. cbn in Hnd. inversion Hnd as [|? ? Hf Hnd1]; subst. assert (Hnt := NoDup_remove_2 _ _ _ Hnd1).
      destruct Hp as [-> | ->].
      - apply Hf. apply in_app_or in Hin. apply in_or_app. destruct Hin; [now left|right; now right].
      - apply Hnt. exact Hin. }
    rewrite (HR f), (HR tmp) by auto. unfold st1.
    pose proof (exec_cells f tmp A st Hft (file_ops_addressed f tmp m0 oc)) as Hc.
    pose proof (wf_fresh _ _ Hwf _ (or_introl eq_refl)) as Hfr0. cbn in Hfr0.
    rewrite Hfr0 in Hc. unfold A in Hc. rewrite cells_final in Hc.
    inversion Hc as [[H1 H2]]. destruct oc; try discriminate. cbn. auto.
  - apply (IH st1 Hwf1 (fun e' He' => Hall e' (or_intror He')) e He).
Qed.

(* the window between rename and chmod: content complete, mode still the temp file's 0600 *)
Lemma rename_chmod_window f tmp m0 ch st :
  f <> tmp -> st tmp = None ->
  let ops := all_ops [(f, tmp, m0, Succeeds ch)] in
  crash_state [(f, tmp, m0, Succeeds ch)] (len ops - 1) st f = Some (List.concat ch, temp_mode).
Proof.
  intros Hne Hfr. cbn zeta. unfold crash_state. cbn [all_ops succeeds]. rewrite app_nil_r.
  cbn [file_ops]. rewrite !app_length. unfold appends. rewrite map_length. cbn [len opening].
  replace (3 + (len ch + 4) - 1) with (3 + (len ch + 3)) by lia.
  set (ops := firstn (3 + (len ch + 3)) (opening f tmp ++ map (OAppend tmp) ch ++ [OWrapClose tmp; OClose tmp; ORename tmp f; OChmod f m0])).
  assert (Hadd : Forall (addressed f tmp) ops).
  { apply Forall_forall. intros o Ho. apply firstn_In in Ho. revert o Ho. apply Forall_forall.
    apply (file_ops_addressed f tmp m0 (Succeeds ch)). }
  pose proof (exec_cells f tmp ops st Hne Hadd) as Hc. rewrite Hfr in Hc. unfold ops in Hc.
  rewrite cells_opening_then in Hc. fold (appends tmp ch) in Hc. rewrite exec2_appends in Hc.
  replace (Nat.leb (len ch + 3) (len ch)) with false in Hc by (symmetry; apply Nat.leb_gt; lia).
  replace (len ch + 3 - len ch) with 3 in Hc by lia. cbn in Hc. inversion Hc as [[H1 H2]]. exact H1.
Qed.

(* ================================================================ the pre-pass: refusals before any write *)
Lemma inplace_ops_refused prepipe flag plan :
  (exists e, In e plan /\ updatable prepipe flag (e_file e) = false) -> inplace_ops prepipe flag plan = [].
Proof.
  intros (e & Hin & Hu). unfold inplace_ops.
  destruct (forallb (fun e => updatable prepipe flag (e_file e)) plan) eqn:E; [|reflexivity].
  rewrite forallb_forall in E. specialize (E e Hin). cbn in E. congruence.
Qed.

Lemma refusals_before_any_write prepipe flag plan :
  (exists e, In e plan /\ updatable prepipe flag (e_file e) = false) ->
  forall st k p, exec (firstn k (inplace_ops prepipe flag plan)) st p = st p.
Proof. intros H st k p. rewrite (inplace_ops_refused _ _ _ H). now rewrite firstn_nil. Qed.

Lemma inplace_ops_accepted prepipe flag plan :
  (forall e, In e plan -> updatable prepipe flag (e_file e) = true) -> inplace_ops prepipe flag plan = all_ops plan.
Proof.
  intros H. unfold inplace_ops. replace (forallb (fun e => updatable prepipe flag (e_file e)) plan) with true; [reflexivity|].
  symmetry. apply forallb_forall. exact H.
Qed.

Lemma updatable_spec prepipe flag f :
  updatable prepipe flag f = true <->
  is_url f = false /\ prepipe = false /\ input_encoding flag f <> EncBzip2.
Proof.
  unfold updatable. rewrite !andb_true_iff, !negb_true_iff. split.
  - intros [[H1 H2] H3]. repeat split; auto. intros E. rewrite E in H3. discriminate.
  - intros (H1 & H2 & H3). repeat split; auto. destruct (input_encoding flag f); auto. congruence.
Qed.

(* gzip, zlib and zstd inputs (by flag) are accepted whatever the name's suffix; bzip2 (by flag) never *)
Lemma compressions_accepted f :
  is_url f = false ->
  updatable false EncGzip f = true /\ updatable false EncZlib f = true /\ updatable false EncZstd f = true /\
  updatable false EncBzip2 f = false.
Proof. intros H. unfold updatable. rewrite H. cbn. auto. Qed.
