(* C19 property theorems.  Only statements closed by [exact]; each followed by Print Assumptions.
   All are about Model.all_ops / Model.crash_state -- the definitions Harness.chk evaluates against what the real
   `mlr -I` leaves in a directory when it is killed at a system call, made to fail at one, or runs to the end.
   [wf plan st]: the named files and the temp names are pairwise distinct and the temp names do not exist yet
   (os.CreateTemp guarantees a new name).  ok_cells a0 mode0 oc (file cell, temp cell) says:
     the file cell is still exactly a0 (original bytes AND mode) and the temp file is absent or holds a prefix of
     the output with mode 0600,  OR  the outcome renames, no temp file exists, and the file holds the COMPLETE
     output with mode 0600 (window between rename and chmod) or with its original mode. *)
From Miller Require Import Base.Bytes Base.Record C05.Model C19.Model C19.Proofs C19.ModelRun C19.ProofsRun C19.Harness C19.Refine.
Open Scope list_scope.

(* crash at ANY point, any number of files, any outcome per file (success, DSL/input error mid-stream, refusal,
   unwritable directory, failure of the recompressor's Close() while it flushes its tail, close/rename/chmod failure):
   every named file is whole -- original or complete new bytes *)
Theorem C19_atomic_at_every_prefix :
  forall plan st k, wf plan st -> forall e, In e plan ->
  ok_cells (st (e_file e)) (e_mode e) (e_out e) (crash_state plan k st (e_file e), crash_state plan k st (e_tmp e)).
Proof. exact atomic_at_every_prefix. Qed.
Print Assumptions C19_atomic_at_every_prefix.

(* the content clause spelled out: never truncated, empty or mixed *)
Corollary C19_file_is_original_or_complete :
  forall plan st k, wf plan st -> forall e, In e plan ->
  crash_state plan k st (e_file e) = st (e_file e) \/
  exists m, crash_state plan k st (e_file e) = Some (produced (e_out e), m) /\ renames (e_out e) = true.
Proof.
  exact (fun plan st k Hwf e He =>
    match atomic_at_every_prefix plan st k Hwf e He with
    | or_introl (conj H _) => or_introl H
    | or_intror (conj Hr (conj _ (or_introl H))) => or_intror (ex_intro _ temp_mode (conj H Hr))
    | or_intror (conj Hr (conj _ (or_intror H))) => or_intror (ex_intro _ (e_mode e) (conj H Hr))
    end).
Qed.
Print Assumptions C19_file_is_original_or_complete.

(* files after the one whose processing fails are untouched (bytes and mode) and get no temp file, at every prefix *)
Theorem C19_later_files_untouched :
  forall before e after, succeeds (e_out e) = false ->
  forall st k, wf (before ++ e :: after) st -> forall e', In e' after ->
  crash_state (before ++ e :: after) k st (e_file e') = st (e_file e') /\
  crash_state (before ++ e :: after) k st (e_tmp e') = None.
Proof. exact later_files_untouched. Qed.
Print Assumptions C19_later_files_untouched.

(* nothing else in the file system is touched *)
Theorem C19_other_paths_untouched :
  forall plan st k p, ~ In p (files_of plan ++ tmps_of plan) -> crash_state plan k st p = st p.
Proof. exact other_paths_untouched. Qed.
Print Assumptions C19_other_paths_untouched.

(* when the run returns -- normally or through the error path, whatever the failure -- no temp file is left, and
   every file is either as before or exactly what its outcome says (new bytes with the original mode on success;
   new bytes with mode 0600 if only the final chmod failed) *)
Theorem C19_no_temp_after_reported_failure :
  forall plan st, wf plan st -> forall e, In e plan ->
  exec (all_ops plan) st (e_tmp e) = None /\
  (exec (all_ops plan) st (e_file e) = final_cell (st (e_file e)) (e_mode e) (e_out e)
   \/ exec (all_ops plan) st (e_file e) = st (e_file e)).
Proof. exact after_complete_run. Qed.
Print Assumptions C19_no_temp_after_reported_failure.

(* success: complete new bytes, ORIGINAL mode, for every file *)
Theorem C19_success_content_and_mode_preserved :
  forall plan st, wf plan st -> (forall e, In e plan -> succeeds (e_out e) = true) ->
  forall e, In e plan ->
  exec (all_ops plan) st (e_file e) = Some (produced (e_out e), e_mode e) /\ exec (all_ops plan) st (e_tmp e) = None.
Proof. exact all_succeed. Qed.
Print Assumptions C19_success_content_and_mode_preserved.

(* the rename..chmod window, stated explicitly: one step before the end the file has its complete new content
   but the temp file's mode 0600 *)
Theorem C19_rename_chmod_window :
  forall f tmp m0 ch st, f <> tmp -> st tmp = None ->
  crash_state [(f, tmp, m0, Succeeds ch)] (List.length (all_ops [(f, tmp, m0, Succeeds ch)]) - 1) st f
  = Some (List.concat ch, temp_mode).
Proof. exact rename_chmod_window. Qed.
Print Assumptions C19_rename_chmod_window.

(* On success each file equals what the same command WITHOUT -I prints for that file ALONE: for every reader option set,
   every chain of C05-modelled verbs, every writer and every chunking of the output, after `mlr -I` over f1..fn each
   file holds exactly stdout_alone(fi) = writer (chain from its INITIAL state (records of fi read with a NEW context:
   NR/FNR from 1, FILENUM 1, own header)), with its original mode, and no temp file is left.  stdout_alone is built from
   C05.Model.read_files / run_list, the definitions C05's correspondence ties to the real reader and verbs; that the
   temp file receives what the command prints for that file alone is tied here by the oracle (file == stdout of the
   same command without -I on that file, for head / NR / FNR / FILENAME / begin-end scenarios). *)
Theorem C19_success_equals_stdout_run_per_file :
  forall o vs wr chunk files st,
  (forall b, List.concat (chunk b) = b) ->
  wf (inplace_plan o vs wr chunk files) st ->
  forall p t m f, In (p, t, m, f) files ->
  exec (all_ops (inplace_plan o vs wr chunk files)) st p = Some (stdout_alone o vs wr f, m) /\
  exec (all_ops (inplace_plan o vs wr chunk files)) st t = None.
Proof. exact success_equals_stdout_run_per_file. Qed.
Print Assumptions C19_success_equals_stdout_run_per_file.

(* non-vacuous, and NOT the same as the run without -I over all files together: `head -n 1 then put $nr=NR` over two DKVP
   files -- in place each file keeps ITS first record with nr=1; the plain run prints one record in total *)
Example C19_per_file_nonvacuous :
  let o := ROpts MPairs false true false in
  let vs := [v_head 1] in
  let wr := fun rs : list record => List.concat (map (fun r => List.concat (map (fun kv => fst kv ++ B "=" ++ snd kv ++ B ";") r)) rs) in
  let f1 : C05.Model.file := (B "a", [[(B "x", B "1")]; [(B "x", B "2")]]) in
  let f2 : C05.Model.file := (B "b", [[(B "x", B "3")]; [(B "x", B "4")]]) in
  let st : fsys := set (B "a") (Some (B "old", 420%N)) (set (B "b") (Some (B "old", 384%N)) (fun _ => None)) in
  let plan := inplace_plan o vs wr (fun b => [b]) [(B "a", B "t1", 420%N, f1); (B "b", B "t2", 384%N, f2)] in
  nodup_paths (files_of plan ++ tmps_of plan) = true /\
  exec (all_ops plan) st (B "a") = Some (B "x=1;", 420%N) /\
  exec (all_ops plan) st (B "b") = Some (B "x=3;", 384%N) /\
  stdout_together o vs wr [f1; f2] = B "x=1;".
Proof. vm_compute. repeat split; reflexivity. Qed.

(* inputs that cannot be updated in place -- URLs (http:// https:// file://), any name under --prepipe/--prepipex, bzip2 by
   flag or by .bz2 suffix -- are refused BEFORE ANYTHING IS MODIFIED: if ANY name of the command line is such an input
   (first, middle or LAST in the list), the command performs no file-system operation at all, so every path of the file
   system is as before at every instant.  (processFilesInPlace pre-pass; before the repair the check was made when the
   file's turn came, after the files named before it had been rewritten.) *)
Theorem C19_refusals_before_any_write :
  forall prepipe flag plan,
  (exists e, In e plan /\ updatable prepipe flag (e_file e) = false) ->
  inplace_ops prepipe flag plan = [] /\
  forall st k p, exec (firstn k (inplace_ops prepipe flag plan)) st p = st p.
Proof.
  exact (fun prepipe flag plan H => conj (inplace_ops_refused prepipe flag plan H) (refusals_before_any_write prepipe flag plan H)).
Qed.
Print Assumptions C19_refusals_before_any_write.

(* ... and otherwise the command is exactly the per-file sequence all the theorems above are about *)
Theorem C19_updatable_inputs_are_processed :
  forall prepipe flag plan,
  (forall e, In e plan -> updatable prepipe flag (e_file e) = true) -> inplace_ops prepipe flag plan = all_ops plan.
Proof. exact inplace_ops_accepted. Qed.
Print Assumptions C19_updatable_inputs_are_processed.

(* which inputs are accepted: not a URL, no prepipe, encoding (flag, else suffix) other than bzip2; gzip / zlib / zstd by
   flag are accepted whatever the name (since the zstd repair all three are rewritten compressed) *)
Theorem C19_accepted_inputs :
  forall prepipe flag f,
  (updatable prepipe flag f = true <-> is_url f = false /\ prepipe = false /\ input_encoding flag f <> EncBzip2) /\
  (is_url f = false ->
   updatable false EncGzip f = true /\ updatable false EncZlib f = true /\ updatable false EncZstd f = true /\
   updatable false EncBzip2 f = false).
Proof. exact (fun prepipe flag f => conj (updatable_spec prepipe flag f) (compressions_accepted f)). Qed.
Print Assumptions C19_accepted_inputs.

(* the refusal hypotheses are satisfiable: a good file first, a .bz2 name LAST; and a URL under no flag *)
Example C19_refusal_nonvacuous :
  let plan := [(B "good.csv", B "t1", 420%N, Succeeds [B "new"]); (B "x.bz2", B "t2", 420%N, RefusedAfterCreate)] in
  inplace_ops false EncDefault plan = [] /\ all_ops plan <> [] /\
  updatable false EncDefault (B "x.bz2") = false /\ updatable false EncDefault (B "https://h/x") = false /\
  updatable true EncDefault (B "good.csv") = false /\ updatable false EncDefault (B "k.csv.zst") = true /\
  inplace_ops false EncDefault [(B "good.csv", B "t1", 420%N, Succeeds [B "new"])] <> [].
Proof. vm_compute. repeat split; discriminate. Qed.

(* hypotheses are satisfiable: two files, the second fails while its recompressor is being closed *)
Example C19_nonvacuous :
  let st : fsys := set (B "a") (Some (B "old-a", 420%N)) (set (B "b") (Some (B "old-b", 384%N)) (fun _ => None)) in
  let plan := [(B "a", B "t1", 420%N, Succeeds [B "new"; B "-a"]); (B "b", B "t2", 384%N, WrapCloseFails [B "par"])] in
  nodup_paths (files_of plan ++ tmps_of plan) = true /\
  exec (all_ops plan) st (B "a") = Some (B "new-a", 420%N) /\
  exec (all_ops plan) st (B "b") = Some (B "old-b", 384%N) /\
  crash_state plan 5 st (B "t1") = Some (B "new-a", 384%N) /\
  crash_state plan 13 st (B "t2") = Some (B "par", 384%N).
Proof. vm_compute. repeat split; reflexivity. Qed.

(* ---------------------------------------------------------------- refinement: observed system-call traces.
   Harness.chk_trace is the acceptor the check runs on EVERY trace the ptrace supervisor records (returned runs, injected
   failures, runs killed at any system call; any number of write calls -- contents enter only by their lengths).  If it accepts
   the trace for the length-abstraction of a plan (the harness's plan carries the write sizes; abs_entry replaces every chunk of
   the real plan by x's of the same length), then at EVERY prefix of the observed trace the file system is in a state of the
   model -- reached by a prefix of all_ops plan with exactly that erasure -- in which each named file is bitwise its original or
   holds the complete output, the temp file is absent or a prefix of the output, and no other path has changed; a returned
   run's trace is the erasure of the whole op sequence. *)
Theorem C19_accepted_trace_satisfies_invariant :
  forall kind plan0 tr plan st,
  map entry_of_lens plan0 = map abs_entry plan ->
  chk_trace (kind, plan0, tr) = true ->
  wf plan st ->
  (forall k, exists j,
     firstn k tr = flat_map erase (firstn j (all_ops plan)) /\
     (forall e, In e plan ->
        ok_cells (st (e_file e)) (e_mode e) (e_out e) (crash_state plan j st (e_file e), crash_state plan j st (e_tmp e))) /\
     (forall p, ~ In p (files_of plan ++ tmps_of plan) -> crash_state plan j st p = st p)) /\
  (kind = 1%Z -> tr = flat_map erase (all_ops plan)).
Proof. exact chk_trace_sound. Qed.
Print Assumptions C19_accepted_trace_satisfies_invariant.

(* a returned run whose trace is accepted has gone through the whole op sequence: no temp file, every file as before or as
   its outcome says (a failure leaves the remaining files untouched: C19_later_files_untouched applies to the same plan) *)
Theorem C19_accepted_returned_run :
  forall plan st tr, wf plan st -> accepts true plan tr = true ->
  tr = flat_map erase (all_ops plan) /\
  forall e, In e plan ->
    exec (all_ops plan) st (e_tmp e) = None /\
    (exec (all_ops plan) st (e_file e) = final_cell (st (e_file e)) (e_mode e) (e_out e)
     \/ exec (all_ops plan) st (e_file e) = st (e_file e)).
Proof. exact accepted_returned_run. Qed.
Print Assumptions C19_accepted_returned_run.

(* the trace depends on the contents only through their lengths *)
Theorem C19_trace_sees_lengths_only :
  forall plan, flat_map erase (all_ops (map abs_entry plan)) = flat_map erase (all_ops plan).
Proof. exact erase_abs. Qed.
Print Assumptions C19_trace_sees_lengths_only.

Example C19_refinement_nonvacuous :
  let plan := [(B "d/a", B "d/mlr-in-place-1", 420%N, Succeeds [B "new"; B "-a"]); (B "b", B "mlr-in-place-2", 384%N, StreamFails [B "par"])] in
  let plan0 := [(B "d/a", B "d/mlr-in-place-1", 420, 8, [3; 2]); (B "b", B "mlr-in-place-2", 384, 4, [3])]%Z in
  map entry_of_lens plan0 = map abs_entry plan /\
  chk_trace (0, plan0, [(0, B "d/a", [], 0); (0, B "d/a", [], 0); (1, B "d/mlr-in-place-1", [], 384); (2, B "d/mlr-in-place-1", [], 3)])%Z = true /\
  chk_trace (1, plan0, [(0, B "d/a", [], 0)])%Z = false.
Proof. exact refine_nonvacuous. Qed.
