(* C19 property theorems.  Only statements closed by [exact]; each followed by Print Assumptions.
   All are about Model.all_ops / Model.crash_state -- the definitions Harness.chk evaluates against what the real
   `mlr -I` leaves in a directory when it is killed at a system call, made to fail at one, or runs to the end.
   [wf plan st]: the named files and the temp names are pairwise distinct and the temp names do not exist yet
   (os.CreateTemp guarantees a new name).  ok_cells a0 mode0 oc (file cell, temp cell) says:
     the file cell is still exactly a0 (original bytes AND mode) and the temp file is absent or holds a prefix of
     the output with mode 0600,  OR  the outcome renames, no temp file exists, and the file holds the COMPLETE
     output with mode 0600 (window between rename and chmod) or with its original mode. *)
From Miller Require Import Base.Bytes C19.Model C19.Proofs.
Open Scope list_scope.

(* crash at ANY point, any number of files, any outcome per file (success, DSL/input error mid-stream, refusal,
   unwritable directory, failure of the recompressor's Close() while it flushes its tail, close/rename/chmod failure):
   every named file is whole -- original or complete new bytes *)
Theorem C19_atomic_at_every_prefix :
  forall plan st k, wf plan st -> forall e, In e plan ->
  ok_cells (st (e_file e)) (e_mode e) (e_out e) (crash_state plan k st (e_file e), crash_state plan k st (e_tmp e)).
Proof. exact atomic_at_every_prefix. Qed.
Print Assumptions C19_atomic_at_every_prefix.

(* the content clause spelled out: never truncated, empty or mixed *)
Corollary C19_file_is_original_or_complete :
  forall plan st k, wf plan st -> forall e, In e plan ->
  crash_state plan k st (e_file e) = st (e_file e) \/
  exists m, crash_state plan k st (e_file e) = Some (produced (e_out e), m) /\ renames (e_out e) = true.
Proof.
  exact (fun plan st k Hwf e He =>
    match atomic_at_every_prefix plan st k Hwf e He with
    | or_introl (conj H _) => or_introl H
    | or_intror (conj Hr (conj _ (or_introl H))) => or_intror (ex_intro _ temp_mode (conj H Hr))
    | or_intror (conj Hr (conj _ (or_intror H))) => or_intror (ex_intro _ (e_mode e) (conj H Hr))
    end).
Qed.
Print Assumptions C19_file_is_original_or_complete.

(* files after the one whose processing fails are untouched (bytes and mode) and get no temp file, at every prefix *)
Theorem C19_later_files_untouched :
  forall before e after, succeeds (e_out e) = false ->
  forall st k, wf (before ++ e :: after) st -> forall e', In e' after ->
  crash_state (before ++ e :: after) k st (e_file e') = st (e_file e') /\
  crash_state (before ++ e :: after) k st (e_tmp e') = None.
Proof. exact later_files_untouched. Qed.
Print Assumptions C19_later_files_untouched.

(* nothing else in the file system is touched *)
Theorem C19_other_paths_untouched :
  forall plan st k p, ~ In p (files_of plan ++ tmps_of plan) -> crash_state plan k st p = st p.
Proof. exact other_paths_untouched. Qed.
Print Assumptions C19_other_paths_untouched.

(* when the run returns -- normally or through the error path, whatever the failure -- no temp file is left, and
   every file is either as before or exactly what its outcome says (new bytes with the original mode on success;
   new bytes with mode 0600 if only the final chmod failed) *)
Theorem C19_no_temp_after_reported_failure :
  forall plan st, wf plan st -> forall e, In e plan ->
  exec (all_ops plan) st (e_tmp e) = None /\
  (exec (all_ops plan) st (e_file e) = final_cell (st (e_file e)) (e_mode e) (e_out e)
   \/ exec (all_ops plan) st (e_file e) = st (e_file e)).
Proof. exact after_complete_run. Qed.
Print Assumptions C19_no_temp_after_reported_failure.

(* success: complete new bytes, ORIGINAL mode, for every file *)
Theorem C19_success_content_and_mode_preserved :
  forall plan st, wf plan st -> (forall e, In e plan -> succeeds (e_out e) = true) ->
  forall e, In e plan ->
  exec (all_ops plan) st (e_file e) = Some (produced (e_out e), e_mode e) /\ exec (all_ops plan) st (e_tmp e) = None.
Proof. exact all_succeed. Qed.
Print Assumptions C19_success_content_and_mode_preserved.

(* the rename..chmod window, stated explicitly: one step before the end the file has its complete new content
   but the temp file's mode 0600 *)
Theorem C19_rename_chmod_window :
  forall f tmp m0 ch st, f <> tmp -> st tmp = None ->
  crash_state [(f, tmp, m0, Succeeds ch)] (List.length (all_ops [(f, tmp, m0, Succeeds ch)]) - 1) st f
  = Some (List.concat ch, temp_mode).
Proof. exact rename_chmod_window. Qed.
Print Assumptions C19_rename_chmod_window.

(* hypotheses are satisfiable: two files, the second fails while its recompressor is being closed *)
Example C19_nonvacuous :
  let st : fsys := set (B "a") (Some (B "old-a", 420%N)) (set (B "b") (Some (B "old-b", 384%N)) (fun _ => None)) in
  let plan := [(B "a", B "t1", 420%N, Succeeds [B "new"; B "-a"]); (B "b", B "t2", 384%N, WrapCloseFails [B "par"])] in
  nodup_paths (files_of plan ++ tmps_of plan) = true /\
  exec (all_ops plan) st (B "a") = Some (B "new-a", 420%N) /\
  exec (all_ops plan) st (B "b") = Some (B "old-b", 384%N) /\
  crash_state plan 5 st (B "t1") = Some (B "new-a", 384%N) /\
  crash_state plan 13 st (B "t2") = Some (B "par", 384%N).
Proof. vm_compute. repeat split; reflexivity. Qed.
