(* C12, second model file: the verbs that rewrite fields one by one (sub / gsub / ssub, case, unspace, sec2gmt, fill-empty
   have this shape: a field acceptor plus a function of the key and/or value text) and fill-down.  Definitions only.
   The value functions (regex replacement, Unicode case mapping, time formatting, type inference deciding whether a value is
   a string) are third party to this property: they are parameters. *)
From Miller Require Import Base.Bytes Base.Record C12.Model.
Open Scope char_scope.

(* subs.go Transform, case.go transformValuesOnly, sec2gmt.go, fill_empty.go: pe.Value = f(pe.Value) on accepted fields *)
Definition map_values (accept : bytes -> bool) (fv : bytes -> bytes) (r : record) : record :=
  map (fun kv => if accept (fst kv) then (fst kv, fv (snd kv)) else kv) r.

(* case.go transformKeysOnly / transformKeysAndValues (and unspace): a new record is built with PutReference, so a new
   key that collides with an earlier one overwrites that one's value in place *)
Definition rebuild (accept : bytes -> bool) (fk fv : bytes -> bytes) (r : record) : record :=
  fold_left (fun out kv => if accept (fst kv) then put (fk (fst kv)) (fv (snd kv)) out else put (fst kv) (snd kv) out) r [].

(* the acceptors: -f names (a set), -a / no -f (all) *)
Definition accept_names (fs : list bytes) (k : bytes) : bool := mem k fs.
Definition accept_all (k : bytes) : bool := true.

(* bifs.BIF_ssub on strings: strings.Replace(s, old, new, 1) for a non-empty old *)
Fixpoint ssub_fuel (n : nat) (old new s : bytes) : bytes :=
  match n with
  | O => s
  | S n' => if prefixb old s then new ++ skipn (List.length old) s
            else match s with [] => [] | c :: t => c :: ssub_fuel n' old new t end
  end.
Definition ssub1 (old new s : bytes) : bytes := ssub_fuel (S (List.length s)) old new s.
(* gssub: strings.ReplaceAll for a non-empty old *)
Fixpoint gssub_fuel (n : nat) (old new s : bytes) : bytes :=
  match n with
  | O => s
  | S n' => match s with
            | [] => []
            | c :: t => if prefixb old s then new ++ gssub_fuel n' old new (skipn (List.length old) s)
                        else c :: gssub_fuel n' old new t
            end
  end.
Definition gssub (old new s : bytes) : bytes := gssub_fuel (S (List.length s)) old new s.

(* ------------------------------------------------------------------ fill-down
   state: lastNonNullValues, a Go map used by key only *)
Fixpoint sget (k : bytes) (st : list (bytes * bytes)) : option bytes :=
  match st with [] => None | (k', v) :: t => if beqb k k' then Some v else sget k t end.
Definition sput (k v : bytes) (st : list (bytes * bytes)) : list (bytes * bytes) := (k, v) :: st.

(* present = value != nil (-a / --only-if-absent)  or  value != nil && !value.IsVoid() *)
Definition fd_present (only_if_absent : bool) (ov : option bytes) : bool :=
  match ov with
  | None => false
  | Some v => only_if_absent || negb (beqb v [])
  end.
Definition fd_field (a : bool) (f : bytes) (sr : list (bytes * bytes) * record) : list (bytes * bytes) * record :=
  let '(st, r) := sr in
  if fd_present a (get f r) then (sput f (getd f r []) st, r)
  else match sget f st with
       | Some p => (st, put f p r)
       | None => (st, r)
       end.
(* transformSpecified: for each -f name in order; transformAll: for each key of the record (PutCopy on a present key
   keeps the list structure, so the walk sees the original keys) *)
Fixpoint fill_down_from (a all : bool) (fs : list bytes) (st : list (bytes * bytes)) (rs : list record) : list record :=
  match rs with
  | [] => []
  | r :: t => let '(st', r') := fold_left (fun sr f => fd_field a f sr) (if all then keys r else fs) (st, r) in
              r' :: fill_down_from a all fs st' t
  end.
Definition fill_down (a all : bool) (fs : list bytes) (rs : list record) : list record := fill_down_from a all fs [] rs.

(* ------------------------------------------------------------------ dispatcher (codes 30..) *)
Definition nonempty (b : bytes) : bool := negb (beqb b []).
Definition nth_b (i : nat) (l : list bytes) : bytes := nth i l [].
Definition run_verb2 (code : Z) (a b : list bytes) (rs : list record) : list record :=
  match code with
  | 30 => fill_down (nonempty (nth_b 0 b)) false a rs
  | 31 => fill_down (nonempty (nth_b 0 b)) true [] rs
  (* ssub / gssub-like verbs on values: b = [old; new; all-fields flag] *)
  | 32 => map (map_values (if nonempty (nth_b 2 b) then accept_all else accept_names a) (ssub1 (nth_b 0 b) (nth_b 1 b))) rs
  | _ => run_verb code a b rs
  end%Z.
