(* C12 lemmas. *)
From Miller Require Import Base.Bytes Base.Record C12.Model.
From Coq Require Import Permutation.

(* ------------------------------------------------------------------ basics *)
Lemma beqb_true a b : beqb a b = true <-> a = b.
Proof. destruct (beqb_spec a b); split; congruence. Qed.
Lemma beqb_false a b : beqb a b = false <-> a <> b.
Proof. destruct (beqb_spec a b); split; congruence. Qed.
Lemma beqb_sym a b : beqb a b = beqb b a.
Proof. destruct (beqb_spec a b), (beqb_spec b a); congruence. Qed.

Definition wf (r : record) : Prop := NoDup (keys r).

Lemma wf_iff r : wf_record r = true <-> wf r.
Proof. apply nodupb_NoDup. Qed.

Lemma get_None_notin k r : get k r = None <-> ~ In k (keys r).
Proof.
  induction r as [|[k' v] r IH]; cbn; [tauto|].
  destruct (beqb_spec k k') as [->|Hne]; [split; [discriminate|tauto]|].
  rewrite IH. split; [intros H [E|H']; [congruence|tauto]|tauto].
Qed.

Lemma get_Some_in k v r : get k r = Some v -> In (k, v) r.
Proof.
  induction r as [|[k' v'] r IH]; cbn; [discriminate|].
  destruct (beqb_spec k k') as [->|Hne]; [intros [= ->]; auto|auto].
Qed.

Lemma has_true_in k r : has k r = true <-> In k (keys r).
Proof.
  unfold has. destruct (get k r) eqn:E.
  - split; [intros _|reflexivity]. apply get_Some_in in E. apply (in_map fst) in E. exact E.
  - split; [discriminate|]. intros H. apply get_None_notin in E. contradiction.
Qed.

Lemma wf_tail kv r : wf (kv :: r) -> wf r.
Proof. unfold wf; cbn. inversion 1; auto. Qed.

Lemma wf_head_notin k v r : wf ((k, v) :: r) -> ~ In k (keys r).
Proof. unfold wf; cbn. inversion 1; auto. Qed.

(* ------------------------------------------------------------------ remove / filter *)
Lemma filter_all_true {A} (p : A -> bool) l : (forall x, In x l -> p x = true) -> filter p l = l.
Proof.
  induction l as [|x l IH]; intros H; cbn; [reflexivity|]. rewrite (H x) by (left; auto). f_equal. apply IH. intros; apply H; right; auto.
Qed.

Lemma filter_all_false_ {A} (p : A -> bool) l : (forall x, In x l -> p x = false) -> filter p l = [].
Proof. induction l as [|x l IH]; intros H; cbn; [reflexivity|]. rewrite (H x) by (left; auto). apply IH. intros; apply H; right; auto. Qed.

Lemma remove_filter f r : wf r -> remove f r = filter (fun kv => negb (beqb f (fst kv))) r.
Proof.
  induction r as [|[k v] r IH]; intros Hwf; cbn; [reflexivity|].
  destruct (beqb_spec f k) as [->|Hne]; cbn.
  - pose proof (wf_head_notin _ _ _ Hwf) as Hni.
    symmetry. rewrite (proj2 (filter_ext_in_iff _ (fun _ => true) r)).
    + clear. induction r; cbn; congruence.
    + intros [k' v'] Hin. cbn. apply negb_true_iff, beqb_false. intros ->. apply Hni. apply (in_map fst) in Hin. exact Hin.
  - f_equal. apply IH. eapply wf_tail; eauto.
Qed.

Lemma keys_filter_incl p r k : In k (keys (filter p r)) -> In k (keys r).
Proof. unfold keys. rewrite !in_map_iff. intros (x & <- & Hx). apply filter_In in Hx. exists x; tauto. Qed.

Lemma wf_filter p r : wf r -> wf (filter p r).
Proof.
  unfold wf. induction r as [|[k v] r IH]; cbn; [auto|]. inversion 1 as [|? ? Hni Hnd]; subst.
  destruct (p (k, v)); cbn; [constructor|]; auto. intros Hin. apply Hni. eapply keys_filter_incl; eauto.
Qed.

Lemma filter_filter {A} (p q : A -> bool) l : filter p (filter q l) = filter (fun x => q x && p x) l.
Proof. induction l as [|x l IH]; cbn; [reflexivity|]. destruct (q x); cbn; [destruct (p x); now rewrite IH|exact IH]. Qed.

(* ------------------------------------------------------------------ cut *)
Lemma mem_cons k x l : mem k (x :: l) = beqb k x || mem k l.
Proof. reflexivity. Qed.

Lemma cut_x_is_filter fs r : wf r -> cut_x fs r = filter (fun kv => negb (mem (fst kv) fs)) r.
Proof.
  unfold cut_x. revert r. induction fs as [|f fs IH]; intros r Hwf; cbn [fold_left].
  - symmetry. apply filter_all_true. reflexivity.
  - rewrite IH by (rewrite remove_filter by auto; apply wf_filter; auto).
    rewrite remove_filter by auto. rewrite filter_filter. apply filter_ext. intros [k v]. cbn.
    rewrite (beqb_sym k f). destruct (beqb f k); cbn; reflexivity.
Qed.

(* interleave two lists back according to a mask *)
Fixpoint unsplit {A} (mask : list bool) (a b : list A) : list A :=
  match mask with
  | [] => []
  | true :: m => match a with x :: a' => x :: unsplit m a' b | [] => [] end
  | false :: m => match b with x :: b' => x :: unsplit m a b' | [] => [] end
  end.

Lemma unsplit_filter {A} (p : A -> bool) l :
  unsplit (map p l) (filter p l) (filter (fun x => negb (p x)) l) = l.
Proof. induction l as [|x l IH]; cbn; [reflexivity|]. destruct (p x); cbn; congruence. Qed.

Lemma cut_complement fs r : wf r ->
  unsplit (map (fun kv => mem (fst kv) fs) r) (cut_f fs r) (cut_x fs r) = r.
Proof. intros Hwf. rewrite cut_x_is_filter by auto. unfold cut_f. apply unsplit_filter. Qed.

Lemma cut_f_x_partition fs r : wf r -> Permutation (cut_f fs r ++ cut_x fs r) r.
Proof.
  intros Hwf. rewrite cut_x_is_filter by auto. unfold cut_f. clear Hwf.
  induction r as [|x r IH]; cbn; [constructor|]. destruct (mem (fst x) fs); cbn.
  - constructor; auto.
  - eapply Permutation_trans; [apply Permutation_sym, Permutation_middle|]. constructor; auto.
Qed.

(* cut -o: the named fields that are present, first occurrence in the argument list decides the position *)
Lemma get_put k k' v r : get k (put k' v r) = if beqb k k' then Some v else get k r.
Proof.
  destruct (beqb_spec k k') as [->|Hne]; [apply get_put_same|]. apply get_put_other. congruence.
Qed.

Lemma cut_o_get fs r k : get k (cut_o fs r) = if mem k fs then get k r else None.
Proof.
  unfold cut_o. assert (G : forall out, get k (fold_left (fun out f => match get f r with Some v => put f v out | None => out end) fs out)
                          = if mem k fs then (match get k r with Some v => Some v | None => get k out end) else get k out).
  { induction fs as [|f fs IH]; intros out; cbn [fold_left]; [reflexivity|].
    rewrite IH. rewrite mem_cons. destruct (beqb_spec k f) as [->|Hne]; cbn.
    - destruct (get f r) eqn:E; [|destruct (mem f fs); reflexivity].
      rewrite get_put_same. destruct (mem f fs); reflexivity.
    - destruct (get f r) eqn:E; [|reflexivity]. rewrite get_put_other by congruence. reflexivity. }
  rewrite G. cbn. destruct (mem k fs); [destruct (get k r)|]; reflexivity.
Qed.

(* ------------------------------------------------------------------ reorder *)
Lemma remove_perm f v r : get f r = Some v -> Permutation ((f, v) :: remove f r) r.
Proof.
  induction r as [|[k v'] r IH]; cbn; [discriminate|].
  destruct (beqb_spec f k) as [->|Hne]; [intros [= ->]; apply Permutation_refl|].
  intros H. eapply Permutation_trans; [apply perm_swap|]. constructor. auto.
Qed.

Lemma move_to_head_perm f r : Permutation (move_to_head f r) r.
Proof. unfold move_to_head. destruct (get f r) eqn:E; [apply remove_perm; auto|apply Permutation_refl]. Qed.

Lemma move_to_tail_perm f r : Permutation (move_to_tail f r) r.
Proof.
  unfold move_to_tail. destruct (get f r) eqn:E; [|apply Permutation_refl].
  eapply Permutation_trans; [apply Permutation_sym, Permutation_cons_append|]. apply remove_perm; auto.
Qed.

Lemma filter_remove_out (p : field -> bool) f r :
  (forall v, p (f, v) = false) -> filter p (remove f r) = filter p r.
Proof.
  intros Hp. induction r as [|[k v] r IH]; cbn; [reflexivity|].
  destruct (beqb_spec f k) as [->|Hne]; cbn; [now rewrite Hp|]. now rewrite IH.
Qed.

Lemma move_to_head_bystanders (p : field -> bool) f r :
  (forall v, p (f, v) = false) -> filter p (move_to_head f r) = filter p r.
Proof.
  intros Hp. unfold move_to_head. destruct (get f r); [|reflexivity]. cbn. rewrite Hp. apply filter_remove_out; auto.
Qed.

Lemma move_to_tail_bystanders (p : field -> bool) f r :
  (forall v, p (f, v) = false) -> filter p (move_to_tail f r) = filter p r.
Proof.
  intros Hp. unfold move_to_tail. destruct (get f r); [|reflexivity].
  rewrite filter_app. cbn. rewrite Hp, app_nil_r. apply filter_remove_out; auto.
Qed.

Definition unnamed (fs : list bytes) (kv : field) : bool := negb (mem (fst kv) fs).

Lemma mem_rev k l : mem k (rev l) = mem k l.
Proof.
  destruct (mem k l) eqn:E.
  - apply mem_In. apply -> in_rev. apply mem_In; auto.
  - destruct (mem k (rev l)) eqn:E'; [|reflexivity]. apply mem_In in E'. apply in_rev in E'. apply mem_In in E'. congruence.
Qed.

Lemma fold_move_perm (mv : bytes -> record -> record) :
  (forall f r, Permutation (mv f r) r) ->
  forall fs r, Permutation (fold_left (fun r f => mv f r) fs r) r.
Proof.
  intros H fs. induction fs as [|f fs IH]; intros r; cbn; [apply Permutation_refl|].
  eapply Permutation_trans; [apply IH|apply H].
Qed.

Lemma fold_move_bystanders (mv : bytes -> record -> record) (all : list bytes) :
  (forall f r, mem f all = true -> filter (unnamed all) (mv f r) = filter (unnamed all) r) ->
  forall fs r, (forall f, In f fs -> mem f all = true) ->
  filter (unnamed all) (fold_left (fun r f => mv f r) fs r) = filter (unnamed all) r.
Proof.
  intros H fs. induction fs as [|f fs IH]; intros r Hin; cbn; [reflexivity|].
  rewrite IH by (intros; apply Hin; right; auto). apply H. apply Hin. left; auto.
Qed.

Lemma reorder_f_perm fs r : Permutation (reorder_f fs r) r.
Proof. apply fold_move_perm. apply move_to_head_perm. Qed.
Lemma reorder_e_perm fs r : Permutation (reorder_e fs r) r.
Proof. apply fold_move_perm. apply move_to_tail_perm. Qed.

Lemma reorder_f_bystanders fs r : filter (unnamed fs) (reorder_f fs r) = filter (unnamed fs) r.
Proof.
  unfold reorder_f. apply fold_move_bystanders.
  - intros f r' Hm. apply move_to_head_bystanders. intros v. unfold unnamed. cbn. now rewrite Hm.
  - intros f Hin. apply mem_In. apply in_rev. auto.
Qed.
Lemma reorder_e_bystanders fs r : filter (unnamed fs) (reorder_e fs r) = filter (unnamed fs) r.
Proof.
  unfold reorder_e. apply fold_move_bystanders.
  - intros f r' Hm. apply move_to_tail_bystanders. intros v. unfold unnamed. cbn. now rewrite Hm.
  - intros f Hin. apply mem_In. auto.
Qed.

(* where the named fields go: reorder -f puts the present named fields first, in argument order (wf record, distinct names) *)

(* ------------------------------------------------------------------ sparsify / fill-empty / unsparsify -f *)
Lemma sparsify_f_bystanders fs filler r : filter (unnamed fs) (sparsify_f fs filler r) = filter (unnamed fs) r.
Proof.
  unfold sparsify_f. rewrite filter_filter. apply filter_ext. intros [k v]. unfold unnamed. cbn.
  destruct (mem k fs); cbn; [now rewrite andb_false_r|reflexivity].
Qed.

Lemma sparsify_spec filler r kv : In kv (sparsify filler r) <-> In kv r /\ snd kv <> filler.
Proof.
  unfold sparsify. rewrite filter_In, negb_true_iff, beqb_false. tauto.
Qed.

Lemma fill_empty_keys fill r : keys (fill_empty fill r) = keys r.
Proof. unfold fill_empty, keys. rewrite map_map. apply map_ext. intros [k [|c v]]; reflexivity. Qed.

Lemma fill_empty_spec fill r :
  fill_empty fill r = map (fun kv => (fst kv, match snd kv with [] => fill | v => v end)) r.
Proof. unfold fill_empty. apply map_ext. intros [k [|c v]]; reflexivity. Qed.

Lemma unsparsify_f_appends fs fill r :
  exists extra, unsparsify_f fs fill r = r ++ extra /\ Forall (fun kv => In (fst kv) fs /\ snd kv = fill /\ ~ In (fst kv) (keys r)) extra.
Proof.
  unfold unsparsify_f. revert r. induction fs as [|f fs IH]; intros r; cbn [fold_left].
  - exists []. rewrite app_nil_r. split; [reflexivity|constructor].
  - destruct (has f r) eqn:E.
    + destruct (IH r) as (ex & -> & Hex). exists ex. split; [reflexivity|].
      eapply Forall_impl; [|exact Hex]. cbn. intros kv (H1 & H2 & H3). tauto.
    + destruct (IH (r ++ [(f, fill)])) as (ex & -> & Hex). exists ((f, fill) :: ex). split; [now rewrite <- app_assoc|].
      constructor.
      * cbn. repeat split; auto. intros Hin. apply has_true_in in Hin. congruence.
      * eapply Forall_impl; [|exact Hex]. cbn. intros kv (H1 & H2 & H3). repeat split; auto.
        intros Hin. apply H3. unfold keys. rewrite map_app. apply in_or_app. left. exact Hin.
Qed.

(* ------------------------------------------------------------------ unsparsify (non-streaming) *)
(* first-seen order of a list of names: keep the first occurrence of each *)
Definition first_seen (l : list bytes) : list bytes := fold_left (fun s k => if mem k s then s else s ++ [k]) l [].

Lemma union_keys_first_seen rs : union_keys rs = first_seen (List.concat (map keys rs)).
Proof.
  unfold union_keys, first_seen, add_new.
  assert (G : forall s, fold_left (fun s r => fold_left (fun s k => if mem k s then s else s ++ [k]) (keys r) s) rs s
                      = fold_left (fun s k => if mem k s then s else s ++ [k]) (List.concat (map keys rs)) s).
  { induction rs as [|r rs IH]; intros s; cbn; [reflexivity|]. rewrite fold_left_app. apply IH. }
  apply G.
Qed.

Lemma unsparsify_spec fill rs :
  unsparsify fill rs = map (fun r => map (fun k => (k, getd k r fill)) (first_seen (List.concat (map keys rs)))) rs.
Proof. unfold unsparsify, fill_to. now rewrite union_keys_first_seen. Qed.

Lemma unsparsify_rectangular fill rs o : In o (unsparsify fill rs) -> keys o = first_seen (List.concat (map keys rs)).
Proof.
  rewrite unsparsify_spec. intros H. apply in_map_iff in H. destruct H as (r & <- & _).
  unfold keys. rewrite map_map. cbn. apply map_id.
Qed.

Lemma NoDup_snoc {A} (s : list A) k : NoDup s -> ~ In k s -> NoDup (s ++ [k]).
Proof.
  induction s as [|x s IH]; cbn; intros Hs Hk; [constructor; [tauto|constructor]|].
  inversion Hs as [|? ? Hni Hnd]; subst. constructor; [|apply IH; tauto].
  rewrite in_app_iff. cbn. intros [H|[H|[]]]; [tauto|]. subst. tauto.
Qed.

Lemma first_seen_acc_nodup l s : NoDup s -> NoDup (fold_left (fun s k => if mem k s then s else s ++ [k]) l s).
Proof.
  revert s. induction l as [|k l IH]; intros s Hs; cbn; [auto|]. apply IH.
  destruct (mem k s) eqn:E; [auto|]. apply NoDup_snoc; auto. intros H. apply mem_In in H. congruence.
Qed.

Lemma first_seen_nodup l : NoDup (first_seen l).
Proof. apply first_seen_acc_nodup. constructor. Qed.

Lemma first_seen_acc_in l s k : In k (fold_left (fun s k => if mem k s then s else s ++ [k]) l s) <-> In k s \/ In k l.
Proof.
  revert s. induction l as [|x l IH]; intros s; cbn; [tauto|]. rewrite IH.
  destruct (mem x s) eqn:E.
  - apply mem_In in E. split; [tauto|]. intros [H|[H|H]]; subst; auto.
  - rewrite in_app_iff. cbn. tauto.
Qed.

Lemma first_seen_in l k : In k (first_seen l) <-> In k l.
Proof. unfold first_seen. rewrite first_seen_acc_in. cbn. tauto. Qed.

(* a record keeps its own values: getd of a present key *)
Lemma getd_present k v r d : get k r = Some v -> getd k r d = v.
Proof. unfold getd. now intros ->. Qed.

(* ------------------------------------------------------------------ sort-within-records *)
Lemma insert_field_perm kv l : Permutation (insert_field kv l) (kv :: l).
Proof.
  induction l as [|x l IH]; cbn; [apply Permutation_refl|].
  destruct (bleb (fst kv) (fst x)); [apply Permutation_refl|].
  eapply Permutation_trans; [constructor; apply IH|apply perm_swap].
Qed.

Lemma sort_fields_perm r : Permutation (sort_fields r) r.
Proof.
  induction r as [|x r IH]; cbn; [constructor|].
  eapply Permutation_trans; [apply insert_field_perm|]. constructor. exact IH.
Qed.

Lemma bleb_total a b : bleb a b = false -> bleb b a = true.
Proof.
  revert b. induction a as [|x a IH]; intros [|y b]; cbn; try discriminate; try reflexivity.
  destruct (code x <? code y)%N eqn:E1; [discriminate|].
  destruct (code y <? code x)%N eqn:E2; [reflexivity|]. apply IH.
Qed.

Lemma bleb_trans a b c : bleb a b = true -> bleb b c = true -> bleb a c = true.
Proof.
  revert b c. induction a as [|x a IH]; intros [|y b] [|z c]; cbn; try discriminate; try reflexivity.
  destruct (code x <? code y)%N eqn:E1, (code y <? code z)%N eqn:E2;
    destruct (code y <? code x)%N eqn:E3; destruct (code z <? code y)%N eqn:E4;
    destruct (code x <? code z)%N eqn:E5; destruct (code z <? code x)%N eqn:E6; try discriminate; try reflexivity;
    try (rewrite ?N.ltb_lt, ?N.ltb_ge in *; lia).
  intros. eapply IH; eauto.
Qed.

Inductive sorted_keys : record -> Prop :=
| sk_nil : sorted_keys []
| sk_one x : sorted_keys [x]
| sk_cons x y l : bleb (fst x) (fst y) = true -> sorted_keys (y :: l) -> sorted_keys (x :: y :: l).

Lemma insert_field_sorted kv l : sorted_keys l -> sorted_keys (insert_field kv l).
Proof.
  induction 1 as [|x|x y l Hxy Hs IH]; cbn.
  - constructor.
  - destruct (bleb (fst kv) (fst x)) eqn:E; constructor; auto using sk_one. apply bleb_total; auto.
  - destruct (bleb (fst kv) (fst x)) eqn:E.
    + constructor; auto. constructor; auto.
    + cbn in IH. destruct (bleb (fst kv) (fst y)) eqn:E2.
      * constructor; [apply bleb_total; auto|]. exact IH.
      * constructor; auto.
Qed.

Lemma sort_fields_sorted r : sorted_keys (sort_fields r).
Proof. induction r as [|x r IH]; cbn; [constructor|]. apply insert_field_sorted; auto. Qed.

(* ------------------------------------------------------------------ regularize *)
Lemma flat_map_ext_in {A B} (f g : A -> list B) l : (forall x, In x l -> f x = g x) -> flat_map f l = flat_map g l.
Proof. induction l as [|x l IH]; intros H; cbn; [reflexivity|]. rewrite H by (left; auto). rewrite IH; auto. intros; apply H; right; auto. Qed.

Lemma pick_own_keys r : wf r -> pick (keys r) r = r.
Proof.
  induction r as [|[k v] r IH]; intros Hwf; cbn; [reflexivity|].
  rewrite beqb_refl. cbn. f_equal.
  pose proof (wf_head_notin _ _ _ Hwf) as Hni. rewrite <- (IH (wf_tail _ _ Hwf)) at 2.
  unfold pick. apply flat_map_ext_in. intros f Hf. cbn.
  destruct (beqb_spec f k) as [->|Hne]; [contradiction|reflexivity].
Qed.

Lemma flat_map_perm {A B} (f : A -> list B) l l' : Permutation l l' -> Permutation (flat_map f l) (flat_map f l').
Proof.
  induction 1; cbn.
  - constructor.
  - apply Permutation_app_head; auto.
  - rewrite !app_assoc. apply Permutation_app_tail. apply Permutation_app_comm.
  - eapply Permutation_trans; eauto.
Qed.

Lemma pick_perm names r : wf r -> Permutation names (keys r) -> Permutation (pick names r) r.
Proof.
  intros Hwf Hp. rewrite <- (pick_own_keys r Hwf) at 2. unfold pick. apply flat_map_perm. exact Hp.
Qed.

(* state invariant: every remembered order is the key list of an earlier record with that signature *)
Definition sig (r : record) : bytes := joinc (sortb (keys r)).
Definition st_ok (seen : list record) (st : list (bytes * list bytes)) : Prop :=
  forall e, In e st -> exists r0, In r0 seen /\ fst e = sig r0 /\ snd e = keys r0.

Lemma regularize_from_perm seen st rs :
  st_ok seen st ->
  (forall r, In r rs -> wf r) ->
  (forall r1 r2, In r1 (seen ++ rs) -> In r2 (seen ++ rs) -> sig r1 = sig r2 -> Permutation (keys r1) (keys r2)) ->
  Forall2 (fun o r => Permutation o r) (regularize_from st rs) rs.
Proof.
  revert seen st. induction rs as [|r rs IH]; intros seen st Hst Hwf Hsig; cbn; [constructor|].
  unfold regularize_step. fold (sig r).
  destruct (find (fun e => beqb (sig r) (fst e)) st) as [e|] eqn:F.
  - constructor.
    + apply find_some in F. destruct F as [Hin Heq]. apply beqb_true in Heq.
      destruct (Hst e Hin) as (r0 & Hr0 & H1 & H2). rewrite H2. apply pick_perm; [apply Hwf; left; auto|].
      apply Hsig; [apply in_or_app; auto|apply in_or_app; right; left; auto|congruence].
    + apply (IH (seen ++ [r])).
      * intros e' He'. destruct (Hst e' He') as (r0 & Hr0 & H). exists r0. split; [apply in_or_app; auto|auto].
      * intros; apply Hwf; right; auto.
      * rewrite <- app_assoc. exact Hsig.
  - constructor; [apply Permutation_refl|].
    apply (IH (seen ++ [r])).
    + intros e' He'. apply in_app_or in He'. destruct He' as [He'|[<-|[]]].
      * destruct (Hst e' He') as (r0 & Hr0 & H). exists r0. split; [apply in_or_app; auto|auto].
      * exists r. split; [apply in_or_app; right; left; auto|split; reflexivity].
    + intros; apply Hwf; right; auto.
    + rewrite <- app_assoc. exact Hsig.
Qed.

Lemma regularize_perm rs :
  (forall r, In r rs -> wf r) ->
  (forall r1 r2, In r1 rs -> In r2 rs -> sig r1 = sig r2 -> Permutation (keys r1) (keys r2)) ->
  Forall2 (fun o r => Permutation o r) (regularize rs) rs.
Proof. intros H1 H2. apply (regularize_from_perm [] []); auto. intros e []. Qed.

(* the first record of every key set passes unchanged; later ones take its key order *)
Lemma regularize_first r rs : exists t, regularize (r :: rs) = r :: t.
Proof. unfold regularize. cbn. eexists; reflexivity. Qed.

(* ------------------------------------------------------------------ rename *)
Definition ren (a b : bytes) (kv : field) : field := if beqb a (fst kv) then (b, snd kv) else kv.

Lemma rename_map_single a b : rename_map [a; b] = [(a, b)].
Proof. reflexivity. Qed.

Lemma get_single k a b : get k [(a, b)] = if beqb k a then Some b else None.
Proof. reflexivity. Qed.

Lemma walk_no_hit fuel a b done rest :
  ~ In a (keys rest) -> (List.length rest <= fuel)%nat -> rename_walk fuel [(a, b)] done rest = done ++ rest.
Proof.
  revert done rest. induction fuel as [|fuel IH]; intros done rest Hni Hlen.
  - destruct rest; [cbn; now rewrite app_nil_r|cbn in Hlen; lia].
  - destruct rest as [|[k v] t]; cbn [rename_walk]; [now rewrite app_nil_r|].
    rewrite get_single. destruct (beqb_spec k a) as [->|Hne]; [exfalso; apply Hni; left; reflexivity|].
    rewrite IH; [now rewrite <- app_assoc|intros H; apply Hni; right; auto|cbn in Hlen; lia].
Qed.

Lemma has_false_notin k r : has k r = false <-> ~ In k (keys r).
Proof.
  rewrite <- has_true_in. destruct (has k r).
  - split; [discriminate|]. intros H; exfalso; apply H; reflexivity.
  - split; [intros _; discriminate|reflexivity].
Qed.

Lemma walk_rename_fresh fuel a b done rest :
  wf rest -> ~ In b (keys done) -> ~ In b (keys rest) -> (List.length rest <= fuel)%nat ->
  rename_walk fuel [(a, b)] done rest = done ++ map (ren a b) rest.
Proof.
  revert done rest. induction fuel as [|fuel IH]; intros done rest Hwf Hd Hr Hlen.
  - destruct rest; [reflexivity|cbn in Hlen; lia].
  - destruct rest as [|[k v] t]; cbn [rename_walk map]; [now rewrite app_nil_r|].
    rewrite get_single. unfold ren at 1. cbn [fst snd]. rewrite (beqb_sym a k).
    destruct (beqb_spec k a) as [->|Hne].
    + assert (Hab : beqb a b = false).
      { apply beqb_false. intros ->. apply Hr. left. reflexivity. }
      rewrite Hab.
      assert (Hh : has b (done ++ (a, v) :: t) = false).
      { apply has_false_notin. unfold keys. rewrite map_app. cbn. rewrite in_app_iff. cbn. intros [H|[H|H]]; [tauto| |].
        - apply Hr. left. auto.
        - apply Hr. right. auto. }
      rewrite Hh. rewrite walk_no_hit; [|apply (wf_head_notin _ _ _ Hwf)|cbn in Hlen; lia].
      rewrite <- app_assoc. cbn. f_equal. f_equal. symmetry.
      rewrite <- (map_id t) at 2. apply map_ext_in. intros [k' v'] Hin. unfold ren. cbn.
      destruct (beqb_spec a k') as [->|]; [|reflexivity].
      exfalso. apply (wf_head_notin _ _ _ Hwf). apply (in_map fst) in Hin. exact Hin.
    + rewrite IH; [now rewrite <- app_assoc| eapply wf_tail; eauto | | | cbn in Hlen; lia].
      * unfold keys. rewrite map_app, in_app_iff. cbn. intros [H|[H|[]]]; [tauto|]. apply Hr. left. auto.
      * intros H. apply Hr. right. auto.
Qed.

Lemma rename_fresh a b r : wf r -> ~ In b (keys r) -> rename [a; b] r = map (ren a b) r.
Proof. intros Hwf Hb. unfold rename. rewrite rename_map_single. rewrite walk_rename_fresh; auto. Qed.

Lemma rename_inverse a b r : wf r -> ~ In b (keys r) -> rename [b; a] (rename [a; b] r) = r.
Proof.
  intros Hwf Hb. rewrite (rename_fresh a b r Hwf Hb).
  destruct (in_dec (list_eq_dec Ascii.ascii_dec) a (keys r)) as [Ha|Ha].
  - (* a present: it becomes b, and a is no longer a key *)
    assert (Hne : a <> b) by (intros ->; contradiction).
    assert (Hwf' : wf (map (ren a b) r)).
    { unfold wf, keys in *. rewrite map_map.
      clear Ha. induction r as [|[k v] r IH]; cbn; [constructor|]. inversion Hwf as [|? ? Hni Hnd]; subst.
      constructor.
      - rewrite in_map_iff. intros ([k' v'] & Heq & Hin). apply (in_map fst) in Hin. cbn in Hin.
        unfold ren in Heq. cbn [fst snd] in Heq.
        destruct (beqb_spec a k) as [Eak|Hak]; destruct (beqb_spec a k') as [Eak'|Hak']; cbn [fst] in Heq.
        + apply Hni. rewrite <- Eak, Eak'. exact Hin.
        + apply Hb. right. rewrite <- Heq. exact Hin.
        + apply Hb. left. cbn. congruence.
        + apply Hni. rewrite <- Heq. exact Hin.
      - apply IH; auto. intros H; apply Hb; right; auto. }
    assert (Ha' : ~ In a (keys (map (ren a b) r))).
    { unfold keys. rewrite map_map, in_map_iff. intros ([k v] & Heq & Hin). unfold ren in Heq. cbn in Heq.
      destruct (beqb_spec a k); cbn in Heq; congruence. }
    rewrite rename_fresh by auto. rewrite map_map. rewrite <- (map_id r) at 2. apply map_ext_in.
    intros [k v] Hin. unfold ren. cbn. destruct (beqb_spec a k) as [->|Hak]; cbn.
    + now rewrite beqb_refl.
    + destruct (beqb_spec b k) as [->|]; [|reflexivity]. exfalso. apply Hb. apply (in_map fst) in Hin. exact Hin.
  - (* a absent: both renames are no-ops *)
    assert (E : map (ren a b) r = r).
    { rewrite <- (map_id r) at 2. apply map_ext_in. intros [k v] Hin. unfold ren. cbn.
      destruct (beqb_spec a k) as [->|]; [|reflexivity]. exfalso. apply Ha. apply (in_map fst) in Hin. exact Hin. }
    rewrite E. unfold rename. rewrite rename_map_single. apply (walk_no_hit _ b a [] r); auto.
Qed.

(* bystanders: fields whose name is neither an old nor a new name keep name, value and relative order *)
Definition rename_bystander (m : record) (kv : field) : bool := negb (mem (fst kv) (keys m)) && negb (mem (fst kv) (values m)).

Lemma get_in_keys_values k n m : get k m = Some n -> mem k (keys m) = true /\ mem n (values m) = true.
Proof.
  intros H. apply get_Some_in in H. split; apply mem_In.
  - apply (in_map fst) in H. exact H.
  - apply (in_map snd) in H. exact H.
Qed.

Lemma filter_setv_out (p : field -> bool) n v r : (forall x, p (n, x) = false) -> filter p (setv n v r) = filter p r.
Proof.
  intros Hp. unfold setv. induction r as [|[k x] r IH]; cbn; [reflexivity|].
  destruct (beqb_spec n k) as [->|Hne]; cbn; [now rewrite !Hp|]. now rewrite IH.
Qed.

Lemma walk_bystanders fuel m done rest :
  filter (rename_bystander m) (rename_walk fuel m done rest) = filter (rename_bystander m) (done ++ rest).
Proof.
  revert done rest. induction fuel as [|fuel IH]; intros done rest; cbn [rename_walk]; [reflexivity|].
  destruct rest as [|[k v] t]; [now rewrite app_nil_r|].
  destruct (get k m) as [n|] eqn:G.
  - destruct (get_in_keys_values _ _ _ G) as [Hk Hn].
    assert (Pk : forall x, rename_bystander m (k, x) = false) by (intros; unfold rename_bystander; cbn; now rewrite Hk).
    assert (Pn : forall x, rename_bystander m (n, x) = false) by (intros; unfold rename_bystander; cbn; now rewrite Hn, andb_false_r).
    destruct (beqb k n); [rewrite IH; now rewrite <- app_assoc|].
    destruct (has n (done ++ (k, v) :: t)).
    + rewrite IH. rewrite !filter_app. cbn. rewrite Pk. rewrite !filter_setv_out by auto. reflexivity.
    + rewrite IH. rewrite !filter_app. cbn. rewrite Pk, Pn. now rewrite app_nil_r.
  - rewrite IH. now rewrite <- app_assoc.
Qed.

Lemma rename_bystanders names r :
  filter (rename_bystander (rename_map names)) (rename names r) = filter (rename_bystander (rename_map names)) r.
Proof. unfold rename. now rewrite walk_bystanders. Qed.

(* ------------------------------------------------------------------ nest explode / implode across records *)
Lemma split1_nonempty sep s : split1 sep s <> [].
Proof. destruct s as [|c s]; cbn; [discriminate|]. destruct (Ascii.eqb c sep); [discriminate|]. destruct (split1 sep s); discriminate. Qed.

Lemma join_split1 sep s : join_with [sep] (split1 sep s) = s.
Proof.
  induction s as [|c s IH]; [reflexivity|]. cbn [split1].
  pose proof (split1_nonempty sep s) as Hne.
  destruct (split1 sep s) as [|h t] eqn:E; [congruence|].
  destruct (Ascii.eqb_spec c sep) as [->|Hc].
  - change (join_with [sep] ([] :: h :: t)) with ([] ++ [sep] ++ join_with [sep] (h :: t)). rewrite IH. reflexivity.
  - destruct t as [|h' t].
    + cbn in *. now rewrite IH.
    + change (join_with [sep] ((c :: h) :: h' :: t)) with ((c :: h) ++ [sep] ++ join_with [sep] (h' :: t)).
      change (join_with [sep] (h :: h' :: t)) with (h ++ [sep] ++ join_with [sep] (h' :: t)) in IH.
      rewrite <- IH. reflexivity.
Qed.

Lemma remove_put_same f p r : has f r = true -> remove f (put f p r) = remove f r.
Proof.
  unfold has. induction r as [|[k v] r IH]; cbn; [discriminate|].
  destruct (beqb f k) eqn:E; cbn; rewrite E; [reflexivity|]. intros H. now rewrite IH.
Qed.

Lemma put_put_same f p q r : put f q (put f p r) = put f q r.
Proof.
  induction r as [|[k v] r IH]; cbn; [now rewrite beqb_refl|].
  destruct (beqb f k) eqn:E; cbn; rewrite E; [reflexivity|]. now rewrite IH.
Qed.

Lemma put_get_same f v r : get f r = Some v -> put f v r = r.
Proof.
  induction r as [|[k v'] r IH]; cbn; [discriminate|].
  destruct (beqb f k) eqn:E; [intros [= ->]; reflexivity|]. intros H. now rewrite IH.
Qed.

Lemma implode_same_signature f r ok ov rep vs ps :
  has f r = true -> ok = joinc (keys (remove f r)) -> ov = joinc (values (remove f r)) ->
  implode_records_from f [(ok, [(ov, (rep, vs))])] (map (fun p => put f p r) ps)
  = ([], [(ok, [(ov, (rep, vs ++ ps))])]).
Proof.
  intros Hh -> ->. revert vs. induction ps as [|p ps IH]; intros vs; cbn [map implode_records_from]; [now rewrite app_nil_r|].
  rewrite get_put_same. rewrite remove_put_same by auto. cbn [upd1 upd2]. rewrite !beqb_refl.
  rewrite IH. now rewrite <- app_assoc.
Qed.

Lemma explode_implode_single f sep r v :
  get f r = Some v -> implode_records f sep (explode_records f sep r) = [r].
Proof.
  intros G. unfold explode_records. rewrite G. unfold implode_records.
  assert (Hh : has f r = true) by (unfold has; now rewrite G).
  destruct (split1 sep v) as [|p ps] eqn:E; [exfalso; eapply split1_nonempty; eauto|].
  cbn [map implode_records_from]. rewrite get_put_same. rewrite remove_put_same by auto. cbn [upd1 upd2 app].
  pose proof (implode_same_signature f r _ _ (put f p r) [p] ps Hh eq_refl eq_refl) as X.
  unfold level1, level2, bucket in *. rewrite X. clear X.
  cbn [app map buckets_of flat_map fst snd]. rewrite put_put_same. rewrite <- E. rewrite join_split1. now rewrite put_get_same.
Qed.

(* explode across records: one copy per piece, only the named field differs *)
Lemma explode_records_bystanders f sep r o : In o (explode_records f sep r) -> remove f o = remove f r /\ keys o = keys r.
Proof.
  unfold explode_records. destruct (get f r) eqn:G; [|intros [<-|[]]; auto].
  intros H. apply in_map_iff in H. destruct H as (p & <- & _).
  assert (Hh : has f r = true) by (unfold has; now rewrite G).
  split; [apply remove_put_same; auto|apply keys_put_present; auto].
Qed.

(* ------------------------------------------------------------------ packaged statements used by Props.v *)
Lemma union_in rs k : In k (first_seen (List.concat (map keys rs))) <-> exists r, In r rs /\ In k (keys r).
Proof.
  rewrite first_seen_in, in_concat. split.
  - intros (ks & Hks & Hk). apply in_map_iff in Hks. destruct Hks as (r & <- & Hr). eauto.
  - intros (r & Hr & Hk). exists (keys r). split; auto. apply in_map; auto.
Qed.

Lemma unsparsify_full fill rs :
  unsparsify fill rs = map (fun r => map (fun k => (k, getd k r fill)) (first_seen (List.concat (map keys rs)))) rs
  /\ NoDup (first_seen (List.concat (map keys rs)))
  /\ (forall k, In k (first_seen (List.concat (map keys rs))) <-> exists r, In r rs /\ In k (keys r)).
Proof. split; [apply unsparsify_spec|]. split; [apply first_seen_nodup|apply union_in]. Qed.

Lemma walk_same_name fuel a : forall done rest,
  (List.length rest <= fuel)%nat -> rename_walk fuel [(a, a)] done rest = done ++ rest.
Proof.
  induction fuel as [|fuel IH]; intros done rest Hlen.
  - destruct rest; [cbn; now rewrite app_nil_r|cbn in Hlen; lia].
  - destruct rest as [|[k v] t]; cbn [rename_walk]; [now rewrite app_nil_r|].
    rewrite get_single. destruct (beqb_spec k a) as [->|Hne].
    + rewrite beqb_refl. rewrite IH by (cbn in Hlen; lia). now rewrite <- app_assoc.
    + rewrite IH by (cbn in Hlen; lia). now rewrite <- app_assoc.
Qed.

Lemma rename_same_name a r : rename [a; a] r = r.
Proof. unfold rename. rewrite rename_map_single. apply (walk_same_name _ a [] r). lia. Qed.

Lemma rename_inverse_gen a b r : wf r -> (b = a \/ ~ In b (keys r)) -> rename [b; a] (rename [a; b] r) = r.
Proof.
  intros Hwf [->|Hb]; [now rewrite !rename_same_name|]. apply rename_inverse; auto.
Qed.

(* ------------------------------------------------------------------ reshape wide-to-long then long-to-wide (one record) *)
Definition w2l_pairs (ins : list bytes) (r : record) : record :=
  fold_left (fun p f => match get f r with Some v => put f v p | None => p end) ins [].
Definition w2l_others (ins : list bytes) (r : record) : record :=
  fold_left (fun o kv => remove (fst kv) o) (w2l_pairs ins r) r.

Lemma put_absent k v r : ~ In k (keys r) -> put k v r = r ++ [(k, v)].
Proof.
  induction r as [|[k' v'] r IH]; cbn; intros H; [reflexivity|].
  destruct (beqb_spec k k') as [->|Hne]; [exfalso; apply H; left; reflexivity|]. f_equal. apply IH. tauto.
Qed.

Lemma get_app k a b : get k (a ++ b) = match get k a with Some v => Some v | None => get k b end.
Proof. induction a as [|[k' v'] a IH]; cbn; [reflexivity|]. destruct (beqb k k'); auto. Qed.

Lemma remove_app_absent k a b : ~ In k (keys a) -> remove k (a ++ b) = a ++ remove k b.
Proof.
  induction a as [|[k' v'] a IH]; cbn; intros H; [reflexivity|].
  destruct (beqb_spec k k') as [->|Hne]; [exfalso; apply H; left; reflexivity|]. f_equal. apply IH. tauto.
Qed.

Lemma keys_remove_incl k k' r : In k (keys (remove k' r)) -> In k (keys r).
Proof.
  induction r as [|[k2 v2] r IH]; cbn; [auto|]. destruct (beqb k' k2); cbn; [auto|]. intros [H|H]; auto.
Qed.

Lemma keys_fold_remove_incl k (ps : record) r : In k (keys (fold_left (fun o kv => remove (fst kv) o) ps r)) -> In k (keys r).
Proof.
  revert r. induction ps as [|p ps IH]; intros r; cbn; [auto|]. intros H. apply IH in H. eapply keys_remove_incl; eauto.
Qed.

Lemma wf_put k v r : wf r -> wf (put k v r).
Proof.
  intros H. unfold wf. destruct (has k r) eqn:E.
  - rewrite keys_put_present; auto.
  - rewrite keys_put_absent by auto. apply NoDup_snoc; auto. intros Hin. apply has_true_in in Hin. congruence.
Qed.

Lemma wf_w2l_pairs ins r : wf (w2l_pairs ins r).
Proof.
  unfold w2l_pairs. assert (G : forall acc, wf acc -> wf (fold_left (fun p f => match get f r with Some v => put f v p | None => p end) ins acc)).
  { induction ins as [|f ins IH]; intros acc H; cbn; [auto|]. apply IH. destruct (get f r); [apply wf_put|]; auto. }
  apply G. constructor.
Qed.

Lemma wf_remove k r : wf r -> wf (remove k r) /\ ~ In k (keys (remove k r)).
Proof.
  unfold wf. induction r as [|[k' v'] r IH]; cbn; intros H; [split; [constructor|tauto]|].
  inversion H as [|? ? Hni Hnd]; subst. destruct (beqb_spec k k') as [->|Hne]; cbn.
  - split; auto.
  - destruct (IH Hnd) as [H1 H2]. split.
    + constructor; auto. intros Hin. apply Hni. eapply keys_remove_incl; eauto.
    + intros [E|Hin]; [congruence|tauto].
Qed.

Lemma fold_remove_absent (ps : record) : forall r, wf r ->
  wf (fold_left (fun o kv => remove (fst kv) o) ps r)
  /\ forall k, In k (keys ps) -> ~ In k (keys (fold_left (fun o kv => remove (fst kv) o) ps r)).
Proof.
  induction ps as [|[k0 v0] ps IH]; intros r Hwf; cbn [fold_left]; [split; [auto|intros k []]|].
  destruct (wf_remove k0 r Hwf) as [H1 H2]. destruct (IH _ H1) as [H3 H4]. split; [auto|].
  intros k [<-|Hin]; [|auto]. cbn [fst]. intros Hin. apply keys_fold_remove_incl in Hin. contradiction.
Qed.

(* putting fields with fresh, pairwise distinct names appends them in order *)
Lemma fold_put_appends (ps : record) : forall acc,
  wf ps -> (forall k, In k (keys ps) -> ~ In k (keys acc)) ->
  fold_left (fun o kv => put (fst kv) (snd kv) o) ps acc = acc ++ ps.
Proof.
  induction ps as [|[k v] ps IH]; intros acc Hwf Hfresh; cbn [fold_left]; [now rewrite app_nil_r|].
  cbn [fst snd]. rewrite put_absent by (apply Hfresh; left; reflexivity).
  rewrite IH; [now rewrite <- app_assoc|eapply wf_tail; eauto|].
  intros k' Hk'. unfold keys. rewrite map_app, in_app_iff. cbn. intros [H|[H|[]]].
  - apply (Hfresh k'); [right; exact Hk'|exact H].
  - subst. apply (wf_head_notin _ _ _ Hwf). exact Hk'.
Qed.

Section Roundtrip.
  Variables (ko vo : bytes) (others : record).
  Hypothesis Hko : ~ In ko (keys others).
  Hypothesis Hvo : ~ In vo (keys others).
  Hypothesis Hne : ko <> vo.

  Definition long_row (kv : field) : record := put vo (snd kv) (put ko (fst kv) others).

  Lemma long_row_shape kv : long_row kv = others ++ [(ko, fst kv); (vo, snd kv)].
  Proof.
    unfold long_row. rewrite (put_absent ko) by auto. rewrite put_absent.
    - now rewrite <- app_assoc.
    - unfold keys. rewrite map_app, in_app_iff. cbn. intros [H|[H|[]]]; [tauto|congruence].
  Qed.

  Lemma long_row_get kv : get ko (long_row kv) = Some (fst kv) /\ get vo (long_row kv) = Some (snd kv)
                          /\ remove vo (remove ko (long_row kv)) = others.
  Proof.
    rewrite long_row_shape. rewrite !get_app.
    rewrite (proj2 (get_None_notin ko others) Hko), (proj2 (get_None_notin vo others) Hvo). cbn.
    rewrite !beqb_refl. destruct (beqb_spec vo ko) as [E|_]; [congruence|].
    split; [reflexivity|]. split; [reflexivity|].
    rewrite remove_app_absent by auto. cbn. rewrite beqb_refl. rewrite remove_app_absent by auto. cbn. rewrite beqb_refl.
    now rewrite app_nil_r.
  Qed.

  Lemma l2w_same_bucket ps : forall acc,
    l2w_from ko vo [(joinc (keys others), [(joinc (values others), (others, acc))])] (map long_row ps)
    = ([], [(joinc (keys others), [(joinc (values others), (others, fold_left (fun a kv => put (fst kv) (snd kv) a) ps acc))])]).
  Proof.
    induction ps as [|kv ps IH]; intros acc; cbn [map l2w_from fold_left]; [reflexivity|].
    destruct (long_row_get kv) as (G1 & G2 & G3). rewrite G1, G2, G3. cbn [upd1 upd2]. rewrite !beqb_refl. apply IH.
  Qed.

  Lemma l2w_rows ps : ps <> [] ->
    reshape_l2w ko vo (map long_row ps)
    = [fold_left (fun o kv => put (fst kv) (snd kv) o) (fold_left (fun a kv => put (fst kv) (snd kv) a) ps []) others].
  Proof.
    destruct ps as [|kv ps]; [congruence|]. intros _. unfold reshape_l2w. cbn [map l2w_from].
    destruct (long_row_get kv) as (G1 & G2 & G3). rewrite G1, G2, G3. cbn [upd1 upd2].
    pose proof (l2w_same_bucket ps (put (fst kv) (snd kv) [])) as X.
    match goal with |- context [l2w_from ?a ?b ?c ?d] =>
      match type of X with _ = ?rhs => assert (Y : l2w_from a b c d = rhs) by exact X end end.
    rewrite Y. reflexivity.
  Qed.
End Roundtrip.

Theorem reshape_w2l_l2w ins ko vo r :
  wf r -> ~ In ko (keys r) -> ~ In vo (keys r) -> ko <> vo -> w2l_pairs ins r <> [] ->
  reshape_l2w ko vo (reshape_w2l ins ko vo r) = [w2l_others ins r ++ w2l_pairs ins r].
Proof.
  intros Hwf Hko Hvo Hne Hp. unfold reshape_w2l. fold (w2l_pairs ins r). fold (w2l_others ins r).
  destruct (w2l_pairs ins r) as [|p ps] eqn:E; [congruence|]. rewrite <- E in *.
  assert (Hko' : ~ In ko (keys (w2l_others ins r))) by (intros H; apply Hko; eapply keys_fold_remove_incl; eauto).
  assert (Hvo' : ~ In vo (keys (w2l_others ins r))) by (intros H; apply Hvo; eapply keys_fold_remove_incl; eauto).
  change (map (fun kv => put vo (snd kv) (put ko (fst kv) (w2l_others ins r))) (w2l_pairs ins r))
    with (map (long_row ko vo (w2l_others ins r)) (w2l_pairs ins r)).
  rewrite l2w_rows by auto. f_equal.
  pose proof (wf_w2l_pairs ins r) as Hwp.
  rewrite (fold_put_appends (w2l_pairs ins r) []) by (auto; intros k _ []). cbn [app].
  apply fold_put_appends; [exact Hwp|].
  intros k Hk. unfold w2l_others. apply (proj2 (fold_remove_absent (w2l_pairs ins r) r Hwf)). exact Hk.
Qed.

(* ------------------------------------------------------------------ template *)
Lemma template_get fs fill r k : get k (template fs fill r) = if mem k fs then Some (getd k r fill) else None.
Proof.
  unfold template.
  assert (G : forall out, get k (fold_left (fun out f => put f (getd f r fill) out) fs out)
                          = if mem k fs then Some (getd k r fill) else get k out).
  { induction fs as [|f fs IH]; intros out; cbn [fold_left]; [reflexivity|].
    rewrite IH. rewrite mem_cons. destruct (beqb_spec k f) as [->|Hne]; cbn.
    - rewrite get_put_same. destruct (mem f fs); reflexivity.
    - rewrite get_put_other by congruence. reflexivity. }
  rewrite G. destruct (mem k fs); reflexivity.
Qed.

Lemma template_keys fs fill r : keys (template fs fill r) = first_seen fs.
Proof.
  unfold template, first_seen.
  assert (G : forall out, keys (fold_left (fun out f => put f (getd f r fill) out) fs out)
                          = fold_left (fun s k => if mem k s then s else s ++ [k]) fs (keys out)).
  { induction fs as [|f fs IH]; intros out; cbn [fold_left]; [reflexivity|]. rewrite IH. f_equal.
    destruct (has f out) eqn:E.
    - rewrite keys_put_present by auto. apply has_true_in, mem_In in E. now rewrite E.
    - rewrite keys_put_absent by auto. destruct (mem f (keys out)) eqn:M; [|reflexivity].
      apply mem_In, has_true_in in M. congruence. }
  apply G.
Qed.

(* ------------------------------------------------------------------ label *)
Lemma label_zip_spec names : forall r out,
  NoDup names -> (forall n, In n names -> ~ In n (keys out)) ->
  let k := Nat.min (List.length names) (List.length r) in
  label_zip names r out = (out ++ combine (firstn k names) (values (firstn k r)), skipn k r).
Proof.
  induction names as [|n names IH]; intros r out Hnd Hfresh; cbn [label_zip].
  - cbn. now rewrite app_nil_r.
  - destruct r as [|[k0 v0] r]; [cbn; now rewrite app_nil_r|].
    inversion Hnd as [|? ? Hni Hnd']; subst.
    rewrite put_absent by (apply Hfresh; left; reflexivity).
    rewrite IH; auto.
    + cbn [List.length Nat.min firstn skipn values map combine snd]. now rewrite <- app_assoc.
    + intros m Hm. unfold keys. rewrite map_app, in_app_iff. cbn. intros [H|[H|[]]].
      * apply (Hfresh m); [right; exact Hm|exact H].
      * subst. contradiction.
Qed.

Lemma label_rest_spec (rest : record) : forall out,
  wf rest ->
  fold_left (fun out kv => if has (fst kv) out then out else put (fst kv) (snd kv) out) rest out
  = out ++ filter (fun kv => negb (mem (fst kv) (keys out))) rest.
Proof.
  induction rest as [|[k v] rest IH]; intros out Hwf; cbn [fold_left filter]; [now rewrite app_nil_r|].
  cbn [fst snd]. destruct (has k out) eqn:E.
  - assert (M : mem k (keys out) = true) by (apply mem_In, has_true_in; exact E). rewrite M. cbn. apply IH. eapply wf_tail; eauto.
  - assert (M : mem k (keys out) = false).
    { destruct (mem k (keys out)) eqn:M; [|reflexivity]. apply mem_In, has_true_in in M. congruence. }
    rewrite M. cbn. rewrite put_absent by (apply has_false_notin; exact E).
    rewrite IH by (eapply wf_tail; eauto). rewrite <- app_assoc. cbn. f_equal. f_equal.
    apply filter_ext_in. intros [k' v'] Hin. cbn. unfold keys. rewrite map_app. cbn.
    unfold mem. rewrite existsb_app. cbn. rewrite orb_false_r.
    destruct (beqb_spec k' k) as [->|]; [|now rewrite orb_false_r].
    exfalso. apply (wf_head_notin _ _ _ Hwf). apply (in_map fst) in Hin. exact Hin.
Qed.

Lemma wf_skipn n r : wf r -> wf (skipn n r).
Proof.
  revert r. induction n as [|n IH]; intros r H; cbn; [auto|]. destruct r; [auto|]. apply IH. eapply wf_tail; eauto.
Qed.

Theorem label_spec names r :
  NoDup names -> wf r ->
  let k := Nat.min (List.length names) (List.length r) in
  label names r = combine (firstn k names) (values (firstn k r))
                  ++ filter (fun kv => negb (mem (fst kv) (firstn k names))) (skipn k r).
Proof.
  intros Hnd Hwf k. unfold label.
  pose proof (label_zip_spec names r [] Hnd (fun _ _ H => H)) as Z. cbn zeta in Z. fold k in Z. rewrite Z. cbn [app].
  rewrite label_rest_spec by (apply wf_skipn; auto). f_equal. apply filter_ext. intros [k0 v0]. cbn. f_equal. f_equal.
  assert (L : List.length (firstn k names) = List.length (values (firstn k r))).
  { unfold values. rewrite map_length, !firstn_length. unfold k. lia. }
  clear - L. unfold keys. revert L. generalize (values (firstn k r)) as vs. generalize (firstn k names) as ns.
  induction ns as [|n ns IH]; intros [|v vs] L; cbn in *; try discriminate; [reflexivity|]. f_equal. apply IH. lia.
Qed.

(* ------------------------------------------------------------------ nest explode / implode across fields *)
Lemma explode_fields_shape f sep pre v post :
  ~ In f (keys pre) -> explode_fields f sep (pre ++ (f, v) :: post) = pre ++ number_from f 1 (split1 sep v) ++ post.
Proof.
  induction pre as [|[k x] pre IH]; cbn; intros H.
  - now rewrite beqb_refl.
  - destruct (beqb_spec f k) as [->|Hne]; [exfalso; apply H; left; reflexivity|]. f_equal. apply IH. tauto.
Qed.

Lemma explode_fields_absent f sep r : ~ In f (keys r) -> explode_fields f sep r = r.
Proof.
  induction r as [|[k x] r IH]; cbn; intros H; [reflexivity|].
  destruct (beqb_spec f k) as [->|Hne]; [exfalso; apply H; left; reflexivity|]. f_equal. apply IH. tauto.
Qed.

Lemma is_digit_digit_of d : (d < 10)%N -> is_digit (digit_of d) = true.
Proof.
  intros H. unfold is_digit, in_range, cle, code, digit_of. rewrite N_ascii_embedding by lia.
  change (N_of_ascii "0") with 48%N. change (N_of_ascii "9") with 57%N.
  apply andb_true_iff. split; apply N.leb_le; lia.
Qed.

Lemma dec_fuel_digits fuel : forall n acc,
  forallb is_digit acc = true -> forallb is_digit (dec_fuel fuel n acc) = true.
Proof.
  induction fuel as [|fuel IH]; intros n acc H; cbn [dec_fuel]; [exact H|].
  assert (H' : forallb is_digit (digit_of (n mod 10) :: acc) = true).
  { cbn [forallb]. rewrite H, andb_true_r. apply is_digit_digit_of. apply N.mod_lt. lia. }
  destruct (n / 10 =? 0)%N; [exact H'|]. apply IH. exact H'.
Qed.

Lemma dec_fuel_nonempty fuel : forall n acc, acc <> [] -> dec_fuel fuel n acc <> [].
Proof.
  induction fuel as [|fuel IH]; intros n acc H; cbn [dec_fuel]; [exact H|].
  destruct (n / 10 =? 0)%N; [discriminate|]. apply IH. discriminate.
Qed.

Lemma itoa_ok i : forallb is_digit (itoa i) = true /\ itoa i <> [].
Proof.
  unfold itoa. split; [apply dec_fuel_digits; reflexivity|].
  change 40%nat with (S 39). generalize 39%nat as fuel. intros fuel.
  cbn [dec_fuel]. destruct (i / 10 =? 0)%N; [discriminate|]. apply dec_fuel_nonempty. discriminate.
Qed.

Lemma prefixb_app p s : prefixb p (p ++ s) = true.
Proof. induction p as [|c p IH]; cbn; [reflexivity|]. rewrite IH. destruct (Ascii.eqb_spec c c); [reflexivity|congruence]. Qed.

Lemma skipn_app_exact {A} (a b : list A) : skipn (List.length a) (a ++ b) = b.
Proof. induction a; cbn; auto. Qed.

Lemma nest_suffix_numbered f i : nest_suffix_ok f (f ++ "_"%char :: itoa i) = true.
Proof.
  unfold nest_suffix_ok. change (f ++ "_"%char :: itoa i) with (f ++ ["_"%char] ++ itoa i). rewrite app_assoc.
  rewrite prefixb_app. cbn [andb].
  replace (List.length f + 1)%nat with (List.length (f ++ ["_"%char])) by (rewrite app_length; reflexivity).
  rewrite skipn_app_exact. destruct (itoa_ok i) as [H1 H2]. rewrite H1, andb_true_r.
  destruct (itoa i); [congruence|reflexivity].
Qed.

Lemma number_from_all_match f ps : forall i, forallb (fun kv => nest_suffix_ok f (fst kv)) (number_from f i ps) = true.
Proof. induction ps as [|p ps IH]; intros i; cbn [number_from forallb fst]; [reflexivity|]. rewrite nest_suffix_numbered. apply IH. Qed.

Lemma number_from_values f ps : forall i, values (number_from f i ps) = ps.
Proof. induction ps as [|p ps IH]; intros i; cbn; [reflexivity|]. f_equal. apply IH. Qed.

Definition no_suffix_match (f : bytes) (r : record) : Prop := forall kv, In kv r -> nest_suffix_ok f (fst kv) = false.

Lemma take_until_match_pre f pre rest :
  no_suffix_match f pre ->
  (match rest with [] => True | kv :: _ => nest_suffix_ok f (fst kv) = true end) ->
  take_until_match f (pre ++ rest) = (pre, rest).
Proof.
  induction pre as [|[k x] pre IH]; intros H1 H2.
  - destruct rest as [|[k x] rest]; [reflexivity|]. cbn [app take_until_match]. cbn [fst] in H2. now rewrite H2.
  - cbn [app take_until_match]. pose proof (H1 (k, x) (or_introl eq_refl)) as Hk. cbn [fst] in Hk. rewrite Hk.
    rewrite IH; auto. intros kv Hkv. apply H1. right. exact Hkv.
Qed.

Lemma filter_forallb_true {A} (p : A -> bool) l : forallb p l = true -> filter p l = l.
Proof. intros H. apply filter_all_true. apply forallb_forall. exact H. Qed.

Lemma filter_forallb_false {A} (p : A -> bool) l : forallb p l = true -> filter (fun x => negb (p x)) l = [].
Proof.
  induction l as [|x l IH]; cbn; intros H; [reflexivity|]. apply andb_true_iff in H. destruct H as [H1 H2]. rewrite H1. cbn. auto.
Qed.

Lemma drop_matching_numbered f (num post : record) :
  forallb (fun kv => nest_suffix_ok f (fst kv)) num = true -> no_suffix_match f post -> drop_matching f (num ++ post) = post.
Proof.
  intros Hn Hp. induction num as [|[k x] num IH]; cbn [app drop_matching].
  - destruct post as [|[k x] post]; [reflexivity|]. cbn [drop_matching].
    pose proof (Hp (k, x) (or_introl eq_refl)) as H. cbn [fst] in H. now rewrite H.
  - cbn [forallb fst] in Hn. apply andb_true_iff in Hn. destruct Hn as [H1 H2]. rewrite H1. apply IH. exact H2.
Qed.

Lemma implode_fields_numbered f sep pre ps post :
  no_suffix_match f pre -> no_suffix_match f post -> ps <> [] -> (pre = [] -> ~ In f (keys post)) ->
  implode_fields f sep (pre ++ number_from f 1 ps ++ post) = pre ++ (f, join_with [sep] ps) :: post.
Proof.
  intros Hpre Hpost Hps Hhead. unfold implode_fields.
  rewrite take_until_match_pre; auto.
  2:{ destruct ps as [|p ps]; [congruence|]. cbn [number_from app fst]. apply nest_suffix_numbered. }
  cbv beta iota zeta. rewrite !filter_app.
  match goal with |- context [@filter ?A ?p (number_from f 1 ps)] =>
    assert (Q1 : @filter A p (number_from f 1 ps) = number_from f 1 ps)
      by (apply filter_forallb_true; apply number_from_all_match) end.
  match goal with |- context [@filter ?A ?p (number_from f 1 ps)] =>
    assert (Q2 : @filter A p (number_from f 1 ps) = [])
      by (apply (filter_forallb_false (fun kv : field => nest_suffix_ok f (fst kv))); apply number_from_all_match) end.
  match goal with |- context [@filter ?A ?p post] =>
    assert (P1 : @filter A p post = []) by (apply filter_all_false_; intros kv Hkv; apply Hpost; exact Hkv) end.
  match goal with |- context [@filter ?A ?p post] =>
    assert (P2 : @filter A p post = post)
      by (apply filter_all_true; intros kv Hkv; cbv beta; rewrite (Hpost kv Hkv); reflexivity) end.
  rewrite Q1, Q2, P1, P2, app_nil_r. cbn [app].
  destruct (number_from f 1 ps) as [|m ms] eqn:E; [destruct ps; [congruence|discriminate]|]. rewrite <- E.
  rewrite number_from_values.
  destruct pre as [|q pre]; [|reflexivity].
  cbn [app]. rewrite (drop_matching_numbered f _ post (number_from_all_match f ps 1) Hpost).
  pose proof (take_until_match_pre f post [] Hpost I) as T. rewrite app_nil_r in T. rewrite T.
  rewrite (proj2 (has_false_notin f post) (Hhead eq_refl)). reflexivity.
Qed.

Theorem explode_implode_fields f sep pre v post :
  ~ In f (keys pre) -> no_suffix_match f pre -> no_suffix_match f post -> (pre = [] -> ~ In f (keys post)) ->
  implode_fields f sep (explode_fields f sep (pre ++ (f, v) :: post)) = pre ++ (f, v) :: post.
Proof.
  intros H1 H2 H3 H4. rewrite explode_fields_shape by auto.
  rewrite implode_fields_numbered; auto using split1_nonempty. now rewrite join_split1.
Qed.

(* ------------------------------------------------------------------ reorder -f: where the named fields go *)
Lemma reorder_f_cons f fs r : reorder_f (f :: fs) r = move_to_head f (reorder_f fs r).
Proof. unfold reorder_f. cbn [rev]. rewrite fold_left_app. reflexivity. Qed.

Lemma pick_keys_incl names r k : In k (keys (pick names r)) -> In k names.
Proof.
  unfold pick. induction names as [|n names IH]; cbn; [auto|]. unfold keys. rewrite map_app, in_app_iff.
  intros [H|H]; [|right; apply IH; exact H]. destruct (get n r); cbn in H; [destruct H as [<-|[]]; auto|contradiction].
Qed.

Lemma get_filter_keep (p : field -> bool) k r : (forall v, p (k, v) = true) -> get k (filter p r) = get k r.
Proof.
  intros Hp. induction r as [|[k' v'] r IH]; cbn; [reflexivity|].
  destruct (beqb_spec k k') as [->|Hne].
  - rewrite Hp. cbn. now rewrite beqb_refl.
  - destruct (p (k', v')); cbn; [destruct (beqb_spec k k'); [congruence|]|]; exact IH.
Qed.

Lemma pick_cons f fs r : pick (f :: fs) r = (match get f r with Some v => [(f, v)] | None => [] end) ++ pick fs r.
Proof. reflexivity. Qed.

Theorem reorder_f_spec fs r : NoDup fs -> wf r -> reorder_f fs r = pick fs r ++ filter (unnamed fs) r.
Proof.
  intros Hnd Hwf. induction fs as [|f fs IH].
  - cbn. symmetry. apply filter_all_true. reflexivity.
  - inversion Hnd as [|? ? Hni Hnd']; subst. rewrite reorder_f_cons, (IH Hnd'). unfold move_to_head.
    assert (Hpk : ~ In f (keys (pick fs r))) by (intros H; apply Hni; eapply pick_keys_incl; eauto).
    assert (Hun : forall v, unnamed fs (f, v) = true).
    { intros v. unfold unnamed. cbn. destruct (mem f fs) eqn:M; [apply mem_In in M; contradiction|reflexivity]. }
    rewrite get_app. rewrite (proj2 (get_None_notin _ _) Hpk). rewrite (get_filter_keep _ _ _ Hun).
    assert (E : filter (unnamed (f :: fs)) r = filter (fun kv => negb (beqb f (fst kv))) (filter (unnamed fs) r)).
    { rewrite filter_filter. apply filter_ext. intros [k v]. unfold unnamed. cbn [fst]. rewrite mem_cons, (beqb_sym k f).
      destruct (beqb f k), (mem k fs); reflexivity. }
    rewrite pick_cons.
    destruct (get f r) as [v|] eqn:G.
    + rewrite remove_app_absent by exact Hpk. rewrite remove_filter by (apply wf_filter; exact Hwf). rewrite E. reflexivity.
    + cbn [app]. f_equal. rewrite E. symmetry. apply filter_all_true. intros [k v] Hin. cbn.
      apply negb_true_iff, beqb_false. intros ->. apply filter_In in Hin. destruct Hin as [Hin _].
      apply (proj1 (get_None_notin _ _) G). apply (in_map fst) in Hin. exact Hin.
Qed.
