(* C12: laws of the field-by-field rewriting verbs (Model2.v), for EVERY acceptor and EVERY key / value function, and of
   fill-down *)
From Miller Require Import Base.Bytes Base.Record C12.Model C12.Proofs C12.Model2.
From Coq Require Import Permutation Lia.

(* ================================================================== map_values: sub / gsub / ssub, case -v, sec2gmt, fill-empty *)
Section MapValues.
  Variable accept : bytes -> bool.
  Variable fv : bytes -> bytes.

  Lemma map_values_keys r : keys (map_values accept fv r) = keys r.
  Proof. unfold map_values, keys. rewrite map_map. apply map_ext. intros [k v]. cbn. destruct (accept k); reflexivity. Qed.

  (* position by position: same name; a field that is not accepted is untouched; an accepted one gets fv of its value *)
  Lemma map_values_pointwise r :
    Forall2 (fun a b => fst b = fst a /\ (accept (fst a) = false -> b = a) /\ (accept (fst a) = true -> snd b = fv (snd a)))
            r (map_values accept fv r).
  Proof.
    induction r as [|[k v] r IH]; cbn; constructor; [|exact IH].
    cbn. destruct (accept k) eqn:E; cbn; repeat split; congruence.
  Qed.

  Lemma map_values_bystanders r :
    filter (fun kv => negb (accept (fst kv))) (map_values accept fv r) = filter (fun kv => negb (accept (fst kv))) r.
  Proof.
    unfold map_values. induction r as [|[k v] r IH]; cbn; [reflexivity|]. destruct (accept k) eqn:E; cbn; rewrite E; cbn; now rewrite IH.
  Qed.

  Lemma map_values_get k r : get k (map_values accept fv r) = if accept k then option_map fv (get k r) else get k r.
  Proof.
    unfold map_values. induction r as [|[k' v] r IH]; cbn; [now destruct (accept k)|].
    destruct (accept k') eqn:E; cbn; destruct (beqb_spec k k') as [->|Hne]; try exact IH; rewrite E; reflexivity.
  Qed.

  (* a value function that fixes every value of the accepted fields leaves the record alone *)
  Lemma map_values_fixed r : (forall kv, In kv r -> accept (fst kv) = true -> fv (snd kv) = snd kv) -> map_values accept fv r = r.
  Proof.
    intros H. unfold map_values. rewrite <- (map_id r) at 2. apply map_ext_in. intros [k v] Hin. cbn.
    destruct (accept k) eqn:E; [|reflexivity]. f_equal. exact (H (k, v) Hin E).
  Qed.
End MapValues.

(* two value functions that undo each other on the record's values: the verbs undo each other (e.g. ssub a,b then b,a when
   b does not occur; case -u then -l on lower-case values) *)
Lemma map_values_inverse accept f g r :
  (forall kv, In kv r -> accept (fst kv) = true -> g (f (snd kv)) = snd kv) ->
  map_values accept g (map_values accept f r) = r.
Proof.
  intros H. unfold map_values. rewrite map_map. rewrite <- (map_id r) at 2. apply map_ext_in. intros [k v] Hin. cbn.
  destruct (accept k) eqn:E; cbn; rewrite E; [|reflexivity]. f_equal. exact (H (k, v) Hin E).
Qed.

(* ================================================================== rebuild: case -k / -k -v, unspace *)
Lemma fold_put_fresh (l : record) : forall acc : record,
  NoDup (keys acc ++ keys l) -> fold_left (fun out kv => put (fst kv) (snd kv) out) l acc = acc ++ l.
Proof.
  induction l as [|[k v] l IH]; intros acc Hnd; cbn [fold_left]; [now rewrite app_nil_r|].
  assert (Hk : ~ In k (keys acc)).
  { intros Hin. unfold keys in Hnd. cbn [map fst] in Hnd. apply NoDup_remove_2 in Hnd. apply Hnd. apply in_or_app. auto. }
  assert (Hput : put k v acc = acc ++ [(k, v)]).
  { clear - Hk. induction acc as [|[k' v'] acc IHa]; cbn; [reflexivity|].
    destruct (beqb_spec k k') as [->|Hne]; [exfalso; apply Hk; cbn; auto|]. rewrite IHa; [reflexivity|]. intros H. apply Hk. cbn. auto. }
  cbn [fst snd]. rewrite Hput, IH.
  - now rewrite <- app_assoc.
  - unfold keys in *. rewrite map_app. cbn. rewrite <- app_assoc. cbn. exact Hnd.
Qed.

Definition rekey (accept : bytes -> bool) (fk fv : bytes -> bytes) (kv : field) : field :=
  if accept (fst kv) then (fk (fst kv), fv (snd kv)) else kv.

Lemma rebuild_as_fold (accept : bytes -> bool) (fk fv : bytes -> bytes) (r : record) : forall acc : record,
  fold_left (fun out (kv : field) => if accept (fst kv) then put (fk (fst kv)) (fv (snd kv)) out else put (fst kv) (snd kv) out) r acc
  = fold_left (fun out (kv : field) => put (fst kv) (snd kv) out) (map (rekey accept fk fv) r) acc.
Proof.
  induction r as [|[k v] r IH]; intros acc; cbn [fold_left map]; [reflexivity|].
  rewrite IH. f_equal. unfold rekey. cbn [fst snd]. destruct (accept k); reflexivity.
Qed.

(* when the new names are pairwise distinct, every field stays where it is: accepted fields get the new name (and value),
   the others are untouched *)
Lemma rebuild_no_collision accept fk fv r :
  NoDup (keys (map (rekey accept fk fv) r)) -> rebuild accept fk fv r = map (rekey accept fk fv) r.
Proof. intros H. unfold rebuild. rewrite rebuild_as_fold. now rewrite fold_put_fresh. Qed.

Lemma rebuild_bystanders accept fk fv r :
  NoDup (keys (map (rekey accept fk fv) r)) ->
  filter (fun kv => negb (accept (fst kv))) r
  = map snd (filter (fun p => negb (accept (fst (fst p)))) (combine r (rebuild accept fk fv r))).
Proof.
  intros H. rewrite rebuild_no_collision by assumption. clear H.
  induction r as [|[k v] r IH]; cbn; [reflexivity|]. unfold rekey at 1. cbn [fst snd].
  destruct (accept k) eqn:E; cbn; [exact IH|]. now rewrite IH.
Qed.

(* ================================================================== fill-down *)
Lemma put_other_get k k' v (r : record) : k <> k' -> get k' (put k v r) = get k' r.
Proof. apply get_put_other. Qed.

Lemma filter_put_out (p : field -> bool) k v (r : record) : (forall x, p (k, x) = false) -> filter p (put k v r) = filter p r.
Proof.
  intros Hp. induction r as [|[k' v'] r IH]; cbn; [now rewrite Hp|].
  destruct (beqb_spec k k') as [->|Hne]; cbn; [now rewrite !Hp|]. now rewrite IH.
Qed.

Section FillDown.
  Variable a : bool.

  (* one field: only that field can change; a present (and, without -a, non-empty) value is kept *)
  Lemma fd_field_bystanders (p : field -> bool) f st r : (forall x, p (f, x) = false) ->
    filter p (snd (fd_field a f (st, r))) = filter p r.
  Proof.
    intros Hp. unfold fd_field. destruct (fd_present a (get f r)); [reflexivity|].
    destruct (sget f st); [|reflexivity]. cbn. now apply filter_put_out.
  Qed.
  Lemma fd_field_get_other f k st r : k <> f -> get k (snd (fd_field a f (st, r))) = get k r.
  Proof.
    intros Hne. unfold fd_field. destruct (fd_present a (get f r)); [reflexivity|].
    destruct (sget f st); [|reflexivity]. cbn. apply get_put_other. congruence.
  Qed.
  Lemma fd_field_present f st r : fd_present a (get f r) = true -> snd (fd_field a f (st, r)) = r.
  Proof. intros H. unfold fd_field. now rewrite H. Qed.

  Lemma fd_fields_bystanders (p : field -> bool) fs : (forall f x, In f fs -> p (f, x) = false) -> forall st r,
    filter p (snd (fold_left (fun sr f => fd_field a f sr) fs (st, r))) = filter p r.
  Proof.
    induction fs as [|f fs IH]; intros Hp st r; cbn [fold_left]; [reflexivity|].
    destruct (fd_field a f (st, r)) as [st' r'] eqn:E. rewrite IH by (intros; apply Hp; cbn; auto).
    replace r' with (snd (fd_field a f (st, r))) by now rewrite E. apply fd_field_bystanders. intros x. apply Hp. cbn. auto.
  Qed.
  Lemma fd_fields_get_other fs k : ~ In k fs -> forall st r,
    get k (snd (fold_left (fun sr f => fd_field a f sr) fs (st, r))) = get k r.
  Proof.
    induction fs as [|f fs IH]; intros Hk st r; cbn [fold_left]; [reflexivity|].
    destruct (fd_field a f (st, r)) as [st' r'] eqn:E. rewrite IH by (intros H; apply Hk; cbn; auto).
    replace r' with (snd (fd_field a f (st, r))) by now rewrite E. apply fd_field_get_other. intros ->. apply Hk. cbn. auto.
  Qed.

  (* fill-down -f: one output record per input record; fields that are not named keep name, value and relative order *)
  Lemma fill_down_from_bystanders fs rs : forall st,
    List.length (fill_down_from a false fs st rs) = List.length rs
    /\ map (filter (fun kv => negb (mem (fst kv) fs))) (fill_down_from a false fs st rs)
       = map (filter (fun kv => negb (mem (fst kv) fs))) rs.
  Proof.
    induction rs as [|r rs IH]; intros st; cbn [fill_down_from]; [split; reflexivity|].
    destruct (fold_left (fun sr f => fd_field a f sr) fs (st, r)) as [st' r'] eqn:E.
    destruct (IH st') as [IH1 IH2]. cbn [List.length map]. split; [now rewrite IH1|]. rewrite IH2. f_equal.
    replace r' with (snd (fold_left (fun sr f => fd_field a f sr) fs (st, r))) by now rewrite E.
    apply fd_fields_bystanders. intros f x Hin. cbn. apply negb_false_iff. now apply mem_In.
  Qed.

  (* a record in which every named field is present (and, without -a, non-empty) passes unchanged *)
  Lemma fd_fields_all_present fs : forall st r, (forall f, In f fs -> fd_present a (get f r) = true) ->
    snd (fold_left (fun sr f => fd_field a f sr) fs (st, r)) = r.
  Proof.
    induction fs as [|f fs IH]; intros st r H; cbn [fold_left]; [reflexivity|].
    unfold fd_field at 2. rewrite (H f) by (cbn; auto). apply IH. intros g Hg. apply H. cbn. auto.
  Qed.
End FillDown.

Lemma fill_down_bystanders a fs rs :
  List.length (fill_down a false fs rs) = List.length rs
  /\ map (filter (fun kv => negb (mem (fst kv) fs))) (fill_down a false fs rs) = map (filter (fun kv => negb (mem (fst kv) fs))) rs.
Proof. apply fill_down_from_bystanders. Qed.

Lemma fill_down_complete_records (a all : bool) (fs : list bytes) (rs : list record) :
  (forall r f, In r rs -> In f (if all then keys r else fs) -> fd_present a (get f r) = true) -> fill_down a all fs rs = rs.
Proof.
  unfold fill_down. generalize (@nil (bytes * bytes)) as st. induction rs as [|r rs IH]; intros st H; cbn [fill_down_from]; [reflexivity|].
  destruct (fold_left (fun sr f => fd_field a f sr) (if all then keys r else fs) (st, r)) as [st' r'] eqn:E.
  assert (Hr : r' = r).
  { replace r' with (snd (fold_left (fun sr f => fd_field a f sr) (if all then keys r else fs) (st, r))) by now rewrite E.
    apply fd_fields_all_present. intros f Hf. apply (H r f); cbn; auto. }
  rewrite Hr. f_equal. apply IH. intros r0 f Hr0 Hf. apply (H r0 f); cbn; auto.
Qed.
