(* C12: regex forms of cut and rename (cut -r [-x] [-o], rename -r, rename -g) -- executable model only, tied to the code by
   correspondence.  A small regex AST (what the generator emits) with Go's leftmost-first (Perl-like) matching:
   alternatives in order, greedy repetition; ^ and $ are text anchors; "..."i folds ASCII case.  ASCII names only. *)
From Miller Require Import Base.Bytes Base.Record C12.Model.
Open Scope char_scope.

Inductive re :=
| Eps | Chr (c : ascii) | Any | Cls (neg : bool) (ranges : list (ascii * ascii))
| Seq (a b : re) | Alt (a b : re) | Star (a : re) | Bol | Eol | Grp (n : nat) (a : re).

Definition lower (c : ascii) : ascii := if in_range "A" "Z" c then ascii_of_N (code c + 32) else c.
Definition ceq (ci : bool) (x c : ascii) : bool := if ci then Ascii.eqb (lower x) (lower c) else Ascii.eqb x c.
Definition in_ranges (x : ascii) (rs : list (ascii * ascii)) : bool := existsb (fun r => in_range (fst r) (snd r) x) rs.
Definition upper (c : ascii) : ascii := if in_range "a" "z" c then ascii_of_N (code c - 32) else c.
Definition cls_ok (ci neg : bool) (rs : list (ascii * ascii)) (x : ascii) : bool :=
  xorb neg (if ci then in_ranges x rs || in_ranges (lower x) rs || in_ranges (upper x) rs else in_ranges x rs).

Definition caps := list (nat * bytes).
Definition kont := bool -> bytes -> caps -> option (bytes * caps).

(* at0: nothing consumed and the attempt started at offset 0 *)
Fixpoint mt (fuel : nat) (ci : bool) (r : re) (at0 : bool) (rest : bytes) (cs : caps) (k : kont) : option (bytes * caps) :=
  match fuel with
  | O => None
  | S f =>
    match r with
    | Eps => k at0 rest cs
    | Chr c => match rest with x :: t => if ceq ci x c then k false t cs else None | [] => None end
    | Any => match rest with _ :: t => k false t cs | [] => None end
    | Cls neg rs => match rest with x :: t => if cls_ok ci neg rs x then k false t cs else None | [] => None end
    | Seq a b => mt f ci a at0 rest cs (fun at0' rest' cs' => mt f ci b at0' rest' cs' k)
    | Alt a b => match mt f ci a at0 rest cs k with Some x => Some x | None => mt f ci b at0 rest cs k end
    | Star a =>
      match mt f ci a at0 rest cs (fun at0' rest' cs' =>
              if (List.length rest' <? List.length rest)%nat then mt f ci (Star a) at0' rest' cs' k else None) with
      | Some x => Some x
      | None => k at0 rest cs
      end
    | Bol => if at0 then k at0 rest cs else None
    | Eol => match rest with [] => k at0 rest cs | _ => None end
    | Grp n a => mt f ci a at0 rest cs (fun at0' rest' cs' =>
                   k at0' rest' ((n, firstn (List.length rest - List.length rest') rest) :: cs'))
    end
  end.

Definition fuel_for (s : bytes) : nat := 60 + 12 * List.length s.

(* leftmost match: (before, matched, after, captures) *)
Fixpoint search (n : nat) (fuel : nat) (ci : bool) (r : re) (pre_rev s : bytes) (at0 : bool) : option (bytes * bytes * bytes * caps) :=
  match mt fuel ci r at0 s [] (fun _ rest cs => Some (rest, cs)) with
  | Some (rest, cs) => Some (rev pre_rev, firstn (List.length s - List.length rest) s, rest, cs)
  | None => match n, s with
            | S n', c :: t => search n' fuel ci r (c :: pre_rev) t false
            | _, _ => None
            end
  end.
Definition find (ci : bool) (r : re) (s : bytes) := search (S (List.length s)) (fuel_for s) ci r [] s true.
Definition matches (cr : bool * re) (s : bytes) : bool := match find (fst cr) (snd cr) s with Some _ => true | None => false end.

(* ---- cut -r: processWithRegexes *)
Fixpoint first_match (rs : list (bool * re)) (i : nat) (s : bytes) : option nat :=
  match rs with [] => None | r :: t => if matches r s then Some i else first_match t (S i) s end.
Definition cut_r (rs : list (bool * re)) (complement argorder : bool) (r : record) : record :=
  let kept := filter (fun kv => xorb (match first_match rs 0 (fst kv) with Some _ => true | None => false end) complement) r in
  if argorder
  then flat_map (fun i => filter (fun kv => match first_match rs 0 (fst kv) with Some j => Nat.eqb i j | None => Nat.eqb i 0 end) kept)
                (seq 0 (Nat.max 1 (List.length rs)))
  else kept.

(* ---- rename -r / -g: replacement pieces are literals or \0..\9 *)
Definition piece := (bytes + nat)%type.
Definition cap_get (n : nat) (whole : bytes) (cs : caps) : bytes :=
  match n with
  | O => whole
  | _ => match List.find (fun e => Nat.eqb (fst e) n) cs with Some e => snd e | None => [] end
  end.
Definition expand (rep : list piece) (whole : bytes) (cs : caps) : bytes :=
  flat_map (fun p => match p with inl b => b | inr n => cap_get n whole cs end) rep.
(* RegexCompiledSub: first match only *)
Definition sub1 (ci : bool) (r : re) (rep : list piece) (s : bytes) : bytes :=
  match find ci r s with
  | Some (pre, m, post, cs) => pre ++ expand rep m cs ++ post
  | None => s
  end.
(* ReplaceAllString with a literal replacement, for patterns that never match the empty string *)
Fixpoint gsub_lit (n : nat) (ci : bool) (r : re) (rep : bytes) (s : bytes) (at0 : bool) : bytes :=
  match n with
  | O => s
  | S n' =>
    match search (S (List.length s)) (fuel_for s) ci r [] s at0 with
    | Some (pre, m, post, _) => match m with [] => s | _ => pre ++ rep ++ gsub_lit n' ci r rep post false end
    | None => s
    end
  end.

(* the walk of transformWithRegexes over the live list, one (regex, replacement) after the other; Rename as repaired *)
Fixpoint rename_walk_f (fuel : nat) (f : bytes -> bytes) (done rest : record) : record :=
  match fuel with
  | O => done ++ rest
  | S fuel' =>
    match rest with
    | [] => done
    | (k, v) :: t =>
      let n := f k in
      if beqb n k then rename_walk_f fuel' f (done ++ [(k, v)]) t
      else if has n (done ++ (k, v) :: t)
      then rename_walk_f fuel' f (setv n v done) (setv n v t)
      else rename_walk_f fuel' f (done ++ [(n, v)]) t
    end
  end.
Definition rename_r (specs : list (bool * re * list piece)) (gsub : bool) (r : record) : record :=
  fold_left (fun rec sp =>
               let '(ci, re_, rep) := sp in
               let f := if gsub
                        then (fun s => gsub_lit (S (List.length s)) ci re_ (expand rep [] []) s true)
                        else sub1 ci re_ rep in
               rename_walk_f (List.length rec) f [] rec) specs r.

(* correspondence entry point: code 1 = cut -r (flags: complement, argorder), 2 = rename -r / -g (flag: gsub) *)
Definition chk_r (c : Z * list (bool * re * list piece) * (bool * bool) * list record * list record) : bool :=
  let '(code, specs, fl, input, obs) := c in
  let '(f1, f2) := fl in
  match code with
  | 1%Z => records_eqb (map (cut_r (map fst specs) f1 f2) input) obs
  | _ => records_eqb (map (rename_r specs f1) input) obs
  end.
