(* C12: executable Gallina models of the field-restructuring verbs (pkg/transformers/<verb>.go) over
   Base/Record.v.  Definitions only.  A verb is a function  list record -> list record  (whole stream in,
   whole stream out, end-of-stream behaviour included).  Input records come from a reader, hence have
   pairwise distinct keys (wf_record); where the Go code can nevertheless create a collision (PutReference
   on a name that is already there, PutReferenceAfter that does not look) the model does what the code does. *)
From Miller Require Import Base.Bytes Base.Record.
Open Scope char_scope.

(* ------------------------------------------------------------------ small helpers *)
Definition getd (k : bytes) (r : record) (d : bytes) : bytes := match get k r with Some v => v | None => d end.

(* overwrite the value of every field named k (entry.Value = v on the found entry) *)
Definition setv (k v : bytes) (r : record) : record :=
  map (fun kv => if beqb k (fst kv) then (fst kv, v) else kv) r.

(* Go string order (bytewise) *)
Fixpoint bleb (a b : bytes) : bool :=
  match a, b with
  | [], _ => true
  | _ :: _, [] => false
  | x :: a', y :: b' => if (code x <? code y)%N then true else if (code y <? code x)%N then false else bleb a' b'
  end.

Fixpoint join_with (sep : bytes) (l : list bytes) : bytes :=
  match l with
  | [] => []
  | [x] => x
  | x :: t => x ++ sep ++ join_with sep t
  end.
Definition joinc (l : list bytes) : bytes := join_with [","] l.

(* strings.Split for a one-byte separator *)
Fixpoint split1 (sep : ascii) (s : bytes) : list bytes :=
  match s with
  | [] => [[]]
  | c :: t => if Ascii.eqb c sep then [] :: split1 sep t
              else match split1 sep t with h :: rest => (c :: h) :: rest | [] => [[c]] end
  end.

(* strconv.Itoa for positive numbers *)
Definition digit_of (n : N) : ascii := ascii_of_N (48 + n).
Fixpoint dec_fuel (fuel : nat) (n : N) (acc : bytes) : bytes :=
  match fuel with
  | O => acc
  | S f => let acc' := digit_of (n mod 10) :: acc in
           if (n / 10 =? 0)%N then acc' else dec_fuel f (n / 10) acc'
  end.
Definition itoa (n : N) : bytes := dec_fuel 40 n [].

Definition is_digit (c : ascii) : bool := in_range "0" "9" c.

(* ------------------------------------------------------------------ cut *)
(* includeWithInputOrder *)
Definition cut_f (fs : list bytes) (r : record) : record := filter (fun kv => mem (fst kv) fs) r.
(* includeWithArgOrder *)
Definition cut_o (fs : list bytes) (r : record) : record :=
  fold_left (fun out f => match get f r with Some v => put f v out | None => out end) fs [].
(* exclude: Remove per listed name *)
Definition cut_x (fs : list bytes) (r : record) : record := fold_left (fun r f => remove f r) fs r.

(* ------------------------------------------------------------------ template *)
Definition template (fs : list bytes) (fill : bytes) (r : record) : record :=
  fold_left (fun out f => put f (getd f r fill) out) fs [].

(* ------------------------------------------------------------------ reorder *)
Definition move_to_head (f : bytes) (r : record) : record :=
  match get f r with Some v => (f, v) :: remove f r | None => r end.
Definition move_to_tail (f : bytes) (r : record) : record :=
  match get f r with Some v => remove f r ++ [(f, v)] | None => r end.
(* reorderToStartNoRegex: the constructor reverses the list, then MoveToHead one by one *)
Definition reorder_f (fs : list bytes) (r : record) : record := fold_left (fun r f => move_to_head f r) (rev fs) r.
(* reorderToEndNoRegex *)
Definition reorder_e (fs : list bytes) (r : record) : record := fold_left (fun r f => move_to_tail f r) fs r.

(* ------------------------------------------------------------------ rename (no -r/-g) *)
(* old1,new1,old2,new2,... into the ordered map (later binding of the same old name wins, position of the first) *)
Fixpoint pairs_of (l : list bytes) : list (bytes * bytes) :=
  match l with a :: b :: t => (a, b) :: pairs_of t | _ => [] end.
Definition rename_map (l : list bytes) : record := fold_left (fun m p => put (fst p) (snd p) m) (pairs_of l) [].

(* transformWithoutRegexes walks the live linked list: at entry (k,v) with k -> n in the map it calls
   Mlrmap.Rename(k, n): n = k is a no-op; if no field n exists the key is rewritten in place; if a field n exists
   anywhere in the record that field's value becomes v and the walked entry is unlinked;
   the walk continues with the entry that followed. *)
Fixpoint rename_walk (fuel : nat) (m : record) (done rest : record) : record :=
  match fuel with
  | O => done ++ rest
  | S fuel' =>
    match rest with
    | [] => done
    | (k, v) :: t =>
      match get k m with
      | None => rename_walk fuel' m (done ++ [(k, v)]) t
      | Some n =>
        if beqb k n then rename_walk fuel' m (done ++ [(k, v)]) t      (* Rename(a, a): no-op *)
        else if has n (done ++ (k, v) :: t)
        then rename_walk fuel' m (setv n v done) (setv n v t)
        else rename_walk fuel' m (done ++ [(n, v)]) t
      end
    end
  end.
Definition rename (names : list bytes) (r : record) : record := rename_walk (List.length r) (rename_map names) [] r.

(* single Mlrmap.Rename call, for the inverse law *)
Definition rename1 (a b : bytes) (r : record) : record := rename [a; b] r.

(* ------------------------------------------------------------------ label *)
Fixpoint label_zip (names : list bytes) (r : record) (out : record) : record * record :=
  match names, r with
  | n :: names', (_, v) :: r' => label_zip names' r' (put n v out)
  | _, _ => (out, r)
  end.
Definition label (names : list bytes) (r : record) : record :=
  let '(out, rest) := label_zip names r [] in
  fold_left (fun out kv => if has (fst kv) out then out else put (fst kv) (snd kv) out) rest out.

(* ------------------------------------------------------------------ sort-within-records (and -r on flat records) *)
Fixpoint insert_field (kv : field) (l : record) : record :=
  match l with
  | [] => [kv]
  | x :: t => if bleb (fst kv) (fst x) then kv :: l else x :: insert_field kv t
  end.
Definition sort_fields (r : record) : record := fold_right insert_field [] r.

Fixpoint insert_b (k : bytes) (l : list bytes) : list bytes :=
  match l with
  | [] => [k]
  | x :: t => if bleb k x then k :: l else x :: insert_b k t
  end.
Definition sortb (l : list bytes) : list bytes := fold_right insert_b [] l.

(* ------------------------------------------------------------------ regularize *)
(* state: sorted-joined key list -> first-seen original key order *)
Definition pick (names : list bytes) (r : record) : record :=
  flat_map (fun f => match get f r with Some v => [(f, v)] | None => [] end) names.
Definition regularize_step (st : list (bytes * list bytes)) (r : record) : list (bytes * list bytes) * record :=
  let ks := keys r in
  let sk := joinc (sortb ks) in
  match find (fun e => beqb sk (fst e)) st with
  | None => (st ++ [(sk, ks)], r)
  | Some e => (st, pick (snd e) r)
  end.
Fixpoint regularize_from (st : list (bytes * list bytes)) (rs : list record) : list record :=
  match rs with
  | [] => []
  | r :: t => let '(st', o) := regularize_step st r in o :: regularize_from st' t
  end.
Definition regularize (rs : list record) : list record := regularize_from [] rs.

(* ------------------------------------------------------------------ unsparsify *)
Definition add_new (seen : list bytes) (ks : list bytes) : list bytes :=
  fold_left (fun s k => if mem k s then s else s ++ [k]) ks seen.
Definition union_keys (rs : list record) : list bytes := fold_left (fun s r => add_new s (keys r)) rs [].
Definition fill_to (names : list bytes) (fill : bytes) (r : record) : record :=
  map (fun k => (k, getd k r fill)) names.
(* transformNonStreaming *)
Definition unsparsify (fill : bytes) (rs : list record) : list record :=
  map (fill_to (union_keys rs) fill) rs.
(* transformStreaming (-f) *)
Definition unsparsify_f (fs : list bytes) (fill : bytes) (r : record) : record :=
  fold_left (fun r f => if has f r then r else r ++ [(f, fill)]) fs r.

(* ------------------------------------------------------------------ sparsify, fill-empty *)
Definition sparsify (filler : bytes) (r : record) : record := filter (fun kv => negb (beqb (snd kv) filler)) r.
Definition sparsify_f (fs : list bytes) (filler : bytes) (r : record) : record :=
  filter (fun kv => negb (mem (fst kv) fs && beqb (snd kv) filler)) r.
Definition fill_empty (fill : bytes) (r : record) : record :=
  map (fun kv => match snd kv with [] => (fst kv, fill) | _ => kv end) r.

(* ------------------------------------------------------------------ nest *)
(* explodeValuesAcrossRecords *)
Definition explode_records (f : bytes) (sep : ascii) (r : record) : list record :=
  match get f r with
  | None => [r]
  | Some v => map (fun p => put f p r) (split1 sep v)
  end.
(* explodeValuesAcrossFields: f_1, f_2, ... linked after the original entry, which is then unlinked
   (PutReferenceAfter does not look for an existing field of that name) *)
Fixpoint number_from (f : bytes) (i : N) (ps : list bytes) : record :=
  match ps with [] => [] | p :: t => (f ++ "_" :: itoa i, p) :: number_from f (N.succ i) t end.
Fixpoint explode_fields (f : bytes) (sep : ascii) (r : record) : record :=
  match r with
  | [] => []
  | (k, v) :: t => if beqb f k then number_from f 1 (split1 sep v) ++ t else (k, v) :: explode_fields f sep t
  end.

(* two-level insertion-ordered bucket map shared by nest implode and reshape long-to-wide:
   other-keys-joined -> other-values-joined -> (representative, payload) *)
Section Buckets.
  Context {P : Type}.
  Definition bucket := (record * P)%type.
  Definition level2 := list (bytes * bucket).
  Definition level1 := list (bytes * level2).

  Fixpoint upd2 (ov : bytes) (rep : record) (p0 : P) (addp : P -> P) (l : level2) : level2 :=
    match l with
    | [] => [(ov, (rep, addp p0))]
    | (ov', (rep', p)) :: t => if beqb ov ov' then (ov', (rep', addp p)) :: t else (ov', (rep', p)) :: upd2 ov rep p0 addp t
    end.
  Fixpoint upd1 (ok ov : bytes) (rep : record) (p0 : P) (addp : P -> P) (l : level1) : level1 :=
    match l with
    | [] => [(ok, upd2 ov rep p0 addp [])]
    | (ok', l2) :: t => if beqb ok ok' then (ok', upd2 ov rep p0 addp l2) :: t else (ok', l2) :: upd1 ok ov rep p0 addp t
    end.
  Definition buckets_of (l : level1) : list bucket := flat_map (fun e => map snd (snd e)) l.
End Buckets.

(* implodeValueAcrossRecords: records without the field pass through at once; the others are bucketed and
   come out at end of stream *)
Fixpoint implode_records_from (f : bytes) (st : @level1 (list bytes)) (rs : list record) : list record * @level1 (list bytes) :=
  match rs with
  | [] => ([], st)
  | r :: t =>
    match get f r with
    | None => let '(o, st') := implode_records_from f st t in (r :: o, st')
    | Some v =>
      let others := remove f r in
      implode_records_from f (upd1 (joinc (keys others)) (joinc (values others)) r [] (fun vs => vs ++ [v]) st) t
    end
  end.
Definition implode_records (f : bytes) (sep : ascii) (rs : list record) : list record :=
  let '(passed, st) := implode_records_from f [] rs in
  passed ++ map (fun b => put f (join_with [sep] (snd b)) (fst b)) (buckets_of st).

(* implodeValuesAcrossFields: fields named f_<digits> are unlinked, their values joined, and the result is linked after
   "previousEntry".  previousEntry is set from the Prev pointer of a matching entry while it is still nil, so a match
   at the head of the record (Prev = nil) leaves it unset and the NEXT match that has a predecessor decides: the new
   field goes after the non-matching run that follows the leading matches; only when there is no such later match is it
   prepended (PrependReference overwrites an existing f; PutReferenceAfter does not look) *)
Definition nest_suffix_ok (f k : bytes) : bool :=
  prefixb (f ++ ["_"]) k &&
  (let d := skipn (List.length f + 1) k in negb (beqb d []) && forallb is_digit d).
Fixpoint take_until_match (f : bytes) (r : record) : record * record :=
  match r with
  | [] => ([], [])
  | (k, v) :: t => if nest_suffix_ok f k then ([], r) else let '(a, b) := take_until_match f t in ((k, v) :: a, b)
  end.
Fixpoint drop_matching (f : bytes) (r : record) : record :=
  match r with
  | [] => []
  | (k, v) :: t => if nest_suffix_ok f k then drop_matching f t else r
  end.
Definition implode_fields (f : bytes) (sep : ascii) (r : record) : record :=
  let '(pre, rest) := take_until_match f r in
  let matching := filter (fun kv => nest_suffix_ok f (fst kv)) rest in
  let post := filter (fun kv => negb (nest_suffix_ok f (fst kv))) rest in
  match matching with
  | [] => r
  | _ =>
    let v := join_with [sep] (values matching) in
    match pre with
    | [] =>
      let '(mid, rest2) := take_until_match f (drop_matching f rest) in
      match rest2 with
      | [] => if has f post then setv f v post else (f, v) :: post
      | _ => mid ++ (f, v) :: filter (fun kv => negb (nest_suffix_ok f (fst kv))) rest2
      end
    | _ => pre ++ (f, v) :: post
    end
  end.

(* ------------------------------------------------------------------ reshape *)
(* longToWide *)
Fixpoint l2w_from (kf vf : bytes) (st : @level1 record) (rs : list record) : list record * @level1 record :=
  match rs with
  | [] => ([], st)
  | r :: t =>
    match get kf r, get vf r with
    | Some k, Some v =>
      let others := remove vf (remove kf r) in
      l2w_from kf vf (upd1 (joinc (keys others)) (joinc (values others)) others [] (put k v) st) t
    | _, _ => let '(o, st') := l2w_from kf vf st t in (r :: o, st')
    end
  end.
Definition reshape_l2w (kf vf : bytes) (rs : list record) : list record :=
  let '(passed, st) := l2w_from kf vf [] rs in
  passed ++ map (fun b => fold_left (fun o kv => put (fst kv) (snd kv) o) (snd b) (fst b)) (buckets_of st).

(* wideToLongNoRegex *)
Definition reshape_w2l (ins : list bytes) (ko vo : bytes) (r : record) : list record :=
  let pairs := fold_left (fun p f => match get f r with Some v => put f v p | None => p end) ins [] in
  let others := fold_left (fun o kv => remove (fst kv) o) pairs r in
  match pairs with
  | [] => [r]
  | _ => map (fun kv => put vo (snd kv) (put ko (fst kv) others)) pairs
  end.

(* ------------------------------------------------------------------ altkv *)
Fixpoint altkv_from (i : N) (r : record) (out : record) : record :=
  match r with
  | [] => out
  | [(_, v)] => put (itoa i) v out
  | (_, v1) :: (_, v2) :: t => altkv_from (N.succ i) t (put v1 v2 out)
  end.
Definition altkv (r : record) : record := altkv_from 1 r [].

(* ------------------------------------------------------------------ dispatcher used by the correspondence check *)
Definition hd_b (l : list bytes) : bytes := hd [] l.
Definition hd_c (l : list bytes) : ascii := hd ";" (hd_b l).
Definition snd_b (l : list bytes) : bytes := hd [] (tl l).

Definition run_verb (code : Z) (a b : list bytes) (rs : list record) : list record :=
  match code with
  | 1 => map (cut_f a) rs
  | 2 => map (cut_o a) rs
  | 3 => map (cut_x a) rs
  | 4 => map (template a (hd_b b)) rs
  | 5 => map (reorder_f a) rs
  | 6 => map (reorder_e a) rs
  | 7 => map (rename a) rs
  | 8 => map (label a) rs
  | 9 => regularize rs
  | 10 => map sort_fields rs
  | 11 => unsparsify (hd_b b) rs
  | 12 => map (unsparsify_f a (hd_b b)) rs
  | 13 => map (sparsify (hd_b b)) rs
  | 14 => map (sparsify_f a (hd_b b)) rs
  | 15 => map (fill_empty (hd_b b)) rs
  | 16 => flat_map (explode_records (hd_b a) (hd_c b)) rs
  | 17 => map (explode_fields (hd_b a) (hd_c b)) rs
  | 18 => implode_records (hd_b a) (hd_c b) rs
  | 19 => map (implode_fields (hd_b a) (hd_c b)) rs
  | 20 => reshape_l2w (hd_b a) (snd_b a) rs
  | 21 => flat_map (reshape_w2l a (hd_b b) (snd_b b)) rs
  | 22 => map altkv rs
  | _ => rs
  end%Z.
