(* C12 -- the regex forms of cut and rename, proved for EVERY matcher / replacer.
   The regex library is third party: here it is a function parameter ([hit]: the index of the first -f regex a field
   name matches; [f]: what sub / gsub make of a field name).  The laws below hold for all of them, hence for the matcher
   of Regex.v that the correspondence check runs ([cut_r_is_gen], [rename_r_single_is_walk]) and for Go's. *)
From Miller Require Import Base.Bytes Base.Record C12.Model C12.Proofs C12.Regex.
From Coq Require Import Permutation Lia.

(* ================================================================== cut -r *)
Section CutR.
  Variable hit : bytes -> option nat.
  Variable nrs : nat.

  Definition is_hit (kv : field) : bool := match hit (fst kv) with Some _ => true | None => false end.
  Definition hit_idx (kv : field) : nat := match hit (fst kv) with Some j => j | None => 0 end.

  Definition cut_r_gen (complement argorder : bool) (r : record) : record :=
    let kept := filter (fun kv => xorb (match hit (fst kv) with Some _ => true | None => false end) complement) r in
    if argorder
    then flat_map (fun i => filter (fun kv => match hit (fst kv) with Some j => Nat.eqb i j | None => Nat.eqb i 0 end) kept)
                  (seq 0 (Nat.max 1 nrs))
    else kept.

  (* without -o: exactly the fields whose name matches some regex (-x: the others), as they stand in the record *)
  Lemma cut_r_gen_filter c r : cut_r_gen c false r = filter (fun kv => xorb (is_hit kv) c) r.
  Proof. reflexivity. Qed.

  (* cut -r and cut -x -r are complementary: each field goes to exactly one side, order kept on both *)
  Inductive interleaved {A} : list A -> list A -> list A -> Prop :=
  | il_nil : interleaved [] [] []
  | il_left x l a b : interleaved l a b -> interleaved (x :: l) (x :: a) b
  | il_right x l a b : interleaved l a b -> interleaved (x :: l) a (x :: b).

  Lemma interleaved_perm {A} (l a b : list A) : interleaved l a b -> Permutation (a ++ b) l.
  Proof. induction 1; cbn; auto. symmetry. apply Permutation_cons_app. now symmetry. Qed.

  Lemma cut_r_complement r : interleaved r (cut_r_gen false false r) (cut_r_gen true false r).
  Proof.
    rewrite !cut_r_gen_filter. induction r as [|kv r IH]; cbn [filter]; [constructor|].
    destruct (is_hit kv); cbn; now constructor.
  Qed.

  (* -o: buckets by regex index *)
  Lemma bucket_fn_eq kv i : (match hit (fst kv) with Some j => Nat.eqb i j | None => Nat.eqb i 0 end) = Nat.eqb i (hit_idx kv).
  Proof. unfold hit_idx. destruct (hit (fst kv)); reflexivity. Qed.

  Lemma cut_r_gen_o c r :
    cut_r_gen c true r = flat_map (fun i => filter (fun kv => Nat.eqb i (hit_idx kv)) (cut_r_gen c false r)) (seq 0 (Nat.max 1 nrs)).
  Proof.
    unfold cut_r_gen. apply flat_map_ext. intros i. apply filter_ext. intros kv. apply bucket_fn_eq.
  Qed.

  Lemma filter_bucket_other (l : record) i j : i <> j ->
    filter (fun kv => Nat.eqb i (hit_idx kv)) (filter (fun kv => Nat.eqb j (hit_idx kv)) l) = [].
  Proof.
    intros Hne. induction l as [|kv l IH]; cbn; [reflexivity|].
    destruct (Nat.eqb_spec j (hit_idx kv)) as [E|E]; cbn; [|exact IH].
    destruct (Nat.eqb_spec i (hit_idx kv)); [congruence|exact IH].
  Qed.
  Lemma filter_bucket_same (l : record) i :
    filter (fun kv => Nat.eqb i (hit_idx kv)) (filter (fun kv => Nat.eqb i (hit_idx kv)) l) = filter (fun kv => Nat.eqb i (hit_idx kv)) l.
  Proof.
    induction l as [|kv l IH]; cbn; [reflexivity|].
    destruct (Nat.eqb i (hit_idx kv)) eqn:E; cbn; [rewrite E; now f_equal|exact IH].
  Qed.

  Lemma buckets_project (l : record) i js : NoDup js ->
    filter (fun kv => Nat.eqb i (hit_idx kv)) (flat_map (fun j => filter (fun kv => Nat.eqb j (hit_idx kv)) l) js)
    = if in_dec Nat.eq_dec i js then filter (fun kv => Nat.eqb i (hit_idx kv)) l else [].
  Proof.
    induction 1 as [|j js Hni Hnd IH]; [reflexivity|].
    cbn [flat_map]. rewrite filter_app, IH.
    destruct (Nat.eq_dec j i) as [->|Hne].
    - rewrite filter_bucket_same. destruct (in_dec Nat.eq_dec i js) as [Hin|_]; [contradiction|].
      destruct (in_dec Nat.eq_dec i (i :: js)) as [_|Hn]; [now rewrite app_nil_r|exfalso; apply Hn; cbn; auto].
    - rewrite filter_bucket_other by congruence. cbn [app].
      destruct (in_dec Nat.eq_dec i js) as [Hin|Hn]; destruct (in_dec Nat.eq_dec i (j :: js)) as [Hin'|Hn']; try reflexivity.
      + exfalso. apply Hn'. cbn. auto.
      + exfalso. destruct Hin' as [E|Hin']; [congruence|contradiction].
  Qed.

  Lemma flat_map_insert {A} (x : A) (F : nat -> list A) i js : NoDup js -> In i js ->
    Permutation (flat_map (fun j => if Nat.eqb j i then x :: F j else F j) js) (x :: flat_map F js).
  Proof.
    induction 1 as [|j js Hni Hnd IH]; intros Hin; [destruct Hin|].
    cbn [flat_map]. destruct (Nat.eqb_spec j i) as [->|Hne].
    - cbn. apply perm_skip. apply Permutation_app_head.
      rewrite (flat_map_ext_in (fun j => if Nat.eqb j i then x :: F j else F j) F); [reflexivity|].
      intros k Hk. destruct (Nat.eqb_spec k i); [subst; contradiction|reflexivity].
    - destruct Hin as [E|Hin]; [congruence|]. rewrite (IH Hin). symmetry. apply Permutation_middle.
  Qed.

  Lemma buckets_perm (l : record) js : NoDup js -> (forall kv, In kv l -> In (hit_idx kv) js) ->
    Permutation (flat_map (fun j => filter (fun kv => Nat.eqb j (hit_idx kv)) l) js) l.
  Proof.
    intros Hnd. induction l as [|kv l IH]; intros Hall.
    - assert (E : forall js', flat_map (fun j => filter (fun kv : field => Nat.eqb j (hit_idx kv)) []) js' = [])
        by (induction js'; cbn; auto).
      rewrite E. constructor.
    - rewrite (flat_map_ext (fun j => filter (fun x => Nat.eqb j (hit_idx x)) (kv :: l))
                            (fun j => if Nat.eqb j (hit_idx kv) then kv :: filter (fun x => Nat.eqb j (hit_idx x)) l
                                      else filter (fun x => Nat.eqb j (hit_idx x)) l)) by (intros j; reflexivity).
      rewrite (flat_map_insert kv (fun j => filter (fun x => Nat.eqb j (hit_idx x)) l) (hit_idx kv) js Hnd) by (apply Hall; cbn; auto).
      apply perm_skip. apply IH. intros x Hx. apply Hall. cbn. auto.
  Qed.

  (* the indices the matcher reports are those of the regex list *)
  Hypothesis hit_bound : forall s j, hit s = Some j -> j < nrs.

  Lemma hit_idx_in_range kv : In (hit_idx kv) (seq 0 (Nat.max 1 nrs)).
  Proof.
    apply in_seq. unfold hit_idx. destruct (hit (fst kv)) as [j|] eqn:E; [apply hit_bound in E|]; lia.
  Qed.

  (* cut -r -o: the same fields as without -o (a permutation); fields matching the same regex keep their relative
     order in the record (stability); the groups come in the order of the regexes *)
  Lemma cut_r_o_spec c r :
    Permutation (cut_r_gen c true r) (cut_r_gen c false r)
    /\ (forall i, filter (fun kv => Nat.eqb i (hit_idx kv)) (cut_r_gen c true r)
                  = filter (fun kv => Nat.eqb i (hit_idx kv)) (cut_r_gen c false r))
    /\ cut_r_gen c true r = flat_map (fun i => filter (fun kv => Nat.eqb i (hit_idx kv)) (cut_r_gen c false r)) (seq 0 (Nat.max 1 nrs)).
  Proof.
    split; [|split]; [| |apply cut_r_gen_o].
    - rewrite cut_r_gen_o. apply buckets_perm; [apply seq_NoDup|]. intros kv _. apply hit_idx_in_range.
    - intros i. rewrite cut_r_gen_o, buckets_project by apply seq_NoDup.
      destruct (in_dec Nat.eq_dec i (seq 0 (Nat.max 1 nrs))) as [_|Hn]; [reflexivity|].
      symmetry. induction (cut_r_gen c false r) as [|kv l IH]; cbn; [reflexivity|].
      destruct (Nat.eqb_spec i (hit_idx kv)) as [->|_]; [exfalso; apply Hn, hit_idx_in_range|exact IH].
  Qed.
End CutR.

(* the model the correspondence check runs is the instance at Regex.v's matcher *)
Lemma cut_r_is_gen rs c o r : cut_r rs c o r = cut_r_gen (first_match rs 0) (List.length rs) c o r.
Proof. reflexivity. Qed.

Lemma first_match_bound rs : forall i s j, first_match rs i s = Some j -> j < i + List.length rs.
Proof.
  induction rs as [|x rs IH]; intros i s j; cbn; [discriminate|].
  destruct (matches x s); [intros H; injection H as <-; lia|]. intros H. apply IH in H. lia.
Qed.

(* ================================================================== rename -r / -g *)
Section RenameR.
  (* what sub (-r) or gsub (-g) with one "regex,replacement" pair makes of a field name: ANY function *)
  Variable f : bytes -> bytes.

  (* a bystander of the record r0: its name is left alone, and no renamed field of r0 lands on it *)
  Definition rr_bystander (r0 : record) (kv : field) : bool :=
    beqb (f (fst kv)) (fst kv)
    && negb (existsb (fun k' => negb (beqb (f k') k') && beqb (f k') (fst kv)) (keys r0)).

  Lemma keys_setv n v r : keys (setv n v r) = keys r.
  Proof. unfold setv, keys. rewrite map_map. apply map_ext. intros [k x]. cbn. destruct (beqb n k); reflexivity. Qed.

  Lemma walk_f_bystanders r0 fuel : forall done rest, incl (keys rest) (keys r0) ->
    filter (rr_bystander r0) (rename_walk_f fuel f done rest) = filter (rr_bystander r0) (done ++ rest).
  Proof.
    induction fuel as [|fuel IH]; intros done rest Hin; cbn [rename_walk_f]; [reflexivity|].
    destruct rest as [|[k v] t]; [now rewrite app_nil_r|].
    assert (Ht : incl (keys t) (keys r0)) by (intros x Hx; apply Hin; cbn; auto).
    assert (Hk : In k (keys r0)) by (apply Hin; cbn; auto).
    destruct (beqb_spec (f k) k) as [E|Hne].
    - rewrite IH by assumption. now rewrite <- app_assoc.
    - assert (Pk : forall x, rr_bystander r0 (k, x) = false).
      { intros x. unfold rr_bystander. cbn [fst]. destruct (beqb_spec (f k) k); [congruence|reflexivity]. }
      assert (Pn : forall x, rr_bystander r0 (f k, x) = false).
      { intros x. unfold rr_bystander. cbn [fst]. apply andb_false_iff. right. apply negb_false_iff.
        apply existsb_exists. exists k. split; [assumption|]. rewrite beqb_refl, andb_true_r.
        destruct (beqb_spec (f k) k); [congruence|reflexivity]. }
      destruct (has (f k) (done ++ (k, v) :: t)).
      + rewrite IH by (rewrite keys_setv; assumption).
        rewrite !filter_app. cbn [filter]. rewrite Pk. rewrite !filter_setv_out by auto. reflexivity.
      + rewrite IH by assumption. rewrite !filter_app. cbn [filter app]. rewrite Pk, Pn. now rewrite app_nil_r.
  Qed.

  (* rename -r / -g with one pair: every bystander keeps its name, its value and its place among the bystanders *)
  Lemma rename_f_bystanders r :
    filter (rr_bystander r) (rename_walk_f (List.length r) f [] r) = filter (rr_bystander r) r.
  Proof. apply (walk_f_bystanders r (List.length r) [] r). apply incl_refl. Qed.

  (* a replacer that leaves every name of the record alone leaves the record alone *)
  Lemma walk_f_identity fuel : forall done rest, (forall k, In k (keys rest) -> f k = k) ->
    rename_walk_f fuel f done rest = done ++ rest.
  Proof.
    induction fuel as [|fuel IH]; intros done rest H; cbn [rename_walk_f]; [reflexivity|].
    destruct rest as [|[k v] t]; [now rewrite app_nil_r|].
    rewrite (H k) by (cbn; auto). rewrite beqb_refl. rewrite IH by (intros x Hx; apply H; cbn; auto).
    now rewrite <- app_assoc.
  Qed.
  Lemma rename_f_no_match r : (forall k, In k (keys r) -> f k = k) -> rename_walk_f (List.length r) f [] r = r.
  Proof. intros H. now rewrite walk_f_identity. Qed.
End RenameR.

(* the model the correspondence check runs: one pair = one walk with Regex.v's sub / gsub as the replacer *)
Lemma rename_r_single_is_walk ci re_ rep g r :
  rename_r [(ci, re_, rep)] g r
  = rename_walk_f (List.length r)
      (if g then (fun s => gsub_lit (S (List.length s)) ci re_ (expand rep [] []) s true) else sub1 ci re_ rep) [] r.
Proof. reflexivity. Qed.
(* several pairs: one walk after the other *)
Lemma rename_r_app specs1 specs2 g r : rename_r (specs1 ++ specs2) g r = rename_r specs2 g (rename_r specs1 g r).
Proof. unfold rename_r. apply fold_left_app. Qed.
