(* C12 correspondence harness: the Python driver writes (verb code, list argument A, list argument B,
   input stream, stream observed from mlr); vm_compute evaluates the model on the same input. *)
From Miller Require Import Base.Bytes Base.Record C12.Model C12.Model2.
Open Scope Z_scope.

Definition chk (c : Z * list bytes * list bytes * list record * list record) : bool :=
  let '(code, a, b, input, obs) := c in records_eqb (run_verb2 code a b input) obs.
