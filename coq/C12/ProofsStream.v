(* C12: nest explode then implode (values across records) over a whole stream. *)
From Miller Require Import Base.Bytes Base.Record C12.Model C12.Proofs.

Definition okeys (f : bytes) (r : record) : bytes := joinc (keys (remove f r)).
Definition ovals (f : bytes) (r : record) : bytes := joinc (values (remove f r)).
Definition l2keys (l : @level2 (list bytes)) : list bytes := map fst l.

Lemma upd2_new ov rep (p0 : list bytes) addp (l2 : @level2 (list bytes)) :
  ~ In ov (l2keys l2) -> upd2 ov rep p0 addp l2 = l2 ++ [(ov, (rep, addp p0))].
Proof.
  induction l2 as [|[ov' [rep' p]] l2 IH]; cbn; intros H; [reflexivity|].
  destruct (beqb_spec ov ov') as [->|Hne]; [exfalso; apply H; left; reflexivity|]. rewrite IH by tauto. reflexivity.
Qed.

Lemma upd2_hit ov rep rep' (p0 p : list bytes) addp (l2 t : @level2 (list bytes)) :
  ~ In ov (l2keys l2) -> upd2 ov rep' p0 addp (l2 ++ (ov, (rep, p)) :: t) = l2 ++ (ov, (rep, addp p)) :: t.
Proof.
  induction l2 as [|[ov' [rep2 p2]] l2 IH]; cbn; intros H.
  - now rewrite beqb_refl.
  - destruct (beqb_spec ov ov') as [->|Hne]; [exfalso; apply H; left; reflexivity|]. rewrite IH by tauto. reflexivity.
Qed.

(* the pieces of one record, after the first, extend that record's bucket *)
Lemma implode_more_pieces f K r rep l2 ps : forall vs rest,
  has f r = true -> okeys f r = K -> ~ In (ovals f r) (l2keys l2) ->
  implode_records_from f [(K, l2 ++ [(ovals f r, (rep, vs))])] (map (fun p => put f p r) ps ++ rest)
  = implode_records_from f [(K, l2 ++ [(ovals f r, (rep, vs ++ ps))])] rest.
Proof.
  induction ps as [|p ps IH]; intros vs rest Hh HK Hni; cbn [map app]; [now rewrite app_nil_r|].
  cbn [implode_records_from]. rewrite get_put_same. rewrite remove_put_same by auto.
  fold (okeys f r) (ovals f r). rewrite HK. cbn [upd1]. rewrite beqb_refl.
  match goal with |- context [upd2 ?a ?b ?c ?d ?e] =>
    assert (Y : upd2 a b c d e = l2 ++ [(ovals f r, (rep, vs ++ [p]))])
      by (exact (upd2_hit (ovals f r) rep (put f p r) [] vs (fun vs0 => vs0 ++ [p]) l2 [] Hni)); rewrite Y; clear Y end.
  rewrite IH by auto. now rewrite <- app_assoc.
Qed.

Definition bucket_of (f : bytes) (sep : ascii) (r : record) : bytes * (record * list bytes) :=
  let ps := split1 sep (getd f r []) in (ovals f r, (put f (hd [] ps) r, ps)).

Lemma implode_stream_from f sep K rs : forall l2,
  (forall r, In r rs -> has f r = true /\ okeys f r = K) ->
  NoDup (l2keys l2 ++ map (ovals f) rs) ->
  implode_records_from f [(K, l2)] (flat_map (explode_records f sep) rs)
  = ([], [(K, l2 ++ map (bucket_of f sep) rs)]).
Proof.
  induction rs as [|r rs IH]; intros l2 Hall Hnd; cbn [flat_map map]; [now rewrite app_nil_r|].
  destruct (Hall r (or_introl eq_refl)) as [Hh HK].
  unfold explode_records at 1. unfold has in Hh. destruct (get f r) as [v|] eqn:G; [|discriminate].
  assert (Hh' : has f r = true) by (unfold has; now rewrite G).
  destruct (split1 sep v) as [|p ps] eqn:E; [exfalso; eapply split1_nonempty; eauto|].
  cbn [map app implode_records_from]. rewrite get_put_same. rewrite remove_put_same by auto.
  fold (okeys f r) (ovals f r). rewrite HK. cbn [upd1]. rewrite beqb_refl.
  assert (Hni : ~ In (ovals f r) (l2keys l2)).
  { intros Hin. apply NoDup_remove_2 in Hnd. apply Hnd. apply in_or_app. left. exact Hin. }
  match goal with |- context [upd2 ?a ?b ?c ?d ?e] =>
    assert (Y : upd2 a b c d e = l2 ++ [(ovals f r, (put f p r, [p]))])
      by (exact (upd2_new (ovals f r) (put f p r) [] (fun vs0 => vs0 ++ [p]) l2 Hni)); rewrite Y; clear Y end.
  match goal with |- context [implode_records_from ?a ?b ?c] =>
    pose proof (implode_more_pieces f K r (put f p r) l2 ps [p] (flat_map (explode_records f sep) rs) Hh' HK Hni) as Z;
    match type of Z with _ = ?rhs => assert (Z' : implode_records_from a b c = rhs) by exact Z end; rewrite Z'; clear Z Z' end.
  cbn [app].
  rewrite IH.
  - rewrite <- app_assoc. cbn [app]. unfold bucket_of at 2. unfold getd. rewrite G, E. reflexivity.
  - intros r' Hr'. apply Hall. right. exact Hr'.
  - unfold l2keys in *. rewrite map_app. cbn [map fst]. rewrite <- app_assoc. cbn [app].
    exact Hnd.
Qed.

Theorem explode_implode_stream f sep K rs :
  (forall r, In r rs -> has f r = true /\ okeys f r = K) ->
  NoDup (map (ovals f) rs) ->
  implode_records f sep (flat_map (explode_records f sep) rs) = rs.
Proof.
  intros Hall Hnd. unfold implode_records.
  destruct rs as [|r rs]; [reflexivity|].
  (* the first record opens the table: same as starting from the empty table for its key signature *)
  assert (S : implode_records_from f [] (flat_map (explode_records f sep) (r :: rs))
              = implode_records_from f [(K, [])] (flat_map (explode_records f sep) (r :: rs))).
  { cbn [flat_map]. destruct (Hall r (or_introl eq_refl)) as [Hh HK].
    unfold explode_records at 1 3. unfold has in Hh. destruct (get f r) as [v|] eqn:G; [|discriminate].
    assert (Hh' : has f r = true) by (unfold has; now rewrite G).
    destruct (split1 sep v) as [|p ps] eqn:E; [exfalso; eapply split1_nonempty; eauto|].
    cbn [map app implode_records_from]. rewrite get_put_same. rewrite remove_put_same by auto.
    fold (okeys f r). rewrite HK. cbn [upd1]. now rewrite beqb_refl. }
  match goal with |- context [implode_records_from ?a ?b ?c] =>
    match type of S with _ = ?rhs => assert (S' : implode_records_from a b c = rhs) by exact S end end.
  rewrite S'. clear S S'.
  pose proof (implode_stream_from f sep K (r :: rs) [] Hall Hnd) as X.
  match goal with |- context [implode_records_from ?a ?b ?c] =>
    match type of X with _ = ?rhs => assert (X' : implode_records_from a b c = rhs) by exact X end end.
  rewrite X'. clear X X'. unfold buckets_of. cbn [app flat_map snd]. rewrite app_nil_r, !map_map.
  transitivity (map (fun x : record => x) (r :: rs)); [|apply map_id]. apply map_ext_in. intros r' Hr'.
  destruct (Hall r' Hr') as [Hh _]. unfold has in Hh. destruct (get f r') as [v|] eqn:G; [|discriminate].
  unfold bucket_of. cbn [fst snd]. unfold getd. rewrite G. rewrite put_put_same, join_split1. now apply put_get_same.
Qed.

(* ------------------------------------------------------------------ reorder -e: where the named fields go *)
Lemma remove_app_present k (a b : record) : In k (keys a) -> remove k (a ++ b) = remove k a ++ b.
Proof.
  induction a as [|[k' v'] a IH]; cbn; intros H; [contradiction|].
  destruct (beqb_spec k k') as [->|Hne]; [reflexivity|]. cbn. f_equal. apply IH. destruct H as [H|H]; [congruence|exact H].
Qed.

Lemma pick_app a b r : pick (a ++ b) r = pick a r ++ pick b r.
Proof. unfold pick. apply flat_map_app. Qed.

Lemma mem_app k a b : mem k (a ++ b) = mem k a || mem k b.
Proof. unfold mem. apply existsb_app. Qed.

Theorem reorder_e_spec fs r : NoDup fs -> wf r -> reorder_e fs r = filter (unnamed fs) r ++ pick fs r.
Proof.
  intros Hnd Hwf. induction fs as [|f fs IH] using rev_ind.
  - cbn. rewrite app_nil_r. symmetry. apply filter_all_true. reflexivity.
  - assert (Hnd' : NoDup fs /\ ~ In f fs).
    { apply NoDup_remove in Hnd. rewrite app_nil_r in Hnd. exact Hnd. }
    destruct Hnd' as [Hnd' Hni].
    unfold reorder_e. rewrite fold_left_app. cbn [fold_left]. fold (reorder_e fs r). rewrite (IH Hnd').
    assert (Hun : forall v, unnamed fs (f, v) = true).
    { intros v. unfold unnamed. cbn. destruct (mem f fs) eqn:M; [apply mem_In in M; contradiction|reflexivity]. }
    assert (Hpk : ~ In f (keys (pick fs r))) by (intros H; apply Hni; eapply pick_keys_incl; eauto).
    assert (E : filter (unnamed (fs ++ [f])) r = filter (fun kv => negb (beqb f (fst kv))) (filter (unnamed fs) r)).
    { rewrite filter_filter. apply filter_ext. intros [k v]. unfold unnamed. cbn [fst]. rewrite mem_app. cbn.
      rewrite orb_false_r, (beqb_sym k f). destruct (beqb f k), (mem k fs); reflexivity. }
    unfold move_to_tail. rewrite get_app, (get_filter_keep _ _ _ Hun). rewrite pick_app. cbn [pick flat_map]. rewrite app_nil_r.
    destruct (get f r) as [v|] eqn:G.
    + assert (Hin : In f (keys (filter (unnamed fs) r))).
      { apply has_true_in. unfold has. rewrite (get_filter_keep _ _ _ Hun), G. reflexivity. }
      rewrite remove_app_present by exact Hin. rewrite remove_filter by (apply wf_filter; exact Hwf). rewrite E.
      now rewrite <- app_assoc.
    + rewrite (proj2 (get_None_notin _ _) Hpk). rewrite app_nil_r. f_equal. rewrite E. symmetry.
      apply filter_all_true. intros [k v] Hin. cbn. apply negb_true_iff, beqb_false. intros ->.
      apply filter_In in Hin. destruct Hin as [Hin _]. apply (proj1 (get_None_notin _ _) G). apply (in_map fst) in Hin. exact Hin.
Qed.

(* ------------------------------------------------------------------ nest implode across fields: bystanders, for EVERY field name *)
(* a bystander of  nest --implode --values --across-fields -f F : neither literally F_<digits> nor F itself *)
Definition nomatch (f : bytes) (kv : field) : bool := negb (nest_suffix_ok f (fst kv)).
Definition implode_bystander (f : bytes) (kv : field) : bool := nomatch f kv && negb (beqb f (fst kv)).

Lemma take_until_match_split f r :
  r = fst (take_until_match f r) ++ snd (take_until_match f r)
  /\ forallb (nomatch f) (fst (take_until_match f r)) = true.
Proof.
  induction r as [|[k v] r IH]; cbn [take_until_match]; [split; reflexivity|].
  destruct (nest_suffix_ok f k) eqn:E; [split; reflexivity|].
  destruct (take_until_match f r) as [a b]. cbn [fst snd] in *. destruct IH as [H1 H2]. split.
  - cbn. now rewrite <- H1.
  - cbn [forallb]. unfold nomatch at 1. cbn [fst]. now rewrite E, H2.
Qed.

Lemma filter_bystander_nomatch f (x : record) : filter (implode_bystander f) (filter (nomatch f) x) = filter (implode_bystander f) x.
Proof.
  rewrite filter_filter. apply filter_ext. intros kv. unfold implode_bystander. destruct (nomatch f kv); reflexivity.
Qed.

Lemma drop_matching_bystanders f (x : record) : filter (implode_bystander f) (drop_matching f x) = filter (implode_bystander f) x.
Proof.
  induction x as [|[k v] x IH]; cbn [drop_matching]; [reflexivity|].
  destruct (nest_suffix_ok f k) eqn:E; [|reflexivity].
  rewrite IH. cbn [filter]. unfold implode_bystander at 2, nomatch. cbn [fst]. now rewrite E.
Qed.

Lemma bystander_f_false f v : implode_bystander f (f, v) = false.
Proof. unfold implode_bystander. cbn. now rewrite beqb_refl, andb_false_r. Qed.

Lemma filter_cons_false {A} (p : A -> bool) a l : p a = false -> filter p (a :: l) = filter p l.
Proof. intros H. cbn. now rewrite H. Qed.

Theorem implode_fields_bystanders f sep r :
  filter (implode_bystander f) (implode_fields f sep r) = filter (implode_bystander f) r.
Proof.
  unfold implode_fields. destruct (take_until_match_split f r) as [Hr _].
  destruct (take_until_match f r) as [pre rest]. cbn [fst snd] in Hr. cbv beta iota zeta.
  destruct (filter (fun kv => nest_suffix_ok f (fst kv)) rest) as [|m ms]; [reflexivity|].
  set (v := join_with [sep] (values (m :: ms))).
  set (post := filter (fun kv => negb (nest_suffix_ok f (fst kv))) rest).
  assert (Hpost : filter (implode_bystander f) post = filter (implode_bystander f) rest)
    by (apply (filter_bystander_nomatch f rest)).
  destruct pre as [|q pre].
  - cbn [app] in Hr. subst r.
    destruct (take_until_match_split f (drop_matching f rest)) as [Hd _].
    destruct (take_until_match f (drop_matching f rest)) as [mid rest2]. cbn [fst snd] in Hd.
    destruct rest2 as [|x rest2].
    + destruct (has f post).
      * rewrite filter_setv_out by (intros; apply bystander_f_false). exact Hpost.
      * cbn [filter]. rewrite bystander_f_false. exact Hpost.
    + rewrite filter_app. rewrite filter_cons_false by apply bystander_f_false.
      match goal with |- context [filter (implode_bystander f) (@filter ?A ?p (x :: rest2))] =>
        replace (filter (implode_bystander f) (@filter A p (x :: rest2))) with (filter (implode_bystander f) (x :: rest2))
          by (symmetry; exact (filter_bystander_nomatch f (x :: rest2))) end.
      rewrite <- filter_app, <- Hd. apply drop_matching_bystanders.
  - subst r. rewrite !filter_app. cbn [filter]. rewrite bystander_f_false. now rewrite Hpost.
Qed.

(* ------------------------------------------------------------------ reshape long-to-wide then wide-to-long *)
Lemma get_own k v (ps : record) : wf ps -> In (k, v) ps -> get k ps = Some v.
Proof.
  induction ps as [|[k' v'] ps IH]; intros Hwf Hin; [contradiction|]. cbn.
  destruct Hin as [[= -> ->]|Hin]; [now rewrite beqb_refl|].
  destruct (beqb_spec k k') as [->|Hne]; [|apply IH; [eapply wf_tail; eauto|exact Hin]].
  exfalso. apply (wf_head_notin _ _ _ Hwf). apply (in_map fst) in Hin. exact Hin.
Qed.

Lemma w2l_pairs_own (others ps : record) :
  wf ps -> (forall k, In k (keys ps) -> ~ In k (keys others)) -> w2l_pairs (keys ps) (others ++ ps) = ps.
Proof.
  intros Hwf Hdis. unfold w2l_pairs. set (r := others ++ ps).
  assert (G : forall (qs : record) acc, (forall k v, In (k, v) qs -> get k r = Some v) ->
              fold_left (fun p f => match get f r with Some v => put f v p | None => p end) (keys qs) acc
              = fold_left (fun o kv => put (fst kv) (snd kv) o) qs acc).
  { induction qs as [|[k v] qs IH]; intros acc H; cbn [keys map fold_left fst snd]; [reflexivity|].
    rewrite (H k v (or_introl eq_refl)). apply IH. intros k' v' Hin. apply H. right; exact Hin. }
  rewrite G.
  - rewrite (fold_put_appends ps []); [reflexivity|exact Hwf|intros k _ []].
  - intros k v Hin. unfold r. rewrite get_app.
    assert (Hk : ~ In k (keys others)) by (apply Hdis; apply (in_map fst) in Hin; exact Hin).
    rewrite (proj2 (get_None_notin _ _) Hk). apply get_own; auto.
Qed.

Lemma w2l_others_own (others ps : record) :
  wf (others ++ ps) -> (forall k, In k (keys ps) -> ~ In k (keys others)) ->
  fold_left (fun o kv => remove (fst kv) o) ps (others ++ ps) = others.
Proof.
  intros Hwf Hdis.
  assert (E : forall (qs : record) r, fold_left (fun o kv => remove (fst kv) o) qs r = cut_x (keys qs) r).
  { unfold cut_x. induction qs as [|q qs IH]; intros r; cbn; [reflexivity|]. apply IH. }
  rewrite E, cut_x_is_filter by exact Hwf. rewrite filter_app.
  rewrite (filter_all_true _ others), (filter_all_false_ _ ps); [apply app_nil_r| |].
  - intros [k v] Hin. cbn. apply negb_false_iff, mem_In. apply (in_map fst) in Hin. exact Hin.
  - intros [k v] Hin. cbn. apply negb_true_iff. destruct (mem k (keys ps)) eqn:M; [|reflexivity].
    apply mem_In in M. exfalso. apply (Hdis k M). apply (in_map fst) in Hin. exact Hin.
Qed.

Theorem reshape_l2w_w2l ko vo (others ps : record) :
  wf (others ++ ps) -> wf ps -> (forall k, In k (keys ps) -> ~ In k (keys others)) ->
  ~ In ko (keys others) -> ~ In vo (keys others) -> ko <> vo -> ps <> [] ->
  flat_map (reshape_w2l (keys ps) ko vo) (reshape_l2w ko vo (map (long_row ko vo others) ps))
  = map (long_row ko vo others) ps.
Proof.
  intros Hwf Hwp Hdis Hko Hvo Hne Hps.
  rewrite (l2w_rows ko vo others Hko Hvo Hne ps Hps).
  rewrite (fold_put_appends ps []) by (auto; intros k _ []). cbn [app].
  rewrite (fold_put_appends ps others Hwp Hdis). cbn [flat_map]. rewrite app_nil_r.
  unfold reshape_w2l. fold (w2l_pairs (keys ps) (others ++ ps)). rewrite (w2l_pairs_own others ps Hwp Hdis).
  rewrite (w2l_others_own others ps Hwf Hdis). destruct ps; [congruence|reflexivity].
Qed.

(* ------------------------------------------------------------------ altkv *)
Fixpoint pairs_vals (vs : list bytes) : list (bytes * bytes) * option bytes :=
  match vs with
  | a :: b :: t => let '(ps, last) := pairs_vals t in ((a, b) :: ps, last)
  | [a] => ([], Some a)
  | [] => ([], None)
  end.

Lemma altkv_from_spec n : forall r i out, (List.length r <= n)%nat ->
  altkv_from i r out =
    let '(ps, last) := pairs_vals (values r) in
    let o' := fold_left (fun o p => put (fst p) (snd p) o) ps out in
    match last with Some v => put (itoa (i + N.of_nat (List.length ps))) v o' | None => o' end.
Proof.
  induction n as [|n IH]; intros r i out Hlen.
  - destruct r; [reflexivity|cbn in Hlen; lia].
  - destruct r as [|[k1 v1] [|[k2 v2] t]]; [reflexivity|cbn; now rewrite N.add_0_r|].
    cbn [altkv_from values map snd pairs_vals]. rewrite IH by (cbn in Hlen; lia).
    fold (values t). destruct (pairs_vals (values t)) as [ps last]. cbn [fold_left fst snd List.length].
    destruct last; [|reflexivity]. f_equal. f_equal. lia.
Qed.

Theorem altkv_spec r :
  altkv r =
    let '(ps, last) := pairs_vals (values r) in
    let o' := fold_left (fun o p => put (fst p) (snd p) o) ps [] in
    match last with Some v => put (itoa (1 + N.of_nat (List.length ps))) v o' | None => o' end.
Proof. unfold altkv. apply (altkv_from_spec (List.length r)). lia. Qed.
