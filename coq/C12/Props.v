(* C12 property theorems.  Only statements closed by [exact]; each followed by Print Assumptions.
   All are about the definitions of C12/Model.v that the correspondence harness (C12/Harness.v) runs.
   wf r = the record's field names are pairwise distinct (what every reader delivers). *)
From Miller Require Import Base.Bytes Base.Record C12.Model C12.Proofs C12.ProofsStream C12.Regex C12.RegexLaws C12.Model2 C12.ProofsFields.
From Coq Require Import Permutation.

(* ---- cut: -f keeps exactly the named fields in record order (definitional), -x -f exactly the others, and the two
   are complementary: interleaving them back by the record's own name mask gives the record *)
Theorem C12_cut_x_keeps_exactly_the_others :
  forall fs r, wf r -> cut_x fs r = filter (fun kv => negb (mem (fst kv) fs)) r.
Proof. exact cut_x_is_filter. Qed.
Print Assumptions C12_cut_x_keeps_exactly_the_others.

Theorem C12_cut_complement :
  forall fs r, wf r -> unsplit (map (fun kv => mem (fst kv) fs) r) (cut_f fs r) (cut_x fs r) = r.
Proof. exact cut_complement. Qed.
Print Assumptions C12_cut_complement.

Theorem C12_cut_partition : forall fs r, wf r -> Permutation (cut_f fs r ++ cut_x fs r) r.
Proof. exact cut_f_x_partition. Qed.
Print Assumptions C12_cut_partition.

(* cut -o: a name is in the output iff it is listed and present, with the record's value *)
Theorem C12_cut_o_values : forall fs r k, get k (cut_o fs r) = if mem k fs then get k r else None.
Proof. exact cut_o_get. Qed.
Print Assumptions C12_cut_o_values.

(* ---- reorder -f / -e: a permutation of the record; unnamed fields keep name, value and relative order *)
Theorem C12_reorder_is_permutation :
  forall fs r, Permutation (reorder_f fs r) r /\ Permutation (reorder_e fs r) r.
Proof. exact (fun fs r => conj (reorder_f_perm fs r) (reorder_e_perm fs r)). Qed.
Print Assumptions C12_reorder_is_permutation.

Theorem C12_reorder_bystanders :
  forall fs r, filter (unnamed fs) (reorder_f fs r) = filter (unnamed fs) r
            /\ filter (unnamed fs) (reorder_e fs r) = filter (unnamed fs) r.
Proof. exact (fun fs r => conj (reorder_f_bystanders fs r) (reorder_e_bystanders fs r)). Qed.
Print Assumptions C12_reorder_bystanders.

(* reorder -f a,b,...: the named fields that are present come first, in argument order, then the others in record order *)
Theorem C12_reorder_f_named_first_in_argument_order :
  forall fs r, NoDup fs -> wf r -> reorder_f fs r = pick fs r ++ filter (unnamed fs) r.
Proof. exact reorder_f_spec. Qed.
Print Assumptions C12_reorder_f_named_first_in_argument_order.

(* reorder -e -f a,b,...: the others first in record order, then the named fields that are present, in argument order *)
Theorem C12_reorder_e_named_last_in_argument_order :
  forall fs r, NoDup fs -> wf r -> reorder_e fs r = filter (unnamed fs) r ++ pick fs r.
Proof. exact reorder_e_spec. Qed.
Print Assumptions C12_reorder_e_named_last_in_argument_order.

(* ---- rename: fields that are neither an old nor a new name keep name, value and relative order (any name list);
   rename a,b then b,a is the identity when b is new *)
Theorem C12_rename_bystanders :
  forall names r,
    filter (rename_bystander (rename_map names)) (rename names r) = filter (rename_bystander (rename_map names)) r.
Proof. exact rename_bystanders. Qed.
Print Assumptions C12_rename_bystanders.

Theorem C12_rename_to_new_name_in_place :
  forall a b r, wf r -> ~ In b (keys r) -> rename [a; b] r = map (ren a b) r.
Proof. exact rename_fresh. Qed.
Print Assumptions C12_rename_to_new_name_in_place.

(* rename a,b then b,a is the identity when b is new -- or when b is a itself (Mlrmap.Rename(a, a) is a no-op since the
   repair bdf02f36c in /repo; before it the field was unlinked) *)
Theorem C12_rename_inverse :
  forall a b r, wf r -> (b = a \/ ~ In b (keys r)) -> rename [b; a] (rename [a; b] r) = r.
Proof. exact rename_inverse_gen. Qed.
Print Assumptions C12_rename_inverse.

Theorem C12_rename_same_name_is_identity : forall a r, rename [a; a] r = r.
Proof. exact rename_same_name. Qed.
Print Assumptions C12_rename_same_name_is_identity.

(* ---- sort-within-records / regularize: per-record permutations *)
Theorem C12_sort_within_records_sorted_permutation :
  forall r, Permutation (sort_fields r) r /\ sorted_keys (sort_fields r).
Proof. exact (fun r => conj (sort_fields_perm r) (sort_fields_sorted r)). Qed.
Print Assumptions C12_sort_within_records_sorted_permutation.

(* side condition: no two records of the stream share the comma-joined sorted-key signature without having the same
   key set (the code keys its table by that joined string; names containing "," can collide) *)
Theorem C12_regularize_permutes :
  forall rs,
    (forall r, In r rs -> wf r) ->
    (forall r1 r2, In r1 rs -> In r2 rs -> sig r1 = sig r2 -> Permutation (keys r1) (keys r2)) ->
    Forall2 (fun o r => Permutation o r) (regularize rs) rs.
Proof. exact regularize_perm. Qed.
Print Assumptions C12_regularize_permutes.

(* ---- unsparsify: rectangular over the union of keys in first-seen order, own values kept, holes filled *)
Theorem C12_unsparsify_rectangular_first_seen :
  forall fill rs,
    unsparsify fill rs = map (fun r => map (fun k => (k, getd k r fill)) (first_seen (List.concat (map keys rs)))) rs
    /\ NoDup (first_seen (List.concat (map keys rs)))
    /\ (forall k, In k (first_seen (List.concat (map keys rs))) <-> exists r, In r rs /\ In k (keys r)).
Proof. exact unsparsify_full. Qed.
Print Assumptions C12_unsparsify_rectangular_first_seen.

Theorem C12_unsparsify_f_only_appends :
  forall fs fill r, exists extra,
    unsparsify_f fs fill r = r ++ extra
    /\ Forall (fun kv => In (fst kv) fs /\ snd kv = fill /\ ~ In (fst kv) (keys r)) extra.
Proof. exact unsparsify_f_appends. Qed.
Print Assumptions C12_unsparsify_f_only_appends.

(* ---- sparsify / fill-empty change only what they name *)
Theorem C12_sparsify_removes_exactly_filler :
  forall filler r kv, In kv (sparsify filler r) <-> In kv r /\ snd kv <> filler.
Proof. exact sparsify_spec. Qed.
Print Assumptions C12_sparsify_removes_exactly_filler.

Theorem C12_sparsify_f_bystanders :
  forall fs filler r, filter (unnamed fs) (sparsify_f fs filler r) = filter (unnamed fs) r.
Proof. exact sparsify_f_bystanders. Qed.
Print Assumptions C12_sparsify_f_bystanders.

Theorem C12_fill_empty_only_empties :
  forall fill r, fill_empty fill r = map (fun kv => (fst kv, match snd kv with [] => fill | v => v end)) r.
Proof. exact fill_empty_spec. Qed.
Print Assumptions C12_fill_empty_only_empties.

(* ---- nest: explode values across records changes only the named field, and implode undoes it.
   _partial: proved for the explosion of ONE record (a stream of several records re-groups by the other fields,
   and the bucket key is the comma-joined text of the other fields); pairs/fields variants by correspondence only *)
Theorem C12_nest_explode_records_bystanders :
  forall f sep r o, In o (explode_records f sep r) -> remove f o = remove f r /\ keys o = keys r.
Proof. exact explode_records_bystanders. Qed.
Print Assumptions C12_nest_explode_records_bystanders.

Theorem C12_nest_implode_explode_partial :
  forall f sep r v, get f r = Some v -> implode_records f sep (explode_records f sep r) = [r].
Proof. exact explode_implode_single. Qed.
Print Assumptions C12_nest_implode_explode_partial.

(* the same over a whole stream: every record has the field, the records agree on the other fields' names (same
   comma-joined key signature K) and differ pairwise in the other fields' values (as comma-joined text): explode then
   implode is the identity on the stream, order included *)
Theorem C12_nest_implode_explode_stream :
  forall f sep K rs,
    (forall r, In r rs -> has f r = true /\ okeys f r = K) ->
    NoDup (map (ovals f) rs) ->
    implode_records f sep (flat_map (explode_records f sep) rs) = rs.
Proof. exact explode_implode_stream. Qed.
Print Assumptions C12_nest_implode_explode_stream.

Theorem C12_split_join_inverse : forall sep s, join_with [sep] (split1 sep s) = s.
Proof. exact join_split1. Qed.
Print Assumptions C12_split_join_inverse.

(* ---- label: the first n fields take the new names (n = min of the two lengths), values and order kept; later fields
   are kept unless their name is one of the new names just given (they would collide) *)
Theorem C12_label_renames_first_n :
  forall names r, NoDup names -> wf r ->
    let k := Nat.min (List.length names) (List.length r) in
    label names r = combine (firstn k names) (values (firstn k r))
                    ++ filter (fun kv => negb (mem (fst kv) (firstn k names))) (skipn k r).
Proof. exact label_spec. Qed.
Print Assumptions C12_label_renames_first_n.

(* ---- nest across fields: explode replaces the field in place by f_1..f_n and touches nothing else; implode undoes it
   when no other field is named f_<digits> (and, with f first in the record, no second field f exists) *)
Theorem C12_nest_explode_fields_in_place :
  forall f sep pre v post, ~ In f (keys pre) ->
    explode_fields f sep (pre ++ (f, v) :: post) = pre ++ number_from f 1 (split1 sep v) ++ post.
Proof. exact explode_fields_shape. Qed.
Print Assumptions C12_nest_explode_fields_in_place.

Theorem C12_nest_explode_fields_absent : forall f sep r, ~ In f (keys r) -> explode_fields f sep r = r.
Proof. exact explode_fields_absent. Qed.
Print Assumptions C12_nest_explode_fields_absent.

Theorem C12_nest_implode_explode_fields :
  forall f sep pre v post,
    ~ In f (keys pre) -> no_suffix_match f pre -> no_suffix_match f post -> (pre = [] -> ~ In f (keys post)) ->
    implode_fields f sep (explode_fields f sep (pre ++ (f, v) :: post)) = pre ++ (f, v) :: post.
Proof. exact explode_implode_fields. Qed.
Print Assumptions C12_nest_implode_explode_fields.

(* implode across fields, for EVERY field name F (regex metacharacters, any bytes): a field that is neither literally
   F_<decimal digits> nor F itself keeps its name, value and relative order (the pattern is the quoted name since the
   repair 331a3d347 in /repo) *)
Theorem C12_nest_implode_fields_bystanders :
  forall f sep r, filter (implode_bystander f) (implode_fields f sep r) = filter (implode_bystander f) r.
Proof. exact implode_fields_bystanders. Qed.
Print Assumptions C12_nest_implode_fields_bystanders.

(* ---- reshape: wide-to-long then long-to-wide gives the record back with the reshaped fields moved to the end
   (others first, then the -i fields that were present, in -i order): the same fields, and the record itself when
   those fields were its last ones in that order.  Side conditions: the key/value column names are new and distinct,
   at least one -i field is present.  (long-to-wide then wide-to-long, the regex form and multi-record streams:
   correspondence and oracle only) *)
Theorem C12_reshape_wide_long_wide :
  forall ins ko vo r,
    wf r -> ~ In ko (keys r) -> ~ In vo (keys r) -> ko <> vo -> w2l_pairs ins r <> [] ->
    reshape_l2w ko vo (reshape_w2l ins ko vo r) = [w2l_others ins r ++ w2l_pairs ins r].
Proof. exact reshape_w2l_l2w. Qed.
Print Assumptions C12_reshape_wide_long_wide.

(* long-to-wide then wide-to-long (-i the new columns): a group of long rows that share their other fields and have
   pairwise distinct keys comes back row for row (key/value column names new and distinct; keys not among the other names) *)
Theorem C12_reshape_long_wide_long :
  forall ko vo others ps,
    wf (others ++ ps) -> wf ps -> (forall k, In k (keys ps) -> ~ In k (keys others)) ->
    ~ In ko (keys others) -> ~ In vo (keys others) -> ko <> vo -> ps <> [] ->
    flat_map (reshape_w2l (keys ps) ko vo) (reshape_l2w ko vo (map (long_row ko vo others) ps))
    = map (long_row ko vo others) ps.
Proof. exact reshape_l2w_w2l. Qed.
Print Assumptions C12_reshape_long_wide_long.

(* ---- altkv: values pair up as key/value (a later pair with the same key overwrites in place), an odd last value gets
   the key <number of pairs + 1> *)
Theorem C12_altkv_pairs_values :
  forall r, altkv r =
    let '(ps, last) := pairs_vals (values r) in
    let o' := fold_left (fun o p => put (fst p) (snd p) o) ps [] in
    match last with Some v => put (itoa (1 + N.of_nat (List.length ps))) v o' | None => o' end.
Proof. exact altkv_spec. Qed.
Print Assumptions C12_altkv_pairs_values.

(* ---- template: exactly the template names (first occurrence order), record values where present, fill elsewhere *)
Theorem C12_template_names_and_values :
  forall fs fill r,
    keys (template fs fill r) = first_seen fs
    /\ forall k, get k (template fs fill r) = if mem k fs then Some (getd k r fill) else None.
Proof. exact (fun fs fill r => conj (template_keys fs fill r) (template_get fs fill r)). Qed.
Print Assumptions C12_template_names_and_values.

(* non-vacuity: concrete non-trivial inputs meet the hypotheses *)
Example C12_nonvacuous :
  let r := [(B "a", B "1"); (B "x", B "p;q;r"); (B "b", B ""); (B "a.b", B "3")] in
  let s := [(B "b", B "7"); (B "a", B "8")] in
  wf r /\ ~ In (B "new") (keys r)
  /\ cut_f [B "x"; B "zz"; B "a"] r = [(B "a", B "1"); (B "x", B "p;q;r")]
  /\ cut_x [B "x"; B "zz"; B "a"] r = [(B "b", B ""); (B "a.b", B "3")]
  /\ reorder_f [B "b"; B "x"] r = [(B "b", B ""); (B "x", B "p;q;r"); (B "a", B "1"); (B "a.b", B "3")]
  /\ rename [B "a"; B "new"] r = [(B "new", B "1"); (B "x", B "p;q;r"); (B "b", B ""); (B "a.b", B "3")]
  /\ get (B "x") r = Some (B "p;q;r")
  /\ altkv r = [(B "1", B "p;q;r"); (B "", B "3")]
  /\ reshape_l2w (B "K") (B "V") (map (long_row (B "K") (B "V") [(B "id", B "7")]) [(B "x", B "1"); (B "y", B "2")])
     = [[(B "id", B "7"); (B "x", B "1"); (B "y", B "2")]]
  /\ implode_fields (B "a.b") ";" [(B "axb_1", B "p"); (B "a.b_1", B "q"); (B "z", B "3"); (B "a.b_2", B "r")]
     = [(B "axb_1", B "p"); (B "a.b", B "q;r"); (B "z", B "3")]
  /\ label [B "n1"; B "b"] r = [(B "n1", B "1"); (B "b", B "p;q;r"); (B "a.b", B "3")]
  /\ explode_fields (B "x") ";" r = [(B "a", B "1"); (B "x_1", B "p"); (B "x_2", B "q"); (B "x_3", B "r"); (B "b", B ""); (B "a.b", B "3")]
  /\ implode_fields (B "x") ";" (explode_fields (B "x") ";" r) = r
  /\ w2l_pairs [B "x"; B "b"] r = [(B "x", B "p;q;r"); (B "b", B "")]
  /\ reshape_l2w (B "K") (B "V") (reshape_w2l [B "x"; B "b"] (B "K") (B "V") r)
     = [[(B "a", B "1"); (B "a.b", B "3"); (B "x", B "p;q;r"); (B "b", B "")]]
  /\ List.length (explode_records (B "x") ";" r) = 3%nat
  /\ regularize [[(B "a", B "1"); (B "b", B "2")]; s] = [[(B "a", B "1"); (B "b", B "2")]; [(B "a", B "8"); (B "b", B "7")]]
  /\ unsparsify (B "-") [s; r] = [[(B "b", B "7"); (B "a", B "8"); (B "x", B "-"); (B "a.b", B "-")];
                                 [(B "b", B ""); (B "a", B "1"); (B "x", B "p;q;r"); (B "a.b", B "3")]].
Proof.
  cbv zeta. split; [apply wf_iff; vm_compute; reflexivity|]. split.
  - intros H. apply mem_In in H. vm_compute in H. discriminate.
  - vm_compute. repeat split; reflexivity.
Qed.

Example C12_nonvacuous_stream :
  let rs := [[(B "x", B "p;q"); (B "id", B "1")]; [(B "x", B ";"); (B "id", B "2")]] in
  (forall r0, In r0 rs -> has (B "x") r0 = true /\ okeys (B "x") r0 = B "id")
  /\ NoDup (map (ovals (B "x")) rs)
  /\ List.length (flat_map (explode_records (B "x") ";") rs) = 4%nat
  /\ implode_records (B "x") ";" (flat_map (explode_records (B "x") ";") rs) = rs.
Proof.
  cbv zeta. split; [intros r0 [<-|[<-|[]]]; split; reflexivity|].
  split; [apply nodupb_NoDup; vm_compute; reflexivity|]. split; vm_compute; reflexivity.
Qed.

(* ================================================================== regex forms, for EVERY matcher / replacer
   (the regex library is a parameter: [hit] = index of the first -f regex the field name matches, [f] = what sub / gsub
   make of a field name; the correspondence check runs the instances at Regex.v's matcher) *)

(* cut -r -f keeps exactly the fields whose name some regex matches, as they stand in the record; -x exactly the others;
   the two are complementary (each field on exactly one side, order kept on both sides, together a permutation) *)
Theorem C12_cut_regex_complement : forall (hit : bytes -> option nat) nrs r,
  cut_r_gen hit nrs false false r = filter (fun kv => is_hit hit kv) r
  /\ cut_r_gen hit nrs true false r = filter (fun kv => negb (is_hit hit kv)) r
  /\ interleaved r (cut_r_gen hit nrs false false r) (cut_r_gen hit nrs true false r)
  /\ Permutation (cut_r_gen hit nrs false false r ++ cut_r_gen hit nrs true false r) r.
Proof.
  exact (fun hit nrs r =>
    conj (eq_trans (cut_r_gen_filter hit nrs false r) (filter_ext _ _ (fun kv => Bool.xorb_false_r (is_hit hit kv)) r))
   (conj (eq_trans (cut_r_gen_filter hit nrs true r) (filter_ext _ _ (fun kv => Bool.xorb_true_r (is_hit hit kv)) r))
   (conj (cut_r_complement hit nrs r) (interleaved_perm _ _ _ (cut_r_complement hit nrs r))))).
Qed.
Print Assumptions C12_cut_regex_complement.

(* cut -r -o: the same fields (a permutation of cut -r); fields matching the same regex keep their relative order
   (the sort by regex index is stable), groups in the order of the regexes *)
Theorem C12_cut_regex_argorder_stable : forall (hit : bytes -> option nat) nrs,
  (forall s j, hit s = Some j -> j < nrs) -> forall c r,
  Permutation (cut_r_gen hit nrs c true r) (cut_r_gen hit nrs c false r)
  /\ (forall i, filter (fun kv => Nat.eqb i (hit_idx hit kv)) (cut_r_gen hit nrs c true r)
                = filter (fun kv => Nat.eqb i (hit_idx hit kv)) (cut_r_gen hit nrs c false r))
  /\ cut_r_gen hit nrs c true r
     = flat_map (fun i => filter (fun kv => Nat.eqb i (hit_idx hit kv)) (cut_r_gen hit nrs c false r)) (seq 0 (Nat.max 1 nrs)).
Proof. exact cut_r_o_spec. Qed.
Print Assumptions C12_cut_regex_argorder_stable.

(* the model run against mlr is that instance, and its matcher meets the index bound *)
Theorem C12_cut_regex_model_is_instance : forall rs c o r,
  cut_r rs c o r = cut_r_gen (first_match rs 0) (List.length rs) c o r
  /\ (forall s j, first_match rs 0 s = Some j -> j < List.length rs).
Proof. exact (fun rs c o r => conj (cut_r_is_gen rs c o r) (fun s j H => first_match_bound rs 0 s j H)). Qed.
Print Assumptions C12_cut_regex_model_is_instance.

(* rename -r / -g, one "regex,replacement" pair, any replacer f: a field whose name f leaves alone and on which no renamed
   field lands keeps its name, its value and its place among such fields; a replacer that changes no name of the record
   changes nothing; several pairs are one walk after the other *)
Theorem C12_rename_regex_bystanders : forall (f : bytes -> bytes) r,
  filter (rr_bystander f r) (rename_walk_f (List.length r) f [] r) = filter (rr_bystander f r) r
  /\ ((forall k, In k (keys r) -> f k = k) -> rename_walk_f (List.length r) f [] r = r).
Proof. exact (fun f r => conj (rename_f_bystanders f r) (rename_f_no_match f r)). Qed.
Print Assumptions C12_rename_regex_bystanders.

Theorem C12_rename_regex_model_is_instance : forall ci re_ rep g r specs1 specs2,
  rename_r [(ci, re_, rep)] g r
  = rename_walk_f (List.length r)
      (if g then (fun s => gsub_lit (S (List.length s)) ci re_ (expand rep [] []) s true) else sub1 ci re_ rep) [] r
  /\ rename_r (specs1 ++ specs2) g r = rename_r specs2 g (rename_r specs1 g r).
Proof. exact (fun ci re_ rep g r specs1 specs2 => conj (rename_r_single_is_walk ci re_ rep g r) (rename_r_app specs1 specs2 g r)). Qed.
Print Assumptions C12_rename_regex_model_is_instance.

Example C12_nonvacuous_regex :
  let r := [(B "x1", B "a"); (B "y1", B "b"); (B "x2", B "c"); (B "z", B "d"); (B "y2", B "e")] in
  let rs := [(false, Seq Bol (Chr "y")); (false, Seq Bol (Chr "x"))] in
  cut_r rs false false r = [(B "x1", B "a"); (B "y1", B "b"); (B "x2", B "c"); (B "y2", B "e")]
  /\ cut_r rs true false r = [(B "z", B "d")]
  /\ cut_r rs false true r = [(B "y1", B "b"); (B "y2", B "e"); (B "x1", B "a"); (B "x2", B "c")]
  /\ rename_r [(false, Seq Bol (Chr "x"), [inl (B "w")])] false r
     = [(B "w1", B "a"); (B "y1", B "b"); (B "w2", B "c"); (B "z", B "d"); (B "y2", B "e")]
  /\ filter (rr_bystander (sub1 false (Seq Bol (Chr "x")) [inl (B "w")]) r) r = [(B "y1", B "b"); (B "z", B "d"); (B "y2", B "e")].
Proof. vm_compute. repeat split; reflexivity. Qed.

(* ================================================================== verbs that rewrite fields one by one
   sub / gsub / ssub (-f, -a), case -v, sec2gmt, fill-empty are  map_values accept fv : pe.Value = fv(pe.Value) on the
   accepted fields.  For EVERY acceptor and EVERY value function (regex replacement, Unicode case mapping, time formatting,
   the type inference that decides whether a value is a string are third party): field names and positions are kept, a
   field that is not accepted is untouched, an accepted one holds fv of its value; bystanders keep name, value, order *)
Theorem C12_value_rewriting_verbs_change_only_accepted_values : forall (accept : bytes -> bool) (fv : bytes -> bytes) r,
  keys (map_values accept fv r) = keys r
  /\ Forall2 (fun a b => fst b = fst a /\ (accept (fst a) = false -> b = a) /\ (accept (fst a) = true -> snd b = fv (snd a)))
             r (map_values accept fv r)
  /\ filter (fun kv => negb (accept (fst kv))) (map_values accept fv r) = filter (fun kv => negb (accept (fst kv))) r
  /\ (forall k, get k (map_values accept fv r) = if accept k then option_map fv (get k r) else get k r).
Proof.
  exact (fun accept fv r => conj (map_values_keys accept fv r) (conj (map_values_pointwise accept fv r)
        (conj (map_values_bystanders accept fv r) (fun k => map_values_get accept fv k r)))).
Qed.
Print Assumptions C12_value_rewriting_verbs_change_only_accepted_values.

(* inverse pairs of value rewriting: if g undoes f on the accepted values of the record, the second verb undoes the first
   (ssub a,b then b,a when b does not occur; case -u then -l on lower-case values); a value function that fixes the accepted
   values leaves the record alone *)
Theorem C12_value_rewriting_inverse : forall accept f g r,
  ((forall kv, In kv r -> accept (fst kv) = true -> g (f (snd kv)) = snd kv) -> map_values accept g (map_values accept f r) = r)
  /\ ((forall kv, In kv r -> accept (fst kv) = true -> f (snd kv) = snd kv) -> map_values accept f r = r).
Proof. exact (fun accept f g r => conj (map_values_inverse accept f g r) (map_values_fixed accept f r)). Qed.
Print Assumptions C12_value_rewriting_inverse.

(* case -k / -k -v (and unspace) build a new record with PutReference: when the new names are pairwise distinct every
   field stays in place, accepted fields renamed (and re-valued), the others untouched *)
Theorem C12_key_rewriting_verbs_without_collision : forall accept fk fv r,
  NoDup (keys (map (rekey accept fk fv) r)) ->
  rebuild accept fk fv r = map (rekey accept fk fv) r
  /\ filter (fun kv => negb (accept (fst kv))) r
     = map snd (filter (fun p => negb (accept (fst (fst p)))) (combine r (rebuild accept fk fv r))).
Proof. exact (fun accept fk fv r H => conj (rebuild_no_collision accept fk fv r H) (rebuild_bystanders accept fk fv r H)). Qed.
Print Assumptions C12_key_rewriting_verbs_without_collision.

(* fill-down -f [-a]: one record out per record in; fields that are not named keep name, value and relative order; a stream
   in which every named field (--all: every field) is present and, without -a, non-empty passes unchanged *)
Theorem C12_fill_down_bystanders : forall a fs rs,
  List.length (fill_down a false fs rs) = List.length rs
  /\ map (filter (fun kv => negb (mem (fst kv) fs))) (fill_down a false fs rs) = map (filter (fun kv => negb (mem (fst kv) fs))) rs.
Proof. exact fill_down_bystanders. Qed.
Print Assumptions C12_fill_down_bystanders.

Theorem C12_fill_down_complete_records_unchanged : forall (a all : bool) (fs : list bytes) (rs : list record),
  (forall r f, In r rs -> In f (if all then keys r else fs) -> fd_present a (get f r) = true) -> fill_down a all fs rs = rs.
Proof. exact fill_down_complete_records. Qed.
Print Assumptions C12_fill_down_complete_records_unchanged.

Example C12_nonvacuous_fields :
  let rs := [[(B "a", B "1"); (B "b", B "x")]; [(B "a", B ""); (B "c", B "y")]; [(B "c", B "z")]] in
  fill_down false false [B "a"; B "b"] rs
  = [[(B "a", B "1"); (B "b", B "x")]; [(B "a", B "1"); (B "c", B "y"); (B "b", B "x")]; [(B "c", B "z"); (B "a", B "1"); (B "b", B "x")]]
  /\ fill_down true false [B "a"] rs = [[(B "a", B "1"); (B "b", B "x")]; [(B "a", B ""); (B "c", B "y")]; [(B "c", B "z"); (B "a", B "")]]
  /\ map (map_values (accept_names [B "b"; B "c"]) (ssub1 (B "y") (B "yy"))) rs
     = [[(B "a", B "1"); (B "b", B "x")]; [(B "a", B ""); (B "c", B "yy")]; [(B "c", B "z")]]
  /\ gssub (B "ab") (B "c") (B "xababyab") = B "xccyc"
  /\ rebuild accept_all (map Regex.upper) (fun v => v) [(B "a", B "1"); (B "b", B "2")] = [(B "A", B "1"); (B "B", B "2")]
  /\ rebuild accept_all (map Regex.upper) (fun v => v) [(B "a", B "1"); (B "A", B "2")] = [(B "A", B "2")].
Proof. vm_compute. repeat split; reflexivity. Qed.
