(* Byte strings as lists of ascii; helpers shared by every model. No proofs of properties here. *)
From Coq Require Export List Ascii String ZArith NArith Bool Lia.
Export ListNotations.
Open Scope char_scope.

Definition bytes := list ascii.
Definition B (s : string) : bytes := list_ascii_of_string s.
Definition S_ (b : bytes) : string := string_of_list_ascii b.
(* arbitrary bytes given as numbers, used by generated case files *)
Definition bs (l : list N) : bytes := map ascii_of_N l.
Definition code (c : ascii) : N := N_of_ascii c.

Definition cle (a b : ascii) : bool := (code a <=? code b)%N.
Definition in_range (lo hi c : ascii) : bool := cle lo c && cle c hi.

Fixpoint beqb (a b : bytes) : bool :=
  match a, b with
  | [], [] => true
  | x :: a', y :: b' => Ascii.eqb x y && beqb a' b'
  | _, _ => false
  end.

Lemma beqb_spec a b : reflect (a = b) (beqb a b).
Proof.
  revert b; induction a as [|x a IH]; intros [|y b]; cbn; try (constructor; congruence).
  destruct (Ascii.eqb_spec x y) as [->|Hne]; cbn.
  - destruct (IH b) as [->|Hne]; constructor; congruence.
  - constructor; congruence.
Qed.

Fixpoint prefixb (p s : bytes) : bool :=
  match p, s with
  | [], _ => true
  | x :: p', y :: s' => Ascii.eqb x y && prefixb p' s'
  | _ :: _, [] => false
  end.

(* generic correspondence helper: indices (0-based) of cases whose check fails *)
Fixpoint mismatches_from {A} (chk : A -> bool) (i : N) (l : list A) : list N :=
  match l with
  | [] => []
  | x :: t => if chk x then mismatches_from chk (N.succ i) t else i :: mismatches_from chk (N.succ i) t
  end.
Definition mismatches {A} (chk : A -> bool) (l : list A) : list N := mismatches_from chk 0%N l.
