(* Records as insertion-ordered association lists of byte strings (pkg/mlrval/mlrmap*.go, string-valued view).
   Definitions plus the basic lemmas every verb model needs. *)
From Miller Require Export Base.Bytes.

Definition field := (bytes * bytes)%type.
Definition record := list field.

Definition keys (r : record) : list bytes := map fst r.
Definition values (r : record) : list bytes := map snd r.

Fixpoint get (k : bytes) (r : record) : option bytes :=
  match r with
  | [] => None
  | (k', v) :: t => if beqb k k' then Some v else get k t
  end.

Definition has (k : bytes) (r : record) : bool := match get k r with Some _ => true | None => false end.

(* PutReference/PutCopy: overwrite in place, else append *)
Fixpoint put (k v : bytes) (r : record) : record :=
  match r with
  | [] => [(k, v)]
  | (k', v') :: t => if beqb k k' then (k', v) :: t else (k', v') :: put k v t
  end.

(* Remove: first occurrence *)
Fixpoint remove (k : bytes) (r : record) : record :=
  match r with
  | [] => []
  | (k', v') :: t => if beqb k k' then t else (k', v') :: remove k t
  end.

Definition mem (k : bytes) (l : list bytes) : bool := existsb (beqb k) l.

Fixpoint nodupb (l : list bytes) : bool :=
  match l with [] => true | x :: t => negb (mem x t) && nodupb t end.

Definition wf_record (r : record) : bool := nodupb (keys r).

Fixpoint record_eqb (a b : record) : bool :=
  match a, b with
  | [], [] => true
  | (k, v) :: a', (k', v') :: b' => beqb k k' && beqb v v' && record_eqb a' b'
  | _, _ => false
  end.

Fixpoint records_eqb (a b : list record) : bool :=
  match a, b with
  | [], [] => true
  | x :: a', y :: b' => record_eqb x y && records_eqb a' b'
  | _, _ => false
  end.

Lemma beqb_refl a : beqb a a = true.
Proof. destruct (beqb_spec a a); congruence. Qed.

Lemma record_eqb_spec a b : reflect (a = b) (record_eqb a b).
Proof.
  revert b; induction a as [|[k v] a IH]; intros [|[k' v'] b]; cbn; try (constructor; congruence).
  destruct (beqb_spec k k') as [->|Hk]; cbn; [|constructor; congruence].
  destruct (beqb_spec v v') as [->|Hv]; cbn; [|constructor; congruence].
  destruct (IH b) as [->|Hn]; constructor; congruence.
Qed.

Lemma records_eqb_spec a b : reflect (a = b) (records_eqb a b).
Proof.
  revert b; induction a as [|x a IH]; intros [|y b]; cbn; try (constructor; congruence).
  destruct (record_eqb_spec x y) as [->|Hx]; cbn; [|constructor; congruence].
  destruct (IH b) as [->|Hn]; constructor; congruence.
Qed.

Lemma mem_In k l : mem k l = true <-> In k l.
Proof.
  unfold mem. rewrite existsb_exists. split.
  - intros (x & Hx & Hb). destruct (beqb_spec k x); [subst; auto|discriminate].
  - intros H. exists k. split; [auto|apply beqb_refl].
Qed.

Lemma nodupb_NoDup l : nodupb l = true <-> NoDup l.
Proof.
  induction l as [|x l IH]; cbn.
  - split; [constructor|auto].
  - rewrite andb_true_iff, negb_true_iff, IH. split.
    + intros [Hm Hn]. constructor; [|auto]. rewrite <- mem_In. congruence.
    + intros H. inversion H as [|? ? Hni Hnd]; subst. split; [|auto].
      destruct (mem x l) eqn:E; [|reflexivity]. apply mem_In in E. contradiction.
Qed.

Lemma get_put_same k v r : get k (put k v r) = Some v.
Proof.
  induction r as [|[k' v'] r IH]; cbn; [now rewrite beqb_refl|].
  destruct (beqb k k') eqn:E; cbn; rewrite E; auto.
Qed.

Lemma get_put_other k k' v r : k <> k' -> get k' (put k v r) = get k' r.
Proof.
  intros Hne. induction r as [|[k2 v2] r IH]; cbn.
  - destruct (beqb_spec k' k); [congruence|reflexivity].
  - destruct (beqb_spec k k2) as [->|Hk]; cbn.
    + destruct (beqb_spec k' k2); [congruence|reflexivity].
    + destruct (beqb k' k2); auto.
Qed.

Lemma keys_put_present k v r : has k r = true -> keys (put k v r) = keys r.
Proof.
  unfold has. induction r as [|[k' v'] r IH]; cbn; [discriminate|].
  destruct (beqb k k') eqn:E; cbn; [reflexivity|]. intros H. unfold keys in IH. now rewrite IH.
Qed.

Lemma keys_put_absent k v r : has k r = false -> keys (put k v r) = keys r ++ [k].
Proof.
  unfold has. induction r as [|[k' v'] r IH]; cbn; [reflexivity|].
  destruct (beqb k k') eqn:E; cbn; [discriminate|]. intros H. unfold keys in IH. now rewrite IH.
Qed.
