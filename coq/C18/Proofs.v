(* C18 part 2: classification theorems for the line-reader models (C18/Model.v). *)
From Miller Require Import Base.Bytes Base.Record C18.Model.
Open Scope char_scope.

(* ---------- lines ---------- *)
Lemma finish_line_no_LF cur : ~ In LF cur -> ~ In LF (finish_line cur).
Proof.
  intros H. destruct cur as [|c t]; cbn; [tauto|].
  destruct (Ascii.eqb c CR).
  - intros Hin. rewrite <- in_rev in Hin. apply H. now right.
  - intros Hin. change (In LF (rev (c :: t))) in Hin. rewrite <- in_rev in Hin. now apply H.
Qed.

Lemma lines_aux_no_LF s : forall cur l, ~ In LF cur -> In l (lines_aux cur s) -> ~ In LF l.
Proof.
  induction s as [|c t IH]; intros cur l Hcur Hin; cbn in Hin.
  - destruct cur as [|x cur']; [contradiction|]. destruct Hin as [<-|[]].
    intros H. rewrite <- in_rev in H. now apply Hcur.
  - destruct (Ascii.eqb_spec c LF) as [->|Hne].
    + destruct Hin as [<-|Hin]; [now apply finish_line_no_LF|]. eapply IH; [|exact Hin]. tauto.
    + eapply IH; [|exact Hin]. intros [H|H]; [congruence|now apply Hcur].
Qed.

Lemma split_lines_no_LF s l : In l (split_lines s) -> ~ In LF l.
Proof. apply lines_aux_no_LF. tauto. Qed.

(* ---------- DKVP / NIDX: no malformed class at all ---------- *)
Lemma map_lines_never_mismatch f ls a b l : map_lines f ls <> ErrMismatch a b l.
Proof.
  induction ls as [|x t IH]; cbn; [discriminate|].
  destruct (f x); [|discriminate]. destruct (map_lines f t); congruence.
Qed.

Lemma map_lines_ok_length f ls rs : map_lines f ls = Ok rs -> List.length rs = List.length ls.
Proof.
  revert rs. induction ls as [|x t IH]; cbn; intros rs H.
  - now inversion H.
  - destruct (f x); [|discriminate]. destruct (map_lines f t) eqn:E; try discriminate.
    inversion H; subst. cbn. f_equal. now apply IH.
Qed.

Lemma map_lines_total_some f ls : (forall l, f l <> None) -> exists rs, map_lines f ls = Ok rs.
Proof.
  intros Hf. induction ls as [|x t [rs IH]]; cbn; [now exists []|].
  destruct (f x) eqn:E; [|now apply Hf in E]. rewrite IH. now eexists.
Qed.

Lemma read_dkvp_never_mismatch s a b l : read_dkvp s <> ErrMismatch a b l.
Proof. apply map_lines_never_mismatch. Qed.

Lemma read_dkvp_one_record_per_line s rs : read_dkvp s = Ok rs -> List.length rs = List.length (split_lines s).
Proof. apply map_lines_ok_length. Qed.

Lemma read_nidx_total s : exists rs, read_nidx s = Ok rs /\ List.length rs = List.length (split_lines s).
Proof.
  destruct (map_lines_total_some (fun l => Some (nidx_line l)) (split_lines s)) as [rs H]; [discriminate|].
  exists rs. split; [exact H|]. now apply map_lines_ok_length in H.
Qed.

(* ---------- TSV: Err exactly on the malformed class, at the first offending line ---------- *)
Lemma tsv_data_err hdr : forall ls line a b l,
  tsv_data hdr line ls = ErrMismatch a b l ->
  a = N.of_nat (List.length hdr) /\
  exists pre bad post, ls = pre ++ bad :: post
    /\ Forall (fun x => nfields x = a) pre /\ nfields bad = b /\ b <> a
    /\ l = (line + N.of_nat (List.length pre))%N.
Proof.
  induction ls as [|x t IH]; intros line a b l H; cbn in H; [discriminate|].
  destruct (N.eqb_spec (nfields x) (N.of_nat (List.length hdr))) as [Heq|Hne].
  - destruct (tsv_record hdr x); [|discriminate].
    destruct (tsv_data hdr (line + 1)%N t) eqn:E; try discriminate.
    inversion H; subst. destruct (IH _ _ _ _ E) as (Ha & pre & bad & post & Els & Hpre & Hb & Hne & Hl). subst t.
    split; [exact Ha|]. exists (x :: pre), bad, post. repeat split; auto.
    + constructor; [congruence|exact Hpre].
    + cbn [List.length]. lia.
  - inversion H; subst. split; [reflexivity|]. exists [], x, t. repeat split; auto. cbn. lia.
Qed.

Lemma tsv_data_ok hdr : forall ls line rs,
  tsv_data hdr line ls = Ok rs ->
  Forall (fun x => nfields x = N.of_nat (List.length hdr)) ls /\ List.length rs = List.length ls.
Proof.
  induction ls as [|x t IH]; intros line rs H; cbn in H.
  - inversion H. split; constructor.
  - destruct (N.eqb_spec (nfields x) (N.of_nat (List.length hdr))) as [Heq|Hne]; [|discriminate].
    destruct (tsv_record hdr x); [|discriminate].
    destruct (tsv_data hdr (line + 1)%N t) eqn:E; try discriminate.
    inversion H; subst. destruct (IH _ _ E) as [Hall Hlen]. split; [constructor; auto|]. cbn [List.length]. now rewrite Hlen.
Qed.

Lemma tsv_data_malformed hdr : forall ls line,
  (exists l, In l ls /\ nfields l <> N.of_nat (List.length hdr)) ->
  (exists a b l, tsv_data hdr line ls = ErrMismatch a b l) \/ tsv_data hdr line ls = OutOfFuel.
Proof.
  induction ls as [|x t IH]; intros line (l & Hin & Hne); [contradiction|]. cbn.
  destruct (N.eqb_spec (nfields x) (N.of_nat (List.length hdr))) as [Heq|Hne'].
  - destruct (tsv_record hdr x); [|now right].
    destruct Hin as [->|Hin]; [contradiction|].
    destruct (IH (line + 1)%N (ex_intro _ l (conj Hin Hne))) as [(a & b & l' & Hr)|Hr]; rewrite Hr; [left; eauto|now right].
  - left. eauto.
Qed.

Lemma nfields_header h : N.of_nat (List.length (tsv_header h)) = nfields h.
Proof. unfold tsv_header, nfields. now rewrite map_length. Qed.

Lemma read_tsv_err_malformed s a b l : read_tsv s = ErrMismatch a b l -> tsv_malformed s.
Proof.
  unfold read_tsv, tsv_malformed. destruct (split_lines s) as [|h t]; [discriminate|]. intros H.
  apply tsv_data_err in H. destruct H as (Ha & pre & bad & post & Els & _ & Hb & Hne & _). subst t.
  exists bad. split; [apply in_or_app; right; now left|]. intros Heq. apply Hne. rewrite <- Hb, Ha, (nfields_header h). exact Heq.
Qed.

Lemma read_tsv_malformed_err s :
  tsv_malformed s -> (exists a b l, read_tsv s = ErrMismatch a b l) \/ read_tsv s = OutOfFuel.
Proof.
  unfold read_tsv, tsv_malformed. destruct (split_lines s) as [|h t]; [contradiction|]. intros (l & Hin & Hne).
  apply tsv_data_malformed. exists l. split; [exact Hin|]. now rewrite (nfields_header h).
Qed.

Lemma read_tsv_ok s rs :
  read_tsv s = Ok rs -> ~ tsv_malformed s /\ List.length rs = pred (List.length (split_lines s)).
Proof.
  unfold read_tsv, tsv_malformed. destruct (split_lines s) as [|h t]; intros H.
  - inversion H. split; [tauto|reflexivity].
  - apply tsv_data_ok in H. destruct H as [Hall Hlen]. split; [|exact Hlen].
    intros (l & Hin & Hne). rewrite Forall_forall in Hall. apply Hne. rewrite <- (nfields_header h). exact (Hall l Hin).
Qed.

(* the reported position: header size, offending size, 1-based line number of the FIRST offending line *)
Lemma read_tsv_err_position s a b l :
  read_tsv s = ErrMismatch a b l ->
  exists h pre bad post, split_lines s = h :: pre ++ bad :: post
    /\ a = nfields h /\ b = nfields bad /\ b <> a
    /\ Forall (fun x => nfields x = a) pre /\ l = (2 + N.of_nat (List.length pre))%N.
Proof.
  unfold read_tsv. destruct (split_lines s) as [|h t]; [discriminate|]. intros H.
  apply tsv_data_err in H. destruct H as (Ha & pre & bad & post & Els & Hpre & Hb & Hne & Hl). subst t.
  rewrite (nfields_header h) in Ha. exists h, pre, bad, post. repeat split; auto.
Qed.

(* ---------- the a_2, a_3, ... key search never runs out of fuel (pigeonhole) ---------- *)
From Coq Require Import DecimalString DecimalN FinFun.

Lemma N_to_dec_inj a b : N_to_dec a = N_to_dec b -> a = b.
Proof.
  unfold N_to_dec. intros H.
  apply (f_equal string_of_list_ascii) in H. rewrite !string_of_list_ascii_of_string in H.
  apply (f_equal NilEmpty.uint_of_string) in H. rewrite !NilEmpty.usu in H. inversion H as [H'].
  apply (f_equal N.of_uint) in H'. now rewrite !Unsigned.of_to in H'.
Qed.

Definition cand (k : bytes) (i : N) : bytes := k ++ "_" :: N_to_dec i.

Lemma cand_inj k : Injective (cand k).
Proof.
  intros a b H. unfold cand in H. apply app_inv_head in H. inversion H as [H']. now apply N_to_dec_inj.
Qed.

Lemma has_In k r : has k r = true -> In k (keys r).
Proof.
  unfold has. induction r as [|[k' v] r IH]; cbn; [discriminate|].
  destruct (beqb_spec k k') as [->|Hne]; [now left|]. intros H. right. now apply IH.
Qed.

Lemma fresh_key_none k r : forall fuel i,
  fresh_key fuel k i r = None -> forall t, (t < fuel)%nat -> has (cand k (i + N.of_nat t)) r = true.
Proof.
  induction fuel as [|f IH]; intros i H t Ht; [lia|]. cbn [fresh_key] in H. fold (cand k i) in H.
  destruct (has (cand k i) r) eqn:E; [|discriminate].
  destruct t as [|t'].
  - now replace (i + N.of_nat 0)%N with i by lia.
  - replace (i + N.of_nat (S t'))%N with (i + 1 + N.of_nat t')%N by lia. apply IH; [exact H|lia].
Qed.

Lemma fresh_key_some k r i : fresh_key (S (S (List.length r))) k i r <> None.
Proof.
  intros H. pose proof (fresh_key_none k r _ _ H) as Hall.
  set (f := S (S (List.length r))) in *.
  set (cands := map (fun t => cand k (i + N.of_nat t)) (seq 0 f)).
  assert (Hnd : NoDup cands).
  { apply Injective_map_NoDup; [|apply seq_NoDup].
    intros a b Hab. apply cand_inj in Hab. apply N.add_cancel_l in Hab. now apply Nat2N.inj in Hab. }
  assert (Hincl : incl cands (keys r)).
  { intros x Hx. apply in_map_iff in Hx. destruct Hx as (t & <- & Ht). apply in_seq in Ht.
    apply has_In. apply Hall. lia. }
  pose proof (NoDup_incl_length Hnd Hincl) as Hlen.
  unfold cands, keys in Hlen. rewrite !map_length, seq_length in Hlen. subst f.
  apply (Nat.nle_succ_diag_l (List.length r)). apply Nat.le_trans with (2 := Hlen). apply Nat.le_succ_diag_r.
Qed.

Lemma put_dedupe_some k v r : put_dedupe k v r <> None.
Proof.
  unfold put_dedupe. destruct (has k r); [|discriminate].
  destruct (fresh_key (S (S (List.length r))) k 2 r) eqn:E; [discriminate|]. now apply fresh_key_some in E.
Qed.

Lemma put_all_some kvs : forall r, put_all kvs r <> None.
Proof.
  induction kvs as [|[k v] t IH]; intros r; cbn; [discriminate|].
  destruct (put_dedupe k v r) eqn:E; [apply IH|now apply put_dedupe_some in E].
Qed.

Lemma read_dkvp_total s : exists rs, read_dkvp s = Ok rs /\ List.length rs = List.length (split_lines s).
Proof.
  destruct (map_lines_total_some dkvp_line (split_lines s)) as [rs H].
  - intros l. apply put_all_some.
  - exists rs. split; [exact H|]. now apply map_lines_ok_length in H.
Qed.

Lemma tsv_data_fuel_ok hdr : forall ls line, tsv_data hdr line ls <> OutOfFuel.
Proof.
  induction ls as [|x t IH]; intros line; cbn; [discriminate|].
  destruct (nfields x =? N.of_nat (List.length hdr))%N; [|discriminate].
  unfold tsv_record. destruct (put_all _ []) eqn:E; [|now apply put_all_some in E].
  specialize (IH (line + 1)%N). destruct (tsv_data hdr (line + 1)%N t); congruence.
Qed.

Lemma read_tsv_fuel_ok s : read_tsv s <> OutOfFuel.
Proof. unfold read_tsv. destruct (split_lines s); [discriminate|apply tsv_data_fuel_ok]. Qed.

Lemma read_tsv_malformed_err_strong s : tsv_malformed s -> exists a b l, read_tsv s = ErrMismatch a b l.
Proof.
  intros H. destruct (read_tsv_malformed_err s H) as [He|Hf]; [exact He|]. now apply read_tsv_fuel_ok in Hf.
Qed.
