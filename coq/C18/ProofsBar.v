(* C18 part 2c: proofs about the barred-PPRINT / markdown reader model (C18/ModelBar.v). *)
From Miller Require Import Base.Bytes Base.Record C01.Model C18.ModelReaders C18.ModelBar.
Require Import Lia.

Lemma bar_events_length md : forall ls nb, List.length (bar_events md nb ls) = List.length ls.
Proof. induction ls as [|l t IH]; intros nb; cbn [bar_events]; [reflexivity|]. destruct (is_nil l); cbn [List.length]; now rewrite IH. Qed.

Lemma ccons_err r c : (exists e, ccons r c = CErr e) <-> (exists e, c = CErr e).
Proof. destruct c as [rs|e]; cbn [ccons]; split; intros [e' H]; try discriminate; eauto. Qed.

Lemma positional_keys_length n : List.length (positional_keys n) = n.
Proof. unfold positional_keys. now rewrite map_length, seq_length. Qed.

(* the loop state as a partially read block: [hn] = the cell count of the current block's first row *)
Definition cur_bad_n (hn : option nat) (es : list ev) : bool :=
  match ev_blocks es with
  | [] => false
  | b0 :: bs =>
    (match hn with
     | Some n => existsb (fun fs : list bytes => negb (Nat.eqb n (List.length fs))) b0
     | None => rows_bad b0
     end) || existsb rows_bad bs
  end.

Lemma ev_blocks_go_cons : forall es cur, exists b0 bs, ev_blocks_go cur es = b0 :: bs.
Proof. induction es as [|e t IH]; intros cur; cbn [ev_blocks_go]; [eauto|]. destruct e; eauto. Qed.

Lemma ev_blocks_go_rev_app : forall es cur,
  ev_blocks_go cur es = match ev_blocks_go [] es with b0 :: bs => (rev cur ++ b0) :: bs | [] => [] end.
Proof.
  induction es as [|e t IH]; intros cur; cbn [ev_blocks_go].
  - cbn [rev]. now rewrite app_nil_r.
  - destruct e as [| |fs].
    + cbn [rev]. now rewrite app_nil_r.
    + apply IH.
    + rewrite (IH (fs :: cur)), (IH [fs]). destruct (ev_blocks_go [] t) as [|b0 bs]; [reflexivity|].
      cbn [rev app]. now rewrite <- app_assoc.
Qed.

Lemma ev_blocks_row fs t : ev_blocks (EvRow fs :: t) = match ev_blocks t with b0 :: bs => (fs :: b0) :: bs | [] => [] end.
Proof. unfold ev_blocks. cbn [ev_blocks_go]. rewrite ev_blocks_go_rev_app. reflexivity. Qed.
Lemma ev_blocks_skip t : ev_blocks (EvSkip :: t) = ev_blocks t.
Proof. reflexivity. Qed.
Lemma ev_blocks_blank t : ev_blocks (EvBlank :: t) = [] :: ev_blocks t.
Proof. reflexivity. Qed.

Lemma cur_bad_n_none t : cur_bad_n None t = existsb rows_bad (ev_blocks t).
Proof. unfold cur_bad_n. destruct (ev_blocks t); reflexivity. Qed.
Lemma cur_bad_n_blank hn t : cur_bad_n hn (EvBlank :: t) = cur_bad_n None t.
Proof. rewrite cur_bad_n_none. unfold cur_bad_n. rewrite ev_blocks_blank. destruct hn; reflexivity. Qed.
Lemma cur_bad_n_skip hn t : cur_bad_n hn (EvSkip :: t) = cur_bad_n hn t.
Proof. reflexivity. Qed.
Lemma cur_bad_n_row_some n fs t :
  cur_bad_n (Some n) (EvRow fs :: t) = negb (Nat.eqb n (List.length fs)) || cur_bad_n (Some n) t.
Proof.
  unfold cur_bad_n. rewrite ev_blocks_row. destruct (ev_blocks_go_cons t []) as (b0 & bs & Hb).
  unfold ev_blocks in *. rewrite Hb. cbn [existsb]. now rewrite orb_assoc.
Qed.
Lemma cur_bad_n_row_none fs t : cur_bad_n None (EvRow fs :: t) = cur_bad_n (Some (List.length fs)) t.
Proof.
  unfold cur_bad_n. rewrite ev_blocks_row. destruct (ev_blocks_go_cons t []) as (b0 & bs & Hb).
  unfold ev_blocks in *. rewrite Hb. reflexivity.
Qed.

Lemma bar_go_err_iff o (Hrg : b_ragged o = false) : forall es hdr line,
  (exists e, bar_go o hdr line es = CErr e) <-> cur_bad_n (option_map (@List.length bytes) hdr) es = true.
Proof.
  induction es as [|e t IH]; intros hdr line.
  - cbn [bar_go]. unfold cur_bad_n, ev_blocks. cbn [ev_blocks_go rev].
    destruct hdr; cbn; split; try discriminate; intros [e H]; discriminate.
  - destruct e as [| |fs]; cbn [bar_go].
    + rewrite cur_bad_n_blank. apply (IH None).
    + rewrite cur_bad_n_skip. apply IH.
    + destruct hdr as [hs|]; cbn [option_map].
      * rewrite cur_bad_n_row_some. unfold row_fits. rewrite Hrg, orb_false_r.
        destruct (Nat.eqb (List.length hs) (List.length fs)) eqn:Hn; cbn [negb orb].
        -- rewrite ccons_err. apply (IH (Some hs)).
        -- split; [reflexivity|]. intros _. eauto.
      * rewrite cur_bad_n_row_none. destruct (b_implicit o).
        -- rewrite ccons_err. rewrite (IH (Some (positional_keys (List.length fs)))). cbn [option_map].
           now rewrite positional_keys_length.
        -- apply (IH (Some fs)).
Qed.

Lemma bar_go_ragged_ok o (Hrg : b_ragged o = true) : forall es hdr line e, bar_go o hdr line es <> CErr e.
Proof.
  induction es as [|x t IH]; intros hdr line e; cbn [bar_go]; [discriminate|].
  destruct x as [| |fs]; [apply IH|apply IH|].
  destruct hdr as [hs|].
  - unfold row_fits. rewrite Hrg, orb_true_r. intros H.
    destruct (bar_go o (Some hs) (line + 1) t) as [rs|e'] eqn:E; cbn [ccons] in H; [discriminate|]. exact (IH _ _ _ E).
  - destruct (b_implicit o); [|apply IH]. intros H.
    destruct (bar_go o (Some (positional_keys (List.length fs))) (line + 1) t) as [rs|e'] eqn:E; cbn [ccons] in H; [discriminate|].
    exact (IH _ _ _ E).
Qed.

Theorem read_bar_err_iff o s : (exists e, read_bar_c o s = CErr e) <-> bar_malformed o s = true.
Proof.
  unfold read_bar_c, bar_malformed. destruct (b_ragged o) eqn:Hrg; cbn [negb andb].
  - split; [|discriminate]. intros [e H]. exfalso. exact (bar_go_ragged_ok o Hrg _ _ _ _ H).
  - rewrite (bar_go_err_iff o Hrg). cbn [option_map]. rewrite cur_bad_n_none. reflexivity.
Qed.

Theorem read_bar_ok_iff o s : (exists rs, read_bar_c o s = COk rs) <-> bar_malformed o s = false.
Proof.
  destruct (bar_malformed o s) eqn:Hm.
  - apply read_bar_err_iff in Hm as [e He]. rewrite He. split; [intros [rs H]|]; discriminate.
  - split; [reflexivity|]. intros _. destruct (read_bar_c o s) as [rs|e] eqn:E; [eauto|].
    assert (H : bar_malformed o s = true) by (apply read_bar_err_iff; eauto). congruence.
Qed.

(* the error is a length mismatch: sizes of the block's header and of the FIRST offending row, and its line number *)
Lemma bar_go_err_shape o : forall es hdr line e,
  bar_go o hdr line es = CErr e ->
  exists (hs fs : list bytes) pre post, es = pre ++ EvRow fs :: post
    /\ e = EMismatch (nlen hs) (nlen fs) (line + N.of_nat (List.length pre))
    /\ List.length hs <> List.length fs /\ b_ragged o = false.
Proof.
  induction es as [|x t IH]; intros hdr line e H; cbn [bar_go] in H; [discriminate|].
  assert (Hstep : forall hdr', bar_go o hdr' (line + 1) t = CErr e ->
    exists (hs fs : list bytes) pre post, x :: t = pre ++ EvRow fs :: post
      /\ e = EMismatch (nlen hs) (nlen fs) (line + N.of_nat (List.length pre))
      /\ List.length hs <> List.length fs /\ b_ragged o = false).
  { intros hdr' H'. destruct (IH _ _ _ H') as (hs & fs & pre & post & -> & -> & Hn & Hr).
    exists hs, fs, (x :: pre), post. repeat split; try assumption. f_equal. cbn [List.length]. lia. }
  destruct x as [| |fs]; [exact (Hstep _ H)|exact (Hstep _ H)|].
  destruct hdr as [hs|].
  - destruct (row_fits (b_ragged o) hs fs) eqn:Hf.
    + destruct (bar_go o (Some hs) (line + 1) t) as [rs|e'] eqn:E; cbn [ccons] in H; [discriminate|]. injection H as <-.
      exact (Hstep _ E).
    + injection H as <-. unfold row_fits in Hf. apply orb_false_iff in Hf as [Hf Hr]. apply Nat.eqb_neq in Hf.
      exists hs, fs, [], t. repeat split; try assumption. f_equal. cbn [List.length]. lia.
  - destruct (b_implicit o).
    + destruct (bar_go o (Some (positional_keys (List.length fs))) (line + 1) t) as [rs|e'] eqn:E; cbn [ccons] in H; [discriminate|].
      injection H as <-. exact (Hstep _ E).
    + exact (Hstep _ H).
Qed.

(* the offending event is the event of the offending LINE: events and lines correspond one to one *)
Theorem read_bar_err_position o s e :
  read_bar_c o s = CErr e ->
  exists (hs fs : list bytes) pre post,
    bar_events (b_md o) 0 (lines_of s) = pre ++ EvRow fs :: post
    /\ e = EMismatch (nlen hs) (nlen fs) (1 + N.of_nat (List.length pre))
    /\ List.length hs <> List.length fs /\ b_ragged o = false
    /\ (List.length pre < List.length (lines_of s))%nat.
Proof.
  intros H. destruct (bar_go_err_shape o _ _ _ _ H) as (hs & fs & pre & post & He & -> & Hn & Hr).
  exists hs, fs, pre, post. repeat split; try assumption.
  rewrite <- (bar_events_length (b_md o) (lines_of s) 0), He, app_length. cbn [List.length]. lia.
Qed.

(* the markdown splitter and the "drop the first and last padded field" step never fail: a line with fewer than two padded
   fields is skipped (this is the guard added by ff74c4ac8: make([]string, npad-2) with npad < 2 panicked) *)
Lemma bar_event_row_cells md nb l fs : bar_event md nb l = EvRow fs ->
  exists pf : list bytes, (2 <= List.length pf)%nat /\ List.length fs = (List.length pf - 2)%nat.
Proof.
  unfold bar_event. destruct (is_sep md nb l); [discriminate|].
  set (pf := if md then md_split l else field_split ["|"%char] false l).
  destruct (Nat.ltb (List.length pf) 2) eqn:Hl; [discriminate|]. intros H. injection H as <-.
  apply Nat.ltb_ge in Hl. exists pf. split; [exact Hl|].
  rewrite map_length. unfold middle. destruct pf as [|a [|b r]]; cbn [List.length] in Hl; try lia.
  cbn [tl]. assert (Hrl : forall (x : bytes) (r : list bytes), List.length (removelast (x :: r)) = List.length r).
  { intros x r0; revert x; induction r0 as [|y r0 IHr]; intros x; [reflexivity|].
    change (removelast (x :: y :: r0)) with (x :: removelast (y :: r0)). cbn [List.length]. now rewrite IHr. }
  rewrite Hrl. cbn [List.length]. lia.
Qed.
