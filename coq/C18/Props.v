(* C18 property theorems.  Only statements closed by [exact]; each followed by Print Assumptions.
   Part 1 is stated over the outcome table REGENERATED from /repo on every run (gen/Gen_BifOutcomes.v);
   part 2 over the line-reader models that harness/py/checks/c18.py runs against the implementation (C18/Harness.v). *)
From Miller Require Import Base.Bytes Base.Record C18.BifTable C18.Exceptions C18.Model C18.Proofs C18.TableProofs gen.Gen_BifOutcomes.
From Miller Require Import C18.VerbTable C18.VerbProofs gen.Gen_VerbOutcomes.
From Miller Require C01.Model C01.ModelXtab C01.ModelLite C18.ModelReaders C18.ProofsReaders C18.ModelBar C18.ProofsBar C18.ModelJson C18.ProofsJson.
Open Scope N_scope.

(* ---- part 1: built-in functions x argument-kind tuples ---- *)

(* the table is exhaustive: for every (function, arity) row, acceptable + bad outcomes = nreps ^ arity tuples, the bad
   runs are disjoint and inside the tuple space; and every row of Miller's function table is walked or explicitly skipped *)
Theorem C18_bif_table_exhaustive :
  (forall s, In s gen_bif_shards -> shard_exhaustive s = true)
  /\ (forall n, In n gen_bif_rows -> row_covered gen_bif_shards gen_bif_skipped n = true).
Proof. exact (conj (proj1 (forallb_forall _ _) table_exhaustive) (proj1 (forallb_forall _ _) table_rows_covered)). Qed.
Print Assumptions C18_bif_table_exhaustive.

(* no tuple panics, hangs, kills the runtime or exits through an internal coding error -- outside the (function, outcome)
   pairs committed in C18/Exceptions.v: the two KNOWN FINDINGS (absent/function values into collections; statistics over
   non-numeric elements: internal-coding-error exits) and the tuples deliberately not evaluated (pad length 2^63-1).
   PARTIAL for exactly that footprint; the tuples inside it are reported by the check with CLI replays. *)
Theorem C18_bif_no_panic_or_hang_partial :
  forall s, In s gen_bif_shards -> forall r, In r (sh_bad s) -> known known_bad (sh_name s) (run_code r) = true.
Proof.
  exact (fun s Hs r Hr => proj1 (forallb_forall _ _) (proj1 (forallb_forall _ _) table_ok_outside_known s Hs) r Hr).
Qed.
Print Assumptions C18_bif_no_panic_or_hang_partial.

(* every function that is not named in the exception list is clean on its WHOLE tuple space *)
Theorem C18_bif_unlisted_functions_clean :
  forall s, In s gen_bif_shards -> listed known_bad (sh_name s) = false ->
  sh_bad s = [] /\ sh_ok s = sh_nreps s ^ sh_arity s.
Proof. exact unlisted_clean. Qed.
Print Assumptions C18_bif_unlisted_functions_clean.

(* ---- part 5: verbs x argument lists (ParseCLI grammar) and degenerate record streams ---- *)

(* every case of every row of the regenerated verb outcome table ended with output (exit 0) or with a message on stderr and a
   non-zero exit: no Go panic, no hang, no internal-coding-error exit, no silent failure *)
Theorem C18_verb_table_no_panic_or_hang :
  forall r, In r gen_verb_rows -> v_bad r = [] /\ v_ok r + v_err r = v_cases r.
Proof. exact verb_no_bad. Qed.
Print Assumptions C18_verb_table_no_panic_or_hang.

(* every verb of `mlr help list-verbs` has a row, with at least 12 cases *)
Theorem C18_verb_table_covers_every_verb :
  forall n, In n gen_verbs -> verb_covered gen_verb_rows 12 n = true.
Proof. exact (proj1 (forallb_forall _ _) verbs_all_covered). Qed.
Print Assumptions C18_verb_table_covers_every_verb.

Example C18_verbs_nonvacuous :
  (60 <=? N.of_nat (List.length gen_verbs)) = true
  /\ existsb (fun r => beqb (v_name r) (B "sort") && (1 <=? v_ok r) && (1 <=? v_err r)) gen_verb_rows = true
  /\ existsb (fun r => beqb (v_name r) (B "seqgen") && (1 <=? v_ok r) && (1 <=? v_err r)) gen_verb_rows = true.
Proof. exact verb_table_nonvacuous. Qed.

(* ---- part 2: line readers ---- *)

(* DKVP and NIDX have no malformed class: every byte string is read as records, one per line
   (in particular the a_2, a_3, ... key search always finds a free key: pigeonhole, Proofs.fresh_key_some) *)
Theorem C18_dkvp_total :
  forall s, exists rs, read_dkvp s = Ok rs /\ List.length rs = List.length (split_lines s).
Proof. exact read_dkvp_total. Qed.
Print Assumptions C18_dkvp_total.

Theorem C18_nidx_total :
  forall s, exists rs, read_nidx s = Ok rs /\ List.length rs = List.length (split_lines s).
Proof. exact read_nidx_total. Qed.
Print Assumptions C18_nidx_total.

(* TSV: Err exactly on the malformed class (a data line whose field count differs from the header's) *)
Theorem C18_tsv_err_only_on_malformed :
  forall s a b l, read_tsv s = ErrMismatch a b l -> tsv_malformed s.
Proof. exact read_tsv_err_malformed. Qed.
Print Assumptions C18_tsv_err_only_on_malformed.

Theorem C18_tsv_malformed_is_rejected :
  forall s, tsv_malformed s -> exists a b l, read_tsv s = ErrMismatch a b l.
Proof. exact read_tsv_malformed_err_strong. Qed.
Print Assumptions C18_tsv_malformed_is_rejected.

(* the model's fuel artefact is unreachable: every input is classified Ok or ErrMismatch *)
Theorem C18_tsv_total : forall s, read_tsv s <> OutOfFuel.
Proof. exact read_tsv_fuel_ok. Qed.
Print Assumptions C18_tsv_total.

Theorem C18_tsv_ok_means_wellformed :
  forall s rs, read_tsv s = Ok rs -> ~ tsv_malformed s /\ List.length rs = pred (List.length (split_lines s)).
Proof. exact read_tsv_ok. Qed.
Print Assumptions C18_tsv_ok_means_wellformed.

(* the error names the header size, the offending size and the 1-based number of the FIRST offending line *)
Theorem C18_tsv_error_position :
  forall s a b l, read_tsv s = ErrMismatch a b l ->
  exists h pre bad post, split_lines s = h :: pre ++ bad :: post
    /\ a = nfields h /\ b = nfields bad /\ b <> a
    /\ Forall (fun x => nfields x = a) pre /\ l = 2 + N.of_nat (List.length pre).
Proof. exact read_tsv_err_position. Qed.
Print Assumptions C18_tsv_error_position.

(* lines never contain the record separator *)
Theorem C18_lines_have_no_LF : forall s l, In l (split_lines s) -> ~ In LF l.
Proof. exact split_lines_no_LF. Qed.
Print Assumptions C18_lines_have_no_LF.

(* non-vacuity: the table is big and contains clean rows of every arity; concrete inputs reach each reader outcome *)
Example C18_nonvacuous :
  ((200 <=? N.of_nat (List.length gen_bif_shards)) = true
   /\ existsb (fun s => beqb (sh_name s) (B "strlen") && shard_clean s && (sh_nreps s =? 37)) gen_bif_shards = true
   /\ existsb (fun s => beqb (sh_name s) (B "sub") && shard_clean s && (sh_arity s =? 3)) gen_bif_shards = true
   /\ existsb (fun s => beqb (sh_name s) (B "+") && shard_clean s && (sh_arity s =? 2)) gen_bif_shards = true)
  /\ read_tsv (B "a" ++ [TAB] ++ B "b" ++ [LF] ++ B "1" ++ [TAB] ++ B "2" ++ [LF] ++ B "3" ++ [LF]) = ErrMismatch 2 1 3
  /\ read_tsv (B "a" ++ [TAB] ++ B "a" ++ [LF] ++ B "1" ++ [TAB] ++ B "2" ++ [LF]) = Ok [[(B "a", B "1"); (B "a_2", B "2")]]
  /\ read_dkvp (B "a=1,,b,=3" ++ [LF]) = Ok [[(B "a", B "1"); (B "3", B "b"); ([], B "3")]].
Proof. split; [exact table_nonvacuous|]. vm_compute. repeat split; reflexivity. Qed.

(* ---- part 2b: classified CSV / CSV-lite / PPRINT / XTAB readers (C18/ModelReaders.v; totality is Gallina's: every reader
   is a structurally recursive function bytes -> COk records | CErr class -- the line / field / byte loops recurse on the
   list they consume, no fuel) ---- *)
Module R.
Import C01.Model C01.ModelXtab C01.ModelLite C18.ModelReaders C18.ProofsReaders C18.ModelBar C18.ProofsBar C18.ModelJson C18.ProofsJson.

(* CSV, for ALL byte strings and ALL option records (implicit header, lazy quotes, dedupe, ragged, skip-trivial, separator):
   each outcome happens exactly on its malformed class.  The classes, in the order in which they win:
   invalid separator; a quote error in a record of which no field was completed (csv_quote_malformed, the Go reader's
   dst == nil -- quote errors after a completed field are NOT reported by record_reader_csv.go: the fields read so far
   become a record and the rest of the line is dropped; the model does the same); a data row whose field count differs from
   the header's while ragged mode is off and the row is not a skipped trivial one. *)
Theorem C18_csv_err_delim_iff : forall o s, read_csv_c o s = CErr EDelim <-> csv_delim_malformed o = true.
Proof. exact read_csv_delim. Qed.
Print Assumptions C18_csv_err_delim_iff.

Theorem C18_csv_err_quote_iff : forall o s k,
  read_csv_c o s = CErr (EParse k) <-> csv_delim_malformed o = false /\ csv_quote_malformed o s = Some k.
Proof. exact read_csv_parse. Qed.
Print Assumptions C18_csv_err_quote_iff.

Theorem C18_csv_err_mismatch_iff : forall o s,
  (exists a b r, read_csv_c o s = CErr (EMismatch a b r))
  <-> csv_delim_malformed o = false /\ csv_quote_malformed o s = None /\ csv_length_malformed o s = true.
Proof. exact read_csv_mismatch. Qed.
Print Assumptions C18_csv_err_mismatch_iff.

Theorem C18_csv_ok_iff : forall o s,
  (exists rs, read_csv_c o s = COk rs)
  <-> csv_delim_malformed o = false /\ csv_quote_malformed o s = None /\ csv_length_malformed o s = false.
Proof. exact read_csv_ok. Qed.
Print Assumptions C18_csv_ok_iff.

(* the message names the header size, the row's size and the number of the FIRST offending row *)
Theorem C18_csv_mismatch_position : forall o s a b r,
  read_csv_c o s = CErr (EMismatch a b r) ->
  exists hs n0 pre bad post,
    csv_header_data (o_implicit o) (csv_rows_or_nil o s) = Some (hs, n0, pre ++ bad :: post)
    /\ forallb (row_passes (o_ragged o) (o_skiptriv o) hs) pre = true
    /\ row_bad (o_ragged o) (o_skiptriv o) hs bad = true
    /\ a = nlen hs /\ b = nlen bad /\ r = (n0 + N.of_nat (List.length pre))%N.
Proof. exact read_csv_mismatch_position. Qed.
Print Assumptions C18_csv_mismatch_position.

(* the quote class, independently of the machine for two large families: with lazy quotes nothing is rejected; a text
   without a double-quote byte is never rejected.  PARTIAL: for texts with quotes and lazy off the class is stated through
   the record machine itself (csv_quote_malformed), not through an independent grammar. *)
Theorem C18_csv_lazy_never_quote_error : forall comma s, exists rows, csv_rows_c true comma s = RowsOk rows.
Proof. exact csv_rows_lazy. Qed.
Print Assumptions C18_csv_lazy_never_quote_error.

Theorem C18_csv_no_quote_no_quote_error_partial : forall lazy comma s, nochar DQ s = true -> exists rows, csv_rows_c lazy comma s = RowsOk rows.
Proof. exact csv_rows_nodq. Qed.
Print Assumptions C18_csv_no_quote_no_quote_error_partial.

(* CSV-lite and PPRINT (one reader, getRecordBatchExplicitCSVHeader): an error exactly when ragged mode is off and some
   schema block (maximal run of non-empty lines) has a line whose field count differs from the block's first line *)
Theorem C18_lite_err_iff : forall o s, (exists e, read_lite_c o s = CErr e) <-> lite_malformed o s = true.
Proof. exact read_lite_err_iff. Qed.
Print Assumptions C18_lite_err_iff.

Theorem C18_lite_error_position : forall o ls hdr line e,
  lite_go_c o hdr line ls = CErr e ->
  exists (hs : list bytes) pre bad post, ls = pre ++ bad :: post
    /\ e = EMismatch (nlen hs) (N.of_nat (nf o bad)) (line + N.of_nat (List.length pre))
    /\ is_nil bad = false /\ List.length hs <> nf o bad /\ l_ragged o = false.
Proof. exact lite_go_err_shape. Qed.
Print Assumptions C18_lite_error_position.

(* XTAB has no malformed class: for every IPS, every byte string is read, one record per stanza; in particular the
   reader's "internal coding error in XTAB reader" is unreachable (a stanza never holds an empty line) *)
Theorem C18_xtab_total : forall ips dedupe s,
  exists rs, read_xtab_c ips dedupe s = COk rs /\ List.length rs = List.length (xtab_stanzas (lines_of s) []).
Proof. exact read_xtab_total. Qed.
Print Assumptions C18_xtab_total.

(* never indexes out of range: the counted loops of getRecordBatch over header[i] / csvRecord[i], written with nth_error
   (None = Go's index-out-of-range panic), reach no None for ANY header and row, ragged or not, padded or not *)
Theorem C18_row_loops_no_oob : forall dedupe fill hs fs, exists r, row_indexed dedupe fill hs fs = Some r.
Proof. exact row_indexed_total. Qed.
Print Assumptions C18_row_loops_no_oob.

(* non-vacuity: concrete inputs reach every outcome class *)
Example C18_readers_nonvacuous :
  let o := mkO false false true false false "," in
  read_csv_c o (B "a,b" ++ [LF] ++ B "1,x" ++ [DQ] ++ B "y" ++ [LF]) = CErr (EMismatch 2 1 2)
  /\ read_csv_c o (B "a,b" ++ [LF] ++ B "x" ++ [DQ] ++ B "y,2" ++ [LF]) = CErr (EParse BareQuote)
  /\ read_csv_c o (B "a,b" ++ [LF] ++ [DQ] ++ B "x" ++ [DQ] ++ B "y,2" ++ [LF]) = CErr (EParse BadQuote)
  /\ read_csv_c (mkO false false true false false DQ) [] = CErr EDelim
  /\ read_csv_c o (B "a,b" ++ [LF] ++ B "1,2,x" ++ [DQ] ++ B "y" ++ [LF] ++ B "3,4" ++ [LF; CR])
     = CErr (EMismatch 2 1 4)
  /\ read_csv_c (mkO false true true true false ",") (B "a,b" ++ [LF] ++ B "1,2,x" ++ [DQ] ++ B "y" ++ [LF])
     = COk [[(B "a", B "1"); (B "b", B "2"); (B "3", B "x" ++ [DQ] ++ B "y")]]
  /\ read_lite_c (csvlite_opts (B ",") true false) (B "a,b" ++ [LF] ++ B "1,2" ++ [LF; LF] ++ B "c" ++ [LF] ++ B "3,4" ++ [LF])
     = CErr (EMismatch 1 2 5)
  /\ read_lite_c (pprint_opts true false) (B "a  b" ++ [LF] ++ B "1 -" ++ [LF]) = COk [[(B "a", B "1"); (B "b", [])]]
  /\ read_xtab_c (B " ") true (B "a   1" ++ [LF] ++ B "b" ++ [LF; LF; LF] ++ B " c" ++ [LF])
     = COk [[(B "a", B "1"); (B "b", [])]; [([], B "c")]].
Proof. vm_compute. repeat split; reflexivity. Qed.
(* ---- part 2c: barred PPRINT (--ipprint --barred-input) and markdown (--imd) readers, one Go reader
   (RecordReaderPprintBarredOrMarkdown, explicit and implicit header), modelled as repaired in HEAD (ff74c4ac8 80287c7ad
   75f65c604 6be21e050).  For ALL byte strings and ALL option records (markdown or barred, implicit header, dedupe, ragged):
   total; an error exactly when ragged mode is off and some block (maximal run of non-blank lines) has a row -- a line that is
   neither a separator line nor a line with fewer than two padded fields -- whose cell count differs from the block's first row;
   the message carries the header size, the row size and the number of the FIRST offending line; a row always comes from a line
   with at least two padded fields (no negative make([]string, npad-2)). *)
Theorem C18_bar_err_iff : forall o s, (exists e, read_bar_c o s = CErr e) <-> bar_malformed o s = true.
Proof. exact read_bar_err_iff. Qed.
Print Assumptions C18_bar_err_iff.

Theorem C18_bar_ok_iff : forall o s, (exists rs, read_bar_c o s = COk rs) <-> bar_malformed o s = false.
Proof. exact read_bar_ok_iff. Qed.
Print Assumptions C18_bar_ok_iff.

Theorem C18_bar_error_position : forall o s e,
  read_bar_c o s = CErr e ->
  exists (hs fs : list bytes) pre post,
    bar_events (b_md o) 0 (lines_of s) = pre ++ EvRow fs :: post
    /\ e = EMismatch (nlen hs) (nlen fs) (1 + N.of_nat (List.length pre))
    /\ List.length hs <> List.length fs /\ b_ragged o = false
    /\ (List.length pre < List.length (lines_of s))%nat.
Proof. exact read_bar_err_position. Qed.
Print Assumptions C18_bar_error_position.

Theorem C18_bar_row_has_two_padded_fields : forall md nb l fs, bar_event md nb l = EvRow fs ->
  exists pf : list bytes, (2 <= List.length pf)%nat /\ List.length fs = (List.length pf - 2)%nat.
Proof. exact bar_event_row_cells. Qed.
Print Assumptions C18_bar_row_has_two_padded_fields.

Example C18_bar_nonvacuous :
  read_bar_c (mkB true false true false) (B "| a | b |" ++ [LF] ++ B "| --- | ---: |" ++ [LF] ++ B "| x\|y | - |" ++ [LF] ++ B "| --- | --- |" ++ [LF])
    = COk [[(B "a", B "x|y"); (B "b", B "-")]; [(B "a", B "---"); (B "b", B "---")]]
  /\ read_bar_c (mkB true false true false) (B "| a | b |" ++ [LF] ++ B "| 1 |" ++ [LF]) = CErr (EMismatch 2 1 2)
  /\ read_bar_c (mkB false true true false) (B "+---+" ++ [LF] ++ B "no bars" ++ [LF] ++ B "| 1 | 2 |" ++ [LF] ++ B "| 3 |" ++ [LF]) = CErr (EMismatch 2 1 4)
  /\ read_bar_c (mkB false true true true) (B "| 1 | 2 |" ++ [LF] ++ B "| 3 |" ++ [LF])
     = COk [[(B "1", B "1"); (B "2", B "2")]; [(B "1", B "3"); (B "2", [])]].
Proof. vm_compute. repeat split; reflexivity. Qed.
(* ---- part 2d: Miller's layer over the JSON decoder (record_reader_json.go processHandle), on the sequence of decoded top-level
   values (the decoder itself is not modelled: a text it rejects is the abstract value TDecodeErr).  For ALL sequences: records
   exactly when every top-level value is a map or an array of maps (then: the maps in order); otherwise the error of the FIRST
   offending value -- "unmillerable ... got <kind>" with the kind of the scalar / of the first non-map element, or the decoder's
   error -- and nothing after it is looked at. *)
Theorem C18_json_layer_ok_iff : forall vs, (exists ids, json_layer vs = JOk ids) <-> forallb millerable vs = true.
Proof. exact json_layer_ok_iff. Qed.
Print Assumptions C18_json_layer_ok_iff.

Theorem C18_json_layer_records : forall vs, forallb millerable vs = true -> json_layer vs = JOk (flat_map top_ids vs).
Proof. exact json_layer_ok. Qed.
Print Assumptions C18_json_layer_records.

Theorem C18_json_layer_first_error : forall vs, forallb millerable vs = false ->
  exists pre bad post e, vs = pre ++ bad :: post /\ forallb millerable pre = true /\ millerable bad = false
    /\ err_of bad = Some e /\ json_layer vs = JErr e.
Proof. exact json_layer_err. Qed.
Print Assumptions C18_json_layer_first_error.

Example C18_json_layer_nonvacuous :
  json_layer [TMap 1; TArr [EMap 2; EMap 3]; TArr []] = JOk [1; 2; 3]
  /\ json_layer [TMap 1; TArr [EMap 2; EOther 7; EOther 1]; TDecodeErr] = JErr (JUnmillerable 7)
  /\ json_layer [TArr [EMap 2]; TScalar 4; TMap 5] = JErr (JUnmillerable 4)
  /\ json_layer [TMap 1; TDecodeErr; TScalar 1] = JErr JDecode.
Proof. vm_compute. repeat split; reflexivity. Qed.
End R.
