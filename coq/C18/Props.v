(* C18 property theorems.  Only statements closed by [exact]; each followed by Print Assumptions.
   Part 1 is stated over the outcome table REGENERATED from /repo on every run (gen/Gen_BifOutcomes.v);
   part 2 over the line-reader models that harness/py/checks/c18.py runs against the implementation (C18/Harness.v). *)
From Miller Require Import Base.Bytes Base.Record C18.BifTable C18.Exceptions C18.Model C18.Proofs C18.TableProofs gen.Gen_BifOutcomes.
Open Scope N_scope.

(* ---- part 1: built-in functions x argument-kind tuples ---- *)

(* the table is exhaustive: for every (function, arity) row, acceptable + bad outcomes = nreps ^ arity tuples, the bad
   runs are disjoint and inside the tuple space; and every row of Miller's function table is walked or explicitly skipped *)
Theorem C18_bif_table_exhaustive :
  (forall s, In s gen_bif_shards -> shard_exhaustive s = true)
  /\ (forall n, In n gen_bif_rows -> row_covered gen_bif_shards gen_bif_skipped n = true).
Proof. exact (conj (proj1 (forallb_forall _ _) table_exhaustive) (proj1 (forallb_forall _ _) table_rows_covered)). Qed.
Print Assumptions C18_bif_table_exhaustive.

(* no tuple panics, hangs, kills the runtime or exits through an internal coding error -- outside the (function, outcome)
   pairs committed in C18/Exceptions.v: the two KNOWN FINDINGS (absent/function values into collections; statistics over
   non-numeric elements: internal-coding-error exits) and the tuples deliberately not evaluated (pad length 2^63-1).
   PARTIAL for exactly that footprint; the tuples inside it are reported by the check with CLI replays. *)
Theorem C18_bif_no_panic_or_hang_partial :
  forall s, In s gen_bif_shards -> forall r, In r (sh_bad s) -> known known_bad (sh_name s) (run_code r) = true.
Proof.
  exact (fun s Hs r Hr => proj1 (forallb_forall _ _) (proj1 (forallb_forall _ _) table_ok_outside_known s Hs) r Hr).
Qed.
Print Assumptions C18_bif_no_panic_or_hang_partial.

(* every function that is not named in the exception list is clean on its WHOLE tuple space *)
Theorem C18_bif_unlisted_functions_clean :
  forall s, In s gen_bif_shards -> listed known_bad (sh_name s) = false ->
  sh_bad s = [] /\ sh_ok s = sh_nreps s ^ sh_arity s.
Proof. exact unlisted_clean. Qed.
Print Assumptions C18_bif_unlisted_functions_clean.

(* ---- part 2: line readers ---- *)

(* DKVP and NIDX have no malformed class: every byte string is read as records, one per line
   (in particular the a_2, a_3, ... key search always finds a free key: pigeonhole, Proofs.fresh_key_some) *)
Theorem C18_dkvp_total :
  forall s, exists rs, read_dkvp s = Ok rs /\ List.length rs = List.length (split_lines s).
Proof. exact read_dkvp_total. Qed.
Print Assumptions C18_dkvp_total.

Theorem C18_nidx_total :
  forall s, exists rs, read_nidx s = Ok rs /\ List.length rs = List.length (split_lines s).
Proof. exact read_nidx_total. Qed.
Print Assumptions C18_nidx_total.

(* TSV: Err exactly on the malformed class (a data line whose field count differs from the header's) *)
Theorem C18_tsv_err_only_on_malformed :
  forall s a b l, read_tsv s = ErrMismatch a b l -> tsv_malformed s.
Proof. exact read_tsv_err_malformed. Qed.
Print Assumptions C18_tsv_err_only_on_malformed.

Theorem C18_tsv_malformed_is_rejected :
  forall s, tsv_malformed s -> exists a b l, read_tsv s = ErrMismatch a b l.
Proof. exact read_tsv_malformed_err_strong. Qed.
Print Assumptions C18_tsv_malformed_is_rejected.

(* the model's fuel artefact is unreachable: every input is classified Ok or ErrMismatch *)
Theorem C18_tsv_total : forall s, read_tsv s <> OutOfFuel.
Proof. exact read_tsv_fuel_ok. Qed.
Print Assumptions C18_tsv_total.

Theorem C18_tsv_ok_means_wellformed :
  forall s rs, read_tsv s = Ok rs -> ~ tsv_malformed s /\ List.length rs = pred (List.length (split_lines s)).
Proof. exact read_tsv_ok. Qed.
Print Assumptions C18_tsv_ok_means_wellformed.

(* the error names the header size, the offending size and the 1-based number of the FIRST offending line *)
Theorem C18_tsv_error_position :
  forall s a b l, read_tsv s = ErrMismatch a b l ->
  exists h pre bad post, split_lines s = h :: pre ++ bad :: post
    /\ a = nfields h /\ b = nfields bad /\ b <> a
    /\ Forall (fun x => nfields x = a) pre /\ l = 2 + N.of_nat (List.length pre).
Proof. exact read_tsv_err_position. Qed.
Print Assumptions C18_tsv_error_position.

(* lines never contain the record separator *)
Theorem C18_lines_have_no_LF : forall s l, In l (split_lines s) -> ~ In LF l.
Proof. exact split_lines_no_LF. Qed.
Print Assumptions C18_lines_have_no_LF.

(* non-vacuity: the table is big and contains clean rows of every arity; concrete inputs reach each reader outcome *)
Example C18_nonvacuous :
  ((200 <=? N.of_nat (List.length gen_bif_shards)) = true
   /\ existsb (fun s => beqb (sh_name s) (B "strlen") && shard_clean s && (sh_nreps s =? 37)) gen_bif_shards = true
   /\ existsb (fun s => beqb (sh_name s) (B "sub") && shard_clean s && (sh_arity s =? 3)) gen_bif_shards = true
   /\ existsb (fun s => beqb (sh_name s) (B "+") && shard_clean s && (sh_arity s =? 2)) gen_bif_shards = true)
  /\ read_tsv (B "a" ++ [TAB] ++ B "b" ++ [LF] ++ B "1" ++ [TAB] ++ B "2" ++ [LF] ++ B "3" ++ [LF]) = ErrMismatch 2 1 3
  /\ read_tsv (B "a" ++ [TAB] ++ B "a" ++ [LF] ++ B "1" ++ [TAB] ++ B "2" ++ [LF]) = Ok [[(B "a", B "1"); (B "a_2", B "2")]]
  /\ read_dkvp (B "a=1,,b,=3" ++ [LF]) = Ok [[(B "a", B "1"); (B "3", B "b"); ([], B "3")]].
Proof. split; [exact table_nonvacuous|]. vm_compute. repeat split; reflexivity. Qed.
