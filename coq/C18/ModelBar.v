(* C18 part 2c: TOTAL CLASSIFIED model of the barred-PPRINT and markdown readers (definitions only).
   Go code transliterated (HEAD, after the repairs ff74c4ac8, 80287c7ad, 75f65c604, 6be21e050):
     pkg/input/record_reader_pprint.go   RecordReaderPprintBarredOrMarkdown: isSeparatorLine, getRecordBatchExplicitPprintHeader,
                                         getRecordBatchImplicitPprintHeader ("PPRINT-barred header/data length mismatch %d != %d at
                                         filename %s line %d" / "CSV header/data length mismatch ... line %d")
     pkg/input/record_reader_markdown.go NewRecordReaderMarkdown (separator `^\|[-:\| ]+\|$`, only as 2nd line of a block),
                                         tMarkdownSplitter.Split (a bar after a backslash is cell content, the backslash goes)
   The loop is written in two passes, which is faithful because what a line IS (blank / skipped / a row with these cells) depends
   only on the line and on numLinesInBlock, never on the header: pass 1 [bar_events] classifies the lines, pass 2 [bar_go] is the
   header / length check / record construction.  Not modelled: comment handling (default: comments are data), strings.TrimSpace
   for the non-ASCII Unicode spaces (U+0085, U+00A0, U+1680, U+2000.., U+3000: excluded from the correspondence generator). *)
From Miller Require Import Base.Bytes Base.Record C01.Model C18.ModelReaders.
Open Scope char_scope.

Definition first_is (c : ascii) (s : bytes) : bool := match s with x :: _ => eqc x c | [] => false end.
Definition last_is (c : ascii) (s : bytes) : bool := first_is c (rev s).
Definition all_in (cs s : bytes) : bool := forallb (fun c => memc c cs) s.
(* regexp `^\+[-+]*\+$` and `^\|[-:\| ]+\|$` (all class members are ASCII, so byte-wise = rune-wise) *)
Definition sep_barred (l : bytes) : bool :=
  Nat.leb 2 (List.length l) && first_is "+" l && last_is "+" l && all_in ["-"; "+"] l.
Definition sep_md (l : bytes) : bool :=
  Nat.leb 3 (List.length l) && first_is "|" l && last_is "|" l && all_in ["-"; ":"; "|"; " "] l.
(* isSeparatorLine; [nb] = numLinesInBlock after the increment for this line *)
Definition is_sep (md : bool) (nb : N) (l : bytes) : bool :=
  if md then sep_md l && N.eqb nb 2 else sep_barred l.

(* tMarkdownSplitter.Split; [prev_bs]: input[i-1] == '\\'; buf and acc are reversed *)
Fixpoint md_split_go (s : bytes) (prev_bs : bool) (buf : bytes) (acc : list bytes) : list bytes :=
  match s with
  | [] => rev (rev buf :: acc)
  | c :: t =>
    if eqc c "|" then
      if prev_bs then md_split_go t false ("|" :: tl buf) acc
      else md_split_go t false [] (rev buf :: acc)
    else md_split_go t (eqc c "\") (c :: buf) acc
  end.
Definition md_split (s : bytes) : list bytes := match s with [] => [] | _ => md_split_go s false [] [] end.

(* strings.TrimSpace, ASCII part: space, \t \n \v \f \r *)
Definition is_sp (c : ascii) : bool :=
  let n := N_of_ascii c in N.eqb n 32 || (N.leb 9 n && N.leb n 13).
Fixpoint drop_sp (s : bytes) : bytes := match s with c :: t => if is_sp c then drop_sp t else s | [] => [] end.
Definition trim_space (s : bytes) : bytes := rev (drop_sp (rev (drop_sp s))).

Inductive ev := EvBlank | EvSkip | EvRow (fs : list bytes).
(* the padded fields minus the first and the last one: fields := make([]string, npad-2), guarded by npad >= 2 *)
Definition middle (pf : list bytes) : list bytes := removelast (tl pf).
Definition bar_event (md : bool) (nb : N) (l : bytes) : ev :=
  if is_sep md nb l then EvSkip
  else
    let pf := if md then md_split l else field_split ["|"] false l in
    if Nat.ltb (List.length pf) 2 then EvSkip else EvRow (map trim_space (middle pf)).
Fixpoint bar_events (md : bool) (nb : N) (ls : list bytes) : list ev :=
  match ls with
  | [] => []
  | l :: t => if is_nil l then EvBlank :: bar_events md 0 t
              else bar_event md (nb + 1) l :: bar_events md (nb + 1) t
  end.

Record bopts := mkB { b_md : bool; b_implicit : bool; b_dedupe : bool; b_ragged : bool }.
Definition ccons (r : record) (c : cres) : cres := match c with COk rs => COk (r :: rs) | e => e end.
Fixpoint bar_go (o : bopts) (hdr : option (list bytes)) (line : N) (es : list ev) : cres :=
  match es with
  | [] => COk []
  | EvBlank :: t => bar_go o None (line + 1) t
  | EvSkip :: t => bar_go o hdr (line + 1) t
  | EvRow fs :: t =>
    match hdr with
    | None =>
      if b_implicit o then
        let hs := positional_keys (List.length fs) in
        ccons (attach (b_dedupe o) true 0 hs fs []) (bar_go o (Some hs) (line + 1) t)
      else bar_go o (Some fs) (line + 1) t
    | Some hs =>
      if row_fits (b_ragged o) hs fs then ccons (attach (b_dedupe o) true 0 hs fs []) (bar_go o (Some hs) (line + 1) t)
      else CErr (EMismatch (nlen hs) (nlen fs) line)
    end
  end.
Definition read_bar_c (o : bopts) (s : bytes) : cres := bar_go o None 1 (bar_events (b_md o) 0 (lines_of s)).

(* the malformed class, on the classified lines: cut at the blank lines; a block is bad when one of its rows has a cell count
   different from the block's first row *)
Fixpoint ev_blocks_go (cur : list (list bytes)) (es : list ev) : list (list (list bytes)) :=
  match es with
  | [] => [rev cur]
  | EvBlank :: t => rev cur :: ev_blocks_go [] t
  | EvSkip :: t => ev_blocks_go cur t
  | EvRow fs :: t => ev_blocks_go (fs :: cur) t
  end.
Definition ev_blocks (es : list ev) : list (list (list bytes)) := ev_blocks_go [] es.
Definition rows_bad (b : list (list bytes)) : bool :=
  match b with
  | [] => false
  | h :: data => existsb (fun fs => negb (Nat.eqb (List.length h) (List.length fs))) data
  end.
Definition bar_malformed (o : bopts) (s : bytes) : bool :=
  negb (b_ragged o) && existsb rows_bad (ev_blocks (bar_events (b_md o) 0 (lines_of s))).
