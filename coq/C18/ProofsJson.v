(* C18 part 2d: proofs about the JSON record-reader layer model (C18/ModelJson.v). *)
From Miller Require Import Base.Bytes C18.ModelJson.
Require Import Lia.

Lemma arr_ids_ok es : forallb elem_is_map es = true -> arr_ids es = inr (flat_map elem_id es).
Proof.
  induction es as [|e t IH]; [reflexivity|]. destruct e as [i|k]; cbn [forallb elem_is_map andb]; [|discriminate].
  intros H. cbn [arr_ids flat_map elem_id app]. now rewrite (IH H).
Qed.
Lemma arr_ids_bad es : forallb elem_is_map es = false -> exists k, arr_ids es = inl k /\ first_other es = Some k.
Proof.
  induction es as [|e t IH]; [discriminate|]. destruct e as [i|k]; cbn [forallb elem_is_map andb arr_ids first_other].
  - intros H. destruct (IH H) as (k & -> & Hk). eauto.
  - eauto.
Qed.

Lemma millerable_err_none v : millerable v = true -> err_of v = None.
Proof.
  destruct v as [i|es|k|]; cbn [millerable err_of]; try discriminate; [reflexivity|].
  induction es as [|e t IH]; [reflexivity|]. destruct e; cbn [forallb elem_is_map andb first_other]; [exact IH|discriminate].
Qed.

Theorem json_layer_ok vs : forallb millerable vs = true -> json_layer vs = JOk (flat_map top_ids vs).
Proof.
  induction vs as [|v t IH]; [reflexivity|]. cbn [forallb]. intros H. apply andb_prop in H as [Hv Ht].
  destruct v as [i|es|k|]; cbn [millerable] in Hv; try discriminate; cbn [json_layer flat_map top_ids].
  - now rewrite (IH Ht).
  - rewrite (arr_ids_ok es Hv), (IH Ht). reflexivity.
Qed.

Theorem json_layer_err vs : forallb millerable vs = false ->
  exists pre bad post e, vs = pre ++ bad :: post /\ forallb millerable pre = true /\ millerable bad = false
    /\ err_of bad = Some e /\ json_layer vs = JErr e.
Proof.
  induction vs as [|v t IH]; [discriminate|]. cbn [forallb]. intros H.
  destruct (millerable v) eqn:Hv.
  - cbn [andb] in H. destruct (IH H) as (pre & bad & post & e & -> & Hp & Hb & He & Hl).
    exists (v :: pre), bad, post, e. cbn [forallb]. rewrite Hv, Hp. repeat split; try assumption.
    destruct v as [i|es|k|]; cbn [millerable] in Hv; try discriminate; cbn [json_layer].
    + now rewrite Hl.
    + rewrite (arr_ids_ok es Hv), Hl. reflexivity.
  - destruct v as [i|es|k|]; cbn [millerable] in Hv; try discriminate.
    + destruct (arr_ids_bad es Hv) as (k & Ha & Hf).
      exists [], (TArr es), t, (JUnmillerable k). cbn [json_layer err_of millerable forallb app]. rewrite Ha, Hf, Hv. repeat split.
    + exists [], (TScalar k), t, (JUnmillerable k). repeat split.
    + exists [], TDecodeErr, t, JDecode. repeat split.
Qed.

(* records or a classified error, exactly by class *)
Theorem json_layer_ok_iff vs : (exists ids, json_layer vs = JOk ids) <-> forallb millerable vs = true.
Proof.
  split.
  - intros [ids H]. destruct (forallb millerable vs) eqn:E; [reflexivity|].
    destruct (json_layer_err vs E) as (_ & _ & _ & e & _ & _ & _ & _ & He). congruence.
  - intros H. rewrite (json_layer_ok vs H). eauto.
Qed.
