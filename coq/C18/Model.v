(* C18 part 2: total Gallina models of Miller's line-oriented readers (definitions only).
   pkg/input/line_reader.go (DefaultLineReader + channelizedLineReader), pkg/input/splitters.go, pkg/lib/util.go SplitString,
   pkg/input/record_reader_dkvp_nidx.go (recordFromDKVPLine, recordFromNIDXLine), pkg/input/record_reader_tsv.go
   (getRecordBatchExplicitTSVHeader), pkg/lib/tsv_codec.go (TSVDecodeField), pkg/mlrval/mlrmap_accessors.go
   (PutReferenceMaybeDedupe), all with the default reader options (IFS "," / " " / TAB, IPS "=", IRS LF, dedupe on,
   comments are data, no ragged, explicit TSV header). *)
From Coq Require Import DecimalString DecimalN.
From Miller Require Import Base.Bytes Base.Record.
Open Scope char_scope.

Definition LF : ascii := "010".
Definition CR : ascii := "013".
Definition TAB : ascii := "009".

Inductive result :=
| Ok (rs : list record)
| ErrMismatch (nheader ndata line : N)   (* "mlr: mlr: TSV header/data length mismatch %d != %d at filename %s line %d" *)
| OutOfFuel.                              (* model artefact only; proved unreachable (Proofs.read_*_fuel_ok) *)

(* ---- lines: ReadString('\n'), strip "\n" or "\r\n"; a final unterminated piece is a line iff non-empty *)
Definition finish_line (cur_rev : bytes) : bytes :=
  match cur_rev with
  | c :: t => if Ascii.eqb c CR then rev t else rev cur_rev
  | [] => []
  end.

Fixpoint lines_aux (cur_rev : bytes) (s : bytes) : list bytes :=
  match s with
  | [] => match cur_rev with [] => [] | _ => [rev cur_rev] end
  | c :: t => if Ascii.eqb c LF then finish_line cur_rev :: lines_aux [] t else lines_aux (c :: cur_rev) t
  end.
Definition split_lines (s : bytes) : list bytes := lines_aux [] s.

(* ---- strings.Split on a one-byte separator; lib.SplitString maps "" to no fields at all *)
Fixpoint split_aux (sep : ascii) (cur_rev : bytes) (s : bytes) : list bytes :=
  match s with
  | [] => [rev cur_rev]
  | c :: t => if Ascii.eqb c sep then rev cur_rev :: split_aux sep [] t else split_aux sep (c :: cur_rev) t
  end.
Definition split_string (sep : ascii) (s : bytes) : list bytes :=
  match s with [] => [] | _ => split_aux sep [] s end.

(* strings.SplitN(s, sep, 2): (before, Some after) at the first separator, (s, None) when there is none *)
Fixpoint split2_aux (sep : ascii) (cur_rev : bytes) (s : bytes) : bytes * option bytes :=
  match s with
  | [] => (rev cur_rev, None)
  | c :: t => if Ascii.eqb c sep then (rev cur_rev, Some t) else split2_aux sep (c :: cur_rev) t
  end.
Definition split2 (sep : ascii) (s : bytes) := split2_aux sep [] s.

Definition is_blank (c : ascii) : bool := Ascii.eqb c " " || Ascii.eqb c TAB.

(* lib.StripEmpties *)
Definition strip_empties (l : list bytes) : list bytes :=
  filter (fun x => match x with [] => false | _ => true end) l.

(* ---- strconv.Itoa for non-negative numbers (the standard library's decimal printer: no fuel, no leading zeros) *)
Definition N_to_dec (n : N) : bytes := list_ascii_of_string (NilEmpty.string_of_uint (N.to_uint n)).

(* ---- PutReferenceMaybeDedupe(key, value, dedupe=true): a second "a" becomes "a_2", then "a_3", ... *)
Fixpoint fresh_key (fuel : nat) (k : bytes) (i : N) (r : record) : option bytes :=
  match fuel with
  | O => None
  | S f => let k' := k ++ "_" :: N_to_dec i in
           if has k' r then fresh_key f k (i + 1)%N r else Some k'
  end.

Definition put_dedupe (k v : bytes) (r : record) : option record :=
  if has k r then
    match fresh_key (S (S (List.length r))) k 2%N r with
    | Some k' => Some (r ++ [(k', v)])
    | None => None
    end
  else Some (r ++ [(k, v)]).

Fixpoint put_all (kvs : list (bytes * bytes)) (r : record) : option record :=
  match kvs with
  | [] => Some r
  | (k, v) :: t => match put_dedupe k v r with Some r' => put_all t r' | None => None end
  end.

(* ---- DKVP line: recordFromDKVPLine.  An empty pair is skipped (its position still counts);
        a pair without "=" gets its 1-based position as key *)
Fixpoint dkvp_kvs (i : N) (pairs : list bytes) : list (bytes * bytes) :=
  match pairs with
  | [] => []
  | p :: t =>
      match split2 "=" p with
      | ([], None) => dkvp_kvs (i + 1)%N t
      | (v, None) => (N_to_dec (i + 1)%N, v) :: dkvp_kvs (i + 1)%N t
      | (k, Some v) => (k, v) :: dkvp_kvs (i + 1)%N t
      end
  end.
Definition dkvp_line (l : bytes) : option record := put_all (dkvp_kvs 0%N (split_string "," l)) [].

(* ---- NIDX line: recordFromNIDXLine, keys 1..n.  --inidx splits with cli.WHITESPACE_REGEX "([ \t])+" (regexp.Split, and ""
        gives no fields): every maximal run of spaces/tabs is ONE separator; a leading/trailing run leaves an empty first/last field *)
Fixpoint split_runs_aux (sep : ascii -> bool) (cur_rev : bytes) (in_run : bool) (s : bytes) : list bytes :=
  match s with
  | [] => [rev cur_rev]
  | c :: t => if sep c
              then (if in_run then split_runs_aux sep [] true t else rev cur_rev :: split_runs_aux sep [] true t)
              else split_runs_aux sep (c :: cur_rev) false t
  end.
Definition split_runs (sep : ascii -> bool) (s : bytes) : list bytes :=
  match s with [] => [] | _ => split_runs_aux sep [] false s end.

Fixpoint number_from (i : N) (vals : list bytes) : list (bytes * bytes) :=
  match vals with [] => [] | v :: t => (N_to_dec i, v) :: number_from (i + 1)%N t end.
Definition nidx_line (l : bytes) : record := number_from 1%N (split_runs is_blank l).

Fixpoint map_lines (f : bytes -> option record) (ls : list bytes) : result :=
  match ls with
  | [] => Ok []
  | l :: t => match f l with
              | None => OutOfFuel
              | Some r => match map_lines f t with Ok rs => Ok (r :: rs) | e => e end
              end
  end.

Definition read_dkvp (s : bytes) : result := map_lines dkvp_line (split_lines s).
Definition read_nidx (s : bytes) : result := map_lines (fun l => Some (nidx_line l)) (split_lines s).

(* ---- TSV: lib.TSVDecodeField on data fields and (since /repo commit d7dac80b0) on header fields *)
Fixpoint tsv_decode (s : bytes) : bytes :=
  match s with
  | [] => []
  | c :: t =>
      match t with
      | d :: t' =>
          if Ascii.eqb c "\" then
            if Ascii.eqb d "\" then "\" :: tsv_decode t'
            else if Ascii.eqb d "n" then LF :: tsv_decode t'
            else if Ascii.eqb d "r" then CR :: tsv_decode t'
            else if Ascii.eqb d "t" then TAB :: tsv_decode t'
            else c :: tsv_decode t
          else c :: tsv_decode t
      | [] => [c]
      end
  end.

Definition nfields (l : bytes) : N := N.of_nat (List.length (split_string TAB l)).

Definition tsv_record (hdr : list bytes) (l : bytes) : option record :=
  put_all (combine hdr (map tsv_decode (split_string TAB l))) [].

(* data lines, numbered from [line]; the first line whose field count differs from the header's is the error *)
Fixpoint tsv_data (hdr : list bytes) (line : N) (ls : list bytes) : result :=
  match ls with
  | [] => Ok []
  | l :: t =>
      if (nfields l =? N.of_nat (List.length hdr))%N then
        match tsv_record hdr l with
        | None => OutOfFuel
        | Some r => match tsv_data hdr (line + 1)%N t with Ok rs => Ok (r :: rs) | e => e end
        end
      else ErrMismatch (N.of_nat (List.length hdr)) (nfields l) line
  end.

Definition tsv_header (h : bytes) : list bytes := map tsv_decode (split_string TAB h).

Definition read_tsv (s : bytes) : result :=
  match split_lines s with
  | [] => Ok []
  | h :: t => tsv_data (tsv_header h) 2%N t
  end.

(* the malformed class of the TSV reader: some data line whose field count differs from the header line's *)
Definition tsv_malformed (s : bytes) : Prop :=
  match split_lines s with
  | [] => False
  | h :: t => exists l, In l t /\ nfields l <> nfields h
  end.
