(* C18 part 1: vocabulary for the built-in-function outcome table that harness/py/checks/c18.py regenerates
   (coq/gen/Gen_BifOutcomes.v) on every run.  Definitions only.
   A shard is one (function, arity) row of Miller's built-in function table applied to EVERY tuple of
   argument-kind representatives: (name, arity, nreps, number of tuples with an acceptable outcome, bad runs).
   Acceptable outcomes: value, error value, absent, fatal `mlr:` error with non-zero exit.
   A bad run (first tuple number, length, ascii code) lists tuples whose outcome was a Go panic (P=80), a hang (H=72),
   a Go runtime death (R=82), an internal-coding-error exit (I=73), an exit without `mlr:` message (U=85), an exit 0
   in mid-evaluation (Z=90), not evaluated because the shard was abandoned after repeated hangs (S=83), driver error (X=88). *)
From Miller Require Import Base.Bytes.
Open Scope N_scope.

Definition run := (N * N * N)%type.
Definition shard := (bytes * N * N * N * list run)%type.

Definition sh_name (s : shard) : bytes := let '(n, _, _, _, _) := s in n.
Definition sh_arity (s : shard) : N := let '(_, a, _, _, _) := s in a.
Definition sh_nreps (s : shard) : N := let '(_, _, r, _, _) := s in r.
Definition sh_ok (s : shard) : N := let '(_, _, _, k, _) := s in k.
Definition sh_bad (s : shard) : list run := let '(_, _, _, _, b) := s in b.

Definition run_start (r : run) : N := let '(s, _, _) := r in s.
Definition run_len (r : run) : N := let '(_, l, _) := r in l.
Definition run_code (r : run) : N := let '(_, _, c) := r in c.

Definition tuple_space (s : shard) : N := sh_nreps s ^ sh_arity s.
Definition bad_total (s : shard) : N := fold_right (fun r acc => run_len r + acc) 0 (sh_bad s).

(* the runs are non-empty, increasing, disjoint and inside the tuple space *)
Fixpoint runs_wf (from limit : N) (l : list run) : bool :=
  match l with
  | [] => true
  | r :: t => (from <=? run_start r) && (0 <? run_len r) && (run_start r + run_len r <=? limit)
              && runs_wf (run_start r + run_len r) limit t
  end.

(* every tuple of the space is accounted for: acceptable + bad = nreps ^ arity *)
Definition shard_exhaustive (s : shard) : bool :=
  (sh_ok s + bad_total s =? tuple_space s) && runs_wf 0 (tuple_space s) (sh_bad s).

Definition bmem (k : bytes) (l : list bytes) : bool := existsb (beqb k) l.

(* every row of the function table is either walked or explicitly skipped *)
Definition row_covered (shards : list shard) (skipped : list bytes) (n : bytes) : bool :=
  bmem n skipped || existsb (fun s => beqb (sh_name s) n) shards.

(* committed list of (function, outcome code) pairs recorded as pending findings *)
Definition known (ex : list (bytes * N)) (name : bytes) (code : N) : bool :=
  existsb (fun e => beqb (fst e) name && (snd e =? code)) ex.
Definition listed (ex : list (bytes * N)) (name : bytes) : bool :=
  existsb (fun e => beqb (fst e) name) ex.

Definition shard_ok_outside (ex : list (bytes * N)) (s : shard) : bool :=
  forallb (fun r => known ex (sh_name s) (run_code r)) (sh_bad s).

Definition shard_clean (s : shard) : bool :=
  match sh_bad s with [] => sh_ok s =? tuple_space s | _ => false end.
