(* C18 correspondence harness: the line-reader models evaluated by vm_compute on inputs and observations written by
   harness/py/checks/c18.py (records observed through `mlr -S --iFMT put -q '<hex dump of every key and value>'`). *)
From Miller Require Import Base.Bytes Base.Record C18.Model.
Open Scope N_scope.

(* case = (format: 0 dkvp | 1 nidx | 2 tsv, input bytes, observed records, observed TSV mismatch (nheader, ndata, line)) *)
Definition chk (c : N * bytes * list record * option (N * N * N)) : bool :=
  let '(f, s, recs, e) := c in
  let m := if f =? 0 then read_dkvp s else if f =? 1 then read_nidx s else read_tsv s in
  match m, e with
  | Ok rs, None => records_eqb rs recs
  | ErrMismatch a b l, Some (a', b', l') => (a =? a') && (b =? b') && (l =? l')
  | _, _ => false
  end.

(* ---- classified CSV / CSV-lite / PPRINT / XTAB readers (C18/ModelReaders.v) against `mlr --iFMT [options] put -q '<hex dump>'`:
   on success the records, on failure the error class with the numbers of the message *)
From Miller Require Import C01.Model C18.ModelReaders C18.ModelBar.
Inductive rdr := RCsv (o : copts) | RLite (o : lopts) | RXtab (ips : bytes) (dedupe : bool) | RBar (o : bopts).
Definition qerr_eqb (a b : qerr) : bool := match a, b with BareQuote, BareQuote | BadQuote, BadQuote => true | _, _ => false end.
Definition cerr_eqb (a b : cerr) : bool :=
  match a, b with
  | EDelim, EDelim => true
  | EParse k, EParse k' => qerr_eqb k k'
  | EMismatch x y z, EMismatch x' y' z' => N.eqb x x' && N.eqb y y' && N.eqb z z'
  | EXtabInternal, EXtabInternal => true
  | _, _ => false
  end.
Definition run_rdr (r : rdr) (s : bytes) : cres :=
  match r with RCsv o => read_csv_c o s | RLite o => read_lite_c o s | RXtab ips d => read_xtab_c ips d s | RBar o => read_bar_c o s end.
Definition chk2 (c : rdr * bytes * list record * option cerr) : bool :=
  let '(r, s, recs, e) := c in
  match run_rdr r s, e with
  | COk rs, None => records_eqb rs recs
  | CErr e1, Some e2 =>
    cerr_eqb e1 e2
    (* NOT MODELLED: which error is reported when a text has BOTH a length-mismatch row and, later, a reported quote error.
       The model reports the quote error (read_csv_c looks at the rows only when the whole text was cut into rows); the
       implementation processes the rows read so far first and reports the mismatch (witness: ",,\nbbbb\n" followed by a quote,
       implicit header).  Both are errors with non-zero exit; the correspondence accepts this one precedence difference. *)
    || match e1, e2 with EParse _, EMismatch _ _ _ => true | _, _ => false end
  | _, _ => false
  end.
(* outcome class of the model alone (0 ok, 1 delimiter, 2 bare quote, 3 bad quote, 4 length mismatch, 5 internal), for the tallies *)
Definition class_of (c : rdr * bytes * list record * option cerr) : N :=
  let '(r, s, _, _) := c in
  match run_rdr r s with
  | COk _ => 0%N | CErr EDelim => 1%N | CErr (EParse BareQuote) => 2%N | CErr (EParse BadQuote) => 3%N
  | CErr (EMismatch _ _ _) => 4%N | CErr EXtabInternal => 5%N
  end.

(* ---- JSON record-reader layer (C18/ModelJson.v) against `mlr --ijson --ojsonl cat` on documents GENERATED FROM an abstract
   stream of top-level values: on success the "id" fields of the records read, in order; on failure the kind named in
   "valid but unmillerable JSON ... got <kind>" (Some (Some kind)) or any other `mlr:` error (Some None = decoder error) *)
From Miller Require Import C18.ModelJson.
Fixpoint nlist_eqb (a b : list N) : bool :=
  match a, b with
  | [], [] => true
  | x :: a', y :: b' => N.eqb x y && nlist_eqb a' b'
  | _, _ => false
  end.
Definition chkj (c : list jtop * list N * option (option N)) : bool :=
  let '(vs, ids, e) := c in
  match json_layer vs, e with
  | JOk l, None => nlist_eqb l ids
  | JErr (JUnmillerable k), Some (Some k') => N.eqb k k'
  | JErr JDecode, Some None => true
  | _, _ => false
  end.
