(* C18 correspondence harness: the line-reader models evaluated by vm_compute on inputs and observations written by
   harness/py/checks/c18.py (records observed through `mlr -S --iFMT put -q '<hex dump of every key and value>'`). *)
From Miller Require Import Base.Bytes Base.Record C18.Model.
Open Scope N_scope.

(* case = (format: 0 dkvp | 1 nidx | 2 tsv, input bytes, observed records, observed TSV mismatch (nheader, ndata, line)) *)
Definition chk (c : N * bytes * list record * option (N * N * N)) : bool :=
  let '(f, s, recs, e) := c in
  let m := if f =? 0 then read_dkvp s else if f =? 1 then read_nidx s else read_tsv s in
  match m, e with
  | Ok rs, None => records_eqb rs recs
  | ErrMismatch a b l, Some (a', b', l') => (a =? a') && (b =? b') && (l =? l')
  | _, _ => false
  end.
