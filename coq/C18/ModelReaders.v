(* C18 part 2b: TOTAL CLASSIFIED models of the CSV, CSV-lite, PPRINT and XTAB readers (definitions only).
   The building blocks that do not concern errors are imported from coq/C01 (lines_of, field_split, attach, put_deferred,
   positional_keys, strip_bom, void_map, xtab_split, xtab_stanzas); what is new here is what C18 needs and C01 does not
   have: every way in which the Go readers REPORT AN ERROR, with the class and the numbers of the message, and -- for CSV --
   what the code does after a quote error that it does NOT report (pkg/input/record_reader_csv.go channelizedCSVRecordScanner:
   a *csv.ParseError that comes with a non-nil partial record is dropped and the partial record is used; the rest of that
   physical line is lost; reading resumes at the next line).

   Go code transliterated:
     pkg/go-csv/csv_reader.go      readLine (CR LF -> LF at the end of every line; a CR that ends an unterminated last line is
                                   dropped, and if that CR was the whole line an EMPTY line remains), readRecord (field loop,
                                   ErrBareQuote, ErrQuote, LazyQuotes, abrupt end of file inside quotes; dst == nil iff no field
                                   was completed), validDelim
     pkg/input/record_reader_csv.go channelizedCSVRecordScanner, getRecordBatch (explicit / implicit header, ragged,
                                   SkipTrivialRecords, "CSV header/data length mismatch %d != %d at filename %s row %d")
     pkg/input/record_reader_csvlite.go getRecordBatchExplicitCSVHeader (schema blocks separated by empty lines,
                                   "... length mismatch %d != %d at filename %s line %d"), shared by the PPRINT reader
     pkg/input/record_reader_xtab.go channelizedStanzaScanner, recordFromXTABLines, tXTABIPSSplitter.Split *)
From Miller Require Import Base.Bytes Base.Record C01.Model C01.ModelXtab C01.ModelLite.
Open Scope char_scope.

Inductive qerr := BareQuote | BadQuote.        (* csv.ErrBareQuote | csv.ErrQuote *)
Inductive cerr :=
| EDelim                                       (* "csv: invalid field or comment delimiter" *)
| EParse (k : qerr)                            (* "mlr: mlr: CSV parse error ...: bare " in non-quoted-field" / "extraneous or missing " in quoted-field" *)
| EMismatch (nh nd where_ : N)                 (* "mlr: mlr: CSV header/data length mismatch nh != nd at filename F row|line where_" *)
| EXtabInternal.                               (* "internal coding error in XTAB reader": proved unreachable *)
Inductive cres := COk (rs : list record) | CErr (e : cerr).

(* ------------------------------------------------------------------------------------------ CSV: readLine *)
(* the normalised byte stream (every line keeps its LF), and "the last line is an empty line that came from a lone CR" *)
Fixpoint norm_go (s : bytes) (at_line_start : bool) : bytes * bool :=
  match s with
  | [] => ([], false)
  | c :: t =>
    if eqc c CR then
      match t with
      | [] => ([], at_line_start)
      | d :: t' =>
        if eqc d LF then let '(r, b) := norm_go t' true in (LF :: r, b)
        else let '(r, b) := norm_go t false in (c :: r, b)
      end
    else let '(r, b) := norm_go t (eqc c LF) in (c :: r, b)
  end.
Definition normalise (s : bytes) : bytes * bool := norm_go s true.

(* ------------------------------------------------------------------------------------------ CSV: readRecord + scanner *)
(* SKIP: a quote error was dropped together with its partial record; the rest of the physical line is being discarded *)
Inductive cst := SOR | SOF | UQ | QT | QQ | SKIP.
Record mst := mkM { m_st : cst; m_acc : bytes; m_fields : list bytes; m_rows : list (list bytes) }.
Inductive sres := Next (m : mst) | Fail (k : qerr).

Definition m_set (st : cst) (m : mst) : mst := mkM st (m_acc m) (m_fields m) (m_rows m).
Definition m_push (c : ascii) (st : cst) (m : mst) : mst := mkM st (c :: m_acc m) (m_fields m) (m_rows m).
Definition m_end_field (m : mst) : mst := mkM SOF [] (rev (m_acc m) :: m_fields m) (m_rows m).
Definition m_end_row (m : mst) : mst := mkM SOR [] [] (rev (rev (m_acc m) :: m_fields m) :: m_rows m).
(* a ParseError: reported iff no field of the record was completed (readRecord returns dst == nil), otherwise the
   completed fields become a record and the line's remainder is skipped *)
Definition m_error (k : qerr) (m : mst) : sres :=
  match m_fields m with
  | [] => Fail k
  | fs => Next (mkM SKIP [] [] (rev fs :: m_rows m))
  end.

Definition step_unq (lazy : bool) (comma : ascii) (m : mst) (c : ascii) : sres :=
  if eqc c comma then Next (m_end_field m)
  else if eqc c LF then Next (m_end_row m)
  else if eqc c DQ then (if lazy then Next (m_push c UQ m) else m_error BareQuote m)
  else Next (m_push c UQ m).
Definition step (lazy : bool) (comma : ascii) (m : mst) (c : ascii) : sres :=
  match m_st m with
  | SOR | SOF => if eqc c DQ then Next (mkM QT [] (m_fields m) (m_rows m)) else step_unq lazy comma m c
  | UQ => step_unq lazy comma m c
  | QT => if eqc c DQ then Next (m_set QQ m) else Next (m_push c QT m)
  | QQ =>
    if eqc c DQ then Next (m_push DQ QT m)
    else if eqc c comma then Next (m_end_field m)
    else if eqc c LF then Next (m_end_row m)
    else if lazy then Next (m_push c QT (m_push DQ QT m))
    else m_error BadQuote m
  | SKIP => if eqc c LF then Next (m_set SOR m) else Next m
  end.

Inductive rows_res := RowsOk (rows : list (list bytes)) | RowsFail (k : qerr).
Definition rows_of_sres (r : sres) : rows_res :=
  match r with Next m => RowsOk (rev (m_rows m)) | Fail k => RowsFail k end.
(* end of input; [tail_empty]: one more, empty, line follows (see normalise) *)
Definition finish (lazy tail_empty : bool) (m : mst) : rows_res :=
  match m_st m with
  | SOR => RowsOk (rev (if tail_empty then [[]] :: m_rows m else m_rows m))
  | SKIP => RowsOk (rev (m_rows m))
  | SOF | UQ | QQ => RowsOk (rev (m_rows (m_end_row m)))
  | QT => if lazy then RowsOk (rev (m_rows (m_end_row m))) else rows_of_sres (m_error BadQuote m)
  end.
Fixpoint run (lazy : bool) (comma : ascii) (tail_empty : bool) (m : mst) (s : bytes) : rows_res :=
  match s with
  | [] => finish lazy tail_empty m
  | c :: t => match step lazy comma m c with Next m' => run lazy comma tail_empty m' t | Fail k => RowsFail k end
  end.
Definition m0 : mst := mkM SOR [] [] [].
Definition csv_rows_c (lazy : bool) (comma : ascii) (s : bytes) : rows_res :=
  let '(t, tail_empty) := normalise s in run lazy comma tail_empty m0 t.

(* ------------------------------------------------------------------------------------------ CSV: getRecordBatch *)
Record copts := mkO { o_implicit : bool; o_lazy : bool; o_dedupe : bool; o_ragged : bool; o_skiptriv : bool; o_comma : ascii }.

(* csv_reader.go validDelim for a one-byte separator below 0x80 (bytes above are runes U+0080.. to the Go reader and are
   searched for as two-byte sequences: not modelled, and excluded from the correspondence) *)
Definition valid_comma (c : ascii) : bool :=
  negb (eqc c (ascii_of_N 0)) && negb (eqc c DQ) && negb (eqc c CR) && negb (eqc c LF).

Definition nlen {A} (l : list A) : N := N.of_nat (List.length l).
(* the row is acceptable under this header *)
Definition row_fits (ragged : bool) (hs fs : list bytes) : bool := Nat.eqb (List.length hs) (List.length fs) || ragged.
(* the row is neither acceptable nor skipped: THE malformed row *)
Definition row_bad (ragged skiptriv : bool) (hs fs : list bytes) : bool :=
  negb (row_fits ragged hs fs) && negb (skiptriv && forallb is_nil fs).

Fixpoint data_rows (dedupe ragged skiptriv : bool) (hs : list bytes) (rownum : N) (rows : list (list bytes)) : cres :=
  match rows with
  | [] => COk []
  | fs :: t =>
    if row_fits ragged hs fs then
      match data_rows dedupe ragged skiptriv hs (rownum + 1) t with
      | COk rs => COk (attach dedupe false 0 hs fs [] :: rs)
      | e => e
      end
    else if skiptriv && forallb is_nil fs then data_rows dedupe ragged skiptriv hs (rownum + 1) t
    else CErr (EMismatch (nlen hs) (nlen fs) rownum)
  end.

(* the header and the data rows, and the number of the first data row *)
Definition csv_header_data (implicit : bool) (rows : list (list bytes)) : option (list bytes * N * list (list bytes)) :=
  match rows with
  | [] => None
  | r0 :: t => if implicit then Some (positional_keys (List.length r0), 1%N, rows) else Some (r0, 2%N, t)
  end.

Definition read_csv_c (o : copts) (s : bytes) : cres :=
  if negb (valid_comma (o_comma o)) then CErr EDelim
  else
    match csv_rows_c (o_lazy o) (o_comma o) (strip_bom s) with
    | RowsFail k => CErr (EParse k)
    | RowsOk rows =>
      match csv_header_data (o_implicit o) rows with
      | None => COk []
      | Some (hs, n0, data) => data_rows (o_dedupe o) (o_ragged o) (o_skiptriv o) hs n0 data
      end
    end.

(* ------------------------------------------------------------------------------------------ CSV-lite and PPRINT *)
Record lopts := mkL { l_ifs : bytes; l_repifs : bool; l_void : option bytes; l_dedupe : bool; l_ragged : bool }.

Definition lite_fields (o : lopts) (hs fs : list bytes) : list bytes :=
  map (void_map (l_void o)) (firstn (List.length hs) fs) ++ skipn (List.length hs) fs.

Fixpoint lite_go_c (o : lopts) (hdr : option (list bytes)) (line : N) (ls : list bytes) : cres :=
  match ls with
  | [] => COk []
  | l :: t =>
    if is_nil l then lite_go_c o None (line + 1) t
    else
      let fs := field_split (l_ifs o) (l_repifs o) l in
      match hdr with
      | None => lite_go_c o (Some fs) (line + 1) t
      | Some hs =>
        if row_fits (l_ragged o) hs fs then
          match lite_go_c o (Some hs) (line + 1) t with
          | COk rs => COk (attach (l_dedupe o) true 0 hs (lite_fields o hs fs) [] :: rs)
          | e => e
          end
        else CErr (EMismatch (nlen hs) (nlen fs) line)
      end
  end.
Definition read_lite_c (o : lopts) (s : bytes) : cres := lite_go_c o None 1 (strip_bom_first (lines_of s)).
Definition csvlite_opts (ifs : bytes) (dedupe ragged : bool) : lopts := mkL ifs false None dedupe ragged.
Definition pprint_opts (dedupe ragged : bool) : lopts := mkL [SP] true (Some ["-"]) dedupe ragged.

(* the malformed class of CSV-lite, stated on the text: cut the lines into schema blocks at the empty lines; a block is bad
   when one of its data lines has a field count different from the block's first line *)
Fixpoint blocks_go (cur : list bytes) (ls : list bytes) : list (list bytes) :=
  match ls with
  | [] => [rev cur]
  | l :: t => if is_nil l then rev cur :: blocks_go [] t else blocks_go (l :: cur) t
  end.
Definition blocks (ls : list bytes) : list (list bytes) := blocks_go [] ls.
Definition block_bad (o : lopts) (b : list bytes) : bool :=
  match b with
  | [] => false
  | h :: data =>
    existsb (fun l => negb (Nat.eqb (List.length (field_split (l_ifs o) (l_repifs o) h))
                                    (List.length (field_split (l_ifs o) (l_repifs o) l)))) data
  end.
Definition lite_malformed (o : lopts) (s : bytes) : bool :=
  negb (l_ragged o) && existsb (block_bad o) (blocks (strip_bom_first (lines_of s))).

(* ------------------------------------------------------------------------------------------ XTAB *)
Fixpoint xtab_record_c (ips : bytes) (dedupe : bool) (ls : list bytes) (r : record) : option record :=
  match ls with
  | [] => Some r
  | l :: t => match xtab_split ips l with
              | None => None
              | Some (k, v) => xtab_record_c ips dedupe t (put_deferred dedupe k v r)
              end
  end.
Fixpoint xtab_all (ips : bytes) (dedupe : bool) (sts : list (list bytes)) : cres :=
  match sts with
  | [] => COk []
  | st :: t =>
    match xtab_record_c ips dedupe st [] with
    | None => CErr EXtabInternal
    | Some r => match xtab_all ips dedupe t with COk rs => COk (r :: rs) | e => e end
    end
  end.
Definition read_xtab_c (ips : bytes) (dedupe : bool) (s : bytes) : cres :=
  xtab_all ips dedupe (xtab_stanzas (lines_of s) []).

(* ------------------------------------------------------------------------------------------ no index out of range *)
(* getRecordBatch indexes header[i] and csvRecord[i] in counted loops; the same loops with nth_error, [None] standing for
   Go's "index out of range" panic.  Proofs: the guards of the code (nh == nd, or i < min(nh, nd), or nh <= i < nd) make
   every access succeed, and the result is the record of [attach]. *)
Fixpoint put_range (dedupe : bool) (hs fs : list bytes) (i n : nat) (r : record) : option record :=
  match n with
  | O => Some r
  | S n' =>
    match nth_error hs i, nth_error fs i with
    | Some k, Some v => put_range dedupe hs fs (S i) n' (put_deferred dedupe k v r)
    | _, _ => None
    end
  end.
Fixpoint put_extra (dedupe : bool) (fs : list bytes) (i n : nat) (r : record) : option record :=
  match n with
  | O => Some r
  | S n' =>
    match nth_error fs i with
    | Some v => put_extra dedupe fs (S i) n' (put_deferred dedupe (itoa (S i)) v r)
    | None => None
    end
  end.
Fixpoint put_fill (dedupe : bool) (hs : list bytes) (i n : nat) (r : record) : option record :=
  match n with
  | O => Some r
  | S n' =>
    match nth_error hs i with
    | Some k => put_fill dedupe hs (S i) n' (put_deferred dedupe k [] r)
    | None => None
    end
  end.
(* the body of the loop over one CSV / CSV-lite row, as written in the Go code ([fill]: CSV-lite pads, CSV does not) *)
Definition row_indexed (dedupe fill : bool) (hs fs : list bytes) : option record :=
  let nh := List.length hs in let nd := List.length fs in
  if Nat.eqb nh nd then put_range dedupe hs fs 0 nh []
  else
    match put_range dedupe hs fs 0 (Nat.min nh nd) [] with
    | None => None
    | Some r =>
      if Nat.ltb nh nd then put_extra dedupe fs nh (nd - nh) r
      else if fill then put_fill dedupe hs nd (nh - nd) r else Some r
    end.
