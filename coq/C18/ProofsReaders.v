(* C18 part 2b: proofs about the classified CSV / CSV-lite / PPRINT / XTAB reader models. *)
From Miller Require Import Base.Bytes Base.Record C01.Model C01.ModelXtab C01.ModelLite C18.ModelReaders.
Open Scope char_scope.

Local Lemma eqc_true a b : eqc a b = true -> a = b.
Proof. unfold eqc. intros H. now apply Ascii.eqb_eq. Qed.

(* ------------------------------------------------------------------------------------------ header/data phase *)
(* first bad row: everything before it fits or is skipped *)
Definition row_passes (ragged skiptriv : bool) (hs fs : list bytes) : bool := negb (row_bad ragged skiptriv hs fs).

Lemma row_bad_cases rg st hs fs :
  row_bad rg st hs fs = if row_fits rg hs fs then false else if st && forallb is_nil fs then false else true.
Proof. unfold row_bad. destruct (row_fits rg hs fs), (st && forallb is_nil fs); reflexivity. Qed.

Lemma data_rows_ok_iff d rg st hs : forall rows n,
  (exists rs, data_rows d rg st hs n rows = COk rs) <-> existsb (row_bad rg st hs) rows = false.
Proof.
  induction rows as [|fs t IH]; intros n; cbn [data_rows existsb].
  - split; [reflexivity|]. intros _. now exists [].
  - rewrite row_bad_cases. destruct (row_fits rg hs fs) eqn:Hf.
    + cbn [orb]. rewrite <- (IH (n + 1)%N). split.
      * intros [rs H]. destruct (data_rows d rg st hs (n + 1) t) as [rs'|e]; [now exists rs'|discriminate].
      * intros [rs H]. rewrite H. eauto.
    + destruct (st && forallb is_nil fs) eqn:Hs.
      * cbn [orb]. apply IH.
      * cbn [orb]. split; [intros [rs H]; discriminate|discriminate].
Qed.

(* the error names the header size, the row's size and the number of the FIRST bad row *)
Lemma data_rows_err_position d rg st hs : forall rows n e,
  data_rows d rg st hs n rows = CErr e ->
  exists pre bad post, rows = pre ++ bad :: post
    /\ forallb (row_passes rg st hs) pre = true /\ row_bad rg st hs bad = true
    /\ e = EMismatch (nlen hs) (nlen bad) (n + N.of_nat (List.length pre)).
Proof.
  induction rows as [|fs t IH]; intros n e H; cbn [data_rows] in H; [discriminate|].
  destruct (row_fits rg hs fs) eqn:Hf.
  - destruct (data_rows d rg st hs (n + 1) t) as [rs'|e'] eqn:Ht; [discriminate|].
    injection H as <-. destruct (IH _ _ Ht) as (pre & bad & post & -> & Hp & Hb & ->).
    exists (fs :: pre), bad, post. repeat split; try assumption.
    + cbn [forallb]. rewrite Hp. unfold row_passes. rewrite row_bad_cases, Hf. reflexivity.
    + f_equal. cbn [List.length]. lia.
  - destruct (st && forallb is_nil fs) eqn:Hs.
    + destruct (IH _ _ H) as (pre & bad & post & -> & Hp & Hb & ->).
      exists (fs :: pre), bad, post. repeat split; try assumption.
      * cbn [forallb]. rewrite Hp. unfold row_passes. rewrite row_bad_cases, Hf, Hs. reflexivity.
      * f_equal. cbn [List.length]. lia.
    + injection H as <-. exists [], fs, t. repeat split.
      * rewrite row_bad_cases, Hf, Hs. reflexivity.
      * f_equal. cbn [List.length]. lia.
Qed.

Lemma data_rows_err_iff d rg st hs rows n :
  (exists e, data_rows d rg st hs n rows = CErr e) <-> existsb (row_bad rg st hs) rows = true.
Proof.
  pose proof (data_rows_ok_iff d rg st hs rows n) as H. revert H.
  destruct (data_rows d rg st hs n rows) as [rs|e]; intros [H1 H2].
  - rewrite (H1 (ex_intro _ rs eq_refl)). split; [intros [e He]; discriminate|discriminate].
  - split; [|eauto]. intros _. destruct (existsb (row_bad rg st hs) rows); [reflexivity|].
    destruct (H2 eq_refl) as [rs Hrs]. discriminate.
Qed.

(* one record per row that is not skipped *)
Lemma data_rows_length d rg st hs : forall rows n rs,
  data_rows d rg st hs n rows = COk rs ->
  List.length rs = List.length (filter (row_fits rg hs) rows).
Proof.
  induction rows as [|fs t IH]; intros n rs H; cbn [data_rows filter] in *.
  - now injection H as <-.
  - destruct (row_fits rg hs fs) eqn:Hf.
    + destruct (data_rows d rg st hs (n + 1) t) as [rs'|e] eqn:Ht; [|discriminate].
      injection H as <-. cbn [List.length]. f_equal. eapply IH; eassumption.
    + destruct (st && forallb is_nil fs); [|discriminate]. eapply IH; eassumption.
Qed.

(* ------------------------------------------------------------------------------------------ CSV top level *)
(* the malformed classes of the CSV reader, in the order in which they win *)
Definition csv_delim_malformed (o : copts) : bool := negb (valid_comma (o_comma o)).
Definition csv_quote_malformed (o : copts) (s : bytes) : option qerr :=
  match csv_rows_c (o_lazy o) (o_comma o) (strip_bom s) with RowsFail k => Some k | RowsOk _ => None end.
Definition csv_rows_or_nil (o : copts) (s : bytes) : list (list bytes) :=
  match csv_rows_c (o_lazy o) (o_comma o) (strip_bom s) with RowsOk rows => rows | RowsFail _ => [] end.
(* some data row has a field count different from the header's, ragged mode is off and the row is not a trivial row
   skipped on behalf of the skip-trivial-records verb *)
Definition csv_length_malformed (o : copts) (s : bytes) : bool :=
  match csv_header_data (o_implicit o) (csv_rows_or_nil o s) with
  | None => false
  | Some (hs, _, data) => existsb (row_bad (o_ragged o) (o_skiptriv o) hs) data
  end.

Lemma read_csv_delim o s : read_csv_c o s = CErr EDelim <-> csv_delim_malformed o = true.
Proof.
  unfold read_csv_c, csv_delim_malformed. destruct (negb (valid_comma (o_comma o))); [tauto|].
  split; [|discriminate]. intros H.
  destruct (csv_rows_c (o_lazy o) (o_comma o) (strip_bom s)) as [rows|k]; [|discriminate].
  destruct (csv_header_data (o_implicit o) rows) as [[[hs n0] data]|]; [|discriminate].
  destruct (data_rows_err_position _ _ _ _ _ _ _ H) as (? & ? & ? & _ & _ & _ & ?). discriminate.
Qed.

Lemma read_csv_parse o s k :
  read_csv_c o s = CErr (EParse k) <-> csv_delim_malformed o = false /\ csv_quote_malformed o s = Some k.
Proof.
  unfold read_csv_c, csv_delim_malformed, csv_quote_malformed.
  destruct (negb (valid_comma (o_comma o))); [split; [discriminate|intros [? _]; discriminate]|].
  destruct (csv_rows_c (o_lazy o) (o_comma o) (strip_bom s)) as [rows|k'].
  - split; [|intros [_ ?]; discriminate]. intros H.
    destruct (csv_header_data (o_implicit o) rows) as [[[hs n0] data]|]; [|discriminate].
    destruct (data_rows_err_position _ _ _ _ _ _ _ H) as (? & ? & ? & _ & _ & _ & ?). discriminate.
  - split; [intros H; injection H as <-; auto|intros [_ H]; injection H as <-; reflexivity].
Qed.

Lemma read_csv_mismatch o s :
  (exists a b r, read_csv_c o s = CErr (EMismatch a b r))
  <-> csv_delim_malformed o = false /\ csv_quote_malformed o s = None /\ csv_length_malformed o s = true.
Proof.
  unfold read_csv_c, csv_delim_malformed, csv_quote_malformed, csv_length_malformed, csv_rows_or_nil.
  destruct (negb (valid_comma (o_comma o))).
  { split; [intros (a & b & r & H); discriminate|intros [? _]; discriminate]. }
  destruct (csv_rows_c (o_lazy o) (o_comma o) (strip_bom s)) as [rows|k'].
  2:{ split; [intros (a & b & r & H); discriminate|intros (_ & ? & _); discriminate]. }
  destruct (csv_header_data (o_implicit o) rows) as [[[hs n0] data]|].
  2:{ split; [intros (a & b & r & H); discriminate|intros (_ & _ & ?); discriminate]. }
  rewrite <- (data_rows_err_iff (o_dedupe o) (o_ragged o) (o_skiptriv o) hs data n0). split.
  - intros (a & b & r & H). repeat split; eauto.
  - intros (_ & _ & [e H]). destruct (data_rows_err_position _ _ _ _ _ _ _ H) as (? & bad & ? & _ & _ & _ & ->). eauto.
Qed.

Lemma read_csv_ok o s :
  (exists rs, read_csv_c o s = COk rs)
  <-> csv_delim_malformed o = false /\ csv_quote_malformed o s = None /\ csv_length_malformed o s = false.
Proof.
  unfold read_csv_c, csv_delim_malformed, csv_quote_malformed, csv_length_malformed, csv_rows_or_nil.
  destruct (negb (valid_comma (o_comma o))).
  { split; [intros [rs H]; discriminate|intros [? _]; discriminate]. }
  destruct (csv_rows_c (o_lazy o) (o_comma o) (strip_bom s)) as [rows|k'].
  2:{ split; [intros [rs H]; discriminate|intros (_ & ? & _); discriminate]. }
  destruct (csv_header_data (o_implicit o) rows) as [[[hs n0] data]|].
  2:{ split; [auto|intros _; now exists []]. }
  rewrite <- (data_rows_ok_iff (o_dedupe o) (o_ragged o) (o_skiptriv o) hs data n0). tauto.
Qed.

Lemma read_csv_mismatch_position o s a b r :
  read_csv_c o s = CErr (EMismatch a b r) ->
  exists hs n0 pre bad post,
    csv_header_data (o_implicit o) (csv_rows_or_nil o s) = Some (hs, n0, pre ++ bad :: post)
    /\ forallb (row_passes (o_ragged o) (o_skiptriv o) hs) pre = true
    /\ row_bad (o_ragged o) (o_skiptriv o) hs bad = true
    /\ a = nlen hs /\ b = nlen bad /\ r = (n0 + N.of_nat (List.length pre))%N.
Proof.
  unfold read_csv_c, csv_rows_or_nil. destruct (negb (valid_comma (o_comma o))); [discriminate|].
  destruct (csv_rows_c (o_lazy o) (o_comma o) (strip_bom s)) as [rows|k']; [|discriminate].
  destruct (csv_header_data (o_implicit o) rows) as [[[hs n0] data]|]; [|discriminate].
  intros H. destruct (data_rows_err_position _ _ _ _ _ _ _ H) as (pre & bad & post & -> & Hp & Hb & He).
  injection He as -> -> ->. exists hs, n0, pre, bad, post. repeat split; assumption.
Qed.

(* ------------------------------------------------------------------------------------------ the quote machine *)
(* lazy quotes: no byte string is rejected *)
Lemma step_lazy comma m c : exists m', step true comma m c = Next m'.
Proof.
  unfold step, step_unq. destruct (m_st m); repeat (match goal with |- context [if ?b then _ else _] => destruct b end); eauto.
Qed.
Lemma run_lazy comma te : forall s m, exists rows, run true comma te m s = RowsOk rows.
Proof.
  induction s as [|c t IH]; intros m; cbn [run].
  - unfold finish. destruct (m_st m); destruct te; eauto.
  - destruct (step_lazy comma m c) as [m' ->]. apply IH.
Qed.
Lemma csv_rows_lazy comma s : exists rows, csv_rows_c true comma s = RowsOk rows.
Proof. unfold csv_rows_c. destruct (normalise s) as [t te]. apply run_lazy. Qed.

(* a text without a double quote is never rejected: the machine never enters a quoted state *)
Definition unq_state (st : cst) : bool := match st with SOR | SOF | UQ | SKIP => true | QT | QQ => false end.
Lemma nochar_cons c x t : nochar c (x :: t) = negb (eqc x c) && nochar c t.
Proof. reflexivity. Qed.
Lemma norm_go_nodq_n : forall n s b, List.length s <= n -> nochar DQ s = true -> nochar DQ (fst (norm_go s b)) = true.
Proof.
  induction n as [|n IH]; intros [|c t] b Hn H; try reflexivity; [cbn [List.length] in Hn; lia|].
  cbn [List.length] in Hn.
  rewrite nochar_cons in H. apply andb_true_iff in H as [Hc Ht].
  cbn [norm_go]. destruct (eqc c CR) eqn:Ec.
  - destruct t as [|d t']; [reflexivity|].
    pose proof Ht as Ht2. rewrite nochar_cons in Ht. apply andb_true_iff in Ht as [Hd Ht'].
    cbn [List.length] in Hn.
    destruct (eqc d LF) eqn:Ed.
    + assert (Hl : List.length t' <= n) by lia.
      specialize (IH t' true Hl Ht'). destruct (norm_go t' true) as [r b']. cbn [fst] in *.
      rewrite nochar_cons, IH. reflexivity.
    + assert (Hl : List.length (d :: t') <= n) by (cbn [List.length]; lia).
      specialize (IH (d :: t') false Hl Ht2). destruct (norm_go (d :: t') false) as [r b']. cbn [fst] in *.
      rewrite nochar_cons, Hc, IH. reflexivity.
  - assert (Hl : List.length t <= n) by lia.
    specialize (IH t (eqc c LF) Hl Ht). destruct (norm_go t (eqc c LF)) as [r b']. cbn [fst] in *.
    rewrite nochar_cons, Hc, IH. reflexivity.
Qed.
Lemma norm_go_nodq s b : nochar DQ s = true -> nochar DQ (fst (norm_go s b)) = true.
Proof. apply (norm_go_nodq_n (List.length s)). lia. Qed.
Lemma step_nodq lazy comma m c :
  unq_state (m_st m) = true -> eqc c DQ = false ->
  exists m', step lazy comma m c = Next m' /\ unq_state (m_st m') = true.
Proof.
  intros Hs Hc. unfold step, step_unq. destruct (m_st m) eqn:Est; try discriminate; rewrite ?Hc;
    repeat (match goal with |- context [if ?b then _ else _] => destruct b end);
    eexists; (split; [reflexivity|cbn; rewrite ?Est; reflexivity]).
Qed.
Lemma run_nodq lazy comma te : forall s m,
  nochar DQ s = true -> unq_state (m_st m) = true -> exists rows, run lazy comma te m s = RowsOk rows.
Proof.
  induction s as [|c t IH]; intros m Hs Hm; cbn [run].
  - unfold finish. destruct (m_st m); try discriminate; destruct te; eauto.
  - unfold nochar in Hs. cbn [forallb] in Hs. apply andb_true_iff in Hs as [Hc Ht]. apply negb_true_iff in Hc.
    destruct (step_nodq lazy comma m c Hm Hc) as (m' & -> & Hm'). now apply IH.
Qed.
Lemma csv_rows_nodq lazy comma s : nochar DQ s = true -> exists rows, csv_rows_c lazy comma s = RowsOk rows.
Proof.
  intros H. unfold csv_rows_c, normalise. pose proof (norm_go_nodq s true H) as Hn.
  destruct (norm_go s true) as [t te]. cbn [fst] in Hn. now apply run_nodq.
Qed.

(* a reported quote error: the record in which it occurs has no completed field (the Go reader's dst == nil) --
   stated on the machine: Fail is only produced by m_error on an empty field list *)
Lemma m_error_fail k m k' : m_error k m = Fail k' -> k' = k /\ m_fields m = [].
Proof. unfold m_error. destruct (m_fields m); [intros H; injection H as <-; auto|discriminate]. Qed.

(* ------------------------------------------------------------------------------------------ CSV-lite / PPRINT *)
Definition nf (o : lopts) (l : bytes) : nat := List.length (field_split (l_ifs o) (l_repifs o) l).

(* state of the reader loop as a partially read block: [hdr] = the fields of the current block's first line *)
Definition cur_bad (o : lopts) (hdr : option (list bytes)) (ls : list bytes) : bool :=
  match blocks ls with
  | [] => false
  | b0 :: bs =>
    (match hdr with
     | Some hs => existsb (fun l => negb (Nat.eqb (List.length hs) (nf o l))) b0
     | None => block_bad o b0
     end) || existsb (block_bad o) bs
  end.

Lemma blocks_go_cons cur ls : exists b0 bs, blocks_go cur ls = b0 :: bs.
Proof. revert cur; induction ls as [|l t IH]; intros cur; cbn [blocks_go]; [eauto|]. destruct (is_nil l); eauto. Qed.

Lemma blocks_go_rev_app cur ls :
  blocks_go cur ls = match blocks_go [] ls with b0 :: bs => (rev cur ++ b0) :: bs | [] => [] end.
Proof.
  revert cur; induction ls as [|l t IH]; intros cur; cbn [blocks_go].
  - cbn [rev]. now rewrite app_nil_r.
  - destruct (is_nil l).
    + cbn [rev]. now rewrite app_nil_r.
    + rewrite (IH (l :: cur)), (IH [l]). destruct (blocks_go [] t) as [|b0 bs]; [reflexivity|].
      cbn [rev app]. now rewrite <- app_assoc.
Qed.

Lemma blocks_nonempty_line (l : bytes) (t : list bytes) : is_nil l = false ->
  blocks (l :: t) = match blocks t with b0 :: bs => (l :: b0) :: bs | [] => [] end.
Proof.
  intros H. unfold blocks. cbn [blocks_go]. rewrite H, blocks_go_rev_app. reflexivity.
Qed.
Lemma blocks_empty_line (l : bytes) (t : list bytes) : is_nil l = true -> blocks (l :: t) = [] :: blocks t.
Proof. intros H. unfold blocks. cbn [blocks_go]. now rewrite H. Qed.


Lemma cur_bad_none o t : cur_bad o None t = existsb (block_bad o) (blocks t).
Proof. unfold cur_bad. destruct (blocks t); reflexivity. Qed.
Lemma cur_bad_empty o hdr (l : bytes) (t : list bytes) : is_nil l = true -> cur_bad o hdr (l :: t) = existsb (block_bad o) (blocks t).
Proof. intros H. unfold cur_bad. rewrite (blocks_empty_line l t H). destruct hdr; reflexivity. Qed.
Lemma cur_bad_some_cons o hs (l : bytes) (t : list bytes) : is_nil l = false ->
  cur_bad o (Some hs) (l :: t) = negb (Nat.eqb (List.length hs) (nf o l)) || cur_bad o (Some hs) t.
Proof.
  intros H. unfold cur_bad. rewrite (blocks_nonempty_line l t H).
  destruct (blocks_go_cons [] t) as (b0 & bs & Hb). unfold blocks in *. rewrite Hb. cbn [existsb]. now rewrite orb_assoc.
Qed.
Lemma cur_bad_none_cons o (l : bytes) (t : list bytes) : is_nil l = false ->
  cur_bad o None (l :: t) = cur_bad o (Some (field_split (l_ifs o) (l_repifs o) l)) t.
Proof.
  intros H. unfold cur_bad. rewrite (blocks_nonempty_line l t H).
  destruct (blocks_go_cons [] t) as (b0 & bs & Hb). unfold blocks in *. rewrite Hb. reflexivity.
Qed.

Lemma lite_go_err_iff o (Hrg : l_ragged o = false) : forall ls hdr line,
  (exists e, lite_go_c o hdr line ls = CErr e) <-> cur_bad o hdr ls = true.
Proof.
  induction ls as [|l t IH]; intros hdr line.
  - cbn [lite_go_c]. unfold cur_bad, blocks. cbn [blocks_go rev existsb].
    destruct hdr; cbn; split; try discriminate; intros [e H]; discriminate.
  - cbn [lite_go_c]. destruct (is_nil l) eqn:Hl.
    + rewrite (IH None (line + 1)%N), cur_bad_none, (cur_bad_empty o hdr l t Hl). reflexivity.
    + destruct hdr as [hs|].
      * rewrite (cur_bad_some_cons o hs l t Hl). unfold row_fits. rewrite Hrg, orb_false_r. fold (nf o l).
        destruct (Nat.eqb (List.length hs) (nf o l)) eqn:Hn; cbn [negb orb].
        -- rewrite <- (IH (Some hs) (line + 1)%N). split; intros [e H].
           ++ destruct (lite_go_c o (Some hs) (line + 1) t) as [rs|e'] eqn:E; [discriminate|eauto].
           ++ rewrite H. eauto.
        -- split; [reflexivity|]. intros _. eauto.
      * rewrite (cur_bad_none_cons o l t Hl). apply IH.
Qed.

Lemma lite_go_ragged_ok o (Hrg : l_ragged o = true) : forall ls hdr line e, lite_go_c o hdr line ls <> CErr e.
Proof.
  induction ls as [|l t IH]; intros hdr line e; cbn [lite_go_c]; [discriminate|].
  destruct (is_nil l); [apply IH|]. destruct hdr as [hs|]; [|apply IH].
  unfold row_fits. rewrite Hrg, orb_true_r.
  destruct (lite_go_c o (Some hs) (line + 1) t) as [rs|e'] eqn:E; [discriminate|].
  exfalso. exact (IH _ _ _ E).
Qed.

Lemma read_lite_err_iff o s : (exists e, read_lite_c o s = CErr e) <-> lite_malformed o s = true.
Proof.
  unfold read_lite_c, lite_malformed. destruct (l_ragged o) eqn:Hrg; cbn [negb andb].
  - split; [|discriminate]. intros [e H]. exfalso. exact (lite_go_ragged_ok o Hrg _ _ _ _ H).
  - rewrite (lite_go_err_iff o Hrg), cur_bad_none. reflexivity.
Qed.

(* the error is a length mismatch, with the sizes of the block's header and of the FIRST offending line and its number *)
Lemma lite_go_err_shape o : forall ls hdr line e,
  lite_go_c o hdr line ls = CErr e ->
  exists (hs : list bytes) pre bad post, ls = pre ++ bad :: post
    /\ e = EMismatch (nlen hs) (N.of_nat (nf o bad)) (line + N.of_nat (List.length pre))
    /\ is_nil bad = false /\ List.length hs <> nf o bad /\ l_ragged o = false.
Proof.
  induction ls as [|l t IH]; intros hdr line e H; cbn [lite_go_c] in H; [discriminate|].
  destruct (is_nil l) eqn:Hl.
  - destruct (IH _ _ _ H) as (hs & pre & bad & post & -> & -> & Hb & Hn & Hr).
    exists hs, (l :: pre), bad, post. repeat split; try assumption. f_equal. cbn [List.length]. lia.
  - destruct hdr as [hs|].
    + unfold row_fits in H. fold (nf o l) in H. destruct (Nat.eqb (List.length hs) (nf o l) || l_ragged o) eqn:Hf.
      * destruct (lite_go_c o (Some hs) (line + 1) t) as [rs|e'] eqn:E; [discriminate|]. injection H as <-.
        destruct (IH _ _ _ E) as (hs' & pre & bad & post & -> & -> & Hb & Hn & Hr).
        exists hs', (l :: pre), bad, post. repeat split; try assumption. f_equal. cbn [List.length]. lia.
      * injection H as <-. apply orb_false_iff in Hf as [Hf Hr]. apply Nat.eqb_neq in Hf.
        exists hs, [], l, t. repeat split; try assumption. unfold nlen, nf. f_equal. cbn [List.length]. lia.
    + destruct (IH _ _ _ H) as (hs & pre & bad & post & -> & -> & Hb & Hn & Hr).
      exists hs, (l :: pre), bad, post. repeat split; try assumption. f_equal. cbn [List.length]. lia.
Qed.

(* ------------------------------------------------------------------------------------------ XTAB: no malformed class *)
Lemma xtab_split_some ips l : is_nil l = false -> exists kv, xtab_split ips l = Some kv.
Proof.
  destruct l as [|c0 t]; [discriminate|]. intros _. unfold xtab_split.
  destruct (prefixb ips (c0 :: t)); [eauto|]. destruct (find_ips ips t [c0]) as [[k rest]|]; eauto.
Qed.

Lemma xtab_stanzas_nonempty : forall ls cur,
  forallb (fun l => negb (is_nil l)) cur = true ->
  forallb (forallb (fun l => negb (is_nil l))) (xtab_stanzas ls cur) = true.
Proof.
  induction ls as [|l t IH]; intros cur Hc; cbn [xtab_stanzas].
  - destruct cur as [|c0 cur']; [reflexivity|]. cbn [forallb]. rewrite andb_true_r.
    rewrite forallb_forall in *. intros x Hx. apply Hc. now apply in_rev.
  - destruct (is_nil l) eqn:Hl.
    + destruct cur as [|c0 cur']; [apply IH; reflexivity|].
      cbn [forallb]. apply andb_true_iff. split; [|apply IH; reflexivity].
      rewrite forallb_forall in *. intros x Hx. apply Hc. now apply in_rev.
    + apply IH. cbn [forallb]. now rewrite Hl, Hc.
Qed.

Lemma xtab_record_some ips d : forall ls r,
  forallb (fun l => negb (is_nil l)) ls = true -> exists r', xtab_record_c ips d ls r = Some r'.
Proof.
  induction ls as [|l t IH]; intros r H; cbn [xtab_record_c]; [eauto|].
  cbn [forallb] in H. apply andb_true_iff in H as [Hl Ht]. apply negb_true_iff in Hl.
  destruct (xtab_split_some ips l Hl) as [[k v] ->]. now apply IH.
Qed.

Lemma xtab_all_ok ips d : forall sts,
  forallb (forallb (fun l => negb (is_nil l))) sts = true ->
  exists rs, xtab_all ips d sts = COk rs /\ List.length rs = List.length sts.
Proof.
  induction sts as [|st t IH]; intros H; cbn [xtab_all]; [now exists []|].
  cbn [forallb] in H. apply andb_true_iff in H as [Hs Ht].
  destruct (xtab_record_some ips d st [] Hs) as [r ->]. destruct (IH Ht) as (rs & -> & Hlen).
  exists (r :: rs). split; [reflexivity|]. cbn [List.length]. now rewrite Hlen.
Qed.

Lemma read_xtab_total ips d s :
  exists rs, read_xtab_c ips d s = COk rs /\ List.length rs = List.length (xtab_stanzas (lines_of s) []).
Proof. unfold read_xtab_c. apply xtab_all_ok. now apply xtab_stanzas_nonempty. Qed.

(* ------------------------------------------------------------------------------------------ no index out of range *)
Definition put_pairs (d : bool) (kvs : list (bytes * bytes)) (r : record) : record :=
  fold_left (fun acc kv => put_deferred d (fst kv) (snd kv) acc) kvs r.

Lemma put_range_ok d : forall n hs fs ph pf r i,
  i = List.length ph -> i = List.length pf -> n <= List.length hs -> n <= List.length fs ->
  put_range d (ph ++ hs) (pf ++ fs) i n r
  = Some (put_pairs d (combine (firstn n hs) (firstn n fs)) r).
Proof.
  induction n as [|n IH]; intros hs fs ph pf r i Hi Hj Hh Hf; [reflexivity|].
  destruct hs as [|h hs]; [cbn [List.length] in Hh; lia|]. destruct fs as [|f fs]; [cbn [List.length] in Hf; lia|].
  cbn [put_range]. rewrite (nth_error_app2 ph) by lia. rewrite (nth_error_app2 pf) by lia.
  replace (i - List.length ph) with 0 by lia. replace (i - List.length pf) with 0 by lia.
  cbn [nth_error firstn combine]. unfold put_pairs. cbn [fold_left fst snd].
  cbn [List.length] in Hh, Hf.
  replace (ph ++ h :: hs) with ((ph ++ [h]) ++ hs) by now rewrite <- app_assoc.
  replace (pf ++ f :: fs) with ((pf ++ [f]) ++ fs) by now rewrite <- app_assoc.
  apply IH; try lia; rewrite app_length; cbn [List.length]; lia.
Qed.

Lemma put_extra_ok d : forall n fs pf r i,
  i = List.length pf -> n <= List.length fs -> exists r', put_extra d (pf ++ fs) i n r = Some r'.
Proof.
  induction n as [|n IH]; intros fs pf r i Hi Hf; [cbn; eauto|].
  destruct fs as [|f fs]; [cbn [List.length] in Hf; lia|].
  cbn [put_extra]. rewrite (nth_error_app2 pf) by lia. replace (i - List.length pf) with 0 by lia. cbn [nth_error].
  replace (pf ++ f :: fs) with ((pf ++ [f]) ++ fs) by now rewrite <- app_assoc.
  apply IH; [rewrite app_length; cbn [List.length]; lia|cbn [List.length] in Hf; lia].
Qed.

Lemma put_fill_ok d : forall n hs ph r i,
  i = List.length ph -> n <= List.length hs -> exists r', put_fill d (ph ++ hs) i n r = Some r'.
Proof.
  induction n as [|n IH]; intros hs ph r i Hi Hh; [cbn; eauto|].
  destruct hs as [|h hs]; [cbn [List.length] in Hh; lia|].
  cbn [put_fill]. rewrite (nth_error_app2 ph) by lia. replace (i - List.length ph) with 0 by lia. cbn [nth_error].
  replace (ph ++ h :: hs) with ((ph ++ [h]) ++ hs) by now rewrite <- app_assoc.
  apply IH; [rewrite app_length; cbn [List.length]; lia|cbn [List.length] in Hh; lia].
Qed.

(* every access of the row loop is in range, whatever the header and the row *)
Lemma row_indexed_total d fill hs fs : exists r, row_indexed d fill hs fs = Some r.
Proof.
  unfold row_indexed. destruct (Nat.eqb (List.length hs) (List.length fs)) eqn:He.
  - apply Nat.eqb_eq in He. pose proof (put_range_ok d (List.length hs) hs fs [] [] [] 0 eq_refl eq_refl) as X. cbn [app] in X. rewrite X by lia. eauto.
  - pose proof (put_range_ok d (Nat.min (List.length hs) (List.length fs)) hs fs [] [] [] 0 eq_refl eq_refl) as X. cbn [app] in X. rewrite X by lia. clear X.
    destruct (Nat.ltb (List.length hs) (List.length fs)) eqn:Hlt.
    + apply Nat.ltb_lt in Hlt.
      pose proof (put_extra_ok d (List.length fs - List.length hs) (skipn (List.length hs) fs) (firstn (List.length hs) fs)) as X.
      rewrite firstn_skipn in X. apply X; [rewrite firstn_length; lia|rewrite skipn_length; lia].
    + destruct fill; [|eauto]. apply Nat.ltb_ge in Hlt.
      pose proof (put_fill_ok d (List.length hs - List.length fs) (skipn (List.length fs) hs) (firstn (List.length fs) hs)) as X.
      rewrite firstn_skipn in X. apply X; [rewrite firstn_length; lia|rewrite skipn_length; lia].
Qed.
