(* C18: (function, outcome code) pairs of the built-in-function matrix that are recorded as PENDING FINDINGS
   (harness/py/checks/c18.findings.md).  Hand-maintained and committed; the regenerated outcome table must be fine
   everywhere outside this list (Props.C18_bif_no_panic_or_hang_partial), so a new panic/hang in any other function,
   or a new kind of failure in a listed one, breaks the theorem.  When a defect is repaired in /repo its lines are
   to be deleted here (stale lines only weaken the theorem; the check reports them in the evidence).
   Codes: P=80 panic, H=72 hang, R=82 Go runtime death, I=73 internal-coding-error exit, S=83 not evaluated after hangs. *)
From Miller Require Import Base.Bytes.
Open Scope N_scope.

Definition known_bad : list (bytes * N) := [
  (* integer division by zero in int-only paths (./, madd, msub, mmul, mexp): repaired in /repo by 94ff40520 and
     83ceb0713 while this check was being built; no longer excepted, so a regression breaks the theorem *)
  (* interpolated percentile index out of range / non-numeric p *)
  (B "percentile", 80); (B "percentiles", 80); (B "median", 80);
  (B "percentile", 73); (B "percentiles", 73); (B "median", 73);
  (* strptime: input shorter than a literal stretch of the format *)
  (B "strptime", 80); (B "strptime_local", 80); (B "strpntime", 80); (B "strpntime_local", 80);
  (* padding with an empty pad string loops for ever; huge target lengths exhaust memory *)
  (B "leftpad", 72); (B "leftpad", 82); (B "leftpad", 83); (B "rightpad", 72); (B "rightpad", 82); (B "rightpad", 83);
  (* absent / function values stored into collections: internal coding error exit *)
  (B "concat", 73); (B "append", 73); (B "fmtnum", 73); (B "fmtifnum", 73);
  (* statistics over collections with non-numeric elements: internal coding error exit *)
  (B "kurtosis", 73); (B "meaneb", 73); (B "skewness", 73); (B "stddev", 73); (B "variance", 73); (B "var", 73);
  (B "invqnorm", 73)
].
