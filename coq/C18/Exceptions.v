(* C18: (function, outcome code) pairs of the built-in-function matrix that the regenerated outcome table may contain.
   Hand-maintained and committed; the table must be fine everywhere outside this list
   (Props.C18_bif_no_panic_or_hang_partial), so a new panic/hang in any other function, or a new kind of failure in a
   listed one, breaks the theorem.  Lines whose pair no longer occurs in the table are reported by the check in the
   evidence (`stale_exceptions`); they are deleted here by hand (nothing committed is edited at run time).
   Codes: P=80 panic, H=72 hang, R=82 Go runtime death, I=73 internal-coding-error exit, S=83 not evaluated after hangs,
   K=75 deliberately not evaluated (resource bound, see below).

   History: ./, madd/msub/mmul/mexp (zero divisor), percentile/percentiles/median (interpolated index, options),
   strptime family (slice bounds), leftpad/rightpad with an empty pad string, invqnorm(NaN) were listed here while they
   were pending findings; they were repaired in /repo (94ff40520 83ceb0713 1f9ccfb45 444a9e97f e7744a7ab 913372130
   5f69e3798 5cab7f8f6) and are no longer excepted: a regression breaks the theorem. *)
From Miller Require Import Base.Bytes.
Open Scope N_scope.

Definition known_bad : list (bytes * N) := [
  (* No finding is excepted any more.  The two families listed here until round 2 were repaired in the repository:
     bif-internal-error-absent-or-funct-into-collection (concat/append/fmtnum/fmtifnum: an absent or function value inside a
     collection is written by its name, 180145cf9) and bif-internal-error-stats-non-numeric-element (kurtosis/meaneb/skewness/
     stddev/variance return an error value, a9c3aa6fe): a regression breaks C18_bif_no_panic_or_hang_partial again. *)
  (* not a finding, a resource bound of the walk: leftpad/rightpad with target length 2^63-1 would build a string of that
     length; those tuples (second argument = imax) are not evaluated and carry code K *)
  (B "leftpad", 75); (B "rightpad", 75)
].
