(* C18 part 5: theorems over the verb outcome table REGENERATED on every run (exhaustive computation). *)
From Miller Require Import Base.Bytes C18.VerbTable gen.Gen_VerbOutcomes.
Open Scope N_scope.

Lemma verb_rows_exhaustive : forallb vrow_exhaustive gen_verb_rows = true.
Proof. vm_compute. reflexivity. Qed.
Lemma verb_rows_clean : forallb vrow_clean gen_verb_rows = true.
Proof. vm_compute. reflexivity. Qed.
Lemma verbs_all_covered : forallb (verb_covered gen_verb_rows 12) gen_verbs = true.
Proof. vm_compute. reflexivity. Qed.
Lemma verb_table_nonvacuous :
  (60 <=? N.of_nat (List.length gen_verbs)) = true
  /\ existsb (fun r => beqb (v_name r) (B "sort") && (1 <=? v_ok r) && (1 <=? v_err r)) gen_verb_rows = true
  /\ existsb (fun r => beqb (v_name r) (B "seqgen") && (1 <=? v_ok r) && (1 <=? v_err r)) gen_verb_rows = true.
Proof. vm_compute. repeat split; reflexivity. Qed.

Lemma verb_no_bad r : In r gen_verb_rows -> v_bad r = [] /\ v_ok r + v_err r = v_cases r.
Proof.
  intros H. pose proof (proj1 (forallb_forall _ _) verb_rows_clean r H) as Hc.
  pose proof (proj1 (forallb_forall _ _) verb_rows_exhaustive r H) as He.
  unfold vrow_clean in Hc. unfold vrow_exhaustive in He. destruct (v_bad r); [|discriminate].
  split; [reflexivity|]. apply N.eqb_eq in He. cbn [List.length N.of_nat] in He. now rewrite N.add_0_r in He.
Qed.
