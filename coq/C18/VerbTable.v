(* C18 part 5: vocabulary for the verb outcome table that harness/py/checks/c18.py regenerates (coq/gen/Gen_VerbOutcomes.v)
   on every run.  Definitions only.
   gen_verbs = the names printed by `mlr help list-verbs` (the real VERB_LOOKUP_TABLE).  A row is one verb driven through
   the real command line (entrypoint.Main in-process; the verb's ParseCLI, constructor and Transform) with
   (a) argument lists from a grammar of plausible and malformed flags -- every flag of the verb's own usage text without
   argument, with an empty, a textual, a negative, a huge, a non-numeric and a list-with-empty-element argument; unknown
   flags; a flag at the end; `then` at the end; `then then`; an empty verb argument -- and (b) the verb with default-ish
   arguments on degenerate record streams (no record, records without fields, a field named "", 10^4 / 10^5 fields,
   repeated keys through --no-dedupe-field-names).
   row = (verb, cases, ok, mlr-error (message on stderr and non-zero exit), bad outcome codes)
   codes: 80 Go panic / fatal runtime error, 72 hang, 73 internal-coding-error exit, 85 non-zero exit without message. *)
From Miller Require Import Base.Bytes.
Open Scope N_scope.

Definition vrow := (bytes * N * N * N * list N)%type.
Definition v_name (r : vrow) : bytes := let '(n, _, _, _, _) := r in n.
Definition v_cases (r : vrow) : N := let '(_, c, _, _, _) := r in c.
Definition v_ok (r : vrow) : N := let '(_, _, k, _, _) := r in k.
Definition v_err (r : vrow) : N := let '(_, _, _, e, _) := r in e.
Definition v_bad (r : vrow) : list N := let '(_, _, _, _, b) := r in b.

(* every case of the row is accounted for, and none ended badly *)
Definition vrow_exhaustive (r : vrow) : bool := v_ok r + v_err r + N.of_nat (List.length (v_bad r)) =? v_cases r.
Definition vrow_clean (r : vrow) : bool := match v_bad r with [] => true | _ => false end.
(* the verb has a row with at least [k] cases *)
Definition verb_covered (rows : list vrow) (k : N) (n : bytes) : bool :=
  existsb (fun r => beqb (v_name r) n && (k <=? v_cases r)) rows.
