(* C18: theorems over the outcome table REGENERATED from /repo on every run (exhaustive computation over a finite,
   completely enumerated table: the tuple-space size is part of each statement). Re-proved on every run. *)
From Miller Require Import Base.Bytes C18.BifTable C18.Exceptions gen.Gen_BifOutcomes.
Open Scope N_scope.

Lemma table_exhaustive : forallb shard_exhaustive gen_bif_shards = true.
Proof. vm_compute. reflexivity. Qed.

Lemma table_rows_covered : forallb (row_covered gen_bif_shards gen_bif_skipped) gen_bif_rows = true.
Proof. vm_compute. reflexivity. Qed.

Lemma table_ok_outside_known : forallb (shard_ok_outside known_bad) gen_bif_shards = true.
Proof. vm_compute. reflexivity. Qed.

Lemma table_unlisted_clean :
  forallb (fun s => listed known_bad (sh_name s) || shard_clean s) gen_bif_shards = true.
Proof. vm_compute. reflexivity. Qed.

Lemma table_nonvacuous :
  (200 <=? N.of_nat (List.length gen_bif_shards)) = true
  /\ existsb (fun s => beqb (sh_name s) (B "strlen") && shard_clean s && (sh_nreps s =? 37)) gen_bif_shards = true
  /\ existsb (fun s => beqb (sh_name s) (B "sub") && shard_clean s && (sh_arity s =? 3)) gen_bif_shards = true
  /\ existsb (fun s => beqb (sh_name s) (B "+") && shard_clean s && (sh_arity s =? 2)) gen_bif_shards = true.
Proof. vm_compute. repeat split; reflexivity. Qed.

Lemma unlisted_clean s :
  In s gen_bif_shards -> listed known_bad (sh_name s) = false ->
  sh_bad s = [] /\ sh_ok s = sh_nreps s ^ sh_arity s.
Proof.
  intros Hs Hl. pose proof (proj1 (forallb_forall _ _) table_unlisted_clean s Hs) as H. cbv beta in H.
  rewrite Hl in H. cbn [orb] in H. unfold shard_clean in H. destruct (sh_bad s); [|discriminate].
  split; [reflexivity|]. now apply N.eqb_eq in H.
Qed.
