(* C18 part 2d: Miller's own layer over the JSON decoder (pkg/input/record_reader_json.go processHandle), as a total function
   on the sequence of decoded top-level values.  What the layer looks at is only the KIND of each top-level value and, for an
   array, of each of its elements; records are abstracted to identifiers.  The tokenizer / value decoder below it
   (pkg/mlrval/mlrval_json.go MlrvalDecodeFromJSON over the vendored decoder) is NOT modelled: a text it rejects is the single
   abstract value [TDecodeErr] (everything after it is never looked at).
     map                      -> one record
     array                    -> each element must be a map (else "valid but unmillerable JSON. Expected map (JSON object); got <type>")
     anything else            -> "valid but unmillerable JSON. ... got <type>"
   Kinds (mlrval GetTypeName): 1 int, 2 float, 3 boolean, 4 string, 5 empty (JSON null and ""), 7 array. *)
From Miller Require Import Base.Bytes.
Open Scope N_scope.

Inductive jelem := EMap (id : N) | EOther (kind : N).
Inductive jtop := TMap (id : N) | TArr (es : list jelem) | TScalar (kind : N) | TDecodeErr.
Inductive jerr := JUnmillerable (kind : N) | JDecode.
Inductive jres := JOk (ids : list N) | JErr (e : jerr).

Fixpoint arr_ids (es : list jelem) : N + list N :=
  match es with
  | [] => inr []
  | EMap i :: t => match arr_ids t with inr l => inr (i :: l) | inl k => inl k end
  | EOther k :: _ => inl k
  end.
Definition japp (l : list N) (r : jres) : jres := match r with JOk m => JOk (l ++ m) | e => e end.
Fixpoint json_layer (vs : list jtop) : jres :=
  match vs with
  | [] => JOk []
  | TMap i :: t => japp [i] (json_layer t)
  | TArr es :: t => match arr_ids es with inr l => japp l (json_layer t) | inl k => JErr (JUnmillerable k) end
  | TScalar k :: _ => JErr (JUnmillerable k)
  | TDecodeErr :: _ => JErr JDecode
  end.

(* the classes, stated independently of the loop *)
Definition elem_is_map (e : jelem) : bool := match e with EMap _ => true | _ => false end.
Definition millerable (v : jtop) : bool :=
  match v with TMap _ => true | TArr es => forallb elem_is_map es | _ => false end.
Definition elem_id (e : jelem) : list N := match e with EMap i => [i] | _ => [] end.
Definition top_ids (v : jtop) : list N :=
  match v with TMap i => [i] | TArr es => flat_map elem_id es | _ => [] end.
(* the error the first non-millerable value stands for *)
Fixpoint first_other (es : list jelem) : option N :=
  match es with [] => None | EMap _ :: t => first_other t | EOther k :: _ => Some k end.
Definition err_of (v : jtop) : option jerr :=
  match v with
  | TMap _ => None
  | TArr es => option_map JUnmillerable (first_other es)
  | TScalar k => Some (JUnmillerable k)
  | TDecodeErr => Some JDecode
  end.
