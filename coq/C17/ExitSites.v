(* C17: the process-exit sites of the Miller source, exhaustively.
   coq/gen/Gen_ExitSites.v is regenerated from the tree under check on every run (every os.Exit call, every creation
   of the lib.ExitRequest sentinel, every return of the cli.ErrUsagePrinted sentinel); the theorems below are computed
   over those tables, so they are re-proved against the code on every run.

   Rules (a row that breaks one is a site that can end the process silently or with status 0 on an error path):
     os.Exit(0)         only under the help sentinel (GHelp), never under an error test;
     os.Exit(n), n<>0   a write to os.Stderr precedes it in the same block -- or it is exitOnError's ErrUsagePrinted
                        case, and then EVERY place that returns that sentinel has written to stderr first;
     os.Exit(expr)      only exitOnError's ExitRequest case and the auxiliary-entry dispatch; and every creation of an
                        ExitRequest with a non-zero literal code has written to stderr first, none with code 0 sits
                        under an `err != nil` test. *)
From Coq Require Import List String ZArith Bool.
Import ListNotations.
From Miller Require Import C17.ExitSiteTypes gen.Gen_ExitSites.

Definition is_guard (g h : guard) : bool :=
  match g, h with
  | GHelp, GHelp | GUsagePrinted, GUsagePrinted | GExitRequest, GExitRequest | GAuxent, GAuxent
  | GErrTest, GErrTest | GOther, GOther => true
  | _, _ => false
  end.

Definition usage_sites_ok (us : list site) : bool := forallb s_stderr_before us.

(* one os.Exit site *)
Definition exit_site_ok (us : list site) (s : site) : bool :=
  match s_code s with
  | Some 0%Z => is_guard (s_guard s) GHelp && negb (s_err_test s)
  | Some _ => s_stderr_before s || (is_guard (s_guard s) GUsagePrinted && usage_sites_ok us && negb (match us with [] => true | _ => false end))
  | None => is_guard (s_guard s) GExitRequest || is_guard (s_guard s) GAuxent
  end.

(* one creation of the ExitRequest sentinel *)
Definition request_site_ok (s : site) : bool :=
  match s_code s with
  | Some 0%Z => negb (s_err_test s)
  | Some _ => s_stderr_before s
  | None => negb (s_err_test s)       (* terminals.Dispatch: the status of `mlr help ...`/`mlr version` *)
  end.

Definition all_exit_sites_ok : bool :=
  forallb (exit_site_ok usage_printed_sites) exit_sites && forallb request_site_ok exit_request_sites
  && usage_sites_ok usage_printed_sites.

(* the diagnostic guarantee of a site: what is known to be on stderr when the process ends there *)
Definition diag_before (s : site) : bool :=
  s_stderr_before s || (is_guard (s_guard s) GUsagePrinted && usage_sites_ok usage_printed_sites).

Lemma forallb_In {A} (f : A -> bool) l x : forallb f l = true -> In x l -> f x = true.
Proof. intros H Hin. rewrite forallb_forall in H. now apply H. Qed.

(* ---- over the regenerated tables ---- *)
Theorem exit_sites_table_ok : all_exit_sites_ok = true.
Proof. vm_compute. reflexivity. Qed.

(* every os.Exit site with a non-zero literal status is preceded by a write to stderr *)
Theorem nonzero_exit_has_diagnostic :
  forall s c, In s exit_sites -> s_code s = Some c -> c <> 0%Z -> diag_before s = true.
Proof.
  intros s c Hin Hc Hne. pose proof exit_sites_table_ok as H. unfold all_exit_sites_ok in H.
  apply andb_true_iff in H as [H _]. apply andb_true_iff in H as [H _].
  pose proof (forallb_In _ _ _ H Hin) as Hs. unfold exit_site_ok in Hs. rewrite Hc in Hs. unfold diag_before.
  destruct c as [|p|p]; [now elim Hne| |].
  - apply orb_true_iff in Hs as [Hs|Hs]; [now rewrite Hs|]. apply andb_true_iff in Hs as [Hs _]. rewrite Hs. apply orb_true_r.
  - apply orb_true_iff in Hs as [Hs|Hs]; [now rewrite Hs|]. apply andb_true_iff in Hs as [Hs _]. rewrite Hs. apply orb_true_r.
Qed.

(* no os.Exit(0) under an error test: the only direct exit with status 0 is the help sentinel *)
Theorem exit0_only_on_help :
  forall s, In s exit_sites -> s_code s = Some 0%Z -> s_guard s = GHelp /\ s_err_test s = false.
Proof.
  intros s Hin Hc. pose proof exit_sites_table_ok as H. unfold all_exit_sites_ok in H.
  apply andb_true_iff in H as [H _]. apply andb_true_iff in H as [H _].
  pose proof (forallb_In _ _ _ H Hin) as Hs. unfold exit_site_ok in Hs. rewrite Hc in Hs.
  apply andb_true_iff in Hs as [Hg He]. apply negb_true_iff in He. split; [|exact He]. destruct (s_guard s); try discriminate; reflexivity.
Qed.

(* an exit whose status is an expression is exitOnError's ExitRequest case or the auxiliary-entry dispatch ... *)
Theorem computed_status_sites :
  forall s, In s exit_sites -> s_code s = None -> s_guard s = GExitRequest \/ s_guard s = GAuxent.
Proof.
  intros s Hin Hc. pose proof exit_sites_table_ok as H. unfold all_exit_sites_ok in H.
  apply andb_true_iff in H as [H _]. apply andb_true_iff in H as [H _].
  pose proof (forallb_In _ _ _ H Hin) as Hs. unfold exit_site_ok in Hs. rewrite Hc in Hs.
  destruct (s_guard s); cbn in Hs; try discriminate; auto.
Qed.

(* ... and every ExitRequest created with a non-zero literal status has written to stderr first; none with status 0
   is created under an error test *)
Theorem exit_request_nonzero_has_diagnostic :
  forall s c, In s exit_request_sites -> s_code s = Some c -> (c <> 0%Z -> s_stderr_before s = true) /\ (c = 0%Z -> s_err_test s = false).
Proof.
  intros s c Hin Hc. pose proof exit_sites_table_ok as H. unfold all_exit_sites_ok in H.
  apply andb_true_iff in H as [H _]. apply andb_true_iff in H as [_ H].
  pose proof (forallb_In _ _ _ H Hin) as Hs. unfold request_site_ok in Hs. rewrite Hc in Hs.
  destruct c as [|p|p]; split; intros Hx; try (now elim Hx); try discriminate; auto; now apply negb_true_iff in Hs.
Qed.

(* every return of the "usage printed" sentinel has printed to stderr *)
Theorem usage_printed_sentinel_is_truthful :
  forall s, In s usage_printed_sites -> s_stderr_before s = true.
Proof.
  intros s Hin. pose proof exit_sites_table_ok as H. unfold all_exit_sites_ok in H. apply andb_true_iff in H as [_ H].
  exact (forallb_In _ _ _ H Hin).
Qed.

(* non-vacuity: the tables are not empty and contain each kind of row the rules distinguish *)
Example exit_sites_nonvacuous :
  (10 <= List.length exit_sites)%nat
  /\ existsb (fun s => match s_code s with Some 0%Z => true | _ => false end) exit_sites = true
  /\ existsb (fun s => match s_code s with None => true | _ => false end) exit_sites = true
  /\ existsb (fun s => is_guard (s_guard s) GUsagePrinted) exit_sites = true
  /\ (1 <= List.length usage_printed_sites)%nat
  /\ existsb (fun s => match s_code s with Some 0%Z => false | Some _ => true | None => false end) exit_request_sites = true.
Proof. vm_compute. repeat split; try reflexivity; repeat constructor. Qed.

(* the rules are not vacuous either: a silent non-zero exit and an exit 0 under an error test are rejected *)
Example exit_rules_reject_silent_sites :
  exit_site_ok [] (mkSite "x.go" "f" 1 (Some 1%Z) false true GErrTest true) = false
  /\ exit_site_ok [] (mkSite "x.go" "f" 1 (Some 0%Z) true false GErrTest true) = false
  /\ request_site_ok (mkSite "x.go" "f" 1 (Some 1%Z) false true GOther false) = false
  /\ exit_site_ok [mkSite "y.go" "g" 2 (Some 1%Z) false false GOther false] (mkSite "x.go" "f" 1 (Some 1%Z) false false GUsagePrinted false) = false.
Proof. vm_compute. auto. Qed.
