(* C17, fault positions: corollaries of C04.Errors (invariant J, error_never_lost), C04.Progress (no_deadlock)
   and C04.Termination (every_run_reaches_final) stated per fault position, plus the ghost invariant tying the
   control points of a failing stage to the [cfailed] flag.

   Go anchors: pkg/stream/stream.go:Stream (main: select loop, two drains, return retval);
   pkg/entrypoint/entrypoint.go:exitOnError (retval <> nil: printError "mlr: %v" + os.Exit(1); nil: exit 0);
   pkg/transformers/aaa_chain_transformer.go:runSingleTransformerBatch (VWork -> VSendE -> VErrSig);
   pkg/output/channel_writer.go:ChannelWriter (WRecv -> WErr -> WFin); record readers (RPoll -> RErr). *)
From Coq Require Import List Bool Arith Lia.
Import ListNotations.
From Miller Require Import C04.Model C04.Search C04.Progress C04.Errors C04.Termination.

(* entrypoint.Main: err := stream.Stream(...); if err != nil { exitOnError(err) }  -- exit 1 after printing it *)
Definition exit_code (s : state) : option nat :=
  match mn s with MExit true => Some 1 | MExit false => Some 0 | _ => None end.
(* exitOnError prints "mlr: <err>" exactly when Stream's return value is an error *)
Definition stderr_nonempty (s : state) : bool :=
  match mn s with MExit r => r | _ => false end.

Definition is_werr (w : wpc) : bool := match w with WErr => true | _ => false end.

(* an error value exists somewhere on its way to main: buffered on inputErrorChannel or
   dataProcessingErrorChannel, already taken by main (retval), or held by a stage that is at the control
   point just before its post (the reader's blocking send, the writer's non-blocking send) *)
Definition diag_pending (s : state) : bool :=
  ierr s || cerr (ch s) || ret_of (mn s) || is_rerr (rd s) || is_werr (wr s).

(* ---------------------------------------------------------------- cfailed is monotone *)
Lemma cfailed_step blocking s s' : step blocking s s' -> cfailed (ch s) = true -> cfailed (ch s') = true.
Proof.
  intros Hst Hf. unfold step, succs in Hst. rewrite !in_app_iff in Hst.
  destruct s as [r ie c w dq m]; cbn in *.
  destruct Hst as [Hst|[Hst|[Hst|Hst]]].
  - unfold reader_steps in Hst; cbn in Hst. destruct r as [k|k|k|].
    + rewrite in_app_iff in Hst. destruct Hst as [Hst|Hst].
      * dif Hst; destruct Hst as [<-|[]]; cbn; auto.
      * destruct k; [destruct Hst|]. destruct Hst as [<-|[]]; reflexivity.
    + destruct (push_first c (k =? 0)) as [c'|] eqn:Hp; [|destruct Hst]. destruct Hst as [<-|[]]. cbn.
      unfold push_first in Hp. destruct (cvs c); [discriminate|]. dif Hp; [|discriminate].
      inversion Hp; subst; cbn; auto.
    + destruct ie; [destruct Hst|]. destruct Hst as [<-|[]]; auto.
    + destruct Hst.
  - apply in_map_iff in Hst as (c' & <- & Hin). cbn. unfold chain_steps in Hin.
    destruct (chain_succs_flags _ _ _ _ _ _ _ Hin) as (_ & F2 & _). auto.
  - unfold writer_steps in Hst; cbn in Hst. destruct w.
    + destruct (cwq c); [destruct Hst|]. destruct Hst as [<-|[<-|[]]]; cbn; auto.
    + destruct Hst as [<-|[]]; cbn; auto.
    + destruct Hst as [<-|[]]; cbn; auto.
    + destruct Hst.
  - unfold main_steps in Hst; cbn in Hst. destruct m as [rr|rr|rr|rr].
    + rewrite !in_app_iff in Hst. destruct Hst as [Hst|[Hst|Hst]].
      * destruct ie; [|destruct Hst]. destruct Hst as [<-|[]]; cbn; auto.
      * destruct (cerr c); [|destruct Hst]. destruct Hst as [<-|[]]; cbn; auto.
      * destruct dq; [|destruct Hst]. destruct Hst as [<-|[]]; cbn; auto.
    + dif Hst; destruct Hst as [<-|[]]; cbn; auto.
    + dif Hst; destruct Hst as [<-|[]]; cbn; auto.
    + destruct Hst.
Qed.

Lemma cfailed_reachable blocking s s' :
  reachable blocking s s' -> cfailed (ch s) = true -> cfailed (ch s') = true.
Proof. intros Hr Hf. induction Hr; [exact Hf|]. eapply cfailed_step; eauto. Qed.

(* ---------------------------------------------------------------- the failing control points imply cfailed *)
Definition F (s : state) : Prop :=
  (is_rerr (rd s) = true -> cfailed (ch s) = true)
  /\ (wr s = WErr -> cfailed (ch s) = true)
  /\ (existsb verr_pc (cvs (ch s)) = true -> cfailed (ch s) = true).

Lemma local_steps_verr blocking d e f v d' e' f' v' :
  In (d', e', f', v') (local_steps blocking d e f v) ->
  (f = true -> f' = true) /\ (verr_pc v' = true -> f' = true).
Proof.
  unfold local_steps. destruct v as [p q dd sg sw]; cbn [vp vin vd vsig vswallow]. intros Hin.
  destruct p as [| b | b | b | b | | |]; cbn [In] in Hin.
  - destruct q as [|b q]; cbn in Hin; [tauto|]. destruct Hin as [H|[]]. inversion H; subst. split; auto. discriminate.
  - rewrite !in_app_iff in Hin. destruct Hin as [H|[H|[H|H]]].
    + destruct (0 <? dd); [|destruct H]. destruct H as [H|[]]. inversion H; subst.
      destruct sw; split; auto; discriminate.
    + destruct sg; [destruct H|]. destruct H as [H|[]]. inversion H; subst. split; auto; discriminate.
    + destruct H as [H|[]]. inversion H; subst. split; auto; discriminate.
    + destruct H as [H|[]]. inversion H; subst. split; auto.
  - destruct (send_flag blocking d); [|destruct Hin]. destruct Hin as [H|[]]. inversion H; subst. split; auto; discriminate.
  - destruct (send_flag blocking d); [|destruct Hin]. destruct Hin as [H|[]]. inversion H; subst. split; auto; discriminate.
  - destruct Hin.
  - destruct Hin.
  - destruct Hin as [H|[]]. inversion H; subst. split; auto; discriminate.
  - destruct Hin.
Qed.

Lemma verr_pc_set_vd v d : verr_pc (set_vd v d) = verr_pc v.
Proof. reflexivity. Qed.
Lemma verr_pc_set_vin v q : verr_pc (set_vin v q) = verr_pc v.
Proof. reflexivity. Qed.

Lemma chain_succs_verr blocking : forall vs d e f wq c,
  In c (chain_succs blocking d e f vs wq) ->
  (existsb verr_pc vs = true -> f = true) ->
  (existsb verr_pc (cvs c) = true -> cfailed c = true).
Proof.
  induction vs as [|v rest IH]; intros d e f wq c Hin Hv; cbn in Hin; [destruct Hin|].
  cbn [existsb] in Hv.
  rewrite !in_app_iff in Hin. destruct Hin as [Hin|[Hin|Hin]].
  - apply in_map_iff in Hin as ([[[d' e'] f'] v'] & <- & Hl). cbn.
    destruct (local_steps_verr _ _ _ _ _ _ _ _ _ Hl) as [A B].
    intros H. apply orb_true_iff in H as [H|H]; [auto|]. apply A, Hv. rewrite H. apply orb_true_r.
  - destruct (after_send (vp v)) as [[b p']|] eqn:Ha; [|destruct Hin].
    assert (Hp' : verr_pc (set_vp v p') = true -> verr_pc v = true).
    { unfold verr_pc; cbn. destruct (vp v) as [|b0|b0|b0|b0| | |]; cbn in Ha; try discriminate; inversion Ha; subst; auto.
      match goal with |- context [if ?x then _ else _] => destruct x end; intros H; exact H. }
    destruct rest as [|v2 rest2]; (dif Hin; [|destruct Hin]); destruct Hin as [<-|[]]; cbn in *.
    + intros H. rewrite orb_false_r in H. apply Hv. rewrite orb_false_r. auto.
    + intros H. apply Hv. apply orb_true_iff in H as [H|H]; [rewrite (Hp' H); reflexivity|].
      rewrite verr_pc_set_vin in H. rewrite H. apply orb_true_r.
  - apply in_map_iff in Hin as (c' & <- & Hc'). cbn.
    intros H. rewrite verr_pc_set_vd in H. apply orb_true_iff in H as [H|H].
    + destruct (chain_succs_flags _ _ _ _ _ _ _ Hc') as (_ & F2 & _). apply F2, Hv. rewrite H. reflexivity.
    + eapply IH; [exact Hc'| |exact H]. intros H2. apply Hv. rewrite H2. apply orb_true_r.
Qed.

Lemma F_init k kinds : F (init k kinds).
Proof.
  unfold F, init; cbn. repeat split; try discriminate.
  intros H. exfalso. induction kinds as [|y kinds IH]; cbn in H; [discriminate|auto].
Qed.

Ltac finF := unfold F; cbn; repeat split; auto; try discriminate;
  try (match goal with |- context [match ?x with _ => _ end] => destruct x end; discriminate).

Lemma F_step blocking s s' : F s -> step blocking s s' -> F s'.
Proof.
  intros (F1 & F2 & F3) Hst. pose proof (cfailed_step _ _ _ Hst) as Hmono.
  unfold step, succs in Hst. rewrite !in_app_iff in Hst.
  destruct s as [r ie c w dq m]; cbn in *.
  destruct Hst as [Hst|[Hst|[Hst|Hst]]].
  - unfold reader_steps in Hst; cbn in Hst. destruct r as [k|k|k|].
    + rewrite in_app_iff in Hst. destruct Hst as [Hst|Hst].
      * dif Hst; destruct Hst as [<-|[]]; finF.
      * destruct k; [destruct Hst|]. destruct Hst as [<-|[]]; finF.
    + destruct (push_first c (k =? 0)) as [c'|] eqn:Hp; [|destruct Hst]. destruct Hst as [<-|[]].
      unfold push_first in Hp. destruct (cvs c) as [|v rest] eqn:Hv; [discriminate|]. dif Hp; [|discriminate].
      inversion Hp; subst c'. unfold F; cbn. repeat split; auto.
      destruct k; discriminate.
    + destruct ie; [destruct Hst|]. destruct Hst as [<-|[]]; finF.
    + destruct Hst.
  - apply in_map_iff in Hst as (c' & <- & Hin). unfold chain_steps in Hin. unfold F; cbn.
    destruct (chain_succs_flags _ _ _ _ _ _ _ Hin) as (_ & G2 & _).
    repeat split; auto. eapply chain_succs_verr; eauto.
  - unfold writer_steps in Hst; cbn in Hst. destruct w.
    + destruct (cwq c); [destruct Hst|]. destruct Hst as [<-|[<-|[]]]; finF.
    + destruct Hst as [<-|[]]; finF.
    + destruct Hst as [<-|[]]; finF.
    + destruct Hst.
  - unfold main_steps in Hst; cbn in Hst. destruct m as [rr|rr|rr|rr].
    + rewrite !in_app_iff in Hst. destruct Hst as [Hst|[Hst|Hst]].
      * destruct ie; [|destruct Hst]. destruct Hst as [<-|[]]; finF.
      * destruct (cerr c); [|destruct Hst]. destruct Hst as [<-|[]]; finF.
      * destruct dq; [|destruct Hst]. destruct Hst as [<-|[]]; finF.
    + dif Hst; destruct Hst as [<-|[]]; finF.
    + dif Hst; destruct Hst as [<-|[]]; finF.
    + destruct Hst.
Qed.

Lemma F_reachable blocking k kinds s : reachable blocking (init k kinds) s -> F s.
Proof. intros Hr. induction Hr; [apply F_init|eapply F_step; eauto]. Qed.

(* ---------------------------------------------------------------- main statements *)

(* J1 of C04.Errors as a boolean: once any stage has failed, an error value is in flight or already with main *)
Theorem fault_diagnostic_in_flight blocking k kinds s :
  reachable blocking (init k kinds) s -> cfailed (ch s) = true -> diag_pending s = true.
Proof.
  intros Hr Hf. destruct (J_reachable _ _ _ _ Hr) as (J1 & _). unfold diag_pending.
  destruct (J1 Hf) as [H|[H|[H|[H|H]]]]; rewrite H; cbn; rewrite ?orb_true_r; reflexivity.
Qed.

Lemma final_exit_code blocking k kinds s s' :
  reachable blocking (init k kinds) s -> cfailed (ch s) = true ->
  reachable blocking s s' -> is_final s' = true -> exit_code s' = Some 1 /\ stderr_nonempty s' = true.
Proof.
  intros Hr Hf Hr' Hfin. pose proof (cfailed_reachable _ _ _ Hr' Hf) as Hf'.
  pose proof (reachable_trans _ _ _ _ Hr Hr') as Hr0.
  unfold is_final in Hfin. unfold exit_code, stderr_nonempty.
  destruct (mn s') as [r|r|r|r] eqn:Hm; try discriminate.
  rewrite (error_never_lost _ _ _ _ _ Hr0 Hm Hf'). auto.
Qed.

(* the fault position is irrelevant: for every chain, every number of batches, every reachable state (hence
   every schedule prefix and every position of the fault) in which some stage has failed,
   (1) an error value is in flight; (2) every final state reachable from it exits 1 with a diagnostic;
   (3) a final state is reachable (termination), under the repaired protocol *)
Theorem fault_anywhere_nonzero_exit k kinds s :
  kinds <> [] -> reachable false (init k kinds) s -> cfailed (ch s) = true ->
  diag_pending s = true
  /\ (forall s', reachable false s s' -> is_final s' = true -> exit_code s' = Some 1 /\ stderr_nonempty s' = true)
  /\ (exists s', reachable false s s' /\ is_final s' = true /\ exit_code s' = Some 1 /\ stderr_nonempty s' = true).
Proof.
  intros Hk Hr Hf. split; [eapply fault_diagnostic_in_flight; eauto|]. split.
  - intros s' Hr' Hfin. eapply final_exit_code; eauto.
  - destruct (every_run_reaches_final k kinds Hk s Hr) as (s' & Hr' & Hfin).
    exists s'. destruct (final_exit_code _ _ _ _ _ Hr Hf Hr' Hfin). auto.
Qed.

(* the same safety half under both done-flag protocols *)
Theorem fault_anywhere_every_exit_nonzero blocking k kinds s s' :
  reachable blocking (init k kinds) s -> cfailed (ch s) = true ->
  reachable blocking s s' -> is_final s' = true -> exit_code s' = Some 1 /\ stderr_nonempty s' = true.
Proof. apply final_exit_code. Qed.

(* reader fault at any batch: the reader is about to post an open/parse error (RErr j, j batches still to read) *)
Theorem reader_fault_nonzero_exit blocking k kinds s j :
  reachable blocking (init k kinds) s -> rd s = RErr j ->
  cfailed (ch s) = true
  /\ forall s', reachable blocking s s' -> is_final s' = true -> exit_code s' = Some 1 /\ stderr_nonempty s' = true.
Proof.
  intros Hr Hrd. destruct (F_reachable _ _ _ _ Hr) as (F1 & _).
  assert (Hf : cfailed (ch s) = true) by (apply F1; rewrite Hrd; reflexivity).
  split; [exact Hf|]. intros s' Hr' Hfin. eapply final_exit_code; eauto.
Qed.

(* the fault step itself is enabled at every batch that is still to be read *)
Theorem reader_fault_step_enabled blocking s j :
  rd s = RPoll (S j) ->
  step blocking s (mkS (RErr j) (ierr s) (set_failed (ch s)) (wr s) (doneq s) (mn s)).
Proof.
  intros Hrd. unfold step, succs. apply in_or_app. left. unfold reader_steps. rewrite Hrd.
  apply in_or_app. right. left. reflexivity.
Qed.

Lemma nth_verr vs i v : nth_error vs i = Some v -> verr_pc v = true -> existsb verr_pc vs = true.
Proof. intros Hn Hv. apply existsb_exists. exists v. split; [eapply nth_error_In; eauto|exact Hv]. Qed.

(* verb fault: stage i of an n-stage chain is on its error path (Transform returned an error for some batch,
   the end-of-stream batch included: VSendE = error posted, about to forward the marker; VErrSig = marker forwarded) *)
Theorem verb_fault_nonzero_exit blocking k kinds s i v :
  reachable blocking (init k kinds) s -> nth_error (cvs (ch s)) i = Some v -> verr_pc v = true ->
  cfailed (ch s) = true
  /\ forall s', reachable blocking s s' -> is_final s' = true -> exit_code s' = Some 1 /\ stderr_nonempty s' = true.
Proof.
  intros Hr Hn Hv. destruct (F_reachable _ _ _ _ Hr) as (_ & _ & F3).
  assert (Hf : cfailed (ch s) = true) by (apply F3; eapply nth_verr; eauto).
  split; [exact Hf|]. intros s' Hr' Hfin. eapply final_exit_code; eauto.
Qed.

(* writer fault (channel_writer.go: recordWriter.Write failed, "mlr: ..." printed; about to post
   "exiting due to data error" with a non-blocking send, then signal done).  Holds also when a verb error was
   posted first and the writer's own post is dropped: first error wins, the status is still non-zero *)
Theorem writer_fault_nonzero_exit blocking k kinds s :
  reachable blocking (init k kinds) s -> wr s = WErr ->
  cfailed (ch s) = true
  /\ forall s', reachable blocking s s' -> is_final s' = true -> exit_code s' = Some 1 /\ stderr_nonempty s' = true.
Proof.
  intros Hr Hw. destruct (F_reachable _ _ _ _ Hr) as (_ & F2 & _).
  assert (Hf : cfailed (ch s) = true) by (apply F2; exact Hw).
  split; [exact Hf|]. intros s' Hr' Hfin. eapply final_exit_code; eauto.
Qed.

(* termination after a fault at any of the three kinds of position *)
Theorem faulty_run_reaches_exit1 k kinds s :
  kinds <> [] -> reachable false (init k kinds) s ->
  (is_rerr (rd s) = true \/ wr s = WErr \/ existsb verr_pc (cvs (ch s)) = true) ->
  exists s', reachable false s s' /\ is_final s' = true /\ exit_code s' = Some 1.
Proof.
  intros Hk Hr Hpos. destruct (F_reachable _ _ _ _ Hr) as (F1 & F2 & F3).
  assert (Hf : cfailed (ch s) = true) by (destruct Hpos as [H|[H|H]]; auto).
  destruct (fault_anywhere_nonzero_exit k kinds s Hk Hr Hf) as (_ & _ & s' & A & B & C & _). eauto.
Qed.

(* ---------------------------------------------------------------- non-vacuity: concrete faulty runs *)
(* always take the first enabled step, at most [fuel] times *)
Fixpoint run0 (fuel : nat) (s : state) : state :=
  match fuel with
  | 0 => s
  | S f => match succs false s with [] => s | s' :: _ => run0 f s' end
  end.

Lemma run0_reachable fuel : forall s, reachable false s (run0 fuel s).
Proof.
  induction fuel as [|f IH]; intros s; cbn; [apply reach_refl|].
  destruct (succs false s) as [|s' l] eqn:E; [apply reach_refl|].
  eapply reachable_trans; [|apply IH]. eapply reach_step; [apply reach_refl|]. unfold step. rewrite E. now left.
Qed.

Definition nthpc (s : state) (i : nat) : option vpc :=
  match nth_error (cvs (ch s)) i with Some v => Some (vp v) | None => None end.

Ltac run_witness sched st :=
  let E := fresh "E" in
  destruct (run_sched false sched st) as [s|] eqn:E; [|vm_compute in E; discriminate];
  exists s; split; [eapply run_sched_reachable; [apply reach_refl|exact E]|];
  vm_compute in E; inversion E; subst; vm_compute; auto 10.

(* the middle verb of a chain of three fails while processing the end-of-stream batch (its end block):
   27 steps bring verb 1 to VWork true with the reader finished, step 1 there is its Transform error *)
Definition sched_mid_eos : list nat := repeat 0 27 ++ [1].
Example verb_fault_mid_of_3_at_eos :
  exists s, reachable false (init 2 [false; false; false]) s
    /\ rd s = RDone /\ nthpc s 0 = Some VDone /\ nthpc s 1 = Some VSendE /\ nthpc s 2 = Some (VWork false)
    /\ is_final (run0 100 s) = true /\ exit_code (run0 100 s) = Some 1.
Proof. run_witness sched_mid_eos (init 2 [false; false; false]). Qed.

(* the reader fails on the first of three batches *)
Example reader_fault_first_batch :
  exists s, reachable false (init 3 [false]) s /\ rd s = RErr 2
    /\ is_final (run0 100 s) = true /\ exit_code (run0 100 s) = Some 1.
Proof. run_witness [1] (init 3 [false]). Qed.

(* the writer fails on a data batch (batch boundary), nothing else has failed *)
Definition sched_writer : list nat := repeat 0 30 ++ [1].
Example writer_fault_batch_boundary :
  exists s, reachable false (init 2 [false; true]) s /\ wr s = WErr /\ cerr (ch s) = false
    /\ is_final (run0 100 s) = true /\ exit_code (run0 100 s) = Some 1.
Proof. run_witness sched_writer (init 2 [false; true]). Qed.

(* a verb error is already posted when the writer fails on the end-of-stream batch: the writer's own
   non-blocking post is dropped (first error wins) and the run still exits 1 *)
Definition sched_writer_after_verb : list nat := repeat 0 18 ++ [1; 0; 0; 0; 1].
Example writer_fault_after_verb_error :
  exists s, reachable false (init 1 [false; false]) s /\ wr s = WErr /\ cerr (ch s) = true
    /\ is_final (run0 100 s) = true /\ exit_code (run0 100 s) = Some 1.
Proof. run_witness sched_writer_after_verb (init 1 [false; false]). Qed.
