(* C17: ONE combined transition system = the goroutine/channel skeleton (C04.Model, with every failure step) + the
   redirected-output handlers of every put/filter/tee/split verb, closed by RootNode.ProcessEndOfStream when the verb's
   Transform handles the end-of-stream marker (put_or_filter.go: `if err := ProcessEndOfStream(); err != nil { return err }`;
   tee.go / split.go: the same shape with one manager).
   A combined step is a skeleton step together with what it does to each verb's handlers:
     verb i moves  VWork true -> VSend true   (Transform on the marker returned nil)  : ProcessEndOfStream ran on its
                                               handlers and returned no error;
     verb i moves  VWork true -> VSendE       (Transform returned an error)           : its handlers are untouched
                                               (failure before the close) or ProcessEndOfStream ran and returned an error;
     otherwise                                                                       : its handlers are unchanged.
   Invariant, for every chain length, number of batches, interleaving and fault: a verb that has forwarded its
   end-of-stream marker has all its handlers closed ok, or some stage has failed.  Hence: exit status 0 => every handler
   of every manager of every verb was flushed and closed successfully (and, by C17_exit0_implies_complete, the reader
   reached end of input, every verb forwarded the marker and the writer finished). *)
From Coq Require Import List Bool Arith Lia.
Import ListNotations.
From Miller Require Import C04.Model C04.Search C04.Progress C04.Errors C17.Faults C17.Exit.

Definition hset := list (list hstate).        (* the output-handler managers of one verb *)
Record cstate := mkCS { cbase : state; chs : list hset }.

(* pc transitions of one verb goroutine *)
Definition T (p p' : vpc) : Prop :=
  match p, p' with
  | VRecv, VWork _ => True
  | VWork b, VWork b' | VWork b, VRelay b' | VWork b, VOwn b' | VWork b, VSend b' => b' = b
  | VWork _, VSendE => True
  | VRelay b, VWork b' | VOwn b, VWork b' => b' = b
  | VSend b, VDone => b = true
  | VSend b, VRecv => b = false
  | VSendE, VErrSig => True
  | VErrSig, VDone => True
  | _, _ => False
  end.

Lemma local_steps_T blocking d e f v d' e' f' v' :
  In (d', e', f', v') (local_steps blocking d e f v) -> T (vp v) (vp v').
Proof.
  unfold local_steps. destruct v as [p q dd sg sw]; cbn [vp vin vd vsig vswallow].
  destruct p as [| b | b | b | b | | |]; cbn [In].
  - destruct q as [|b q]; [intros []|]. intros [H|[]]. inversion H; subst. exact I.
  - rewrite !in_app_iff. intros [H|[H|[H|H]]].
    + destruct (0 <? dd); [|destruct H]. destruct H as [H|[]]. inversion H; subst. destruct sw; reflexivity.
    + destruct sg; [destruct H|]. destruct H as [H|[]]. inversion H; subst. reflexivity.
    + destruct H as [H|[]]. inversion H; subst. reflexivity.
    + destruct H as [H|[]]. inversion H; subst. exact I.
  - destruct (send_flag blocking d); [|intros []]. intros [H|[]]. inversion H; subst. reflexivity.
  - destruct (send_flag blocking d); [|intros []]. intros [H|[]]. inversion H; subst. reflexivity.
  - intros [].
  - intros [].
  - intros [H|[]]. inversion H; subst. exact I.
  - intros [].
Qed.

Definition TE (p p' : vpc) : Prop := p' = p \/ T p p'.

Lemma chain_succs_T blocking : forall vs d e f wq c,
  In c (chain_succs blocking d e f vs wq) -> Forall2 (fun v v' => TE (vp v) (vp v')) vs (cvs c).
Proof.
  assert (R : forall l : list vstage, Forall2 (fun v v' => TE (vp v) (vp v')) l l).
  { induction l; constructor; auto. now left. }
  induction vs as [|v rest IH]; intros d e f wq c Hin; cbn in Hin; [destruct Hin|].
  rewrite !in_app_iff in Hin. destruct Hin as [Hin|[Hin|Hin]].
  - apply in_map_iff in Hin as ([[[d' e'] f'] v'] & <- & Hl). cbn. constructor; [right; eapply local_steps_T; eauto|apply R].
  - destruct (after_send (vp v)) as [[b p']|] eqn:Ha; [|destruct Hin].
    assert (HT : TE (vp v) p').
    { right. destruct (vp v); try discriminate; inversion Ha; subst; cbn; auto. destruct b; reflexivity. }
    destruct rest as [|v2 rest2].
    + dif Hin; [|destruct Hin]. destruct Hin as [<-|[]]. cbn. constructor; [exact HT|constructor].
    + dif Hin; [|destruct Hin]. destruct Hin as [<-|[]]. cbn.
      constructor; [exact HT|]. constructor; [now left|apply R].
  - apply in_map_iff in Hin as (c' & <- & Hc'). cbn. constructor; [now left|]. eapply IH; eauto.
Qed.

Lemma step_T blocking s s' : step blocking s s' -> Forall2 (fun v v' => TE (vp v) (vp v')) (cvs (ch s)) (cvs (ch s')).
Proof.
  assert (R : forall l : list vstage, Forall2 (fun v v' => TE (vp v) (vp v')) l l).
  { induction l; constructor; auto. now left. }
  intros Hst. unfold step, succs in Hst. rewrite !in_app_iff in Hst.
  destruct s as [r ie c w dq m]; cbn [ch]. destruct Hst as [Hst|[Hst|[Hst|Hst]]].
  - unfold reader_steps in Hst; cbn in Hst. destruct r as [k|k|k|].
    + rewrite in_app_iff in Hst. destruct Hst as [Hst|Hst].
      * dif Hst; destruct Hst as [<-|[]]; cbn; apply R.
      * destruct k; [destruct Hst|]. destruct Hst as [<-|[]]; cbn; apply R.
    + destruct (push_first c (k =? 0)) as [c'|] eqn:Hp; [|destruct Hst]. destruct Hst as [<-|[]]. cbn.
      unfold push_first in Hp. destruct (cvs c) as [|v rest]; [discriminate|].
      dif Hp; [|discriminate]. inversion Hp; subst. cbn. constructor; [now left|apply R].
    + destruct ie; [destruct Hst|]. destruct Hst as [<-|[]]; cbn; apply R.
    + destruct Hst.
  - apply in_map_iff in Hst as (c' & <- & Hin). cbn. unfold chain_steps in Hin. eapply chain_succs_T; eauto.
  - unfold writer_steps in Hst; cbn in Hst. destruct w.
    + destruct (cwq c); [destruct Hst|]. destruct Hst as [<-|[<-|[]]]; cbn; apply R.
    + destruct Hst as [<-|[]]; cbn; apply R.
    + destruct Hst as [<-|[]]; cbn; apply R.
    + destruct Hst.
  - unfold main_steps in Hst; cbn in Hst. destruct m as [rr|rr|rr|rr].
    + rewrite !in_app_iff in Hst. destruct Hst as [Hst|[Hst|Hst]].
      * destruct ie; [|destruct Hst]. destruct Hst as [<-|[]]; cbn; apply R.
      * destruct (cerr c); [|destruct Hst]. destruct Hst as [<-|[]]; cbn; apply R.
      * destruct dq; [|destruct Hst]. destruct Hst as [<-|[]]; cbn; apply R.
    + dif Hst; destruct Hst as [<-|[]]; cbn; apply R.
    + dif Hst; destruct Hst as [<-|[]]; cbn; apply R.
    + destruct Hst.
Qed.

(* what a step of verb i from pc p to pc p' does to its handlers *)
Definition handlers_step (p p' : vpc) (h h' : hset) : Prop :=
  match p, p' with
  | VWork true, VSend true => snd (process_eos_repo h) = false /\ h' = fst (process_eos_repo h)
  | VWork true, VSendE => h' = h \/ (snd (process_eos_repo h) = true /\ h' = fst (process_eos_repo h))
  | _, _ => h' = h
  end.

Inductive hsteps : list vstage -> list vstage -> list hset -> list hset -> Prop :=
| hs_nil : hsteps [] [] [] []
| hs_cons v v' vs vs' h h' hs hs' :
    handlers_step (vp v) (vp v') h h' -> hsteps vs vs' hs hs' -> hsteps (v :: vs) (v' :: vs') (h :: hs) (h' :: hs').

Definition cstep (c c' : cstate) : Prop :=
  step false (cbase c) (cbase c') /\ hsteps (cvs (ch (cbase c))) (cvs (ch (cbase c'))) (chs c) (chs c').

Inductive creachable (c0 : cstate) : cstate -> Prop :=
| creach_refl : creachable c0 c0
| creach_step c c' : creachable c0 c -> cstep c c' -> creachable c0 c'.

(* initially every handler is open (each with the outcome its flush/close will have) *)
Definition cinit (k : nat) (kinds : list bool) (hs : list hset) : cstate := mkCS (init k kinds) hs.

(* a verb's handlers against its control point *)
Definition hok (failed : bool) (p : vpc) (h : hset) : Prop :=
  match p with
  | VSend true | VDone => all_closed_ok h = true \/ failed = true
  | VSendE | VErrSig => True
  | _ => never_closed h = true
  end.

Inductive hinv (failed : bool) : list vstage -> list hset -> Prop :=
| hi_nil : hinv failed [] []
| hi_cons v vs h hs : hok failed (vp v) h -> hinv failed vs hs -> hinv failed (v :: vs) (h :: hs).

Lemma hinv_fresh kinds hs :
  length hs = length kinds -> forallb never_closed hs = true -> hinv false (map fresh_verb kinds) hs.
Proof.
  revert hs; induction kinds as [|y kinds IH]; intros hs Hl Hn; destruct hs as [|h hs]; try discriminate; cbn; constructor.
  - cbn in Hn. apply andb_true_iff in Hn as [A _]. exact A.
  - apply IH; [cbn in Hl; lia|]. cbn in Hn. now apply andb_true_iff in Hn as [_ B].
Qed.

Lemma hinv_step f f' vs vs' hs hs' :
  Forall2 (fun v v' => TE (vp v) (vp v')) vs vs' -> hsteps vs vs' hs hs' ->
  (f = true -> f' = true) -> (existsb verr_pc vs = true -> f' = true) ->
  hinv f vs hs -> hinv f' vs' hs'.
Proof.
  intros HT Hh Hmono Hverr Hi. revert HT Hi Hverr. induction Hh as [|v v' vs vs' h h' hs hs' Hs Hrest IH]; intros HT Hi Hverr.
  - constructor.
  - inversion HT as [|? ? ? ? Ht HT']; subst. inversion Hi as [|? ? ? ? Hk Hi']; subst.
    assert (Hverr' : existsb verr_pc vs = true -> f' = true) by (intros E0; apply Hverr; cbn; rewrite E0; apply orb_true_r).
    constructor; [|now apply IH].
    assert (Hv : verr_pc v = true -> f' = true) by (intros E0; apply Hverr; cbn; now rewrite E0).
    unfold verr_pc in Hv. unfold hok in *. unfold handlers_step in Hs. destruct Ht as [Ht|Ht].
    + rewrite Ht in *. destruct (vp v) as [|b|b|b|b| | |]; try destruct b; cbn in *; subst;
        first [ exact I | assumption | (destruct Hk as [Hk|Hk]; [left; assumption|right; now apply Hmono]) ].
    + unfold T in Ht. destruct (vp v) as [|b|b|b|b| | |]; destruct (vp v') as [|b'|b'|b'|b'| | |]; try contradiction; subst;
        try destruct b'; try destruct b; try discriminate; cbn in *; subst;
        first [ exact I
              | assumption
              | (destruct Hs as [He ->]; left; now apply process_eos_repo_complete)
              | (destruct Hk as [Hk|Hk]; [left; assumption|right; now apply Hmono])
              | (right; apply Hv; reflexivity) ].
Qed.

Definition CInv k kinds (c : cstate) : Prop :=
  reachable false (init k kinds) (cbase c) /\ hinv (cfailed (ch (cbase c))) (cvs (ch (cbase c))) (chs c).

Lemma CInv_step k kinds c c' : CInv k kinds c -> cstep c c' -> CInv k kinds c'.
Proof.
  intros [Hr Hi] [Hst Hh]. split; [eapply reach_step; eauto|].
  eapply hinv_step; [eapply step_T; eauto|exact Hh| | |exact Hi].
  - intros Hf. eapply cfailed_step; eauto.
  - intros Hv. destruct (F_reachable _ _ _ _ Hr) as (_ & _ & F3). eapply cfailed_step; eauto.
Qed.

Lemma CInv_reachable k kinds hs c :
  length hs = length kinds -> forallb never_closed hs = true -> creachable (cinit k kinds hs) c -> CInv k kinds c.
Proof.
  intros Hl Hn Hr. induction Hr as [|c c' _ IH Hs].
  - split; [apply reach_refl|]. unfold cinit, init; cbn. now apply hinv_fresh.
  - eapply CInv_step; eauto.
Qed.

Lemma hinv_all_done vs hs : hinv false vs hs -> Forall (fun v => vp v = VDone) vs -> Forall (fun h => all_closed_ok h = true) hs.
Proof.
  induction 1 as [|v vs h hs Hk _ IH]; intros Hd; [constructor|]. inversion Hd as [|? ? Hv Hd']; subst.
  constructor; [|now apply IH]. unfold hok in Hk. rewrite Hv in Hk. destruct Hk as [Hk|Hk]; [exact Hk|discriminate].
Qed.

(* THE COMBINED INVARIANT AT EXIT: status 0 => the reader reached end of input, every verb forwarded the end-of-stream
   marker, the writer finished, nothing failed, AND every handler of every manager of every verb closed ok *)
Theorem cexit0_all_handlers_closed k kinds hs c :
  length hs = length kinds -> forallb never_closed hs = true ->
  creachable (cinit k kinds hs) c -> mn (cbase c) = MExit false ->
  (rd (cbase c) = RDone /\ Forall (fun v => vp v = VDone) (cvs (ch (cbase c))) /\ wr (cbase c) = WDone
   /\ cfailed (ch (cbase c)) = false)
  /\ Forall (fun h => all_closed_ok h = true) (chs c).
Proof.
  intros Hl Hn Hr Hm. destruct (CInv_reachable _ _ _ _ Hl Hn Hr) as [Hb Hi].
  pose proof (exit0_implies_complete _ _ _ _ Hb Hm) as (A & B & C & D). split; [auto|].
  rewrite D in Hi. eapply hinv_all_done; eauto.
Qed.

(* contrapositive, in the words of the property: a handler whose close fails is never followed by exit status 0 *)
Corollary cfailing_close_never_exit0 k kinds hs c :
  length hs = length kinds -> forallb never_closed hs = true ->
  creachable (cinit k kinds hs) c ->
  Exists (fun h => all_closed_ok h = false) (chs c) -> mn (cbase c) <> MExit false.
Proof.
  intros Hl Hn Hr Hex Hm. destruct (cexit0_all_handlers_closed _ _ _ _ Hl Hn Hr Hm) as [_ Hall].
  apply Exists_exists in Hex as (h & Hin & Hh). rewrite Forall_forall in Hall. rewrite (Hall h Hin) in Hh. discriminate.
Qed.

(* every combined run projects onto a run of the skeleton: termination and no-deadlock carry over unchanged *)
Lemma creachable_base k kinds hs c : creachable (cinit k kinds hs) c -> reachable false (init k kinds) (cbase c).
Proof. induction 1 as [|c c' _ IH [Hs _]]; [apply reach_refl|eapply reach_step; eauto]. Qed.
