(* C17 property theorems (proofs in C04/Errors.v over the same transition system). *)
From Coq Require Import List Bool Arith.
Import ListNotations.
From Miller Require Import C04.Model C04.Search C04.Progress C04.Errors C04.Termination C17.Faults C17.Exit.

(* A failure of the reader (open/parse error), of any verb (Transform error) or of the writer (Write error),
   at any position in the stream, is never lost: whenever main exits, it returns an error.  For every chain
   length, number of batches, interleaving, and both done-flag protocols. *)
Theorem C17_error_never_lost :
  forall (blocking : bool) (k : nat) (kinds : list bool) (s : state) (r : bool),
    reachable blocking (init k kinds) s -> mn s = MExit r -> cfailed (ch s) = true -> r = true.
Proof. exact error_never_lost. Qed.
Print Assumptions C17_error_never_lost.

(* Conversely, exit status 0 implies that the reader reached end of input, every verb forwarded its
   end-of-stream marker and the writer finished, and nothing failed. *)
Theorem C17_exit0_implies_complete :
  forall (blocking : bool) (k : nat) (kinds : list bool) (s : state),
    reachable blocking (init k kinds) s -> mn s = MExit false ->
    rd s = RDone /\ Forall (fun v => vp v = VDone) (cvs (ch s)) /\ wr s = WDone /\ cfailed (ch s) = false.
Proof. exact exit0_implies_complete. Qed.
Print Assumptions C17_exit0_implies_complete.

(* a failing run still terminates (no deadlock in the repaired protocol even after failures):
   instance of C04_no_deadlock, whose transition system includes all failure steps *)
Theorem C17_terminates_under_faults :
  forall (k : nat) (kinds : list bool) (s : state),
    kinds <> [] -> reachable false (init k kinds) s -> is_final s = false -> exists s', step false s s'.
Proof. exact no_deadlock. Qed.
Print Assumptions C17_terminates_under_faults.

(* ... and every run, failing or not, ends with main exited: the transition system contains all failure steps *)
Theorem C17_every_faulty_run_terminates :
  forall (k : nat) (kinds : list bool), kinds <> [] ->
  forall s, reachable false (init k kinds) s -> exists s', reachable false s s' /\ is_final s' = true.
Proof. exact every_run_reaches_final. Qed.
Print Assumptions C17_every_faulty_run_terminates.

(* non-vacuity: a run in which a verb fails exists and ends with an error status *)
Example C17_nonvacuous :
  exists sched s, run_sched false sched (init 1 [false]) = Some s /\ cfailed (ch s) = true /\ mn s = MExit true.
Proof.
  exists [0;0;0;0;0;2;0;0;0;0;0;0;0;0].
  destruct (run_sched false [0;0;0;0;0;2;0;0;0;0;0;0;0;0] (init 1 [false])) as [s|] eqn:E.
  - exists s. split; [reflexivity|]. vm_compute in E. inversion E; subst. split; reflexivity.
  - vm_compute in E. discriminate.
Qed.

(* ------------------------------------------------------------------ fault position is irrelevant (C17/Faults.v)
   exit_code s = Some 1 / Some 0 : entrypoint.Main maps Stream's return value (main's ret) to the process status;
   stderr_nonempty : exitOnError prints "mlr: <err>" exactly when that value is an error;
   diag_pending : an error value is buffered on one of the two error channels, held by main, or held by the
   failing stage at the control point just before its post. *)

(* every chain length, number of batches, reachable state (= every schedule prefix and every position of the
   fault: reader at any batch, verb i of n at any batch incl. the end-of-stream batch, writer at any batch) in
   which some stage has failed: an error value is in flight, EVERY reachable final state exits 1 with a
   diagnostic, and such a final state IS reachable *)
Theorem C17_fault_anywhere_nonzero_exit :
  forall (k : nat) (kinds : list bool) (s : state),
    kinds <> [] -> reachable false (init k kinds) s -> cfailed (ch s) = true ->
    diag_pending s = true
    /\ (forall s', reachable false s s' -> is_final s' = true -> exit_code s' = Some 1 /\ stderr_nonempty s' = true)
    /\ (exists s', reachable false s s' /\ is_final s' = true /\ exit_code s' = Some 1 /\ stderr_nonempty s' = true).
Proof. exact fault_anywhere_nonzero_exit. Qed.
Print Assumptions C17_fault_anywhere_nonzero_exit.

Theorem C17_fault_anywhere_every_exit_nonzero :
  forall (blocking : bool) (k : nat) (kinds : list bool) (s s' : state),
    reachable blocking (init k kinds) s -> cfailed (ch s) = true ->
    reachable blocking s s' -> is_final s' = true -> exit_code s' = Some 1 /\ stderr_nonempty s' = true.
Proof. exact fault_anywhere_every_exit_nonzero. Qed.
Print Assumptions C17_fault_anywhere_every_exit_nonzero.

Theorem C17_fault_diagnostic_in_flight :
  forall (blocking : bool) (k : nat) (kinds : list bool) (s : state),
    reachable blocking (init k kinds) s -> cfailed (ch s) = true -> diag_pending s = true.
Proof. exact fault_diagnostic_in_flight. Qed.
Print Assumptions C17_fault_diagnostic_in_flight.

(* reader fault at any batch j: the fault step is enabled at every batch still to be read, and from the state
   holding the error every final state exits 1 *)
Theorem C17_reader_fault_step_enabled :
  forall (blocking : bool) (s : state) (j : nat),
    rd s = RPoll (S j) ->
    step blocking s (mkS (RErr j) (ierr s) (set_failed (ch s)) (wr s) (doneq s) (mn s)).
Proof. exact reader_fault_step_enabled. Qed.
Print Assumptions C17_reader_fault_step_enabled.

Theorem C17_reader_fault_nonzero_exit :
  forall (blocking : bool) (k : nat) (kinds : list bool) (s : state) (j : nat),
    reachable blocking (init k kinds) s -> rd s = RErr j ->
    cfailed (ch s) = true
    /\ forall s', reachable blocking s s' -> is_final s' = true -> exit_code s' = Some 1 /\ stderr_nonempty s' = true.
Proof. exact reader_fault_nonzero_exit. Qed.
Print Assumptions C17_reader_fault_nonzero_exit.

(* verb fault: stage i of the chain (any i, any chain length) is on its error path, for any batch *)
Theorem C17_verb_fault_nonzero_exit :
  forall (blocking : bool) (k : nat) (kinds : list bool) (s : state) (i : nat) (v : vstage),
    reachable blocking (init k kinds) s -> nth_error (cvs (ch s)) i = Some v -> verr_pc v = true ->
    cfailed (ch s) = true
    /\ forall s', reachable blocking s s' -> is_final s' = true -> exit_code s' = Some 1 /\ stderr_nonempty s' = true.
Proof. exact verb_fault_nonzero_exit. Qed.
Print Assumptions C17_verb_fault_nonzero_exit.

(* writer-detected data error (channel_writer.go: Write fails -> "mlr: ..." -> non-blocking post -> done):
   exit 1 on every path, also when a verb's error was posted first and the writer's post is dropped *)
Theorem C17_writer_fault_nonzero_exit :
  forall (blocking : bool) (k : nat) (kinds : list bool) (s : state),
    reachable blocking (init k kinds) s -> wr s = WErr ->
    cfailed (ch s) = true
    /\ forall s', reachable blocking s s' -> is_final s' = true -> exit_code s' = Some 1 /\ stderr_nonempty s' = true.
Proof. exact writer_fault_nonzero_exit. Qed.
Print Assumptions C17_writer_fault_nonzero_exit.

Theorem C17_faulty_run_reaches_exit1 :
  forall (k : nat) (kinds : list bool) (s : state),
    kinds <> [] -> reachable false (init k kinds) s ->
    (is_rerr (rd s) = true \/ wr s = WErr \/ existsb verr_pc (cvs (ch s)) = true) ->
    exists s', reachable false s s' /\ is_final s' = true /\ exit_code s' = Some 1.
Proof. exact faulty_run_reaches_exit1. Qed.
Print Assumptions C17_faulty_run_reaches_exit1.

(* non-vacuity witnesses (vm_compute over concrete schedules, proofs in C17/Faults.v) *)
Theorem C17_verb_fault_mid_of_3_at_eos_witness :
  exists s, reachable false (init 2 [false; false; false]) s
    /\ rd s = RDone /\ nthpc s 0 = Some VDone /\ nthpc s 1 = Some VSendE /\ nthpc s 2 = Some (VWork false)
    /\ is_final (run0 100 s) = true /\ exit_code (run0 100 s) = Some 1.
Proof. exact verb_fault_mid_of_3_at_eos. Qed.
Theorem C17_reader_fault_first_batch_witness :
  exists s, reachable false (init 3 [false]) s /\ rd s = RErr 2
    /\ is_final (run0 100 s) = true /\ exit_code (run0 100 s) = Some 1.
Proof. exact reader_fault_first_batch. Qed.
Theorem C17_writer_fault_batch_boundary_witness :
  exists s, reachable false (init 2 [false; true]) s /\ wr s = WErr /\ cerr (ch s) = false
    /\ is_final (run0 100 s) = true /\ exit_code (run0 100 s) = Some 1.
Proof. exact writer_fault_batch_boundary. Qed.
Theorem C17_writer_fault_after_verb_error_witness :
  exists s, reachable false (init 1 [false; false]) s /\ wr s = WErr /\ cerr (ch s) = true
    /\ is_final (run0 100 s) = true /\ exit_code (run0 100 s) = Some 1.
Proof. exact writer_fault_after_verb_error. Qed.

(* ------------------------------------------------------------------ process exit layer (C17/Exit.v)
   xstate wraps the C04 state with: the final bufferedOutputStream.Flush() of stream.Stream (FPending/FOk/FFailed),
   the process exit status (entrypoint: 1 iff Stream's return value is an error, after the flush error was folded
   in; or os.Exit(1) taken directly by a verb inside Transform) and whether a diagnostic was written. *)

(* exit status 0 => all input consumed, every verb forwarded end of stream, writer finished, nothing failed,
   standard output flushed successfully, nothing written to stderr by the exit path *)
Theorem C17_xexit0_complete :
  forall (blocking : bool) (k : nat) (kinds : list bool) (x : xstate),
    xreachable blocking (xinit k kinds) x -> xexit x = Some 0 ->
    (rd (base x) = RDone /\ Forall (fun v => vp v = VDone) (cvs (ch (base x))) /\ wr (base x) = WDone
     /\ cfailed (ch (base x)) = false)
    /\ xfl x = FOk /\ xdiag x = false.
Proof. exact xexit0_complete. Qed.
Print Assumptions C17_xexit0_complete.

Theorem C17_xexit_status_and_diagnostic :
  forall (blocking : bool) (k : nat) (kinds : list bool) (x : xstate) (c : nat),
    xreachable blocking (xinit k kinds) x -> xexit x = Some c -> (c = 0 /\ xdiag x = false) \/ (c = 1 /\ xdiag x = true).
Proof. exact xexit_status_and_diagnostic. Qed.
Print Assumptions C17_xexit_status_and_diagnostic.

(* after a fault of any stage, every way of exiting (main's return, failed flush, os.Exit from a verb) has status 1 *)
Theorem C17_xfault_exit_nonzero :
  forall (blocking : bool) (k : nat) (kinds : list bool) (x : xstate) (c : nat),
    xreachable blocking (xinit k kinds) x -> cfailed (ch (base x)) = true -> xexit x = Some c -> c = 1 /\ xdiag x = true.
Proof. exact xfault_exit_nonzero. Qed.
Print Assumptions C17_xfault_exit_nonzero.

Theorem C17_xflush_failure_exit_nonzero :
  forall (blocking : bool) (k : nat) (kinds : list bool) (x : xstate) (c : nat),
    xreachable blocking (xinit k kinds) x -> xfl x = FFailed -> xexit x = Some c -> c = 1 /\ xdiag x = true.
Proof. exact xflush_failure_exit_nonzero. Qed.
Print Assumptions C17_xflush_failure_exit_nonzero.

Theorem C17_xosexit_enabled :
  forall (blocking : bool) (x : xstate),
    xexit x = None -> existsb (fun v => is_work (vp v)) (cvs (ch (base x))) = true ->
    xstep blocking x (mkX (base x) (xfl x) (Some 1) true).
Proof. exact xosexit_enabled. Qed.
Print Assumptions C17_xosexit_enabled.

Theorem C17_xexit_absorbing :
  forall (blocking : bool) (x : xstate) (c : nat), xexit x = Some c -> xsuccs blocking x = [].
Proof. exact xexit_absorbing. Qed.
Print Assumptions C17_xexit_absorbing.

(* end-of-stream close of the redirected outputs (RootNode.ProcessEndOfStream as in /repo): no error returned =>
   every handler of every manager flushed and closed; any failing close is reported (=> the verb takes its
   error path VWork true -> VSendE, covered by C17_verb_fault_nonzero_exit) *)
Theorem C17_process_eos_complete :
  forall ms : list (list hstate),
    never_closed ms = true -> snd (process_eos_repo ms) = false -> all_closed_ok (fst (process_eos_repo ms)) = true.
Proof. exact process_eos_repo_complete. Qed.
Print Assumptions C17_process_eos_complete.

Theorem C17_process_eos_reports :
  forall ms : list (list hstate),
    never_closed ms = true ->
    existsb (existsb (fun h => match h with HOpen true => true | _ => false end)) ms = true ->
    snd (process_eos_repo ms) = true.
Proof. exact process_eos_repo_reports. Qed.
Print Assumptions C17_process_eos_reports.

(* the keep-only-the-last-manager's-errors variant of that loop (the seeded change C17-1) is refuted *)
Theorem C17_process_eos_keep_last_refuted :
  exists ms, never_closed ms = true /\ snd (process_eos true ms) = false
             /\ all_closed_ok (fst (process_eos true ms)) = false
             /\ snd (process_eos false ms) = true.
Proof. exact process_eos_keep_last_refuted. Qed.
Print Assumptions C17_process_eos_keep_last_refuted.

Theorem C17_xrun_clean_exit0_witness :
  exists x, xreachable false (xinit 1 [false]) x /\ xsummary x = (MExit false, false, FOk, Some 0, false).
Proof. exact xrun_clean_exit0. Qed.
Theorem C17_xrun_flush_failure_exit1_witness :
  exists x, xreachable false (xinit 1 [false]) x /\ xsummary x = (MExit false, false, FFailed, Some 1, true).
Proof. exact xrun_flush_failure_exit1. Qed.
Theorem C17_xrun_osexit_after_reader_fault_witness :
  exists x, xreachable false (xinit 2 [false]) x /\ xsummary x = (MLoop false, true, FPending, Some 1, true).
Proof. exact xrun_osexit_after_reader_fault. Qed.

(* ------------------------------------------------------------------ every process-exit site of the source (C17/ExitSites.v)
   over coq/gen/Gen_ExitSites.v, REGENERATED from the tree under check on every run: every os.Exit call, every creation
   of the lib.ExitRequest sentinel, every return of the cli.ErrUsagePrinted sentinel *)
From Coq Require Import ZArith.
From Miller Require Import C17.ExitSiteTypes gen.Gen_ExitSites C17.ExitSites C17.Combined.

Theorem C17_exit_sites_table_ok : all_exit_sites_ok = true.
Proof. exact exit_sites_table_ok. Qed.
Print Assumptions C17_exit_sites_table_ok.

(* every os.Exit site with a non-zero literal status is preceded by a write to stderr (in its block, or -- for
   exitOnError's ErrUsagePrinted case -- at every place that returns that sentinel) *)
Theorem C17_nonzero_exit_site_has_diagnostic :
  forall s c, In s exit_sites -> s_code s = Some c -> c <> 0%Z -> diag_before s = true.
Proof. exact nonzero_exit_has_diagnostic. Qed.
Print Assumptions C17_nonzero_exit_site_has_diagnostic.

(* no os.Exit(0) on an error path: the only direct exit with status 0 is the help sentinel, not under an error test *)
Theorem C17_exit0_site_only_on_help :
  forall s, In s exit_sites -> s_code s = Some 0%Z -> s_guard s = GHelp /\ s_err_test s = false.
Proof. exact exit0_only_on_help. Qed.
Print Assumptions C17_exit0_site_only_on_help.

Theorem C17_computed_status_exit_sites :
  forall s, In s exit_sites -> s_code s = None -> s_guard s = GExitRequest \/ s_guard s = GAuxent.
Proof. exact computed_status_sites. Qed.
Print Assumptions C17_computed_status_exit_sites.

Theorem C17_exit_request_nonzero_has_diagnostic :
  forall s c, In s exit_request_sites -> s_code s = Some c ->
    (c <> 0%Z -> s_stderr_before s = true) /\ (c = 0%Z -> s_err_test s = false).
Proof. exact exit_request_nonzero_has_diagnostic. Qed.
Print Assumptions C17_exit_request_nonzero_has_diagnostic.

Theorem C17_usage_printed_sentinel_is_truthful :
  forall s, In s usage_printed_sites -> s_stderr_before s = true.
Proof. exact usage_printed_sentinel_is_truthful. Qed.
Print Assumptions C17_usage_printed_sentinel_is_truthful.

(* ------------------------------------------------------------------ ONE combined transition system (C17/Combined.v):
   skeleton steps (all failure steps included) + ProcessEndOfStream on the handlers of the verb that handles the
   end-of-stream marker.  Exit status 0 => reader at end of input, every verb forwarded the marker, writer finished,
   nothing failed, AND every handler of every manager of every verb was flushed and closed successfully -- for every
   chain length, number of batches, handler configuration, interleaving and fault. *)
Theorem C17_combined_exit0_all_handlers_closed :
  forall (k : nat) (kinds : list bool) (hs : list hset) (c : cstate),
    length hs = length kinds -> forallb never_closed hs = true ->
    creachable (cinit k kinds hs) c -> mn (cbase c) = MExit false ->
    (rd (cbase c) = RDone /\ Forall (fun v => vp v = VDone) (cvs (ch (cbase c))) /\ wr (cbase c) = WDone
     /\ cfailed (ch (cbase c)) = false)
    /\ Forall (fun h => all_closed_ok h = true) (chs c).
Proof. exact cexit0_all_handlers_closed. Qed.
Print Assumptions C17_combined_exit0_all_handlers_closed.

Theorem C17_combined_failing_close_never_exit0 :
  forall (k : nat) (kinds : list bool) (hs : list hset) (c : cstate),
    length hs = length kinds -> forallb never_closed hs = true ->
    creachable (cinit k kinds hs) c ->
    Exists (fun h => all_closed_ok h = false) (chs c) -> mn (cbase c) <> MExit false.
Proof. exact cfailing_close_never_exit0. Qed.
Print Assumptions C17_combined_failing_close_never_exit0.

(* the combined system refines the skeleton: its runs are skeleton runs (termination / no deadlock carry over) *)
Theorem C17_combined_projects_to_skeleton :
  forall (k : nat) (kinds : list bool) (hs : list hset) (c : cstate),
    creachable (cinit k kinds hs) c -> reachable false (init k kinds) (cbase c).
Proof. exact creachable_base. Qed.
Print Assumptions C17_combined_projects_to_skeleton.

(* non-vacuity: the hypotheses are satisfiable and the combined system moves (first step: the reader polls) *)
Example C17_combined_nonvacuous :
  let hs := [[[HOpen false; HOpen true]; [HOpen false]]] in
  length hs = length [false] /\ forallb never_closed hs = true /\
  exists c', cstep (cinit 1 [false] hs) c'.
Proof.
  cbv zeta. split; [reflexivity|]. split; [reflexivity|].
  exists (mkCS (mkS (RSending 1) false (mkC 0 false false [fresh_verb false] []) WRecv false (MLoop false))
               [[[HOpen false; HOpen true]; [HOpen false]]]).
  split; [unfold step; cbn; now left|]. cbn. constructor; [reflexivity|constructor].
Qed.
