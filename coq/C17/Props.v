(* C17 property theorems (proofs in C04/Errors.v over the same transition system). *)
From Coq Require Import List Bool Arith.
Import ListNotations.
From Miller Require Import C04.Model C04.Search C04.Progress C04.Errors C04.Termination.

(* A failure of the reader (open/parse error), of any verb (Transform error) or of the writer (Write error),
   at any position in the stream, is never lost: whenever main exits, it returns an error.  For every chain
   length, number of batches, interleaving, and both done-flag protocols. *)
Theorem C17_error_never_lost :
  forall (blocking : bool) (k : nat) (kinds : list bool) (s : state) (r : bool),
    reachable blocking (init k kinds) s -> mn s = MExit r -> cfailed (ch s) = true -> r = true.
Proof. exact error_never_lost. Qed.
Print Assumptions C17_error_never_lost.

(* Conversely, exit status 0 implies that the reader reached end of input, every verb forwarded its
   end-of-stream marker and the writer finished, and nothing failed. *)
Theorem C17_exit0_implies_complete :
  forall (blocking : bool) (k : nat) (kinds : list bool) (s : state),
    reachable blocking (init k kinds) s -> mn s = MExit false ->
    rd s = RDone /\ Forall (fun v => vp v = VDone) (cvs (ch s)) /\ wr s = WDone /\ cfailed (ch s) = false.
Proof. exact exit0_implies_complete. Qed.
Print Assumptions C17_exit0_implies_complete.

(* a failing run still terminates (no deadlock in the repaired protocol even after failures):
   instance of C04_no_deadlock, whose transition system includes all failure steps *)
Theorem C17_terminates_under_faults :
  forall (k : nat) (kinds : list bool) (s : state),
    kinds <> [] -> reachable false (init k kinds) s -> is_final s = false -> exists s', step false s s'.
Proof. exact no_deadlock. Qed.
Print Assumptions C17_terminates_under_faults.

(* ... and every run, failing or not, ends with main exited: the transition system contains all failure steps *)
Theorem C17_every_faulty_run_terminates :
  forall (k : nat) (kinds : list bool), kinds <> [] ->
  forall s, reachable false (init k kinds) s -> exists s', reachable false s s' /\ is_final s' = true.
Proof. exact every_run_reaches_final. Qed.
Print Assumptions C17_every_faulty_run_terminates.

(* non-vacuity: a run in which a verb fails exists and ends with an error status *)
Example C17_nonvacuous :
  exists sched s, run_sched false sched (init 1 [false]) = Some s /\ cfailed (ch s) = true /\ mn s = MExit true.
Proof.
  exists [0;0;0;0;0;2;0;0;0;0;0;0;0;0].
  destruct (run_sched false [0;0;0;0;0;2;0;0;0;0;0;0;0;0] (init 1 [false])) as [s|] eqn:E.
  - exists s. split; [reflexivity|]. vm_compute in E. inversion E; subst. split; reflexivity.
  - vm_compute in E. discriminate.
Qed.
