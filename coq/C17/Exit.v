(* C17, process exit layer on top of the C04 transition system (which is not modified):
   (1) RootNode.ProcessEndOfStream (pkg/dsl/cst/root.go) + MultiOutputHandlerManager.Close
       (pkg/output/file_output_handlers.go): the end-of-stream close of the redirected outputs of a put/filter verb,
       as a function on handler states; its error result is the verb's Transform error for the end-of-stream
       batch (put_or_filter.go: `if err := ProcessEndOfStream(); err != nil { return err }`), i.e. the skeleton's
       step VWork true -> VSendE;
   (2) stream.Stream after the two drains: bufferedOutputStream.Flush() may fail, then retval = that error if
       retval was nil;
   (3) entrypoint.Main / exitOnError: exit status 1 and a diagnostic iff retval <> nil;
   (4) os.Exit(1) taken directly from the verb goroutine (asserting_* built-ins, type-gate failures) after a
       diagnostic was written: possible whenever some verb is inside Transform (VWork). *)
From Coq Require Import List Bool Arith Lia.
Import ListNotations.
From Miller Require Import C04.Model C04.Search C04.Progress C04.Errors C04.Termination C17.Faults.

(* ------------------------------------------------------------------ (1) end-of-stream close *)
(* a redirected-output handler: open (with the outcome its flush/close will have), closed, or failed on close *)
Inductive hstate := HOpen (will_fail : bool) | HClosedOk | HCloseFailed.

Definition is_failed (h : hstate) : bool := match h with HCloseFailed => true | _ => false end.
Definition is_closed_ok (h : hstate) : bool := match h with HClosedOk => true | _ => false end.

(* FileOutputHandler.Close *)
Definition close_handler (h : hstate) : hstate :=
  match h with HOpen false => HClosedOk | HOpen true => HCloseFailed | _ => h end.

(* MultiOutputHandlerManager.Close: every handler is closed, every error is appended to errs *)
Definition mgr_close (m : list hstate) : list hstate * bool :=
  let m' := map close_handler m in (m', existsb is_failed m').

(* RootNode.ProcessEndOfStream as in /repo: returns at the first manager whose Close reported errors
   (the managers after it stay open; the error is returned) *)
Fixpoint process_eos_repo (ms : list (list hstate)) : list (list hstate) * bool :=
  match ms with
  | [] => ([], false)
  | m :: rest =>
      let '(m', e) := mgr_close m in
      if e then (m' :: rest, true)
      else let '(rest', e') := process_eos_repo rest in (m' :: rest', e')
  end.

(* the variant that closes every manager but keeps only the errors of the last one (`errs = mgr.Close()`) *)
Fixpoint process_eos_last (ms : list (list hstate)) (errs : bool) : list (list hstate) * bool :=
  match ms with
  | [] => ([], errs)
  | m :: rest =>
      let '(m', e) := mgr_close m in
      let '(rest', e') := process_eos_last rest e in (m' :: rest', e')
  end.

Definition process_eos (keep_last : bool) (ms : list (list hstate)) : list (list hstate) * bool :=
  if keep_last then process_eos_last ms false else process_eos_repo ms.

Definition all_closed_ok (ms : list (list hstate)) : bool := forallb (forallb is_closed_ok) ms.
Definition never_closed (ms : list (list hstate)) : bool :=
  forallb (forallb (fun h => match h with HOpen _ => true | _ => false end)) ms.

Lemma mgr_close_ok m : never_closed [m] = true -> snd (mgr_close m) = false -> forallb is_closed_ok (fst (mgr_close m)) = true.
Proof.
  unfold mgr_close, never_closed; cbn. rewrite andb_true_r.
  induction m as [|h m IH]; cbn; [reflexivity|]. intros Ho He.
  apply andb_true_iff in Ho as [Hh Hm]. apply orb_false_iff in He as [E1 E2].
  rewrite (IH Hm E2), andb_true_r. destruct h as [[|]| |]; cbn in *; try discriminate; reflexivity.
Qed.

(* no error returned => every handler of every manager was flushed and closed successfully *)
Theorem process_eos_repo_complete ms :
  never_closed ms = true -> snd (process_eos_repo ms) = false -> all_closed_ok (fst (process_eos_repo ms)) = true.
Proof.
  induction ms as [|m rest IH]; cbn [process_eos_repo]; [reflexivity|]. intros Ho.
  assert (Hm : never_closed [m] = true /\ never_closed rest = true).
  { unfold never_closed in *; cbn in *. apply andb_true_iff in Ho as [A B]. rewrite A, B. auto. }
  destruct Hm as [Hm Hr].
  pose proof (mgr_close_ok m Hm) as Hc. destruct (mgr_close m) as [m' e]. cbn in Hc.
  destruct e; [cbn; discriminate|].
  specialize (IH Hr). destruct (process_eos_repo rest) as [rest' e']. cbn in *. intros He.
  rewrite (Hc eq_refl), (IH He). reflexivity.
Qed.

(* a failing close of any handler of any manager is reported *)
Theorem process_eos_repo_reports ms :
  never_closed ms = true -> existsb (existsb (fun h => match h with HOpen true => true | _ => false end)) ms = true ->
  snd (process_eos_repo ms) = true.
Proof.
  intros Ho Hex. destruct (snd (process_eos_repo ms)) eqn:E; [reflexivity|exfalso].
  pose proof (process_eos_repo_complete ms Ho E) as Hall. clear Ho.
  revert Hex Hall E. induction ms as [|m rest IH]; cbn [process_eos_repo existsb]; [discriminate|].
  intros Hex. unfold mgr_close.
  destruct (existsb is_failed (map close_handler m)) eqn:Ef; [cbn; discriminate|].
  destruct (process_eos_repo rest) as [rest' e'] eqn:Er. cbn. intros Hall He.
  apply andb_true_iff in Hall as [Hm Hrest].
  apply orb_true_iff in Hex as [Hex|Hex]; [|apply IH; auto].
  clear - Hex Ef. induction m as [|h m IHm]; cbn in *; [discriminate|].
  apply orb_false_iff in Ef as [E1 E2]. apply orb_true_iff in Hex as [H|H]; [|auto].
  destruct h as [[|]| |]; cbn in *; discriminate.
Qed.

(* the keep-only-the-last-errors variant loses a failure: the statement above is false of it *)
Theorem process_eos_keep_last_refuted :
  exists ms, never_closed ms = true /\ snd (process_eos true ms) = false
             /\ all_closed_ok (fst (process_eos true ms)) = false
             /\ snd (process_eos false ms) = true.
Proof. exists [[HOpen true]; [HOpen false]]. vm_compute. auto. Qed.

(* ------------------------------------------------------------------ (2)-(4) flush, exit status, os.Exit *)
Inductive fstate := FPending | FOk | FFailed.

Record xstate := mkX {
  base : state;             (* the C04 transition system *)
  xfl : fstate;             (* bufferedOutputStream.Flush() at the end of stream.Stream *)
  xexit : option nat;       (* the process has exited with this status *)
  xdiag : bool              (* a diagnostic was written to stderr by the exit path *)
}.

Definition is_work (p : vpc) : bool := match p with VWork _ => true | _ => false end.


Lemma final_step blocking s s' : step blocking s s' -> is_final s = true -> is_final s' = true.
Proof.
  intros Hst Hf. unfold step, succs in Hst. rewrite !in_app_iff in Hst.
  destruct s as [r ie c w dq m]; unfold is_final in *; cbn in *. destruct m as [rr|rr|rr|rr]; try discriminate.
  destruct Hst as [Hst|[Hst|[Hst|Hst]]].
  - unfold reader_steps in Hst; cbn in Hst. destruct r as [k|k|k|].
    + rewrite in_app_iff in Hst. destruct Hst as [Hst|Hst].
      * dif Hst; destruct Hst as [<-|[]]; reflexivity.
      * destruct k; [destruct Hst|]. destruct Hst as [<-|[]]; reflexivity.
    + destruct (push_first c (k =? 0)); [|destruct Hst]. destruct Hst as [<-|[]]. reflexivity.
    + destruct ie; [destruct Hst|]. destruct Hst as [<-|[]]; reflexivity.
    + destruct Hst.
  - apply in_map_iff in Hst as (c' & <- & Hin). reflexivity.
  - unfold writer_steps in Hst; cbn in Hst. destruct w.
    + destruct (cwq c); [destruct Hst|]. destruct Hst as [<-|[<-|[]]]; reflexivity.
    + destruct Hst as [<-|[]]; reflexivity.
    + destruct Hst as [<-|[]]; reflexivity.
    + destruct Hst.
  - destruct Hst.
Qed.

Section Ext.
  Variable blocking : bool.

  Definition xsuccs (x : xstate) : list xstate :=
    match xexit x with
    | Some _ => []          (* exited: absorbing *)
    | None =>
        map (fun s' => mkX s' (xfl x) None false) (succs blocking (base x))
        ++ (match mn (base x), xfl x with
            | MExit _, FPending => [mkX (base x) FOk None false; mkX (base x) FFailed None false]
            | MExit r, FOk => [mkX (base x) FOk (Some (if r then 1 else 0)) r]     (* exitOnError / normal return *)
            | MExit _, FFailed => [mkX (base x) FFailed (Some 1) true]             (* retval = the flush error *)
            | _, _ => []
            end)
        ++ (if existsb (fun v => is_work (vp v)) (cvs (ch (base x)))
            then [mkX (base x) (xfl x) (Some 1) true]                             (* fmt.Fprintf(os.Stderr, ...); os.Exit(1) *)
            else [])
    end.

  Definition xstep (x x' : xstate) : Prop := In x' (xsuccs x).

  Inductive xreachable (x0 : xstate) : xstate -> Prop :=
  | xreach_refl : xreachable x0 x0
  | xreach_step x x' : xreachable x0 x -> xstep x x' -> xreachable x0 x'.

  Definition xinit (k : nat) (kinds : list bool) : xstate := mkX (init k kinds) FPending None false.

  Definition XI k kinds (x : xstate) : Prop :=
    reachable blocking (init k kinds) (base x)
    /\ (xfl x <> FPending -> is_final (base x) = true)
    /\ (forall c, xexit x = Some c ->
          (c = 0 /\ mn (base x) = MExit false /\ xfl x = FOk /\ xdiag x = false) \/ (c = 1 /\ xdiag x = true)).

  Lemma XI_step k kinds x x' : XI k kinds x -> xstep x x' -> XI k kinds x'.
  Proof.
    intros (Hr & Hfl & Hex) Hst. unfold xstep, xsuccs in Hst.
    destruct (xexit x) as [c|] eqn:Hx; [destruct Hst|].
    rewrite !in_app_iff in Hst. destruct Hst as [Hst|[Hst|Hst]].
    - apply in_map_iff in Hst as (s' & <- & Hin). unfold XI; cbn. split; [eapply reach_step; eauto|]. split.
      + intros Hne. eapply final_step; eauto.
      + intros c Hc. discriminate.
    - destruct (mn (base x)) as [r|r|r|r] eqn:Hm; try destruct Hst.
      destruct (xfl x) eqn:Hf.
      + destruct Hst as [<-|[<-|[]]]; unfold XI; cbn; repeat split; auto; try discriminate;
          try (intros _; unfold is_final; rewrite Hm; reflexivity).
      + destruct Hst as [<-|[]]. unfold XI; cbn. split; [exact Hr|]. split; [intros _; unfold is_final; rewrite Hm; reflexivity|].
        intros c Hc. inversion Hc; subst c. destruct r; [right|left]; auto.
      + destruct Hst as [<-|[]]. unfold XI; cbn. split; [exact Hr|]. split; [intros _; unfold is_final; rewrite Hm; reflexivity|].
        intros c Hc. inversion Hc; subst c. right; auto.
    - destruct (existsb _ _); [|destruct Hst]. destruct Hst as [<-|[]]. unfold XI; cbn. split; [exact Hr|]. split; [exact Hfl|].
      intros c Hc. inversion Hc; subst c. right; auto.
  Qed.

  Lemma XI_init k kinds : XI k kinds (xinit k kinds).
  Proof. unfold XI, xinit; cbn. split; [apply reach_refl|]. split; [intros H; now elim H|discriminate]. Qed.

  Lemma XI_reachable k kinds x : xreachable (xinit k kinds) x -> XI k kinds x.
  Proof. intros Hr. induction Hr; [apply XI_init|eapply XI_step; eauto]. Qed.

  (* exit status 0 => all input consumed, every stage finished, nothing failed, stdout flushed, nothing on stderr *)
  Theorem xexit0_complete k kinds x :
    xreachable (xinit k kinds) x -> xexit x = Some 0 ->
    (rd (base x) = RDone /\ Forall (fun v => vp v = VDone) (cvs (ch (base x))) /\ wr (base x) = WDone
     /\ cfailed (ch (base x)) = false)
    /\ xfl x = FOk /\ xdiag x = false.
  Proof.
    intros Hr Hx. destruct (XI_reachable _ _ _ Hr) as (Hb & _ & Hex).
    destruct (Hex 0 Hx) as [(_ & Hm & Hf & Hd)|(Hc & _)]; [|discriminate].
    split; [eapply exit0_implies_complete; eauto|auto].
  Qed.

  (* every exit has status 0 or 1, and status 1 comes with a diagnostic *)
  Theorem xexit_status_and_diagnostic k kinds x c :
    xreachable (xinit k kinds) x -> xexit x = Some c -> (c = 0 /\ xdiag x = false) \/ (c = 1 /\ xdiag x = true).
  Proof.
    intros Hr Hx. destruct (XI_reachable _ _ _ Hr) as (_ & _ & Hex).
    destruct (Hex c Hx) as [(A & _ & _ & D)|(A & D)]; auto.
  Qed.

  (* a fault of any stage at any position: whichever way the process exits (main's return, a flush failure,
     os.Exit from a verb), the status is 1 and a diagnostic was written *)
  Theorem xfault_exit_nonzero k kinds x c :
    xreachable (xinit k kinds) x -> cfailed (ch (base x)) = true -> xexit x = Some c -> c = 1 /\ xdiag x = true.
  Proof.
    intros Hr Hf Hx. destruct (XI_reachable _ _ _ Hr) as (Hb & _ & Hex).
    destruct (Hex c Hx) as [(_ & Hm & _ & _)|(A & D)]; [|auto].
    pose proof (error_never_lost _ _ _ _ _ Hb Hm Hf). discriminate.
  Qed.

  (* a failed final flush of standard output *)
  Theorem xflush_failure_exit_nonzero k kinds x c :
    xreachable (xinit k kinds) x -> xfl x = FFailed -> xexit x = Some c -> c = 1 /\ xdiag x = true.
  Proof.
    intros Hr Hf Hx. destruct (XI_reachable _ _ _ Hr) as (_ & _ & Hex).
    destruct (Hex c Hx) as [(_ & _ & Hok & _)|(A & D)]; [congruence|auto].
  Qed.

  (* os.Exit(1) from the verb goroutine is enabled whenever a verb is inside Transform, and exiting is absorbing *)
  Theorem xosexit_enabled x :
    xexit x = None -> existsb (fun v => is_work (vp v)) (cvs (ch (base x))) = true ->
    xstep x (mkX (base x) (xfl x) (Some 1) true).
  Proof.
    intros Hx Hw. unfold xstep, xsuccs. rewrite Hx, Hw. apply in_or_app. right. apply in_or_app. right. now left.
  Qed.

  Theorem xexit_absorbing x c : xexit x = Some c -> xsuccs x = [].
  Proof. intros Hx. unfold xsuccs. now rewrite Hx. Qed.
End Ext.

(* follow a schedule in the extended system *)
Fixpoint xrun_sched (blocking : bool) (sched : list nat) (x : xstate) : option xstate :=
  match sched with
  | [] => Some x
  | n :: rest => match nth_error (xsuccs blocking x) n with
                 | Some x' => xrun_sched blocking rest x'
                 | None => None
                 end
  end.

Lemma xrun_sched_reachable blocking sched : forall x0 x x',
  xreachable blocking x0 x -> xrun_sched blocking sched x = Some x' -> xreachable blocking x0 x'.
Proof.
  induction sched as [|n rest IH]; intros x0 x x' Hr H; cbn in H.
  - now inversion H; subst.
  - destruct (nth_error (xsuccs blocking x) n) as [x1|] eqn:E; [|discriminate].
    eapply IH; [|exact H]. eapply xreach_step; [exact Hr|]. unfold xstep. eapply nth_error_In; eauto.
Qed.

Definition xsummary (x : xstate) := (mn (base x), cfailed (ch (base x)), xfl x, xexit x, xdiag x).

(* ------------------------------------------------------------------ non-vacuity *)
Ltac xrun_witness sched st :=
  let E := fresh "E" in
  destruct (xrun_sched false sched st) as [x|] eqn:E; [|vm_compute in E; discriminate];
  exists x; split; [eapply xrun_sched_reachable; [apply xreach_refl|exact E]|];
  vm_compute in E; inversion E; subst; vm_compute; auto 10.

(* a fault-free run: flush succeeds, exit 0, nothing on stderr *)
Example xrun_clean_exit0 :
  exists x, xreachable false (xinit 1 [false]) x /\ xsummary x = (MExit false, false, FOk, Some 0, false).
Proof. xrun_witness (repeat 0 20) (xinit 1 [false]). Qed.

(* nothing failed inside the stream but the final flush of standard output fails: exit 1 with a diagnostic *)
Example xrun_flush_failure_exit1 :
  exists x, xreachable false (xinit 1 [false]) x /\ xsummary x = (MExit false, false, FFailed, Some 1, true).
Proof. xrun_witness (repeat 0 18 ++ [1; 0]) (xinit 1 [false]). Qed.

(* the reader has failed (its error is still on its way to main) and then a verb exits the process directly *)
Example xrun_osexit_after_reader_fault :
  exists x, xreachable false (xinit 2 [false]) x /\ xsummary x = (MLoop false, true, FPending, Some 1, true).
Proof. xrun_witness ([1] ++ repeat 0 6 ++ [4]) (xinit 2 [false]). Qed.
