(* C17: the row type of the regenerated table of process-exit sites (coq/gen/Gen_ExitSites.v). *)
From Coq Require Import List String ZArith Bool.
Import ListNotations.

(* the condition guarding the block the site is in (the line that opens the enclosing block) *)
Inductive guard :=
| GHelp            (* errors.Is(err, cli.ErrHelpRequested): -h/--help, usage printed to stdout on request *)
| GUsagePrinted    (* errors.Is(err, cli.ErrUsagePrinted): the usage was printed to stderr where the sentinel was returned *)
| GExitRequest     (* errors.As(err, &exitRequest): exit with the code of a lib.ExitRequest sentinel *)
| GAuxent          (* auxents.Dispatch: `mlr lecat`, `mlr repl`, ...: the auxiliary entry point's own status *)
| GErrTest         (* an err != nil / !ok / == nil test *)
| GOther.

Record site := mkSite {
  s_file : string;
  s_func : string;
  s_line : nat;
  s_code : option Z;          (* the exit-code literal; None = an expression *)
  s_stderr_before : bool;     (* a write to os.Stderr precedes the site in the same block *)
  s_stdout_before : bool;     (* a print to stdout precedes the site in the same block *)
  s_guard : guard;
  s_err_test : bool           (* the guarding condition is an `err != nil` test *)
}.
