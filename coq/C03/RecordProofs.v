(* C03 record level: fields outside a program's write set keep key, bytes and relative order. *)
From Miller Require Import Base.Bytes Base.Record C06.Model C03.Model C03.Proofs.
Open Scope Z_scope.

Section RecordProofs.
  Variable inferrer : bytes -> ival.
  Variable W : list bytes.

  Definition kt (kv : bytes * mlrval) : bytes * bytes := (fst kv, text (snd kv)).
  Definition good (r : mrecord) : Prop := Forall (fun kv => valid (snd kv) = true) r.
  Definition keeps (f : mlrval -> mlrval) : Prop :=
    forall v, valid v = true -> text (f v) = text v /\ valid (f v) = true.

  Lemma uops_keep us : keeps (apply_uops inferrer None us).
  Proof.
    induction us as [|u t IH]; intros v Hv; cbn [apply_uops]; [auto|].
    pose proof (inv_uop inferrer None u (text v) v (or_introl eq_refl) (conj eq_refl Hv)) as [H1 H2].
    destruct (IH _ H2) as [H3 H4]. split; [congruence|exact H4].
  Qed.

  Lemma mupdate_keeps k f r : keeps f -> good r -> map kt (mupdate k f r) = map kt r /\ good (mupdate k f r).
  Proof.
    intros Hf. induction r as [|[k' v'] r IH]; intros Hg; cbn; [split; [reflexivity|constructor]|].
    inversion Hg as [|? ? Hv Hr]; subst. cbn in Hv. destruct (IH Hr) as [IH1 IH2].
    destruct (beqb k k'); cbn.
    - destruct (Hf v' Hv) as [H1 H2]. split; [unfold kt at 1; cbn; now rewrite H1|constructor; auto].
    - split; [now rewrite IH1|constructor; auto].
  Qed.

  Lemma mupdate_const k v v2 r :
    mget k r = Some v -> text v2 = text v -> valid v2 = true -> good r ->
    map kt (mupdate k (fun _ => v2) r) = map kt r /\ good (mupdate k (fun _ => v2) r).
  Proof.
    intros Hg Ht Hv. induction r as [|[k' v'] r IH]; intros Hgood; cbn in *; [discriminate|].
    inversion Hgood as [|? ? Hv' Hr]; subst. destruct (beqb k k'); cbn.
    - injection Hg as ->. split; [unfold kt at 1 3; cbn; now rewrite Ht|constructor; auto].
    - destruct (IH Hg Hr) as [IH1 IH2]. split; [now rewrite IH1|constructor; auto].
  Qed.

  Lemma mget_good k v r : good r -> mget k r = Some v -> valid v = true.
  Proof.
    induction r as [|[k' v'] r IH]; intros Hg H; cbn in *; [discriminate|].
    inversion Hg as [|? ? Hv Hr]; subst. destruct (beqb k k'); [injection H as <-; exact Hv|auto].
  Qed.

  Notation out := (outside W).

  Lemma out_mput k v r : mem k W = true -> out (map kt (mput k v r)) = out (map kt r).
  Proof.
    intros Hk. unfold outside. induction r as [|[k' v'] r IH]; cbn.
    - now rewrite Hk.
    - destruct (beqb_spec k k') as [<-|Hne]; cbn.
      + now rewrite Hk.
      + now rewrite IH.
  Qed.

  Lemma good_mput k v r : valid v = true -> good r -> good (mput k v r).
  Proof.
    intros Hv. induction r as [|[k' v'] r IH]; intros Hg; cbn.
    - constructor; auto.
    - inversion Hg as [|? ? Hv' Hr]; subst. destruct (beqb k k'); constructor; cbn in *; auto. now apply IH.
  Qed.

  Lemma out_mremove k r : mem k W = true -> out (map kt (mremove k r)) = out (map kt r).
  Proof.
    intros Hk. unfold outside. induction r as [|[k' v'] r IH]; cbn; [reflexivity|].
    destruct (beqb_spec k k') as [<-|Hne]; cbn.
    - now rewrite Hk.
    - now rewrite IH.
  Qed.

  Lemma good_mremove k r : good r -> good (mremove k r).
  Proof.
    induction r as [|[k' v'] r IH]; intros Hg; cbn; [constructor|].
    inversion Hg as [|? ? Hv Hr]; subst. destruct (beqb k k'); [exact Hr|constructor; [exact Hv|now apply IH]].
  Qed.

  Lemma out_rename_key old new r :
    mem old W = true -> mem new W = true -> out (map kt (rename_key old new r)) = out (map kt r).
  Proof.
    intros Ho Hn. unfold outside. induction r as [|[k v] r IH]; cbn; [reflexivity|].
    destruct (beqb_spec k old) as [->|Hne]; cbn.
    - now rewrite Ho, Hn.
    - now rewrite IH.
  Qed.

  Lemma good_rename_key old new r : good r -> good (rename_key old new r).
  Proof.
    induction r as [|[k v] r IH]; intros Hg; cbn; [constructor|].
    inversion Hg as [|? ? Hv Hr]; subst. destruct (beqb k old); constructor; [exact Hv|exact Hr|exact Hv|now apply IH].
  Qed.

  Lemma out_mrename old new r :
    mem old W = true -> mem new W = true -> out (map kt (mrename old new r)) = out (map kt r).
  Proof.
    intros Ho Hn. unfold mrename. destruct (mget old r) as [v|]; [|reflexivity].
    destruct (beqb old new); [reflexivity|]. destruct (mhas new r).
    - now rewrite out_mremove, out_mput.
    - now apply out_rename_key.
  Qed.

  Lemma good_mrename old new r : good r -> good (mrename old new r).
  Proof.
    intros Hg. unfold mrename. destruct (mget old r) as [v|] eqn:E; [|exact Hg].
    destruct (beqb old new); [exact Hg|]. destruct (mhas new r).
    - apply good_mremove, good_mput; [eapply mget_good; eauto|exact Hg].
    - now apply good_rename_key.
  Qed.

  Lemma derive_keeps d : forall v, valid v = true ->
    text (fst (derive_val inferrer None d v)) = text v /\ valid (fst (derive_val inferrer None d v)) = true.
  Proof.
    intros v Hv. pose proof (conj eq_refl Hv : Inv (text v) v) as Hi.
    pose proof (inv_force inferrer _ _ Hi) as Hf.
    destruct d; cbn [derive_val fst]; auto.
    - pose proof (inv_string_op inferrer None _ _ Hf) as H. destruct (string_op inferrer None (force inferrer v)); exact H.
    - pose proof (inv_string_op inferrer None _ _ Hi) as H. destruct (string_op inferrer None v); exact H.
  Qed.

  Definition anys_in_W (anys : anyset) : Prop := forall k, In k anys -> mem k W = true.

  Lemma anys_filter p anys : anys_in_W anys -> anys_in_W (List.filter p anys).
  Proof. intros H k Hk. apply filter_In in Hk. now apply H. Qed.

  Definition StInv (r0 : record) (st : mrecord * anyset) : Prop :=
    good (fst st) /\ anys_in_W (snd st) /\ out (map kt (fst st)) = out r0.

  Lemma fresh_valid s : valid (fresh s) = true.
  Proof. reflexivity. Qed.

  Lemma step_inv r0 a st :
    (forall k, In k (writes a ++ moves a) -> mem k W = true) -> StInv r0 st -> StInv r0 (apply_ract inferrer None a st).
  Proof.
    intros Hw [Hg [Ha Ho]]. destruct st as [r anys]. cbn [fst snd] in *.
    destruct a; cbn [apply_ract writes moves app] in *.
    - (* RRead *)
      destruct (mupdate_keeps k _ r (uops_keep us) Hg) as [H1 H2]. repeat split; cbn [fst snd]; auto. now rewrite H1.
    - (* RDerive *)
      assert (Hn : mem new W = true) by (apply Hw; now left).
      destruct (mget k r) as [v|] eqn:Eg; [|repeat split; auto].
      pose proof (mget_good _ _ _ Hg Eg) as Hv.
      destruct (uops_keep us v Hv) as [Ht1 Hv1].
      destruct (derive_keeps d _ Hv1) as [Ht2 Hv2].
      destruct (derive_val inferrer None d (apply_uops inferrer None us v)) as [v2 nv0]. cbn [fst] in *.
      destruct (mupdate_const k v v2 r Eg (eq_trans Ht2 Ht1) Hv2 Hg) as [H1 H2].
      destruct (if mem k anys then match d with DConst s => NKnown s | _ => NAny end else nv0) as [s|]; repeat split; cbn [fst snd].
      + apply good_mput; auto.
      + now apply anys_filter.
      + rewrite out_mput by exact Hn. now rewrite H1.
      + apply good_mput; auto.
      + intros k' [<-|Hk']; auto.
      + rewrite out_mput by exact Hn. now rewrite H1.
    - (* RPut *)
      assert (Hn : mem k W = true) by (apply Hw; now left).
      repeat split; cbn [fst snd].
      + apply good_mput; auto.
      + now apply anys_filter.
      + now rewrite out_mput.
    - (* RRemove *)
      assert (Hn : mem k W = true) by (apply Hw; now left).
      repeat split; cbn [fst snd]; [now apply good_mremove|exact Ha|now rewrite out_mremove].
    - (* RRename *)
      assert (Hn1 : mem old W = true) by (apply Hw; now left).
      assert (Hn2 : mem new W = true) by (apply Hw; right; now left).
      repeat split; cbn [fst snd]; [now apply good_mrename| |now rewrite out_mrename].
      destruct (mhas old r && negb (beqb old new)); [|exact Ha].
      destruct (mem old anys).
      * intros k' [<-|Hk']; [exact Hn2|]. apply filter_In in Hk'. now apply Ha.
      * now apply anys_filter.
    - (* RMoveToHead *)
      assert (Hn : mem k W = true) by (apply Hw; now left).
      destruct (mget k r) as [v|] eqn:Eg; [|repeat split; auto].
      repeat split; cbn [fst snd]; auto.
      + constructor; [exact (mget_good _ _ _ Hg Eg)|now apply good_mremove].
      + rewrite <- Ho, <- (out_mremove k r Hn). unfold outside. cbn. now rewrite Hn.
    - (* RMoveToTail *)
      assert (Hn : mem k W = true) by (apply Hw; now left).
      destruct (mget k r) as [v|] eqn:Eg; [|repeat split; auto].
      repeat split; cbn [fst snd]; auto.
      + apply Forall_app. split; [now apply good_mremove|]. constructor; [exact (mget_good _ _ _ Hg Eg)|constructor].
      + rewrite <- Ho, <- (out_mremove k r Hn). rewrite map_app. unfold outside. rewrite filter_app. cbn. rewrite Hn. cbn.
        now rewrite app_nil_r.
  Qed.

  Lemma steps_inv r0 prog : forall st,
    (forall a, In a prog -> forall k, In k (writes a ++ moves a) -> mem k W = true) ->
    StInv r0 st -> StInv r0 (apply_racts inferrer None prog st).
  Proof.
    induction prog as [|a t IH]; intros st Hw H; cbn [apply_racts]; [exact H|].
    apply IH; [intros a' Ha'; apply Hw; now right|]. apply step_inv; [apply Hw; now left|exact H].
  Qed.

  Lemma read_record_inv r : StInv r (read_record r, []).
  Proof.
    repeat split; cbn [fst snd].
    - unfold read_record. apply Forall_forall. intros kv Hkv. apply in_map_iff in Hkv. destruct Hkv as (x & <- & _). reflexivity.
    - intros k [].
    - f_equal. unfold read_record. rewrite map_map. cbn. rewrite <- (map_id r) at 2. apply map_ext. now intros [k v].
  Qed.

  Lemma write_record_out r anys :
    good r -> anys_in_W anys ->
    out (write_record inferrer None (r, anys)) = map known_cell (out (map kt r)).
  Proof.
    intros Hg Ha. unfold write_record, outside. cbn [fst snd].
    induction r as [|[k v] r IH]; cbn [map filter fst snd kt]; [reflexivity|].
    inversion Hg as [|? ? Hv Hr]; subst. cbn in Hv. destruct (mem k W) eqn:Ek; cbn [negb].
    - now apply IH.
    - cbn [map]. rewrite IH by exact Hr. f_equal. unfold known_cell; cbn [fst snd]. f_equal.
      destruct (mem k anys) eqn:Em.
      + apply mem_In in Em. apply Ha in Em. congruence.
      + unfold output_text. now rewrite (string_op_none_out inferrer (text v) v (conj eq_refl Hv)).
  Qed.
End RecordProofs.

Lemma unassigned_fields_pass_through (inferrer : bytes -> ival) (prog : list ract) (r : record) :
  let W := write_set prog ++ move_set prog in
  outside W (run_program inferrer None prog r) = map known_cell (outside W r).
Proof.
  intros W. unfold run_program.
  assert (Hw : forall a, In a prog -> forall k, In k (writes a ++ moves a) -> mem k W = true).
  { intros a Ha k Hk. apply mem_In. unfold W, write_set, move_set. apply in_app_iff. apply in_app_iff in Hk.
    destruct Hk as [Hk|Hk]; [left|right]; apply in_flat_map; eauto. }
  pose proof (steps_inv inferrer W r prog _ Hw (read_record_inv W r)) as [Hg [Ha Ho]].
  destruct (apply_racts inferrer None prog (read_record r, [])) as [r1 anys]. cbn [fst snd] in *.
  rewrite (write_record_out inferrer W r1 anys Hg Ha). now rewrite Ho.
Qed.
