(* C03: the record a reader builds from the (name, value) pairs of a line (C05's model of RecordArena.PutDeferred,
   imported unchanged through C03.Harness.read_line). *)
From Miller Require Import Base.Bytes Base.Record C03.Harness.
From Miller Require C05.Model C12.Proofs.

Lemma of_pairs_app d l1 : forall l2 acc,
  C05.Model.of_pairs d (l1 ++ l2) acc = C05.Model.of_pairs d l2 (C05.Model.of_pairs d l1 acc).
Proof. induction l1 as [|[k v] t IH]; intros l2 acc; cbn [C05.Model.of_pairs app]; [reflexivity|apply IH]. Qed.

Lemma of_pairs_distinct d : forall l acc, NoDup (keys acc ++ keys l) -> C05.Model.of_pairs d l acc = acc ++ l.
Proof.
  induction l as [|[k v] t IH]; intros acc Hn; cbn [C05.Model.of_pairs]; [now rewrite app_nil_r|].
  assert (Hk : ~ In k (keys acc)).
  { intros Hin. cbn in Hn. apply NoDup_remove_2 in Hn. apply Hn. apply in_or_app. now left. }
  assert (Hh : has k acc = false).
  { destruct (has k acc) eqn:E; [|reflexivity]. apply C12.Proofs.has_true_in in E. contradiction. }
  unfold C05.Model.put_deferred. rewrite Hh. rewrite C12.Proofs.put_absent by exact Hk.
  rewrite IH.
  - now rewrite <- app_assoc.
  - unfold keys in *. rewrite map_app, <- app_assoc. exact Hn.
Qed.

Lemma read_line_distinct (dedupe : bool) (l : record) : wf_record l = true -> read_line dedupe l = l.
Proof.
  intros H. unfold read_line. rewrite of_pairs_distinct; [reflexivity|]. cbn. now apply nodupb_NoDup.
Qed.

Lemma read_line_nodedupe_snoc (l : record) (k v k' : bytes) : k' <> k ->
  get k' (read_line false (l ++ [(k, v)])) = get k' (read_line false l)
  /\ get k (read_line false (l ++ [(k, v)])) = Some v.
Proof.
  intros Hne. unfold read_line. rewrite of_pairs_app. cbn [C05.Model.of_pairs].
  set (r := C05.Model.of_pairs false l []).
  assert (E : C05.Model.put_deferred false k v r = put k v r) by (unfold C05.Model.put_deferred; destruct (has k r); reflexivity).
  rewrite E. split; [apply get_put_other; congruence|apply get_put_same].
Qed.
