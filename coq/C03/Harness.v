(* C03 correspondence harness: executable checks evaluated by vm_compute on cases written by harness/py/checks/c03.py.
   The inferrer is C06's model instantiated with the digit tables regenerated from /repo. *)
From Miller Require Import Base.Bytes Base.Record C06.Model C06.Harness C03.Model.
From Miller Require C05.Model.
Open Scope Z_scope.

Definition sentinel : bytes := B "#OFMT#".
Definition ofmt_of (z : Z) : option (Z -> bytes) := if z =? 0 then None else Some (fun _ => sentinel).
Definition inferrer_of (f : Z) : bytes -> ival := ginfer (flag_of f).

(* model observation vs observed (z, bytes): z = -7 -> not modelled; bytes None -> compare z only;
   Some sentinel -> formatted float, not modelled *)
Definition obs_ok (m : obs) (o : Z * bytes) : bool :=
  let '(mz, mb) := m in
  if mz =? -7 then true else
  match mb with
  | None => mz =? fst o
  | Some b => if beqb b sentinel then true else (mz =? fst o) && beqb b (snd o)
  end.

Fixpoint all_obs_ok (ms : list obs) (os : list (Z * bytes)) : bool :=
  match ms, os with
  | [], [] => true
  | m :: ms', o :: os' => obs_ok m o && all_obs_ok ms' os'
  | _, _ => false
  end.

(* observed final state of a value: (printrep, printrepValid, mvtype, String()) *)
Definition state_ok (inferrer : bytes -> ival) (ofmt : option (Z -> bytes)) (m : mlrval) (o : bytes * Z * Z * bytes) : bool :=
  let '(p, v, t, out) := o in
  (* the driver reads the triple first, then calls String() to obtain what a writer would emit *)
  let '(m1, so) := string_op inferrer ofmt m in
  beqb (text m) p && ((if valid m then 1 else 0) =? v) && (type_code (ty m) =? t)
  && match so with Some b => if beqb b sentinel then true else beqb b out | None => true end.

(* case = (flag, ofmt?, s1, s2, ops, observed per-op results, observed state of x, observed state of y) *)
Definition ops_case := (Z * Z * bytes * bytes * list rop * list (Z * bytes) * (bytes * Z * Z * bytes) * (bytes * Z * Z * bytes))%type.

Definition chk (c : ops_case) : bool :=
  let '(f, fm, s1, s2, ops, os, ox, oy) := c in
  let inf := inferrer_of f in let ofmt := ofmt_of fm in
  let '((x, y), ms) := run inf ofmt ops (from_data s1, from_data s2) in
  all_obs_ok ms os && state_ok inf ofmt x ox && state_ok inf ofmt y oy.

(* ---- record level: (flag, program, input record, observed output record) *)
Definition cell_ok (c : bytes * cell) (o : bytes * bytes) : bool :=
  beqb (fst c) (fst o) && match snd c with CKnown s => beqb s (snd o) | CAny => true end.

Fixpoint cells_ok (cs : list (bytes * cell)) (os : record) : bool :=
  match cs, os with
  | [], [] => true
  | c :: cs', o :: os' => cell_ok c o && cells_ok cs' os'
  | _, _ => false
  end.

Definition prog_case := (Z * list ract * record * record)%type.

Definition chk_prog (c : prog_case) : bool :=
  let '(f, prog, rin, rout) := c in
  cells_ok (run_program (inferrer_of f) None prog rin) rout.

(* ---- the same from the input LINE: (flag, dedupe, program, (key, value) pairs of the line in order, observed output).
   The reader's record construction (RecordArena.PutDeferred: repeated names are renamed k_2, k_3, ... by default; with
   --no-dedupe-field-names the later value replaces the earlier one in place) is C05's model of it. *)
Definition read_line (dedupe : bool) (l : record) : record := C05.Model.of_pairs dedupe l [].

Definition prog_case2 := (Z * bool * list ract * record * record)%type.

Definition chk_prog2 (c : prog_case2) : bool :=
  let '(f, dd, prog, line, rout) := c in
  cells_ok (run_program (inferrer_of f) None prog (read_line dd line)) rout.
