(* C03 model: a Miller value read from data, and the closed list of operations that READ it.
   Mirrors pkg/mlrval: mlrval_type.go (the struct), mlrval_new.go (FromDeferredType, SetFromString,
   SetFromPrevalidatedIntString/FloatString), mlrval_infer.go (Type(): just-in-time inference through the package-level
   inferrer), mlrval_output.go (String/OriginalString/StringMaybeQuoted/setPrintRep/StringifyValuesRecursively),
   mlrval_is.go, mlrval_get.go, mlrval_copy.go, mlrval_cmp.go, mlrval_sort.go, mlrval_json.go (marshalJSONAux),
   mlrval_format.go (Formatter.Format), record_arena.go (newValue = FromDeferredType).
   Definitions only.  The result of inference is taken from C06's model ([ival]); every definition here is
   parametric in the inferrer, so the theorems hold for ANY inference result. *)
From Miller Require Import Base.Bytes Base.Record C06.Model.
Open Scope Z_scope.

(* MVType, numbered as in mlrval_type.go *)
Inductive mvtype := TPending | TInt | TFloat | TBool | TVoid | TString | TBytes | TArray | TMap | TFunc | TError | TNull | TAbsent.

Definition type_code (t : mvtype) : Z :=
  match t with
  | TPending => -1 | TInt => 0 | TFloat => 1 | TBool => 2 | TVoid => 3 | TString => 4 | TBytes => 5
  | TArray => 6 | TMap => 7 | TFunc => 8 | TError => 9 | TNull => 10 | TAbsent => 11
  end.

Definition type_name (t : mvtype) : bytes :=
  match t with
  | TPending => B "pending" | TInt => B "int" | TFloat => B "float" | TBool => B "bool" | TVoid => B "empty"
  | TString => B "string" | TBytes => B "bytes" | TArray => B "array" | TMap => B "map" | TFunc => B "funct"
  | TError => B "error" | TNull => B "null" | TAbsent => B "absent"
  end.

(* intf payload: only the scalar kinds a value read from data can take *)
Inductive payload := PNone | PInt (n : Z) | PFloat (bits : Z) | PBool (b : bool).

Record mlrval := MV { text : bytes; valid : bool; ty : mvtype; pay : payload }.

(* FromDeferredType / RecordArena.newValue *)
Definition from_data (s : bytes) : mlrval := MV s true TPending PNone.

(* SetFromString / SetFromPrevalidatedIntString / SetFromPrevalidatedFloatString: each stores the text it is GIVEN *)
Definition set_from_string (m : mlrval) (input : bytes) : mlrval :=
  MV input true (match input with [] => TVoid | _ => TString end) (pay m).
Definition set_prevalidated_int (m : mlrval) (input : bytes) (n : Z) : mlrval := MV input true TInt (PInt n).
Definition set_prevalidated_float (m : mlrval) (input : bytes) (b : Z) : mlrval := MV input true TFloat (PFloat b).

(* decimal rendering (strconv.FormatInt base 10) *)
Fixpoint dec_digits (fuel : nat) (n : Z) (acc : bytes) : bytes :=
  match fuel with
  | O => acc
  | S f => let d := ascii_of_N (Z.to_N (48 + n mod 10)) in
           if n <? 10 then d :: acc else dec_digits f (n / 10) (d :: acc)
  end.
Definition format_int (n : Z) : bytes :=
  if n <? 0 then "-"%char :: dec_digits 20 (- n) [] else dec_digits 20 n [].

(* finite binary64 values by bit pattern: order key (sign-magnitude), -0 = +0 *)
Definition fkey (b : Z) : Z := if b <? two63 then b else - (b - two63).
Definition zcmp (a b : Z) : Z := if a <? b then -1 else if b <? a then 1 else 0.

Fixpoint bytes_cmp (a b : bytes) : Z :=
  match a, b with
  | [], [] => 0
  | [], _ :: _ => -1
  | _ :: _, [] => 1
  | x :: a', y :: b' => if (code x <? code y)%N then -1 else if (code y <? code x)%N then 1 else bytes_cmp a' b'
  end.

(* isValidJSONNumber (mlrval_json.go): optional minus; 0 or a non-zero digit followed by digits; optional fraction
   (dot, one or more digits); optional exponent (e/E, optional sign, one or more digits) *)
Definition is_dig (c : ascii) : bool := in_range "0" "9" c.
Fixpoint skip_digits (s : bytes) : bytes :=
  match s with c :: t => if is_dig c then skip_digits t else s | [] => [] end.
Definition json_exp_ok (s : bytes) : bool :=        (* after the integer and fraction parts *)
  match s with
  | [] => true
  | c :: t =>
      if eqc c "e" || eqc c "E" then
        let t1 := match t with d :: t' => if eqc d "+" || eqc d "-" then t' else t | [] => t end in
        match t1 with
        | d :: t2 => is_dig d && match skip_digits t2 with [] => true | _ => false end
        | [] => false
        end
      else false
  end.
Definition json_frac_ok (s : bytes) : bool :=       (* after the integer part *)
  match s with
  | c :: t =>
      if eqc c "." then
        match t with
        | d :: t' => is_dig d && json_exp_ok (skip_digits t')
        | [] => false
        end
      else json_exp_ok s
  | [] => true
  end.
Definition is_valid_json_number (s : bytes) : bool :=
  let s1 := match s with c :: t => if eqc c "-" then t else s | [] => s end in
  match s1 with
  | [] => false
  | c :: t =>
      if eqc c "0" then json_frac_ok t
      else if in_range "1" "9" c then json_frac_ok (skip_digits t)
      else false
  end.

(* what the JSON writer does with a scalar's text *)
Inductive jout :=
| JSame (s : bytes)        (* the text as it stands *)
| JDecimal (s : bytes)     (* ints: always re-rendered in decimal *)
| JRerendered              (* floats whose text is not a legal JSON number: strconv.FormatFloat *)
| JQuoted.                 (* strings / empty: quoted and escaped *)

Section WithInferrer.
  (* the package-level inferrer selected by -S/-A/-O, as a function from the retained text to C06's result;
     [ofmt]: Some f when --ofmt is given (f renders a float's bits), None otherwise *)
  Variable inferrer : bytes -> ival.
  Variable ofmt : option (Z -> bytes).

  (* packageLevelInferrer(mv): every inferrer ends in one of the three setters, called with mv.printrep
     (inferWithIntAsFloat then rewrites intf/mvtype only; that is folded into [inferrer] for -A) *)
  Definition infer_mv (m : mlrval) : mlrval :=
    match inferrer (text m) with
    | VString | VEmpty => set_from_string m (text m)
    | VInt n => set_prevalidated_int m (text m) n
    | VFloat b => set_prevalidated_float m (text m) b
    end.

  (* Type() *)
  Definition force (m : mlrval) : mlrval := match ty m with TPending => infer_mv m | _ => m end.

  (* setPrintRep *)
  Definition set_print_rep (m : mlrval) : mlrval :=
    if valid m then m else
    let t := match ty m, pay m with
             | TPending, _ => B "(bug-if-you-see-this:case=3)"
             | TError, _ => B "(error)"
             | TAbsent, _ => B "(bug-if-you-see-this:case=4)"
             | TVoid, _ => []
             | TInt, PInt n => format_int n
             | TBool, PBool true => B "true"
             | TBool, PBool false => B "false"
             | _, _ => text m          (* string: unchanged; float/collections: not reachable from data *)
             end in
    MV t true (ty m) (pay m).

  (* String(): with --ofmt and a float, the formatted number is returned and the value is left alone *)
  Definition string_op (m : mlrval) : mlrval * option bytes :=
    match ofmt with
    | Some f => let m1 := force m in
                match ty m1, pay m1 with
                | TFloat, PFloat b => (m1, Some (f b))
                | _, _ => let m2 := set_print_rep m1 in (m2, Some (text m2))
                end
    | None => let m2 := set_print_rep m in (m2, Some (text m2))
    end.

  Definition original_string_op (m : mlrval) : mlrval * option bytes :=
    if valid m then (m, Some (text m)) else string_op m.

  Definition quote (s : bytes) : bytes := """"%char :: s ++ [""""%char].

  Definition string_maybe_quoted_op (m : mlrval) : mlrval * option bytes :=
    let '(m1, o) := string_op m in
    (m1, match ty m1 with TVoid | TString => option_map quote o | _ => o end).

  (* StringifyValuesRecursively (--jvquoteall), scalar case: SetFromString(String()) *)
  Definition stringify_op (m : mlrval) : mlrval :=
    let '(m1, o) := string_op m in
    match o with Some s => set_from_string m1 s | None => m1 end.

  Definition is_numeric_ty (t : mvtype) := match t with TInt | TFloat => true | _ => false end.
  Definition is_strvoid_ty (t : mvtype) := match t with TString | TVoid => true | _ => false end.

  (* marshalJSONAux on a scalar: Type(); ints -> decimal; floats -> String(), kept iff a legal JSON number *)
  Definition format_as_json (m : mlrval) : mlrval * jout :=
    let f := force m in
    match ty f, pay f with
    | TInt, PInt n => (f, JDecimal (format_int n))
    | TFloat, _ => let '(m1, o) := string_op f in
                   (m1, match o with
                        | Some s => if is_valid_json_number s then JSame s else JRerendered
                        | None => JRerendered
                        end)
    | _, _ => (f, JQuoted)
    end.

  (* ---- unary read operations: new value state, observation (number, bytes).  The observation encodings are
     those of harness/go/implrun/c03.go. *)
  Inductive uop :=
  | UType | UIsLegit | UIsErrorOrAbsent | UIsError | UIsAbsent | UIsNull | UIsVoid | UIsErrorOrVoid | UIsEmptyString
  | UIsString | UIsStringOrVoid | UIsStringOrInt | UIsBytes | UIsInt | UIsFloat | UIsNumeric | UIsIntZero | UIsBool
  | UIsTrue | UIsFalse | UIsArray | UIsMap | UIsArrayOrMap | UIsFunction | UGetTypeBit | UGetTypeName
  | UGetStringValue | UGetIntValue | UGetFloatValue | UGetNumericToFloatValue | UGetBoolValue | UGetArray | UGetMap
  | UGetNumericNegativeGuarded
  | UString | UOriginalString | UStringMaybeQuoted | UFormatAsJSON | UStringify
  | UFormat (via_string : bool)          (* Formatter.Format: %d/%x/%lf read through Get*Value; %s through String() *)
  | UBif (forces : bool) (strings : bool)  (* a built-in function reading its argument: Type() and/or String() *)
  | UCopy.

  Definition obs := (Z * option bytes)%type.
  Definition oz (z : Z) : obs := (z, None).
  Definition obool (b : bool) : obs := ((if b then 1 else 0), None).
  Definition onone : obs := (0, None).
  Definition unk : obs := (-7, None).     (* observation not modelled: the harness skips the comparison *)

  Definition float_obs (b : Z) : obs := (if b <? two63 then b else b - two63, Some (if b <? two63 then B "+" else B "-")).

  Definition ty_is (t : mvtype) (m : mlrval) : bool := type_code (ty m) =? type_code t.

  Definition apply_uop (u : uop) (m : mlrval) : mlrval * obs :=
    let f := force m in
    match u with
    | UType => (f, oz (type_code (ty f)))
    | UIsLegit => (f, obool ((0 <=? type_code (ty f)) && (type_code (ty f) <? 9)))
    | UIsErrorOrAbsent => (m, obool (ty_is TError m || ty_is TAbsent m))
    | UIsError => (f, obool (ty_is TError f))
    | UIsAbsent => (m, obool (ty_is TAbsent m))
    | UIsNull => (m, obool (ty_is TNull m))
    | UIsVoid => (m, obool (ty_is TVoid m || (ty_is TPending m && match text m with [] => true | _ => false end)))
    | UIsErrorOrVoid =>
        (* IsError() || IsVoid(): the first disjunct forces the type *)
        (f, obool (ty_is TError f || ty_is TVoid f))
    | UIsEmptyString =>
        (m, obool (ty_is TVoid m || ((ty_is TString m || ty_is TPending m) && match text m with [] => true | _ => false end)))
    | UIsString => (f, obool (ty_is TString f))
    | UIsStringOrVoid => (f, obool (is_strvoid_ty (ty f)))
    | UIsStringOrInt => (f, obool (is_strvoid_ty (ty f) || ty_is TInt f))
    | UIsBytes => (m, obool (ty_is TBytes m))
    | UIsInt => (f, obool (ty_is TInt f))
    | UIsFloat => (f, obool (ty_is TFloat f))
    | UIsNumeric => (f, obool (is_numeric_ty (ty f)))
    | UIsIntZero => (f, obool (match ty f, pay f with TInt, PInt 0 => true | _, _ => false end))
    | UIsBool => (f, obool (ty_is TBool f))
    | UIsTrue => (f, obool (match ty f, pay f with TBool, PBool true => true | _, _ => false end))
    | UIsFalse => (f, obool (match ty f, pay f with TBool, PBool false => true | _, _ => false end))
    | UIsArray => (m, obool (ty_is TArray m))
    | UIsMap => (m, obool (ty_is TMap m))
    | UIsArrayOrMap => (m, obool (ty_is TArray m || ty_is TMap m))
    | UIsFunction => (m, obool (ty_is TFunc m))
    | UGetTypeBit => (f, oz (2 ^ (type_code (ty f))))
    | UGetTypeName => (f, (0, Some (type_name (ty f))))
    | UGetStringValue => (f, if is_strvoid_ty (ty f) then (1, Some (text f)) else (0, Some []))
    | UGetIntValue => (f, match ty f, pay f with TInt, PInt n => (n, Some []) | _, _ => (0, Some (B "no")) end)
    | UGetFloatValue => (f, match ty f, pay f with TFloat, PFloat b => float_obs b | _, _ => (0, Some (B "no")) end)
    | UGetNumericToFloatValue =>
        (f, match ty f, pay f with
            | TFloat, PFloat b => float_obs b
            | TInt, PInt n => float_obs (float_of_int n)
            | _, _ => (0, Some (B "no")) end)
    | UGetBoolValue => (f, match ty f, pay f with TBool, PBool b => oz ((if b then 2 else 0) + 1) | _, _ => oz 0 end)
    | UGetArray | UGetMap => (m, obool false)
    | UGetNumericNegativeGuarded =>
        (f, match ty f, pay f with
            | TFloat, PFloat b => obool (two63 <? b)        (* < 0.0: sign set and magnitude non-zero *)
            | TInt, PInt n => obool (n <? 0)                   (* float64(n) < 0.0 *)
            | _, _ => oz 2 end)
    | UString => let '(m1, o) := string_op m in (m1, (0, o))
    | UOriginalString => let '(m1, o) := original_string_op m in (m1, (0, o))
    | UStringMaybeQuoted => let '(m1, o) := string_maybe_quoted_op m in (m1, (0, o))
    | UFormatAsJSON =>
        (* marshalJSONAux: Type(); ints are re-rendered in decimal (documented); floats go through String();
           string escaping is not modelled (observation skipped) *)
        let '(m1, j) := format_as_json m in
        (m1, match j with JSame s => (0, Some s) | JDecimal s => (0, Some s) | _ => unk end)
    | UStringify => (stringify_op m, onone)
    | UFormat via_string => if via_string then (fst (string_op m), onone) else (f, onone)
    | UBif forces strings =>
        let m1 := if forces then f else m in
        ((if strings then fst (string_op m1) else m1), unk)
    | UCopy => (MV (text m) (valid m) (ty m) (pay m), onone)
    end.

  (* ---- binary read operations (comparators of mlrval_cmp.go / mlrval_sort.go, binary built-ins) *)
  Inductive bop :=
  | BEquals | BGreaterThan | BGreaterThanOrEquals | BLessThan | BLessThanOrEquals | BCmp
  | BLexicalAscending | BLexicalDescending | BCaseFoldAscending | BCaseFoldDescending
  | BNumericAscending | BNumericDescending | BNaturalAscending | BNaturalDescending
  | BBif (strings : bool).

  Definition rank (t : mvtype) : Z :=
    match t with
    | TInt | TFloat => 0 | TBool => 1 | TVoid | TString => 2 | TBytes => 3 | TArray => 4 | TMap => 5 | TFunc => 6
    | TError => 7 | TNull => 8 | TAbsent => 9 | TPending => 10
    end.

  Definition num_key (m : mlrval) : option (bool * Z) :=      (* (is_float, int value or float bits) *)
    match ty m, pay m with
    | TInt, PInt n => Some (false, n)
    | TFloat, PFloat b => Some (true, b)
    | _, _ => None
    end.

  (* cmp_dispositions[a.Type()][b.Type()](a, b) on already-forced operands *)
  Definition cmp_forced (a b : mlrval) : Z :=
    match num_key a, num_key b with
    | Some (false, x), Some (false, y) => zcmp x y
    | Some (false, x), Some (true, y) => zcmp (fkey (float_of_int x)) (fkey y)
    | Some (true, x), Some (false, y) => zcmp (fkey x) (fkey (float_of_int y))
    | Some (true, x), Some (true, y) => zcmp (fkey x) (fkey y)
    | _, _ =>
        if is_strvoid_ty (ty a) && is_strvoid_ty (ty b) then bytes_cmp (text a) (text b)
        else match ty a, pay a, ty b, pay b with
             | TBool, PBool x, TBool, PBool y => zcmp (if x then 1 else 0) (if y then 1 else 0)
             | _, _, _, _ => zcmp (rank (ty a)) (rank (ty b))
             end
    end.

  Definition out_or_nil (o : option bytes) : bytes := match o with Some s => s | None => [] end.

  Definition apply_bop (o : bop) (a b : mlrval) : mlrval * mlrval * obs :=
    let fa := force a in let fb := force b in
    let c := cmp_forced fa fb in
    let lex (x y : mlrval) :=
      let '(x1, sx) := string_op x in let '(y1, sy) := string_op y in
      (x1, y1, match ofmt with None => oz (bytes_cmp (out_or_nil sx) (out_or_nil sy)) | Some _ => unk end) in
    match o with
    | BEquals => (fa, fb, obool (c =? 0))
    | BGreaterThan => (fa, fb, obool (0 <? c))
    | BGreaterThanOrEquals => (fa, fb, obool (0 <=? c))
    | BLessThan => (fa, fb, obool (c <? 0))
    | BLessThanOrEquals => (fa, fb, obool (c <=? 0))
    | BCmp | BNumericAscending => (fa, fb, oz c)
    | BNumericDescending => (fa, fb, oz (- c))
    | BLexicalAscending => lex a b
    | BLexicalDescending => let '(b1, a1, r) := lex b a in (a1, b1, r)
    | BCaseFoldAscending | BCaseFoldDescending =>
        (* String() on both, folded with strings.ToLower; the type is no longer consulted (/repo 227a6286a: sort -c
           folds number-like text too), so no inference is forced *)
        let '(a1, _) := string_op a in let '(b1, _) := string_op b in (a1, b1, unk)
    | BNaturalAscending | BNaturalDescending =>
        let '(a1, _) := string_op a in let '(b1, _) := string_op b in (a1, b1, unk)
    | BBif strings =>
        if strings then (fst (string_op fa), fst (string_op fb), unk) else (fa, fb, unk)
    end.

  (* ---- a read history over two values taken from data *)
  Inductive rop := OnX (u : uop) | OnY (u : uop) | Bin (o : bop) | BinSwapped (o : bop).

  Definition apply_rop (r : rop) (st : mlrval * mlrval) : (mlrval * mlrval) * obs :=
    let '(x, y) := st in
    match r with
    | OnX u => let '(x1, o) := apply_uop u x in ((x1, y), o)
    | OnY u => let '(y1, o) := apply_uop u y in ((x, y1), o)
    | Bin b => let '(x1, y1, o) := apply_bop b x y in ((x1, y1), o)
    | BinSwapped b => let '(y1, x1, o) := apply_bop b y x in ((x1, y1), o)
    end.

  Fixpoint run (ops : list rop) (st : mlrval * mlrval) : (mlrval * mlrval) * list obs :=
    match ops with
    | [] => (st, [])
    | r :: t => let '(st1, o) := apply_rop r st in let '(st2, os) := run t st1 in (st2, o :: os)
    end.

  (* what a non-JSON record writer emits for the value: String() *)
  Definition output_text (m : mlrval) : option bytes := snd (string_op m).

  (* ------------------------------------------------------------------------------------------------------
     Record level: a record is an insertion-ordered list of (key, value); the per-record actions a verb or a DSL
     statement performs (mlrmap_accessors.go: PutReference/PutCopy, PrependReference, Remove, Rename,
     MoveToHead/MoveToTail, Get + reads). *)
  Definition mrecord := list (bytes * mlrval).

  (* what an assignment stores: a value the model knows, or one it does not predict (arithmetic results ...) *)
  Inductive newval := NKnown (s : bytes) | NAny.
  Inductive cell := CKnown (s : bytes) | CAny.

  (* how a new value is derived from the field that is read (after the listed read operations) *)
  Inductive derive :=
  | DConst (s : bytes)          (* $new = "literal" *)
  | DTypeof                     (* $new = typeof($k)  /  asserting_* *)
  | DDotSuffix (suffix : bytes) (* $new = $k . "suffix" *)
  | DCopyOf                     (* $new = $k *)
  | DOpaque.                    (* any other expression over $k: value not predicted *)

  Inductive ract :=
  | RRead (k : bytes) (us : list uop)                      (* expression / sort key / comparison / type test reading $k *)
  | RDerive (k : bytes) (us : list uop) (d : derive) (new : bytes)   (* $new = f($k) *)
  | RPut (k : bytes) (s : bytes)                           (* $k = "s" *)
  | RRemove (k : bytes)                                    (* unset $k / cut -x -f k *)
  | RRename (old new : bytes)                              (* rename old,new *)
  | RMoveToHead (k : bytes)                                (* reorder -f k *)
  | RMoveToTail (k : bytes).                               (* reorder -e -f k *)

  Fixpoint mget (k : bytes) (r : mrecord) : option mlrval :=
    match r with [] => None | (k', v) :: t => if beqb k k' then Some v else mget k t end.
  Fixpoint mput (k : bytes) (v : mlrval) (r : mrecord) : mrecord :=
    match r with
    | [] => [(k, v)]
    | (k', v') :: t => if beqb k k' then (k', v) :: t else (k', v') :: mput k v t
    end.
  Fixpoint mremove (k : bytes) (r : mrecord) : mrecord :=
    match r with [] => [] | (k', v') :: t => if beqb k k' then t else (k', v') :: mremove k t end.
  Fixpoint mupdate (k : bytes) (f : mlrval -> mlrval) (r : mrecord) : mrecord :=
    match r with
    | [] => []
    | (k', v') :: t => if beqb k k' then (k', f v') :: t else (k', v') :: mupdate k f t
    end.
  Definition mhas (k : bytes) (r : mrecord) : bool := match mget k r with Some _ => true | None => false end.

  Fixpoint apply_uops (us : list uop) (m : mlrval) : mlrval :=
    match us with [] => m | u :: t => apply_uops t (fst (apply_uop u m)) end.

  (* values computed by the DSL are typed, their text is computed lazily: modelled as a fresh string-typed value
     holding the text (only the text matters to the writer); NAny is carried as a flag next to the record *)
  Definition fresh (s : bytes) : mlrval := MV s true (match s with [] => TVoid | _ => TString end) PNone.

  Definition derive_val (d : derive) (m : mlrval) : mlrval * newval :=
    match d with
    | DConst s => (m, NKnown s)
    | DTypeof => let f := force m in (f, NKnown (type_name (ty f)))
    | DDotSuffix suf => let f := force m in
                        let '(m1, o) := string_op f in
                        (m1, match o with Some s => NKnown (s ++ suf) | None => NAny end)
    | DCopyOf => let '(m1, o) := string_op m in (m1, match o with Some s => NKnown s | None => NAny end)
    | DOpaque => (force m, NAny)
    end.

  (* Rename (mlrmap_accessors.go): absent old -> no-op; new absent -> key replaced in place;
     old = new -> no-op (since /repo bdf02f36c; before, the entry was unlinked);
     new present -> old's value moves into new's slot, old's entry is unlinked *)
  Fixpoint rename_key (old new : bytes) (r : mrecord) : mrecord :=
    match r with
    | [] => []
    | (k, v) :: t => if beqb k old then (new, v) :: t else (k, v) :: rename_key old new t
    end.
  Definition mrename (old new : bytes) (r : mrecord) : mrecord :=
    match mget old r with
    | None => r
    | Some v => if beqb old new then r
                else if mhas new r then mremove old (mput new v r) else rename_key old new r
    end.

  (* the set of keys whose cells the model does not predict *)
  Definition anyset := list bytes.

  Definition apply_ract (a : ract) (st : mrecord * anyset) : mrecord * anyset :=
    let '(r, anys) := st in
    match a with
    | RRead k us => (mupdate k (apply_uops us) r, anys)
    | RDerive k us d new =>
        match mget k r with
        | None => (r, anys)        (* absent right-hand side: the assignment is skipped *)
        | Some v =>
            let v1 := apply_uops us v in
            let '(v2, nv0) := derive_val d v1 in
            (* a source whose own value the model does not predict gives an unpredicted result *)
            let nv := if mem k anys then match d with DConst s => NKnown s | _ => NAny end else nv0 in
            let r1 := mupdate k (fun _ => v2) r in
            match nv with
            | NKnown s => (mput new (fresh s) r1, List.filter (fun k' => negb (beqb k' new)) anys)
            | NAny => (mput new (fresh []) r1, new :: anys)
            end
        end
    | RPut k s => (mput k (fresh s) r, List.filter (fun k' => negb (beqb k' k)) anys)
    | RRemove k => (mremove k r, anys)
    | RRename old new =>
        (mrename old new r,
         if mhas old r && negb (beqb old new)
         then (if mem old anys then new :: List.filter (fun k' => negb (beqb k' old)) anys
               else List.filter (fun k' => negb (beqb k' new)) anys)
         else anys)
    | RMoveToHead k => (match mget k r with Some v => (k, v) :: mremove k r | None => r end, anys)
    | RMoveToTail k => (match mget k r with Some v => mremove k r ++ [(k, v)] | None => r end, anys)
    end.

  Fixpoint apply_racts (l : list ract) (st : mrecord * anyset) : mrecord * anyset :=
    match l with [] => st | a :: t => apply_racts t (apply_ract a st) end.

  Definition read_record (r : record) : mrecord := map (fun kv => (fst kv, from_data (snd kv))) r.

  (* the record writer: String() of every value, in order *)
  Definition write_record (st : mrecord * anyset) : list (bytes * cell) :=
    map (fun kv => (fst kv, if mem (fst kv) (snd st) then CAny
                            else match output_text (snd kv) with Some s => CKnown s | None => CAny end)) (fst st).

  (* keys an action may assign, remove or rename: its write set *)
  Definition writes (a : ract) : list bytes :=
    match a with
    | RRead _ _ => []
    | RDerive _ _ _ new => [new]
    | RPut k _ => [k]
    | RRemove k => [k]
    | RRename old new => [old; new]
    | RMoveToHead _ | RMoveToTail _ => []
    end.
  Definition moves (a : ract) : list bytes :=
    match a with RMoveToHead k | RMoveToTail k => [k] | _ => [] end.
  Definition write_set (l : list ract) : list bytes := flat_map writes l.
  Definition move_set (l : list ract) : list bytes := flat_map moves l.

  Definition run_program (l : list ract) (r : record) : list (bytes * cell) :=
    write_record (apply_racts l (read_record r, [])).
End WithInferrer.

Fixpoint aget {A} (k : bytes) (l : list (bytes * A)) : option A :=
  match l with [] => None | (k', v) :: t => if beqb k k' then Some v else aget k t end.

(* projection used by the record-level theorem: the fields whose keys are outside a set W, in order *)
Definition outside {A} (W : list bytes) (l : list (bytes * A)) : list (bytes * A) :=
  filter (fun kv => negb (mem (fst kv) W)) l.
Definition known_cell (kv : bytes * bytes) : bytes * cell := (fst kv, CKnown (snd kv)).
