(* C03: bystander theorems for the concrete verb models of C05 / C11 / C12 (imported unchanged) and for every chain of
   them, by induction on the chain. *)
From Miller Require Import Base.Bytes Base.Record C03.Verbs.
From Miller Require C05.Model C05.Proofs C11.Model C11.Proofs C11.Proofs2 C12.Model C12.Proofs.
From Coq Require Import Permutation.
Open Scope Z_scope.

(* ------------------------------------------------------------------ generic facts *)
Lemma outs_union_l W W' r r' : outs W r = outs W r' -> outs (wunion W W') r = outs (wunion W W') r'.
Proof.
  intros H. unfold outs, wunion in *.
  assert (E : forall x, filter (fun kv : field => negb (W (fst kv) || W' (fst kv))) x
                        = filter (fun kv => negb (W' (fst kv))) (filter (fun kv => negb (W (fst kv))) x)).
  { intros x. rewrite C12.Proofs.filter_filter. apply filter_ext. intros kv. now rewrite negb_orb. }
  now rewrite !E, H.
Qed.
Lemma outs_union_r W W' r r' : outs W' r = outs W' r' -> outs (wunion W W') r = outs (wunion W W') r'.
Proof.
  intros H. unfold outs, wunion in *.
  assert (E : forall x, filter (fun kv : field => negb (W (fst kv) || W' (fst kv))) x
                        = filter (fun kv => negb (W (fst kv))) (filter (fun kv => negb (W' (fst kv))) x)).
  { intros x. rewrite C12.Proofs.filter_filter. apply filter_ext. intros kv. rewrite negb_orb. apply andb_comm. }
  now rewrite !E, H.
Qed.
Lemma outs_wall r : outs wall r = [].
Proof. unfold outs, wall. induction r; cbn; auto. Qed.
Lemma outs_wnone r : outs wnone r = r.
Proof. unfold outs, wnone. induction r as [|x r IH]; cbn [filter negb]; [reflexivity|f_equal; exact IH]. Qed.

(* a field outside W is found with the same bytes on both sides *)
Lemma get_outs W k r : W k = false -> get k (outs W r) = get k r.
Proof.
  intros Hk. unfold outs. induction r as [|[k' v] r IH]; cbn; [reflexivity|].
  destruct (beqb_spec k k') as [->|Hne].
  - cbn. rewrite Hk. cbn. now rewrite beqb_refl.
  - destruct (negb (W k')); cbn; [|exact IH]. destruct (beqb_spec k k'); [contradiction|exact IH].
Qed.
Lemma same_outside_get W o i k : same_outside W o i -> W k = false -> get k o = get k i.
Proof. intros H Hk. rewrite <- (get_outs W k o Hk), <- (get_outs W k i Hk). now rewrite H. Qed.

Lemma tracks_refl_incl (R : record -> record -> Prop) (v : stream) :
  (forall r, R r r) -> (forall l, incl (v l) l) -> tracks R v.
Proof. intros Hr Hi l o Ho. exists o. split; [apply (Hi l); exact Ho|apply Hr]. Qed.

Lemma tracks_map (R : record -> record -> Prop) f : (forall r, R (f r) r) -> tracks R (map f).
Proof. intros H l o Ho. apply in_map_iff in Ho. destruct Ho as (i & <- & Hi). exists i. auto. Qed.

Lemma tracks_flat_map (R : record -> record -> Prop) f : (forall r o, In o (f r) -> R o r) -> tracks R (flat_map f).
Proof. intros H l o Ho. apply in_flat_map in Ho. destruct Ho as (i & Hi & Hoi). exists i. auto. Qed.

Lemma tracks_comp (R : record -> record -> Prop) (v1 v2 : stream) :
  (forall a b c, R a b -> R b c -> R a c) -> tracks R v1 -> tracks R v2 -> tracks R (fun l => v2 (v1 l)).
Proof.
  intros Ht H1 H2 l o Ho. destruct (H2 _ _ Ho) as (m & Hm & Rom). destruct (H1 _ _ Hm) as (i & Hi & Rmi).
  exists i. split; [exact Hi|eapply Ht; eauto].
Qed.

Lemma filter_put_out (p : field -> bool) k v r : (forall x, p (k, x) = false) -> filter p (put k v r) = filter p r.
Proof.
  intros Hp. induction r as [|[k' v'] r IH]; cbn; [now rewrite Hp|].
  destruct (beqb_spec k k') as [->|Hne]; cbn; [now rewrite !Hp|]. now rewrite IH.
Qed.

Lemma outs_put W k v r : W k = true -> outs W (put k v r) = outs W r.
Proof. intros Hk. apply filter_put_out. intros x. cbn. now rewrite Hk. Qed.
Lemma outs_remove W k r : W k = true -> outs W (remove k r) = outs W r.
Proof. intros Hk. apply C12.Proofs.filter_remove_out. intros x. cbn. now rewrite Hk. Qed.
Lemma outs_cons_in W k v r : W k = true -> outs W ((k, v) :: r) = outs W r.
Proof. intros Hk. unfold outs. cbn. now rewrite Hk. Qed.
Lemma outs_app W a b : outs W (a ++ b) = outs W a ++ outs W b.
Proof. apply filter_app. Qed.
Lemma wlist_hd k l : wlist (k :: l) k = true.
Proof. unfold wlist. cbn. now rewrite beqb_refl. Qed.

(* ------------------------------------------------------------------ C05: stream structure of the state machines *)
Section Closed.
  Import C05.Model.
  Variable Q : record -> Prop.

  Lemma feed_inv (v : verb) (SI : vstate v -> Prop) :
    (forall s r, SI s -> Q r -> SI (fst (vstep v s r)) /\ Forall Q (snd (vstep v s r))) ->
    forall xs s, SI s -> Forall Q xs -> SI (fst (feed v s xs)) /\ Forall Q (snd (feed v s xs)).
  Proof.
    intros Hs. induction xs as [|x t IH]; intros s Hsi Hq; cbn [feed].
    - split; [exact Hsi|constructor].
    - inversion Hq as [|? ? Hx Ht]; subst. destruct (Hs s x Hsi Hx) as [H3 H4].
      destruct (vstep v s x) as [s1 o1]. cbn [fst snd] in *.
      specialize (IH s1 H3 Ht). destruct (feed v s1 t) as [s2 o2]. cbn [fst snd] in *.
      destruct IH as [I1 I2]. split; [exact I1|]. apply Forall_app. split; assumption.
  Qed.

  Lemma run_inv (v : verb) (SI : vstate v -> Prop) :
    SI (vinit v) ->
    (forall s r, SI s -> Q r -> SI (fst (vstep v s r)) /\ Forall Q (snd (vstep v s r))) ->
    (forall s, SI s -> Forall Q (vfinish v s)) ->
    forall xs, Forall Q xs -> Forall Q (run v xs).
  Proof.
    intros Hi Hs Hf xs Hq. unfold run. destruct (feed_inv v SI Hs xs (vinit v) Hi Hq) as [H1 H2].
    destruct (feed v (vinit v) xs) as [s out]. cbn [fst snd] in *. apply Forall_app. split; [exact H2|apply Hf; exact H1].
  Qed.

  Lemma map_closed (f : record -> record) : (forall r, Q r -> Q (f r)) -> forall xs, Forall Q xs -> Forall Q (run (v_map f) xs).
  Proof.
    intros Hf. apply (run_inv (v_map f) (fun _ => True)); [exact I| |intros; constructor].
    intros s r _ Hr. cbn. split; [exact I|]. constructor; [apply Hf; exact Hr|constructor].
  Qed.

  Lemma Forall_lastn n l : Forall Q l -> Forall Q (lastn n l).
  Proof.
    induction l as [|x l IH]; intros H; cbn [lastn].
    - destruct (Nat.leb (List.length (@nil record)) n); constructor.
    - destruct (Nat.leb (List.length (x :: l)) n); [exact H|]. inversion H; subst. now apply IH.
  Qed.

  Definition groups_ok (gs : list (bytes * list record)) : Prop := Forall (fun g => Forall Q (snd g)) gs.

  Lemma group_add_ok key r gs : Q r -> groups_ok gs -> groups_ok (group_add key r gs).
  Proof.
    intros Hr. unfold groups_ok. induction gs as [|[k rs] t IH]; intros H; cbn [group_add].
    - constructor; [cbn; constructor; [exact Hr|constructor]|constructor].
    - inversion H as [|? ? Hg Ht]; subst. destruct (beqb k key).
      + constructor; [cbn in *; apply Forall_app; split; [exact Hg|constructor; [exact Hr|constructor]]|exact Ht].
      + constructor; [exact Hg|apply IH; exact Ht].
  Qed.

  Lemma insert_group_ok lt g gs : Forall Q (snd g) -> groups_ok gs -> groups_ok (insert_group lt g gs).
  Proof.
    intros Hg. unfold groups_ok. induction gs as [|h t IH]; intros H; cbn [insert_group].
    - constructor; [exact Hg|constructor].
    - inversion H; subst. destruct (lt (fst g) (fst h)); constructor; auto.
  Qed.

  Lemma sort_groups_ok lt gs : groups_ok gs -> groups_ok (sort_groups lt gs).
  Proof.
    unfold sort_groups. assert (G : forall gs acc, groups_ok gs -> groups_ok acc -> groups_ok (fold_left (fun acc g => insert_group lt g acc) gs acc)).
    { induction gs0 as [|g t IH]; intros acc H Ha; cbn [fold_left]; [exact Ha|].
      inversion H; subst. apply IH; [assumption|]. apply insert_group_ok; assumption. }
    intros H. apply G; [exact H|constructor].
  Qed.

  Lemma flat_snd_ok gs : groups_ok gs -> Forall Q (flat_map snd gs).
  Proof.
    unfold groups_ok. induction gs as [|g t IH]; intros H; cbn [flat_map]; [constructor|].
    inversion H; subst. apply Forall_app. split; auto.
  Qed.

  Lemma sort_by_closed lt k xs : Forall Q xs -> Forall Q (run (v_sort_by lt k) xs).
  Proof.
    apply (run_inv (v_sort_by lt k) (fun s => groups_ok (fst s) /\ Forall Q (snd s))).
    - split; constructor.
    - intros s r [H1 H2] Hr. cbn [vstep v_sort_by]. destruct (get k r) as [v|]; cbn [fst snd].
      + split; [split; [apply group_add_ok; assumption|exact H2]|constructor].
      + split; [split; [exact H1|apply Forall_app; split; [exact H2|constructor; [exact Hr|constructor]]]|constructor].
    - intros s [H1 H2]. cbn [vfinish v_sort_by]. apply Forall_app. split; [apply flat_snd_ok, sort_groups_ok; exact H1|exact H2].
  Qed.

  (* what a verb of C05 may do to a record it emits *)
  Definition modif05 (c : vcode) (r r' : record) : Prop :=
    match c with
    | VRename a b => r' = rename_rec a b r
    | VCutKeep ks => r' = filter (fun kv => mem (fst kv) ks) r
    | VCutDrop ks => r' = filter (fun kv => negb (mem (fst kv) ks)) r
    | VReorderHead k => r' = match get k r with Some v => (k, v) :: remove k r | None => r end
    | VReorderTail k => r' = match get k r with Some v => remove k r ++ [(k, v)] | None => r end
    | VFillDown _ k => r' = r \/ exists p, r' = put k p r
    | VPutDot z _ _ => exists v, r' = put z v r
    | VCatN => exists v, r' = if has (B "n") r then put (B "n") v r else (B "n", v) :: r
    | VCountSimilar _ => exists v, r' = put (B "count") v r
    | VLabel _ | VRegularize | VFillEmpty _ | VFillDownAll _ => True
    | VCatNG _ => exists v, r' = if has (B "n") r then put (B "n") v r else (B "n", v) :: r
    | _ => r' = r
    end.

  Lemma run05_closed (c : vcode) :
    (forall r r', Q r -> modif05 c r r' -> Q r') -> forall xs, Forall Q xs -> Forall Q (run (verb_of c) xs).
  Proof.
    intros Hm. destruct c; cbn [verb_of].
    - (* cat *) apply (run_inv vcat (fun _ => True)); [exact I| |intros; constructor].
      intros s r _ Hr. cbn. split; [exact I|constructor; [exact Hr|constructor]].
    - (* tac *) apply (run_inv v_tac (fun s => Forall Q s)); [constructor| |intros s H; exact H].
      intros s r Hs Hr. cbn. split; constructor; assumption.
    - (* head *) apply (run_inv (v_head n) (fun _ => True)); [exact I| |intros; constructor].
      intros s r _ Hr. cbn. destruct (s <? n); cbn; split; try exact I; [constructor; [exact Hr|constructor]|constructor].
    - (* tail *) apply (run_inv (v_tail n) (fun s => Forall Q s)); [constructor| |intros s H; cbn; apply Forall_lastn; exact H].
      intros s r Hs Hr. cbn. split; [apply Forall_app; split; [exact Hs|constructor; [exact Hr|constructor]]|constructor].
    - (* rename *) apply map_closed. intros r Hr. apply (Hm r); [exact Hr|reflexivity].
    - (* cut keep *) apply map_closed. intros r Hr. apply (Hm r); [exact Hr|reflexivity].
    - (* cut drop *) apply map_closed. intros r Hr. apply (Hm r); [exact Hr|reflexivity].
    - (* reorder head *) apply map_closed. intros r Hr. apply (Hm r); [exact Hr|reflexivity].
    - (* reorder tail *) apply map_closed. intros r Hr. apply (Hm r); [exact Hr|reflexivity].
    - (* fill-down *) apply (run_inv (v_fill_down a k) (fun _ => True)); [exact I| |intros; constructor].
      intros s r _ Hr. cbn [vstep v_fill_down].
      match goal with |- context [if ?b then _ else _] => destruct b end; cbn [fst snd].
      + split; [exact I|constructor; [exact Hr|constructor]].
      + destruct s as [p|]; cbn [fst snd]; (split; [exact I|]); (constructor; [|constructor]).
        * apply (Hm r); [exact Hr|]. right. exists p. reflexivity.
        * exact Hr.
    - (* put dot *) apply map_closed. intros r Hr. apply (Hm r); [exact Hr|]. eexists. reflexivity.
    - (* cat -n *) apply (run_inv v_cat_n (fun _ => True)); [exact I| |intros; constructor].
      intros s r _ Hr. cbn. split; [exact I|]. constructor; [|constructor]. apply (Hm r); [exact Hr|]. eexists. reflexivity.
    - (* count-similar *) apply (run_inv (v_count_similar k) groups_ok); [constructor| |].
      + intros s r Hs Hr. cbn [vstep v_count_similar]. destruct (get k r); cbn [fst snd]; split; try constructor; try assumption.
        apply group_add_ok; assumption.
      + intros s Hs. cbn [vfinish v_count_similar]. unfold groups_ok in Hs. induction s as [|g t IH]; cbn [flat_map]; [constructor|].
        inversion Hs as [|? ? Hg Ht]; subst. apply Forall_app. split; [|apply IH; exact Ht].
        apply Forall_forall. intros o Ho. apply in_map_iff in Ho. destruct Ho as (i & <- & Hi).
        rewrite Forall_forall in Hg. apply (Hm i); [apply Hg; exact Hi|]. eexists. reflexivity.
    - (* sort -f *) apply sort_by_closed.
    - (* nothing *) apply (run_inv v_nothing (fun _ => True)); [exact I| |intros; constructor].
      intros s r _ Hr. cbn. split; [exact I|constructor].
    - (* sort -nf / -nr *) apply sort_by_closed.
    - (* label *) apply map_closed. intros r Hr. apply (Hm r); [exact Hr|exact I].
    - (* regularize *) apply (run_inv v_regularize (fun _ => True)); [exact I| |intros; constructor].
      intros s r _ Hr. cbn [vstep v_regularize]. cbv zeta. destruct (lookup_keys _ s); cbn [fst snd]; (split; [exact I|]);
        (constructor; [|constructor]); [apply (Hm r); [exact Hr|exact I]|exact Hr].
    - (* fill-empty *) apply map_closed. intros r Hr. apply (Hm r); [exact Hr|exact I].
    - (* fill-down --all *) apply (run_inv (v_fill_down_all only_if_absent) (fun _ => True)); [exact I| |intros; constructor].
      intros s r _ Hr. cbn [vstep v_fill_down_all]. destruct (fda_fields only_if_absent s r) as [st1 r1]. cbn [fst snd].
      split; [exact I|]. constructor; [apply (Hm r); [exact Hr|exact I]|constructor].
    - (* cat -n -g *) apply (run_inv (v_cat_n_g k) (fun _ => True)); [exact I| |intros; constructor].
      intros s r _ Hr. cbn [vstep v_cat_n_g].
      match goal with |- context [let '(c, st1) := ?e in _] => destruct e as [c st1] end. cbn [fst snd].
      split; [exact I|]. constructor; [|constructor]. apply (Hm r); [exact Hr|]. eexists. reflexivity.
    - (* tee *) unfold v_tee. apply (run_inv vcat (fun _ => True)); [exact I| |intros; constructor].
      intros s r _ Hr. cbn. split; [exact I|constructor; [exact Hr|constructor]].
  Qed.
End Closed.

(* ------------------------------------------------------------------ C05: record level *)
Lemma outs_rename_key W old new r : W old = true -> W new = true ->
  outs W (C05.Model.rename_key old new r) = outs W r.
Proof.
  intros Ho Hn. induction r as [|[k v] r IH]; cbn [C05.Model.rename_key]; [reflexivity|].
  destruct (beqb_spec k old) as [->|Hne].
  - unfold outs. cbn. now rewrite Ho, Hn.
  - unfold outs in *. cbn. now rewrite IH.
Qed.

Lemma modif05_outside c r r' : modif05 c r r' -> same_outside (w05 c) r' r.
Proof.
  unfold same_outside. destruct c; cbn [modif05 w05]; intros H; subst; try reflexivity.
  - (* rename *) unfold C05.Model.rename_rec. destruct (get old r) as [v|]; [|reflexivity].
    destruct (beqb old new); [reflexivity|].
    assert (Ho : wlist [old; new] old = true) by apply wlist_hd.
    assert (Hn : wlist [old; new] new = true) by (unfold wlist; cbn; now rewrite beqb_refl, orb_true_r).
    destruct (has new r).
    + now rewrite outs_remove, outs_put.
    + now apply outs_rename_key.
  - (* cut keep *) unfold outs, wcompl. rewrite C12.Proofs.filter_filter. apply filter_ext. intros [k v]. cbn.
    destruct (mem k ks); reflexivity.
  - (* cut drop *) unfold outs, wlist. rewrite C12.Proofs.filter_filter. apply filter_ext. intros [k v]. cbn.
    destruct (mem k ks); reflexivity.
  - (* reorder head *) destruct (get k r); [|reflexivity]. rewrite outs_cons_in by apply wlist_hd. apply outs_remove, wlist_hd.
  - (* reorder tail *) destruct (get k r); [|reflexivity]. rewrite outs_app, (outs_cons_in _ k) by apply wlist_hd.
    cbn. rewrite app_nil_r. apply outs_remove, wlist_hd.
  - (* fill-down *) destruct H as [->|[p ->]]; [reflexivity|apply outs_put, wlist_hd].
  - (* put dot *) destruct H as [v ->]. apply outs_put, wlist_hd.
  - (* cat -n *) destruct H as [v ->]. destruct (has (B "n") r); [apply outs_put, wlist_hd|apply outs_cons_in, wlist_hd].
  - (* count-similar *) destruct H as [v ->]. apply outs_put, wlist_hd.
  - (* label *) now rewrite !outs_wall.
  - (* regularize *) now rewrite !outs_wall.
  - (* fill-empty *) now rewrite !outs_wall.
  - (* fill-down --all *) now rewrite !outs_wall.
  - (* cat -n -g *) destruct H as [v ->]. destruct (has (B "n") r); [apply outs_put, wlist_hd|apply outs_cons_in, wlist_hd].
Qed.

Lemma v05_bystander c : bystander (w05 c) (sem (V05 c)).
Proof.
  intros l o Ho. cbn [sem] in Ho.
  set (Q := fun o : record => exists i, In i l /\ same_outside (w05 c) o i).
  assert (HQ : Forall Q (C05.Model.run (C05.Model.verb_of c) l)).
  { apply run05_closed.
    - intros r r' (i & Hi & Hri) Hm. exists i. split; [exact Hi|]. apply modif05_outside in Hm.
      unfold same_outside in *. congruence.
    - apply Forall_forall. intros r Hr. exists r. split; [exact Hr|reflexivity]. }
  rewrite Forall_forall in HQ. exact (HQ o Ho).
Qed.

(* ------------------------------------------------------------------ C11: the selectors emit input records *)
Lemma v11_incl s l : incl (sem11 s l) l.
Proof.
  destruct (C11.Proofs2.selects_only l) as (H1 & H2 & H3 & _ & H5 & H6 & H7 & H8 & H9 & H10 & H11 & H12 & H13 & H14).
  destruct s; cbn [sem11]; auto.
Qed.
Lemma v11_bystander s : bystander wnone (sem (V11 s)).
Proof. apply tracks_refl_incl; [reflexivity|apply v11_incl]. Qed.

(* ------------------------------------------------------------------ C12: record level *)
Lemma cut_x_outs fs : forall r, outs (wlist fs) (C12.Model.cut_x fs r) = outs (wlist fs) r.
Proof.
  unfold C12.Model.cut_x.
  assert (G : forall l r, (forall f, In f l -> wlist fs f = true) -> outs (wlist fs) (fold_left (fun r f => remove f r) l r) = outs (wlist fs) r).
  { induction l as [|f t IH]; intros r Hl; cbn [fold_left]; [reflexivity|].
    rewrite IH by (intros; apply Hl; now right). apply outs_remove, Hl. now left. }
  intros r. apply G. intros f Hf. unfold wlist. now apply mem_In.
Qed.

Lemma unsparsify_f_outs fs fill : forall r, outs (wlist fs) (C12.Model.unsparsify_f fs fill r) = outs (wlist fs) r.
Proof.
  unfold C12.Model.unsparsify_f.
  assert (G : forall l r, (forall f, In f l -> wlist fs f = true) ->
              outs (wlist fs) (fold_left (fun r f => if has f r then r else r ++ [(f, fill)]) l r) = outs (wlist fs) r).
  { induction l as [|f t IH]; intros r Hl; cbn [fold_left]; [reflexivity|].
    rewrite IH by (intros; apply Hl; now right). destruct (has f r); [reflexivity|].
    rewrite outs_app, (outs_cons_in _ f) by (apply Hl; now left). cbn. apply app_nil_r. }
  intros r. apply G. intros f Hf. unfold wlist. now apply mem_In.
Qed.

Lemma number_from_outs f ps : forall i, outs (wexplode f) (C12.Model.number_from f i ps) = [].
Proof.
  induction ps as [|p t IH]; intros i; cbn [C12.Model.number_from]; [reflexivity|].
  rewrite outs_cons_in; [apply IH|]. unfold wexplode.
  replace (f ++ "_"%char :: C12.Model.itoa i) with ((f ++ ["_"%char]) ++ C12.Model.itoa i) by (now rewrite <- app_assoc).
  rewrite C12.Proofs.prefixb_app. apply orb_true_r.
Qed.

Lemma explode_fields_outs f sep : forall r, outs (wexplode f) (C12.Model.explode_fields f sep r) = outs (wexplode f) r.
Proof.
  induction r as [|[k v] r IH]; cbn [C12.Model.explode_fields]; [reflexivity|].
  destruct (beqb f k) eqn:E.
  - rewrite outs_app, number_from_outs. cbn [app]. symmetry. apply outs_cons_in. unfold wexplode. now rewrite E.
  - unfold outs in *. cbn. now rewrite IH.
Qed.

Lemma wall_map_bystander (f : record -> record) : bystander wall (map f).
Proof. apply tracks_map. intros r. unfold same_outside. now rewrite !outs_wall. Qed.

Lemma v12_1 a b : bystander (w12 1 a b) (sem (V12 1 a b)).
Proof.
  apply tracks_map. intros r. unfold same_outside, outs, w12, wcompl, C12.Model.cut_f.
  rewrite C12.Proofs.filter_filter. apply filter_ext. intros [k v]. cbn. destruct (mem k a); reflexivity.
Qed.
Lemma v12_2 a b : bystander (w12 2 a b) (sem (V12 2 a b)).
Proof. apply wall_map_bystander. Qed.
Lemma v12_3 a b : bystander (w12 3 a b) (sem (V12 3 a b)).
Proof. apply tracks_map. intros r. apply cut_x_outs. Qed.
Lemma v12_5 a b : bystander (w12 5 a b) (sem (V12 5 a b)).
Proof. apply tracks_map. intros r. apply C12.Proofs.reorder_f_bystanders. Qed.
Lemma v12_6 a b : bystander (w12 6 a b) (sem (V12 6 a b)).
Proof. apply tracks_map. intros r. apply C12.Proofs.reorder_e_bystanders. Qed.
Lemma v12_7 a b : bystander (w12 7 a b) (sem (V12 7 a b)).
Proof.
  apply tracks_map. intros r. unfold same_outside, outs, w12.
  set (m := C12.Model.rename_map a).
  assert (E : forall x, filter (fun kv : bytes * bytes => negb (wunion (wlist (keys m)) (wlist (values m)) (fst kv))) x
                        = filter (C12.Proofs.rename_bystander m) x).
  { intros x. apply filter_ext. intros [k v]. unfold C12.Proofs.rename_bystander, wunion, wlist. cbn. now rewrite negb_orb. }
  cbn [sem C12.Model.run_verb]. rewrite !E. apply C12.Proofs.rename_bystanders.
Qed.
Lemma v12_10 a b : bystander (w12 10 a b) (sem (V12 10 a b)).
Proof. apply wall_map_bystander. Qed.
Lemma v12_12 a b : bystander (w12 12 a b) (sem (V12 12 a b)).
Proof. apply tracks_map. intros r. apply unsparsify_f_outs. Qed.
Lemma v12_14 a b : bystander (w12 14 a b) (sem (V12 14 a b)).
Proof. apply tracks_map. intros r. apply C12.Proofs.sparsify_f_bystanders. Qed.
Lemma v12_16 a b : bystander (w12 16 a b) (sem (V12 16 a b)).
Proof.
  apply tracks_flat_map. intros r o Ho. unfold same_outside, w12. unfold C12.Model.explode_records in Ho.
  destruct (get (C12.Model.hd_b a) r); [|destruct Ho as [<-|[]]; reflexivity].
  apply in_map_iff in Ho. destruct Ho as (p' & <- & _). apply outs_put, wlist_hd.
Qed.
Lemma v12_17 a b : bystander (w12 17 a b) (sem (V12 17 a b)).
Proof. apply tracks_map. intros r. apply explode_fields_outs. Qed.

Lemma v12_bystander code a b : supported12 code = true -> bystander (w12 code a b) (sem (V12 code a b)).
Proof.
  intros Hs. unfold supported12 in Hs.
  destruct code as [|p|p]; try discriminate Hs.
  repeat (destruct p as [p|p|]; try discriminate Hs).
  all: first [apply v12_1|apply v12_2|apply v12_3|apply v12_5|apply v12_6|apply v12_7|apply v12_10|apply v12_12|apply v12_14
             |apply v12_16|apply v12_17].
Qed.

(* ------------------------------------------------------------------ per verb, then all chains *)
Theorem verb_bystander v : supported v = true -> bystander (wof v) (sem v).
Proof.
  destruct v as [c|s|code a b]; intros Hs.
  - apply v05_bystander.
  - apply v11_bystander.
  - apply v12_bystander. exact Hs.
Qed.

Lemma bystander_weaken_l W W' v : bystander W v -> bystander (wunion W W') v.
Proof. intros H l o Ho. destruct (H l o Ho) as (i & Hi & E). exists i. split; [exact Hi|apply outs_union_l; exact E]. Qed.
Lemma bystander_weaken_r W W' v : bystander W' v -> bystander (wunion W W') v.
Proof. intros H l o Ho. destruct (H l o Ho) as (i & Hi & E). exists i. split; [exact Hi|apply outs_union_r; exact E]. Qed.

Theorem chain_bystander : forall vs, forallb supported vs = true -> bystander (wchain vs) (run_chain vs).
Proof.
  induction vs as [|v t IH]; intros Hs.
  - intros l o Ho. exists o. split; [exact Ho|reflexivity].
  - cbn [forallb] in Hs. apply andb_true_iff in Hs. destruct Hs as [Hv Ht]. cbn [wchain run_chain].
    apply (tracks_comp _ (sem v) (run_chain t)).
    + unfold same_outside. intros; congruence.
    + apply bystander_weaken_l, verb_bystander, Hv.
    + apply bystander_weaken_r, IH, Ht.
Qed.

(* the statement in terms of single fields: a field whose name is outside the chain's write set is emitted with the
   bytes it had in the input record the output record descends from *)
Theorem chain_unassigned_bytes vs l o k :
  forallb supported vs = true -> In o (run_chain vs l) -> wchain vs k = false ->
  exists i, In i l /\ get k o = get k i /\ outs (wchain vs) o = outs (wchain vs) i.
Proof.
  intros Hs Ho Hk. destruct (chain_bystander vs Hs l o Ho) as (i & Hi & E).
  exists i. split; [exact Hi|]. split; [eapply same_outside_get; eauto|exact E].
Qed.

(* C05's own `then` chain (the state machines composed step by step, not stream by stream) is the same function *)
Lemma chain05_is_run_chain (cs : list C05.Model.vcode) l :
  C05.Model.run (C05.Model.chain_list (map C05.Model.verb_of cs)) l = run_chain (map V05 cs) l.
Proof.
  rewrite C05.Proofs.chain_list_run. revert l. induction cs as [|c t IH]; intros l; cbn; [reflexivity|apply IH].
Qed.
