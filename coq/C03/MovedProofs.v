(* C03 record level, second theorem: a field that no action assigns keeps its bytes even when reorder verbs move it.
   Needs the key-uniqueness invariant of Mlrmap (NoDup keys), which every action preserves. *)
From Miller Require Import Base.Bytes Base.Record C06.Model C03.Model C03.Proofs C03.RecordProofs.
Open Scope Z_scope.

(* ---------- plain records ---------- *)
Lemma get_In_keys k (r : record) : (exists v, get k r = Some v) <-> In k (keys r).
Proof.
  induction r as [|[k' v'] r IH]; cbn.
  - split; [intros [v H]; discriminate|contradiction].
  - destruct (beqb_spec k k') as [->|Hne].
    + split; [auto|intros _; eauto].
    + rewrite IH. split; [auto|]. intros [H|H]; [congruence|exact H].
Qed.

Lemma get_None_keys k (r : record) : get k r = None <-> ~ In k (keys r).
Proof.
  rewrite <- get_In_keys. destruct (get k r) as [v|]; split; intros H; try discriminate; try reflexivity.
  - exfalso. apply H. eauto.
  - intros [v Hv]. discriminate.
Qed.

Lemma get_remove_other k k' (r : record) : k <> k' -> get k' (remove k r) = get k' r.
Proof.
  intros Hne. induction r as [|[k2 v2] r IH]; cbn; [reflexivity|].
  destruct (beqb_spec k k2) as [->|Hk]; cbn.
  - destruct (beqb_spec k' k2); [congruence|reflexivity].
  - destruct (beqb k' k2); auto.
Qed.

Lemma keys_remove_subset k (r : record) x : In x (keys (remove k r)) -> In x (keys r).
Proof.
  induction r as [|[k2 v2] r IH]; cbn; [auto|].
  destruct (beqb k k2); cbn; [auto|]. intros [H|H]; auto.
Qed.

Lemma nodup_remove k (r : record) : NoDup (keys r) -> NoDup (keys (remove k r)) /\ ~ In k (keys (remove k r)).
Proof.
  induction r as [|[k2 v2] r IH]; cbn; intros Hn.
  - split; [constructor|auto].
  - inversion Hn as [|? ? Hni Hnd]; subst. destruct (beqb_spec k k2) as [->|Hk]; cbn.
    + split; assumption.
    + destruct (IH Hnd) as [H1 H2]. split.
      * constructor; [|exact H1]. intros Hin. apply Hni. eapply keys_remove_subset; eauto.
      * intros [H|H]; [congruence|auto].
Qed.

Lemma nodup_snoc (l : list bytes) k : NoDup l -> ~ In k l -> NoDup (l ++ [k]).
Proof.
  induction l as [|x l IHl]; cbn; intros Hn Hk.
  - constructor; [auto|constructor].
  - inversion Hn; subst. constructor.
    + rewrite in_app_iff. cbn. intros [H|[H|[]]]; [auto|]. apply Hk. now left.
    + apply IHl; [assumption|]. intros H. apply Hk. now right.
Qed.

Lemma nodup_put k v (r : record) : NoDup (keys r) -> NoDup (keys (put k v r)).
Proof.
  intros Hn. destruct (has k r) eqn:E.
  - now rewrite keys_put_present.
  - rewrite keys_put_absent by exact E. unfold has in E.
    destruct (get k r) eqn:G; [discriminate|]. apply get_None_keys in G. now apply nodup_snoc.
Qed.

Fixpoint prename (old new : bytes) (r : record) : record :=
  match r with [] => [] | (k, v) :: t => if beqb k old then (new, v) :: t else (k, v) :: prename old new t end.

Lemma get_prename_other old new k (r : record) : k <> old -> k <> new -> get k (prename old new r) = get k r.
Proof.
  intros H1 H2. induction r as [|[k2 v2] r IH]; cbn; [reflexivity|].
  destruct (beqb_spec k2 old) as [->|Hk]; cbn.
  - destruct (beqb_spec k new); [congruence|]. destruct (beqb_spec k old); [congruence|reflexivity].
  - destruct (beqb k k2); auto.
Qed.

Lemma keys_prename_in old new (r : record) x : In x (keys (prename old new r)) -> x = new \/ In x (keys r).
Proof.
  induction r as [|[k2 v2] r IH]; cbn; [auto|].
  destruct (beqb k2 old); cbn; intros [H|H]; auto. destruct (IH H); auto.
Qed.

Lemma nodup_prename old new (r : record) : NoDup (keys r) -> ~ In new (keys r) -> NoDup (keys (prename old new r)).
Proof.
  induction r as [|[k2 v2] r IH]; cbn; intros Hn Hnew; [constructor|].
  inversion Hn as [|? ? Hni Hnd]; subst. destruct (beqb k2 old); cbn.
  - constructor; [|exact Hnd]. intros H. apply Hnew. now right.
  - constructor.
    + intros H. destruct (keys_prename_in _ _ _ _ H) as [->|H']; [apply Hnew; now left|auto].
    + apply IH; [exact Hnd|]. intros H. apply Hnew. now right.
Qed.

Lemma get_app k (a b : record) : get k (a ++ b) = match get k a with Some v => Some v | None => get k b end.
Proof. induction a as [|[k2 v2] a IH]; cbn; [reflexivity|]. destruct (beqb k k2); auto. Qed.

Lemma nodup_app_single k v (r : record) : NoDup (keys r) -> ~ In k (keys r) -> NoDup (keys (r ++ [(k, v)])).
Proof.
  intros Hn Hk. unfold keys in *. rewrite map_app. cbn. now apply nodup_snoc.
Qed.

(* ---------- abstraction: mrecord -> record of texts ---------- *)
Section Moved.
  Variable inferrer : bytes -> ival.
  Variable W : list bytes.

  Notation al := (map kt).

  Lemma al_mget k r : get k (al r) = option_map text (mget k r).
  Proof. induction r as [|[k' v'] r IH]; cbn; [reflexivity|]. destruct (beqb k k'); auto. Qed.

  Lemma al_mhas k r : has k (al r) = mhas k r.
  Proof. unfold has, mhas. rewrite al_mget. destruct (mget k r); reflexivity. Qed.

  Lemma al_mput k v r : al (mput k v r) = put k (text v) (al r).
  Proof. induction r as [|[k' v'] r IH]; cbn; [reflexivity|]. destruct (beqb k k'); cbn; [reflexivity|now rewrite IH]. Qed.

  Lemma al_mremove k r : al (mremove k r) = remove k (al r).
  Proof. induction r as [|[k' v'] r IH]; cbn; [reflexivity|]. destruct (beqb k k'); cbn; [reflexivity|now rewrite IH]. Qed.

  Lemma al_rename_key old new r : al (rename_key old new r) = prename old new (al r).
  Proof. induction r as [|[k' v'] r IH]; cbn; [reflexivity|]. destruct (beqb k' old); cbn; [reflexivity|now rewrite IH]. Qed.

  (* the invariant: unique keys, valid texts, unpredicted cells only inside W, untouched keys keep their text *)
  Definition MInv (r0 : record) (st : mrecord * anyset) : Prop :=
    NoDup (keys (al (fst st))) /\ good (fst st) /\ anys_in_W W (snd st)
    /\ forall k, mem k W = false -> get k (al (fst st)) = get k r0.

  Lemma mem_false_neq k k' : mem k W = false -> mem k' W = true -> k <> k'.
  Proof. intros H1 H2 ->. congruence. Qed.

  Lemma mstep_inv r0 a st :
    (forall k, In k (writes a) -> mem k W = true) -> MInv r0 st -> MInv r0 (apply_ract inferrer None a st).
  Proof.
    intros Hw (Hn & Hg & Ha & Hk). destruct st as [r anys]. cbn [fst snd] in *.
    destruct a; cbn [apply_ract writes] in *.
    - (* RRead *)
      destruct (mupdate_keeps k _ r (uops_keep inferrer us) Hg) as [H1 H2].
      repeat split; cbn [fst snd]; auto; rewrite H1; auto.
    - (* RDerive *)
      assert (Hnw : mem new W = true) by (apply Hw; now left).
      destruct (mget k r) as [v|] eqn:Eg; [|repeat split; auto].
      pose proof (mget_good _ _ _ Hg Eg) as Hv.
      destruct (uops_keep inferrer us v Hv) as [Ht1 Hv1].
      destruct (derive_keeps inferrer d _ Hv1) as [Ht2 Hv2].
      destruct (derive_val inferrer None d (apply_uops inferrer None us v)) as [v2 nv0]. cbn [fst] in *.
      destruct (mupdate_const k v v2 r Eg (eq_trans Ht2 Ht1) Hv2 Hg) as [H1 H2].
      destruct (if mem k anys then match d with DConst s => NKnown s | _ => NAny end else nv0) as [s|];
        repeat split; cbn [fst snd]; try (apply good_mput; auto; fail).
      + rewrite al_mput, H1. now apply nodup_put.
      + now apply anys_filter.
      + intros k' Hk'. rewrite al_mput, H1, get_put_other; [auto|]. apply not_eq_sym. eapply mem_false_neq; eauto.
      + rewrite al_mput, H1. now apply nodup_put.
      + intros k' [<-|Hk']; auto.
      + intros k' Hk'. rewrite al_mput, H1, get_put_other; [auto|]. apply not_eq_sym. eapply mem_false_neq; eauto.
    - (* RPut *)
      assert (Hnw : mem k W = true) by (apply Hw; now left).
      repeat split; cbn [fst snd].
      + rewrite al_mput. now apply nodup_put.
      + apply good_mput; auto.
      + now apply anys_filter.
      + intros k' Hk'. rewrite al_mput, get_put_other; [auto|]. apply not_eq_sym. eapply mem_false_neq; eauto.
    - (* RRemove *)
      assert (Hnw : mem k W = true) by (apply Hw; now left).
      repeat split; cbn [fst snd].
      + rewrite al_mremove. now apply nodup_remove.
      + now apply good_mremove.
      + exact Ha.
      + intros k' Hk'. rewrite al_mremove, get_remove_other; [auto|]. apply not_eq_sym. eapply mem_false_neq; eauto.
    - (* RRename *)
      assert (Hn1 : mem old W = true) by (apply Hw; now left).
      assert (Hn2 : mem new W = true) by (apply Hw; right; now left).
      assert (HA : anys_in_W W (if mhas old r && negb (beqb old new)
                                then if mem old anys then new :: filter (fun k' => negb (beqb k' old)) anys
                                     else filter (fun k' => negb (beqb k' new)) anys
                                else anys)).
      { destruct (mhas old r && negb (beqb old new)); [|exact Ha]. destruct (mem old anys).
        - intros k' [<-|Hk']; [exact Hn2|]. apply filter_In in Hk'. now apply Ha.
        - now apply anys_filter. }
      repeat split; cbn [fst snd]; [|now apply good_mrename|exact HA|].
      + unfold mrename. destruct (mget old r) as [v|] eqn:Eg; [|exact Hn].
        destruct (beqb old new); [exact Hn|]. destruct (mhas new r) eqn:Eh.
        * rewrite al_mremove, al_mput. apply nodup_remove. now apply nodup_put.
        * rewrite al_rename_key. apply nodup_prename; [exact Hn|].
          rewrite <- al_mhas in Eh. unfold has in Eh. destruct (get new (al r)) eqn:G; [discriminate|]. now apply get_None_keys.
      + intros k' Hk'.
        assert (k' <> old) by (eapply mem_false_neq; eauto).
        assert (k' <> new) by (eapply mem_false_neq; eauto).
        assert (old <> k') by auto. assert (new <> k') by auto.
        unfold mrename. destruct (mget old r) as [v|]; [|auto].
        destruct (beqb old new); [auto|]. destruct (mhas new r).
        * rewrite al_mremove, get_remove_other, al_mput, get_put_other; auto.
        * rewrite al_rename_key, get_prename_other; auto.
    - (* RMoveToHead *)
      destruct (mget k r) as [v|] eqn:Eg; [|repeat split; auto].
      destruct (nodup_remove k (al r) Hn) as [Hn1 Hn2].
      repeat split; cbn [fst snd]; auto.
      + cbn. rewrite al_mremove. constructor; assumption.
      + constructor; [exact (mget_good _ _ _ Hg Eg)|now apply good_mremove].
      + intros k' Hk'. cbn [map kt fst snd get]. destruct (beqb_spec k' k) as [->|Hne].
        * rewrite <- Hk by exact Hk'. rewrite al_mget, Eg. reflexivity.
        * rewrite al_mremove, get_remove_other; auto.
    - (* RMoveToTail *)
      destruct (mget k r) as [v|] eqn:Eg; [|repeat split; auto].
      destruct (nodup_remove k (al r) Hn) as [Hn1 Hn2].
      repeat split; cbn [fst snd]; auto.
      + rewrite map_app, al_mremove. cbn [map kt fst snd]. now apply nodup_app_single.
      + apply Forall_app. split; [now apply good_mremove|]. constructor; [exact (mget_good _ _ _ Hg Eg)|constructor].
      + intros k' Hk'. rewrite map_app, al_mremove, get_app. cbn [map kt fst snd get].
        destruct (beqb_spec k' k) as [->|Hne].
        * apply get_None_keys in Hn2. rewrite Hn2. rewrite <- Hk by exact Hk'. rewrite al_mget, Eg. reflexivity.
        * rewrite get_remove_other by auto. rewrite Hk by exact Hk'. destruct (get k' r0); reflexivity.
  Qed.

  Lemma msteps_inv r0 prog : forall st,
    (forall a, In a prog -> forall k, In k (writes a) -> mem k W = true) ->
    MInv r0 st -> MInv r0 (apply_racts inferrer None prog st).
  Proof.
    induction prog as [|a t IH]; intros st Hw H; cbn [apply_racts]; [exact H|].
    apply IH; [intros a' Ha'; apply Hw; now right|]. apply mstep_inv; [apply Hw; now left|exact H].
  Qed.

  Lemma write_record_get r anys k :
    good r -> anys_in_W W anys -> mem k W = false ->
    aget k (write_record inferrer None (r, anys)) = option_map CKnown (get k (al r)).
  Proof.
    intros Hg Ha Hk. unfold write_record. cbn [fst snd]. induction r as [|[k' v] r IH]; cbn [map aget get kt fst snd]; [reflexivity|].
    inversion Hg as [|? ? Hv Hr]; subst. cbn in Hv. destruct (beqb_spec k k') as [<-|Hne]; [|now apply IH].
    cbn [option_map]. f_equal. destruct (mem k anys) eqn:Em.
    - apply mem_In in Em. apply Ha in Em. congruence.
    - unfold output_text. now rewrite (string_op_none_out inferrer (text v) v (conj eq_refl Hv)).
  Qed.
End Moved.

Lemma read_record_al (r : record) : map kt (read_record r) = r.
Proof. unfold read_record. rewrite map_map. cbn. rewrite <- (map_id r) at 2. apply map_ext. now intros [k v]. Qed.

Lemma moved_fields_keep_bytes (inferrer : bytes -> ival) (prog : list ract) (r : record) :
  wf_record r = true ->
  forall k, mem k (write_set prog) = false ->
  aget k (run_program inferrer None prog r) = option_map CKnown (get k r).
Proof.
  intros Hwf k Hk. unfold run_program. set (W := write_set prog).
  assert (Hw : forall a, In a prog -> forall k, In k (writes a) -> mem k W = true).
  { intros a Ha k0 Hk0. apply mem_In. unfold W, write_set. apply in_flat_map; eauto. }
  assert (H0 : MInv W r (read_record r, [])).
  { repeat split; cbn [fst snd].
    - rewrite read_record_al. now apply nodupb_NoDup.
    - unfold read_record. apply Forall_forall. intros kv Hkv. apply in_map_iff in Hkv. destruct Hkv as (x & <- & _). reflexivity.
    - intros k0 [].
    - intros k0 _. now rewrite read_record_al. }
  pose proof (msteps_inv inferrer W r prog _ Hw H0) as (Hn & Hg & Ha & Hget).
  destruct (apply_racts inferrer None prog (read_record r, [])) as [r1 anys]. cbn [fst snd] in *.
  rewrite (write_record_get inferrer W r1 anys k Hg Ha Hk). now rewrite Hget.
Qed.
