(* C03 property theorems.  Only statements closed by [exact]; each followed by Print Assumptions.
   The value-level theorems quantify over EVERY inferrer (hence every inference flag -S/-A/-O/default and any
   future one), every pair of input strings and every history of read operations of C03.Model. *)
From Miller Require Import Base.Bytes Base.Record C06.Model C06.Harness C03.Model C03.Proofs C03.RecordProofs C03.MovedProofs C03.Harness.
From Miller Require Import C03.Verbs C03.VerbProofs C03.ReaderProofs.
From Miller Require C05.Model C11.Model C12.Model.
Open Scope Z_scope.

(* reading never changes what the writer emits: for all byte strings s1 s2, all inference behaviours, all histories
   of read operations (type tests, getters, String/OriginalString/StringMaybeQuoted, Copy, JSON formatting,
   fmtnum-style formatters, built-in functions, all comparators of sort, --jvquoteall's stringifier) *)
Theorem C03_read_ops_preserve_text :
  forall (inferrer : bytes -> ival) (s1 s2 : bytes) (ops : list rop),
  let st := fst (run inferrer None ops (from_data s1, from_data s2)) in
  output_text inferrer None (fst st) = Some s1 /\ output_text inferrer None (snd st) = Some s2.
Proof. exact read_ops_preserve_text. Qed.
Print Assumptions C03_read_ops_preserve_text.

(* the same under the four concrete flags, with C06's inferrer over the regenerated digit tables *)
Theorem C03_read_ops_preserve_text_all_flags :
  forall (f : iflag) (s1 s2 : bytes) (ops : list rop),
  let st := fst (run (ginfer f) None ops (from_data s1, from_data s2)) in
  output_text (ginfer f) None (fst st) = Some s1 /\ output_text (ginfer f) None (snd st) = Some s2.
Proof. exact (fun f => read_ops_preserve_text (ginfer f)). Qed.
Print Assumptions C03_read_ops_preserve_text_all_flags.

(* the internal invariant: printrep = input text and printrepValid = true after any read history *)
Theorem C03_printrep_retained :
  forall (inferrer : bytes -> ival) ofmt (s1 s2 : bytes) (ops : list rop),
  (ofmt = None \/ forallb pure_rop ops = true) ->
  let st := fst (run inferrer ofmt ops (from_data s1, from_data s2)) in
  (text (fst st) = s1 /\ valid (fst st) = true) /\ (text (snd st) = s2 /\ valid (snd st) = true).
Proof. exact (fun inferrer ofmt s1 s2 ops H => inv_run inferrer ofmt ops s1 s2 _ _ H (inv_from_data s1) (inv_from_data s2)). Qed.
Print Assumptions C03_printrep_retained.

(* a value that was only read is in one of exactly two states: untouched, or inferred once from its own text *)
Theorem C03_read_ops_two_states :
  forall (inferrer : bytes -> ival) ofmt (s1 s2 : bytes) (ops : list rop),
  forallb pure_rop ops = true ->
  let st := fst (run inferrer ofmt ops (from_data s1, from_data s2)) in
  Reach inferrer s1 (fst st) /\ Reach inferrer s2 (snd st).
Proof. exact read_ops_two_states. Qed.
Print Assumptions C03_read_ops_two_states.

(* --ofmt is the only re-rendering and it applies to floats only *)
Theorem C03_ofmt_applies_to_floats_only :
  forall (inferrer : bytes -> ival) (fmt : Z -> bytes) (s1 s2 : bytes) (ops : list rop),
  forallb pure_rop ops = true ->
  let st := fst (run inferrer (Some fmt) ops (from_data s1, from_data s2)) in
  output_text inferrer (Some fmt) (fst st) = match inferrer s1 with VFloat b => Some (fmt b) | _ => Some s1 end
  /\ output_text inferrer (Some fmt) (snd st) = match inferrer s2 with VFloat b => Some (fmt b) | _ => Some s2 end.
Proof. exact read_ops_ofmt_only_floats. Qed.
Print Assumptions C03_ofmt_applies_to_floats_only.

(* record level: fields outside the write set of a program keep key, bytes and relative order *)
Theorem C03_unassigned_fields_pass_through :
  forall (inferrer : bytes -> ival) (prog : list ract) (r : record),
  let W := write_set prog ++ move_set prog in
  outside W (run_program inferrer None prog r) = map known_cell (outside W r).
Proof. exact unassigned_fields_pass_through. Qed.
Print Assumptions C03_unassigned_fields_pass_through.

(* fields that are only moved (reorder) or merely read keep their bytes: for every key outside the write set the output
   cell is the input text (records have unique keys, as every Mlrmap does) *)
Theorem C03_moved_fields_keep_bytes :
  forall (inferrer : bytes -> ival) (prog : list ract) (r : record),
  wf_record r = true ->
  forall k, mem k (write_set prog) = false ->
  aget k (run_program inferrer None prog r) = option_map CKnown (get k r).
Proof. exact moved_fields_keep_bytes. Qed.
Print Assumptions C03_moved_fields_keep_bytes.

(* the documented JSON re-rendering: after any pure read history the JSON writer keeps a float's text iff it is a legal
   JSON number, always prints ints in decimal, and quotes everything else -- a function of the input text alone *)
Theorem C03_json_rerender_only_when_invalid :
  forall (inferrer : bytes -> ival) (s1 s2 : bytes) (ops : list rop),
  forallb pure_rop ops = true ->
  let st := fst (run inferrer None ops (from_data s1, from_data s2)) in
  snd (format_as_json inferrer None (fst st)) = json_of_text inferrer s1
  /\ snd (format_as_json inferrer None (snd st)) = json_of_text inferrer s2.
Proof. exact json_rerender_only_when_invalid. Qed.
Print Assumptions C03_json_rerender_only_when_invalid.

(* non-vacuity: concrete numerals of every spelling class, a read history touching type tests, getters, comparators in
   both orders, Copy and the stringifier; a record program with reads, derived assignments, rename, unset, reorder *)
Example C03_nonvacuous :
  let ops := [OnX UType; OnY UIsNumeric; Bin BCmp; BinSwapped BLexicalAscending; OnX UGetNumericToFloatValue;
              OnX UCopy; OnY UFormatAsJSON; Bin BNumericDescending; OnX UStringify; OnY (UBif true true)] in
  forallb pure_rop [OnX UType; Bin BCmp; OnY UCopy; OnX UString] = true
  /\ map fst (snd (run (ginfer FDefault) None ops (from_data (B "0xff"), from_data (B "1.500"))))
     = [0; 1; 1; 1; 4643176031446892544; 0; 0; -1; 0; -7]
  /\ ty (fst (fst (run (ginfer FDefault) None ops (from_data (B "0xff"), from_data (B "1.500"))))) = TString
  /\ ty (snd (fst (run (ginfer FA) None [OnY UType] (from_data (B "0xff"), from_data (B "+5"))))) = TFloat
  /\ json_of_text (ginfer FDefault) (B "1.500") = JSame (B "1.500") /\ json_of_text (ginfer FDefault) (B "+.5e1") = JRerendered
  /\ json_of_text (ginfer FDefault) (B "0xff") = JDecimal (B "255") /\ json_of_text (ginfer FDefault) (B "007") = JQuoted
  /\ wf_record [(B "a", B "0xff"); (B "b", B "007"); (B "c", B "x"); (B "d", B "1e3"); (B "e", B "1.500")] = true
  /\ run_program (ginfer FDefault) None
       [RRead (B "a") [UType; UIsNumeric]; RDerive (B "a") [UGetIntValue] DTypeof (B "t"); RRename (B "b") (B "bb");
        RRemove (B "c"); RMoveToHead (B "d")]
       [(B "a", B "0xff"); (B "b", B "007"); (B "c", B "x"); (B "d", B "1e3"); (B "e", B "1.500")]
     = [(B "d", CKnown (B "1e3")); (B "a", CKnown (B "0xff")); (B "bb", CKnown (B "007")); (B "e", CKnown (B "1.500"));
        (B "t", CKnown (B "int"))].
Proof. vm_compute. repeat split; reflexivity. Qed.

(* ---------------------------------------------------------------------------------------------------------------
   Concrete verbs.  The per-verb Gallina models that C05, C11 and C12 tie to the Go code are imported unchanged
   (C05.Model.verb_of: 18 `then`-chain state machines incl. put '$z = $x . "s"', sort -f, sort -nf/-nr, count-similar,
   fill-down, cat -n; C11.Model: 13 record selectors; C12.Model.run_verb: cut -f/-o/-x, reorder -f/-e, rename,
   sort-within-records, unsparsify -f, sparsify -f, nest explode across records / across fields).
   For each of them: every output record descends from an input record with which it agrees on every field outside
   the verb's declared write set -- same names, same bytes, same relative order. *)
Theorem C03_verb_bystander :
  forall v : cverb, supported v = true -> bystander (wof v) (sem v).
Proof. exact verb_bystander. Qed.
Print Assumptions C03_verb_bystander.

(* ... and for every chain of them, of any length, over streams of any length (induction on the chain) *)
Theorem C03_chain_bystander :
  forall vs : list cverb, forallb supported vs = true -> bystander (wchain vs) (run_chain vs).
Proof. exact chain_bystander. Qed.
Print Assumptions C03_chain_bystander.

(* field by field: a name outside the chain's write set is looked up with the same bytes in the output record and in
   the input record it descends from *)
Theorem C03_chain_unassigned_bytes :
  forall (vs : list cverb) (l : list record) (o : record) (k : bytes),
  forallb supported vs = true -> In o (run_chain vs l) -> wchain vs k = false ->
  exists i, In i l /\ get k o = get k i /\ outs (wchain vs) o = outs (wchain vs) i.
Proof. exact chain_unassigned_bytes. Qed.
Print Assumptions C03_chain_unassigned_bytes.

(* the stream-by-stream chain used above is C05's `then` chain (state machines composed record by record) *)
Theorem C03_then_chain_is_run_chain :
  forall (cs : list C05.Model.vcode) (l : list record),
  C05.Model.run (C05.Model.chain_list (map C05.Model.verb_of cs)) l = run_chain (map V05 cs) l.
Proof. exact chain05_is_run_chain. Qed.
Print Assumptions C03_then_chain_is_run_chain.

(* the reader side (RecordArena.PutDeferred as modelled by C05): a line whose names are distinct is read as it stands;
   without de-duplication a repeated name keeps its first position and every other field keeps its bytes *)
Theorem C03_reader_distinct_names_identity :
  forall (dedupe : bool) (l : record), wf_record l = true -> read_line dedupe l = l.
Proof. exact read_line_distinct. Qed.
Print Assumptions C03_reader_distinct_names_identity.

Theorem C03_reader_nodedupe_other_fields :
  forall (l : record) (k v : bytes) (k' : bytes), k' <> k ->
  get k' (read_line false (l ++ [(k, v)])) = get k' (read_line false l)
  /\ get k (read_line false (l ++ [(k, v)])) = Some v.
Proof. exact read_line_nodedupe_snoc. Qed.
Print Assumptions C03_reader_nodedupe_other_fields.

Example C03_verbs_nonvacuous :
  let chain := [V05 (C05.Model.VPutDot (B "z") (B "x") (B "!")); V05 (C05.Model.VSortN true (B "x"));
                V11 (SHead 2 None); V12 7 [B "y"; B "yy"] []; V05 (C05.Model.VCountSimilar (B "x")); V12 5 [B "z"] []] in
  let input := [[(B "x", B "007"); (B "y", B "0xff"); (B "w", B "1e3")];
                [(B "x", B "10"); (B "y", B "+5"); (B "w", B "1.500")];
                [(B "x", B "3"); (B "y", B ".5"); (B "w", B "5.")]] in
  forallb supported chain = true
  /\ wchain chain (B "x") = false /\ wchain chain (B "w") = false /\ wchain chain (B "z") = true /\ wchain chain (B "y") = true
  /\ run_chain chain input
     = [[(B "z", B "007!"); (B "x", B "007"); (B "yy", B "0xff"); (B "w", B "1e3"); (B "count", B "1")];
        [(B "z", B "10!"); (B "x", B "10"); (B "yy", B "+5"); (B "w", B "1.500"); (B "count", B "1")]]
  /\ read_line false [(B "a", B "0x01"); (B "a", B "0x1F"); (B "b", B "+7.50")] = [(B "a", B "0x1F"); (B "b", B "+7.50")]
  /\ read_line true [(B "a", B "0x01"); (B "a", B "0x1F"); (B "b", B "+7.50")] = [(B "a", B "0x01"); (B "a_2", B "0x1F"); (B "b", B "+7.50")].
Proof. vm_compute. repeat split; reflexivity. Qed.
