(* C03, concrete verbs: the per-verb Gallina models that other properties tie to the Go code
   (C05.Model: the `then`-chain state machines [verb_of]; C11.Model: the record-selecting verbs; C12.Model: the
   field-restructuring verbs [run_verb]) are imported UNCHANGED, each is given its declared write set, and "fields
   outside the write set keep key, bytes and relative order" is stated once, for streams.  Definitions only. *)
From Miller Require Import Base.Bytes Base.Record.
From Miller Require C05.Model C11.Model C12.Model.
Open Scope Z_scope.

(* write sets are predicates on field names (cut -f keeps the named fields: its write set is the complement of a list) *)
Definition wset := bytes -> bool.
Definition wnone : wset := fun _ => false.
Definition wall : wset := fun _ => true.
Definition wlist (l : list bytes) : wset := fun k => mem k l.
Definition wcompl (l : list bytes) : wset := fun k => negb (mem k l).
Definition wunion (a b : wset) : wset := fun k => a k || b k.

(* the fields of a record whose names are outside W, in record order *)
Definition outs (W : wset) (r : record) : record := filter (fun kv => negb (W (fst kv))) r.

Definition stream := list record -> list record.

(* every output record descends from an input record with which it agrees on all fields outside W:
   same names, same bytes, same relative order *)
Definition same_outside (W : wset) (o i : record) : Prop := outs W o = outs W i.
Definition tracks (R : record -> record -> Prop) (v : stream) : Prop :=
  forall l o, In o (v l) -> exists i, In i l /\ R o i.
Definition bystander (W : wset) (v : stream) : Prop := tracks (same_outside W) v.

(* ------------------------------------------------------------------ the concrete verbs *)
Inductive sel11 :=
| SHead (n : Z) (g : option (list bytes)) | STail (n : Z) (plus : bool) (fs : list bytes)
| SDecimate (n : Z) (b e : bool) (fs : list bytes) | SGrep (mt : bytes -> bool) (invert values_only : bool)
| SHaving (mode : C11.Model.hf_mode) (names : list bytes) (mt : bytes -> bool) | STac | SGroupBy (fs : list bytes) | SGroupLike
| SUniqA | SSkipTrivial | SNothing | SShuffle (us : list nat) | SBootstrap (n : Z) (us : list nat).

Definition sem11 (s : sel11) : stream :=
  match s with
  | SHead n g => C11.Model.head n g | STail n p fs => C11.Model.tail n p fs | SDecimate n b e fs => C11.Model.decimate n b e fs
  | SGrep mt i v => C11.Model.grep mt i v | SHaving m ns mt => C11.Model.having_fields m ns mt | STac => C11.Model.tac
  | SGroupBy fs => C11.Model.group_by fs | SGroupLike => C11.Model.group_like | SUniqA => C11.Model.uniq_a
  | SSkipTrivial => C11.Model.skip_trivial | SNothing => C11.Model.nothing | SShuffle us => C11.Model.shuffle us
  | SBootstrap n us => C11.Model.bootstrap n us
  end.

Inductive cverb :=
| V05 (c : C05.Model.vcode)                 (* C05: run (verb_of c): cat tac head tail rename cut reorder fill-down put-dot cat -n
                                               count-similar sort -f sort -nf/-nr nothing label regularize *)
| V11 (s : sel11)                           (* C11: the record selectors *)
| V12 (code : Z) (a b : list bytes).        (* C12: run_verb code a b *)

Definition sem (v : cverb) : stream :=
  match v with
  | V05 c => C05.Model.run (C05.Model.verb_of c)
  | V11 s => sem11 s
  | V12 code a b => C12.Model.run_verb code a b
  end.

Fixpoint run_chain (vs : list cverb) (l : list record) : list record :=
  match vs with [] => l | v :: t => run_chain t (sem v l) end.

(* declared write sets: the names a verb may assign, remove, rename or move *)
Definition w05 (c : C05.Model.vcode) : wset :=
  match c with
  | C05.Model.VRename a b => wlist [a; b]
  | C05.Model.VCutKeep ks => wcompl ks
  | C05.Model.VCutDrop ks => wlist ks
  | C05.Model.VReorderHead k | C05.Model.VReorderTail k => wlist [k]
  | C05.Model.VFillDown _ k => wlist [k]
  | C05.Model.VPutDot z _ _ => wlist [z]            (* $z = $x . "sfx" READS x: x is not in the write set *)
  | C05.Model.VCatN => wlist [B "n"]
  | C05.Model.VCountSimilar _ => wlist [B "count"]  (* reads the group-by field *)
  | C05.Model.VLabel _ | C05.Model.VRegularize => wall   (* positional renaming / whole-record reordering *)
  | C05.Model.VFillEmpty _ | C05.Model.VFillDownAll _ => wall   (* fill-empty / fill-down --all may assign any field's value *)
  | C05.Model.VCatNG _ => wlist [B "n"]             (* cat -n -g k reads k *)
  | _ => wnone                                        (* cat tac head tail sort -f sort -nf/-nr nothing: read only *)
  end.

(* nest --explode --values --across-fields -f f: f is replaced by f_1, f_2, ... *)
Definition wexplode (f : bytes) : wset := fun k => beqb f k || prefixb (f ++ ["_"%char]) k.

Definition w12 (code : Z) (a b : list bytes) : wset :=
  match code with
  | 1 => wcompl a                                            (* cut -f *)
  | 3 => wlist a                                             (* cut -x -f *)
  | 5 | 6 => wlist a                                         (* reorder -f / -e -f *)
  | 7 => let m := C12.Model.rename_map a in wunion (wlist (keys m)) (wlist (values m))   (* rename old,new,... *)
  | 12 => wlist a                                            (* unsparsify -f *)
  | 14 => wlist a                                            (* sparsify -f *)
  | 16 => wlist [C12.Model.hd_b a]                           (* nest --explode --values --across-records *)
  | 17 => wexplode (C12.Model.hd_b a)                        (* nest --explode --values --across-fields *)
  | _ => wall                                                (* cut -o, sort-within-records: whole-record reordering *)
  end.
Definition supported12 (code : Z) : bool :=
  match code with 1 | 2 | 3 | 5 | 6 | 7 | 10 | 12 | 14 | 16 | 17 => true | _ => false end.

Definition wof (v : cverb) : wset :=
  match v with V05 c => w05 c | V11 _ => wnone | V12 code a b => w12 code a b end.
Definition supported (v : cverb) : bool :=
  match v with V12 code _ _ => supported12 code | _ => true end.

Fixpoint wchain (vs : list cverb) : wset :=
  match vs with [] => wnone | v :: t => wunion (wof v) (wchain t) end.
