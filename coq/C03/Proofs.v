(* C03 lemmas: reading a value taken from data never changes the text the writer emits. *)
From Miller Require Import Base.Bytes Base.Record C06.Model C03.Model.
Open Scope Z_scope.

Section Proofs.
  Variable inferrer : bytes -> ival.

  (* ---------- value level ---------- *)
  Definition Inv (s : bytes) (m : mlrval) : Prop := text m = s /\ valid m = true.

  Lemma inv_from_data s : Inv s (from_data s).
  Proof. split; reflexivity. Qed.

  Lemma inv_infer s m : Inv s m -> Inv s (infer_mv inferrer m).
  Proof.
    intros [Ht Hv]. unfold infer_mv.
    destruct (inferrer (text m)); cbn; split; auto.
  Qed.

  Lemma inv_force s m : Inv s m -> Inv s (force inferrer m).
  Proof.
    intros H. unfold force. destruct (ty m); auto; apply inv_infer; auto.
  Qed.

  Lemma set_print_rep_valid m : valid m = true -> set_print_rep m = m.
  Proof. intros H. unfold set_print_rep. now rewrite H. Qed.

  Lemma inv_string_op ofmt s m : Inv s m -> Inv s (fst (string_op inferrer ofmt m)).
  Proof.
    intros H. unfold string_op. destruct ofmt as [f|].
    - pose proof (inv_force s m H) as Hf.
      destruct (ty (force inferrer m)) eqn:Et; cbn; try (rewrite set_print_rep_valid; [exact Hf|apply Hf]).
      destruct (pay (force inferrer m)); cbn; try (rewrite set_print_rep_valid; [exact Hf|apply Hf]). exact Hf.
    - cbn. rewrite set_print_rep_valid; [exact H|apply H].
  Qed.

  Lemma string_op_none_out s m : Inv s m -> snd (string_op inferrer None m) = Some s.
  Proof.
    intros [Ht Hv]. unfold string_op. cbn. rewrite set_print_rep_valid by exact Hv. now rewrite Ht.
  Qed.

  Lemma inv_original ofmt s m : Inv s m -> Inv s (fst (original_string_op inferrer ofmt m)).
  Proof.
    intros H. unfold original_string_op. destruct (valid m); [exact H|]. now apply inv_string_op.
  Qed.

  Lemma inv_smq ofmt s m : Inv s m -> Inv s (fst (string_maybe_quoted_op inferrer ofmt m)).
  Proof.
    intros H. unfold string_maybe_quoted_op.
    pose proof (inv_string_op ofmt s m H) as H1. destruct (string_op inferrer ofmt m) as [m1 o]. exact H1.
  Qed.

  Lemma inv_stringify_none s m : Inv s m -> Inv s (stringify_op inferrer None m).
  Proof.
    intros H. unfold stringify_op.
    pose proof (inv_string_op None s m H) as H1. pose proof (string_op_none_out s m H) as H2.
    destruct (string_op inferrer None m) as [m1 o]. cbn in *. subst o. split; reflexivity.
  Qed.

  Lemma inv_format_as_json ofmt s m : Inv s m -> Inv s (fst (format_as_json inferrer ofmt m)).
  Proof.
    intros H. pose proof (inv_force s m H) as Hf. unfold format_as_json.
    destruct (ty (force inferrer m)) eqn:Et; cbn [fst]; try exact Hf.
    - destruct (pay (force inferrer m)); exact Hf.
    - pose proof (inv_string_op ofmt s _ Hf) as H1. destruct (string_op inferrer ofmt (force inferrer m)); exact H1.
  Qed.

  Definition pure_read (u : uop) : bool := match u with UStringify => false | _ => true end.

  Lemma inv_copy s m : Inv s m -> Inv s (MV (text m) (valid m) (ty m) (pay m)).
  Proof. intros H. exact H. Qed.

  (* every unary read operation keeps the invariant; StringifyValuesRecursively (the --jvquoteall rewriter)
     keeps it when no --ofmt is in force *)
  Lemma inv_uop ofmt u s m :
    (ofmt = None \/ pure_read u = true) -> Inv s m -> Inv s (fst (apply_uop inferrer ofmt u m)).
  Proof.
    intros Hp H. pose proof (inv_force s m H) as Hf.
    destruct u; cbn [apply_uop fst]; try exact H; try exact Hf.
    - (* UString *) pose proof (inv_string_op ofmt s m H) as H1. destruct (string_op inferrer ofmt m); exact H1.
    - pose proof (inv_original ofmt s m H) as H1. destruct (original_string_op inferrer ofmt m); exact H1.
    - pose proof (inv_smq ofmt s m H) as H1. destruct (string_maybe_quoted_op inferrer ofmt m); exact H1.
    - (* UFormatAsJSON *)
      pose proof (inv_format_as_json ofmt s m H) as H1. destruct (format_as_json inferrer ofmt m); exact H1.
    - (* UStringify *)
      destruct Hp as [->|Hp]; [|discriminate]. now apply inv_stringify_none.
    - (* UFormat *) destruct via_string; cbn [fst]; [now apply inv_string_op|exact Hf].
    - (* UBif *) destruct forces, strings; cbn [fst]; auto; now apply inv_string_op.
  Qed.

  Definition pure_bop (o : bop) : bool := true.

  Lemma inv_bop ofmt o s1 s2 a b :
    Inv s1 a -> Inv s2 b ->
    let r := apply_bop inferrer ofmt o a b in Inv s1 (fst (fst r)) /\ Inv s2 (snd (fst r)).
  Proof.
    intros Ha Hb.
    pose proof (inv_force s1 a Ha) as Hfa. pose proof (inv_force s2 b Hb) as Hfb.
    pose proof (inv_string_op ofmt s1 a Ha) as Hsa. pose proof (inv_string_op ofmt s2 b Hb) as Hsb.
    destruct o; cbn -[string_op force cmp_forced]; auto.
    - destruct (string_op inferrer ofmt a), (string_op inferrer ofmt b); cbn in *; auto.
    - destruct (string_op inferrer ofmt b), (string_op inferrer ofmt a); cbn in *; auto.
    - destruct (string_op inferrer ofmt a), (string_op inferrer ofmt b); cbn in *; auto.
    - destruct (string_op inferrer ofmt a), (string_op inferrer ofmt b); cbn in *; auto.
    - destruct (string_op inferrer ofmt a), (string_op inferrer ofmt b); cbn in *; auto.
    - destruct (string_op inferrer ofmt a), (string_op inferrer ofmt b); cbn in *; auto.
    - destruct strings; cbn -[string_op force]; [|auto]. split; now apply inv_string_op.
  Qed.

  Definition pure_rop (r : rop) : bool :=
    match r with OnX u | OnY u => pure_read u | Bin _ | BinSwapped _ => true end.

  Lemma inv_rop ofmt r s1 s2 x y :
    (ofmt = None \/ pure_rop r = true) -> Inv s1 x -> Inv s2 y ->
    let st := fst (apply_rop inferrer ofmt r (x, y)) in Inv s1 (fst st) /\ Inv s2 (snd st).
  Proof.
    intros Hp Hx Hy. destruct r; cbn -[apply_uop apply_bop].
    - pose proof (inv_uop ofmt u s1 x Hp Hx). destruct (apply_uop inferrer ofmt u x); cbn in *; auto.
    - pose proof (inv_uop ofmt u s2 y Hp Hy). destruct (apply_uop inferrer ofmt u y); cbn in *; auto.
    - pose proof (inv_bop ofmt o s1 s2 x y Hx Hy) as H. cbv zeta in H.
      destruct (apply_bop inferrer ofmt o x y) as [[a b] ob]; cbn in *; auto.
    - pose proof (inv_bop ofmt o s2 s1 y x Hy Hx) as H. cbv zeta in H.
      destruct (apply_bop inferrer ofmt o y x) as [[a b] ob]; cbn in *; tauto.
  Qed.

  Lemma inv_run ofmt ops : forall s1 s2 x y,
    (ofmt = None \/ forallb pure_rop ops = true) -> Inv s1 x -> Inv s2 y ->
    let st := fst (run inferrer ofmt ops (x, y)) in Inv s1 (fst st) /\ Inv s2 (snd st).
  Proof.
    induction ops as [|r t IH]; intros s1 s2 x y Hp Hx Hy; cbn -[apply_rop]; [auto|].
    assert (Hp1 : ofmt = None \/ pure_rop r = true).
    { destruct Hp as [?|Hp]; [auto|]. cbn in Hp. apply andb_true_iff in Hp. tauto. }
    assert (Hp2 : ofmt = None \/ forallb pure_rop t = true).
    { destruct Hp as [?|Hp]; [auto|]. cbn in Hp. apply andb_true_iff in Hp. tauto. }
    pose proof (inv_rop ofmt r s1 s2 x y Hp1 Hx Hy) as H. cbv zeta in H.
    destruct (apply_rop inferrer ofmt r (x, y)) as [[x1 y1] o]. cbn [fst snd] in H. destruct H as [H1 H2].
    specialize (IH s1 s2 x1 y1 Hp2 H1 H2). cbv zeta in IH.
    destruct (run inferrer ofmt t (x1, y1)) as [st2 os]. exact IH.
  Qed.

  (* main value-level statement, no --ofmt: any read history, both values *)
  Lemma read_ops_preserve_text s1 s2 ops :
    let st := fst (run inferrer None ops (from_data s1, from_data s2)) in
    output_text inferrer None (fst st) = Some s1 /\ output_text inferrer None (snd st) = Some s2.
  Proof.
    pose proof (inv_run None ops s1 s2 _ _ (or_introl eq_refl) (inv_from_data s1) (inv_from_data s2)) as H.
    cbv zeta in *. destruct H as [H1 H2]. unfold output_text. split; now apply string_op_none_out.
  Qed.

  Definition Reach (s : bytes) (m : mlrval) : Prop := m = from_data s \/ m = infer_mv inferrer (from_data s).

  Lemma reach_inv s m : Reach s m -> Inv s m.
  Proof. intros [->| ->]; [apply inv_from_data|apply inv_infer, inv_from_data]. Qed.

  Lemma reach_force s m : Reach s m -> force inferrer m = infer_mv inferrer (from_data s).
  Proof.
    intros [->| ->]; [reflexivity|]. unfold force, infer_mv. cbn [text from_data]. destruct (inferrer s); try reflexivity; destruct s; reflexivity.
  Qed.

  Lemma reach_forced s m : Reach s m -> Reach s (force inferrer m).
  Proof. intros H. right. now apply reach_force. Qed.

  Lemma reach_string_op ofmt s m : Reach s m -> Reach s (fst (string_op inferrer ofmt m)).
  Proof.
    intros H. unfold string_op. destruct ofmt as [f|].
    - rewrite (reach_force s m H).
      assert (Hv : valid (infer_mv inferrer (from_data s)) = true) by (apply (inv_infer s), inv_from_data).
      destruct (ty _); cbn [fst]; try (rewrite set_print_rep_valid by exact Hv; now right).
      destruct (pay _); cbn [fst]; try (rewrite set_print_rep_valid by exact Hv; now right). now right.
    - cbn [fst]. rewrite set_print_rep_valid by (apply (reach_inv s m H)). exact H.
  Qed.

  Lemma reach_format_as_json ofmt s m : Reach s m -> Reach s (fst (format_as_json inferrer ofmt m)).
  Proof.
    intros H. pose proof (reach_forced s m H) as Hf. unfold format_as_json.
    destruct (ty (force inferrer m)) eqn:Et; cbn [fst]; try exact Hf.
    - destruct (pay (force inferrer m)); exact Hf.
    - pose proof (reach_string_op ofmt s _ Hf) as H1. destruct (string_op inferrer ofmt (force inferrer m)); exact H1.
  Qed.

  Lemma reach_uop ofmt u s m : pure_read u = true -> Reach s m -> Reach s (fst (apply_uop inferrer ofmt u m)).
  Proof.
    intros Hp H. pose proof (reach_forced s m H) as Hf. pose proof (reach_string_op ofmt s m H) as Hs.
    destruct u; cbn [apply_uop fst]; try exact H; try exact Hf; try discriminate.
    - destruct (string_op inferrer ofmt m); exact Hs.
    - unfold original_string_op. destruct (valid m); [exact H|]. destruct (string_op inferrer ofmt m); exact Hs.
    - unfold string_maybe_quoted_op. destruct (string_op inferrer ofmt m); exact Hs.
    - pose proof (reach_format_as_json ofmt s m H) as H1. destruct (format_as_json inferrer ofmt m); exact H1.
    - destruct via_string; cbn [fst]; [exact Hs|exact Hf].
    - destruct forces, strings; cbn [fst]; auto; now apply reach_string_op.
    - destruct m; exact H.
  Qed.

  Lemma reach_bop ofmt o s1 s2 a b :
    Reach s1 a -> Reach s2 b ->
    let r := apply_bop inferrer ofmt o a b in Reach s1 (fst (fst r)) /\ Reach s2 (snd (fst r)).
  Proof.
    intros Ha Hb.
    pose proof (reach_forced s1 a Ha) as Hfa. pose proof (reach_forced s2 b Hb) as Hfb.
    pose proof (reach_string_op ofmt s1 a Ha) as Hsa. pose proof (reach_string_op ofmt s2 b Hb) as Hsb.
    destruct o; cbn -[string_op force cmp_forced]; auto.
    - destruct (string_op inferrer ofmt a), (string_op inferrer ofmt b); cbn in *; auto.
    - destruct (string_op inferrer ofmt b), (string_op inferrer ofmt a); cbn in *; auto.
    - destruct (string_op inferrer ofmt a), (string_op inferrer ofmt b); cbn in *; auto.
    - destruct (string_op inferrer ofmt a), (string_op inferrer ofmt b); cbn in *; auto.
    - destruct (string_op inferrer ofmt a), (string_op inferrer ofmt b); cbn in *; auto.
    - destruct (string_op inferrer ofmt a), (string_op inferrer ofmt b); cbn in *; auto.
    - destruct strings; cbn -[string_op force]; [|auto]. split; now apply reach_string_op.
  Qed.

  Lemma reach_run ofmt ops : forall s1 s2 x y,
    forallb pure_rop ops = true -> Reach s1 x -> Reach s2 y ->
    let st := fst (run inferrer ofmt ops (x, y)) in Reach s1 (fst st) /\ Reach s2 (snd st).
  Proof.
    induction ops as [|r t IH]; intros s1 s2 x y Hp Hx Hy; cbn -[apply_rop]; [auto|].
    cbn in Hp. apply andb_true_iff in Hp. destruct Hp as [Hp1 Hp2].
    assert (H : let st := fst (apply_rop inferrer ofmt r (x, y)) in Reach s1 (fst st) /\ Reach s2 (snd st)).
    { destruct r; cbn -[apply_uop apply_bop].
      - pose proof (reach_uop ofmt u s1 x Hp1 Hx). destruct (apply_uop inferrer ofmt u x); cbn in *; auto.
      - pose proof (reach_uop ofmt u s2 y Hp1 Hy). destruct (apply_uop inferrer ofmt u y); cbn in *; auto.
      - pose proof (reach_bop ofmt o s1 s2 x y Hx Hy) as H. cbv zeta in H.
        destruct (apply_bop inferrer ofmt o x y) as [[a b] ob]; cbn in *; auto.
      - pose proof (reach_bop ofmt o s2 s1 y x Hy Hx) as H. cbv zeta in H.
        destruct (apply_bop inferrer ofmt o y x) as [[a b] ob]; cbn in *; tauto. }
    cbv zeta in H. destruct (apply_rop inferrer ofmt r (x, y)) as [[x1 y1] o]. cbn [fst snd] in H. destruct H as [H1 H2].
    specialize (IH s1 s2 x1 y1 Hp2 H1 H2). cbv zeta in IH.
    destruct (run inferrer ofmt t (x1, y1)) as [st2 os]. exact IH.
  Qed.

  (* with --ofmt: the retained text is still never overwritten by reading; the writer shows the formatted number
     exactly when the value infers to float, and the original text otherwise *)
  Lemma reach_output_ofmt f s m :
    Reach s m -> output_text inferrer (Some f) m = match inferrer s with VFloat b => Some (f b) | _ => Some s end.
  Proof.
    intros H. unfold output_text, string_op. rewrite (reach_force s m H). unfold infer_mv. cbn [text from_data].
    destruct (inferrer s); try reflexivity; destruct s; reflexivity.
  Qed.

  Lemma read_ops_ofmt_only_floats f s1 s2 ops :
    forallb pure_rop ops = true ->
    let st := fst (run inferrer (Some f) ops (from_data s1, from_data s2)) in
    output_text inferrer (Some f) (fst st) = match inferrer s1 with VFloat b => Some (f b) | _ => Some s1 end
    /\ output_text inferrer (Some f) (snd st) = match inferrer s2 with VFloat b => Some (f b) | _ => Some s2 end.
  Proof.
    intros Hp.
    pose proof (reach_run (Some f) ops s1 s2 _ _ Hp (or_introl eq_refl) (or_introl eq_refl)) as H.
    cbv zeta in *. destruct H as [H1 H2]. split; now apply reach_output_ofmt.
  Qed.

  (* JSON output of a value that was only read: closed form in terms of the input text and its inference *)
  Definition json_of_text (s : bytes) : jout :=
    match inferrer s with
    | VInt n => JDecimal (format_int n)
    | VFloat _ => if is_valid_json_number s then JSame s else JRerendered
    | VString | VEmpty => JQuoted
    end.

  Lemma reach_json s m : Reach s m -> snd (format_as_json inferrer None m) = json_of_text s.
  Proof.
    intros H. unfold format_as_json, json_of_text. rewrite (reach_force s m H). unfold infer_mv. cbn [text from_data].
    destruct (inferrer s) eqn:E; cbn; try reflexivity; try (destruct s; reflexivity).
  Qed.

  Lemma json_rerender_only_when_invalid s1 s2 ops :
    forallb pure_rop ops = true ->
    let st := fst (run inferrer None ops (from_data s1, from_data s2)) in
    snd (format_as_json inferrer None (fst st)) = json_of_text s1 /\ snd (format_as_json inferrer None (snd st)) = json_of_text s2.
  Proof.
    intros Hp. pose proof (reach_run None ops s1 s2 _ _ Hp (or_introl eq_refl) (or_introl eq_refl)) as H.
    cbv zeta in *. destruct H as [H1 H2]. split; now apply reach_json.
  Qed.

  (* the only states a pure read history can reach: untouched, or inferred once *)
  Lemma read_ops_two_states ofmt s1 s2 ops :
    forallb pure_rop ops = true ->
    let st := fst (run inferrer ofmt ops (from_data s1, from_data s2)) in Reach s1 (fst st) /\ Reach s2 (snd st).
  Proof. intros Hp. apply reach_run; auto; now left. Qed.
End Proofs.
