(* C04, the `tail -f` contract: the writer's output buffer on top of the data-carrying pipeline of DataPipeline.v.

   Go code modelled (pkg/output/channel_writer.go, channelWriterHandleBatch): every record / print string of a batch is
   written into a bufio.Writer and, when writerOptions.FlushOnEveryRecord is set (--fflush, or stdout is a terminal:
   pkg/cli/option_parse.go FinalizeWriterOptions), the bufio.Writer is flushed after EACH item; otherwise bytes leave
   the buffer only when bufio decides to (buffer full) and at the very end (pkg/stream/stream.go, the Flush after the
   writer has signalled done).  pkg/input/line_reader.go hands a batch to the chain as soon as recordsPerBatch lines
   have arrived: with --records-per-batch 1 every record is its own batch, which is what `rrem` (the batches the
   reader has not yet been able to send, because their lines have not arrived) expresses here.

   state  = (pipeline state of DataPipeline, flushed = what a reader of mlr's stdout can see, buffered = bytes still
            inside the bufio.Writer);
   steps  = reader / verb steps of DataPipeline, lifted; the writer step appends the batch's items to the buffer and
            flushes if [fflush] (the per-item flushes of one batch are merged into one step: the state after the
            batch is the same) or if the batch carries end of stream (the final Flush of stream.go); a `spill' step
            (bufio flushing on its own because the buffer is full) may happen at any time the buffer is non-empty. *)
From Coq Require Import List Bool Arith ZArith.
Import ListNotations.
From Miller Require Import C04.DataPipeline C04.Batch.

#[local] Arguments mkD {item vst}.
#[local] Arguments rrem {item vst}.
#[local] Arguments dvs {item vst}.
#[local] Arguments dwq {item vst}.
#[local] Arguments dwritten {item vst}.
#[local] Arguments din {item vst}.
#[local] Arguments dp {item vst}.
#[local] Arguments set_din {item vst}.
#[local] Arguments dchain_succs {item vst}.
#[local] Arguments dinit {item vst}.

Section Flush.
  Variable item vst : Type.
  Notation dstate := (dstate item vst).
  Notation batch := (batch item).

  (* ---- the three groups of steps of DataPipeline.dsuccs, named (dsuccs_split in Flush.v: dsuccs is their concatenation) *)
  Definition reader_succs (s : dstate) : list dstate :=
    match rrem s, dvs s with
    | b :: r, v :: rest =>
        if length (din v) <? reader_cap then [mkD r (set_din v (din v ++ [b]) :: rest) (dwq s) (dwritten s)] else []
    | _, _ => []
    end.
  Definition chain_succs (s : dstate) : list dstate :=
    map (fun '(vs', wq') => mkD (rrem s) vs' wq' (dwritten s)) (dchain_succs (dvs s) (dwq s)).
  Definition writer_succs (s : dstate) : list dstate :=
    match dwq s with
    | b :: q => [mkD (rrem s) (dvs s) q (dwritten s ++ [b])]
    | [] => []
    end.

  (* the same pipeline state, with other batches still to be read *)
  Definition with_rrem (s : dstate) (r : list batch) : dstate := mkD r (dvs s) (dwq s) (dwritten s).

  (* ---- the writer's buffer *)
  Record fstate := mkF { fd : dstate; flushed : list item; buffered : list item }.

  Definition lift (s : fstate) (d : dstate) : fstate := mkF d (flushed s) (buffered s).

  (* ChannelWriter / channelWriterHandleBatch for one batch, plus stream.go's final Flush on the end-of-stream batch *)
  Definition fwriter_succs (fflush : bool) (s : fstate) : list fstate :=
    match dwq (fd s) with
    | b :: q =>
        let d' := mkD (rrem (fd s)) (dvs (fd s)) q (dwritten (fd s) ++ [b]) in
        if fflush || snd b
        then [mkF d' (flushed s ++ buffered s ++ fst b) []]
        else [mkF d' (flushed s) (buffered s ++ fst b)]
    | [] => []
    end.

  (* channelWriterHandleBatch ITEM BY ITEM (pkg/output/channel_writer.go): each record, and each print/dump/comment
     string, is written into the bufio.Writer, and `if writerOptions.FlushOnEveryRecord { Flush() }` follows EVERY item
     of either kind.  [after i] = the flush decision for item i: the code's rule is [fun _ => true]; the rule is a
     parameter so that other rules (e.g. flush after records only) can be compared with it (Flush.v).
     The merged step of fwriter_succs is this fold with the code's rule: Flush.fwriter_succs_per_item. *)
  Fixpoint write_items (fflush : bool) (after : item -> bool) (l : list item) (fl buf : list item)
    : list item * list item :=
    match l with
    | [] => (fl, buf)
    | i :: t => if fflush && after i then write_items fflush after t (fl ++ buf ++ [i]) []
                else write_items fflush after t fl (buf ++ [i])
    end.
  Definition flush_every_item : item -> bool := fun _ => true.

  (* bufio.Writer flushing by itself (buffer full): over-approximated as possible whenever the buffer is non-empty *)
  Definition spill_succs (s : fstate) : list fstate :=
    match buffered s with
    | [] => []
    | _ :: _ => [mkF (fd s) (flushed s ++ buffered s) []]
    end.

  Definition nonreader_fsuccs (fflush : bool) (s : fstate) : list fstate :=
    map (lift s) (chain_succs (fd s)) ++ fwriter_succs fflush s.

  Definition fsuccs (fflush : bool) (s : fstate) : list fstate :=
    map (lift s) (reader_succs (fd s)) ++ nonreader_fsuccs fflush s ++ spill_succs s.

  Definition fstep (fflush : bool) (s s' : fstate) : Prop := In s' (fsuccs fflush s).

  Inductive freach (fflush : bool) (s0 : fstate) : fstate -> Prop :=
  | freach_refl : freach fflush s0 s0
  | freach_step s s' : freach fflush s0 s -> fstep fflush s s' -> freach fflush s0 s'.

  Definition finit (vs : list (dverb item vst * vst)) (bs : list batch) : fstate := mkF (dinit vs bs) [] [].

  (* the items of a list of batches, in order: the bytes of the output *)
  Definition items (bs : list batch) : list item := concat (map fst bs).

  (* at rest with respect to the input that has arrived: every verb waits for input (or is done) with an empty
     queue and nothing is on its way to the writer.  (No verb or writer step is enabled then: quiet_no_step.) *)
  Definition idle_b (s : dstage item vst) : bool :=
    match dp s with DRecv _ | DDone _ => true | _ => false end && match din s with [] => true | _ => false end.
  Definition fquiet (s : fstate) : bool :=
    forallb idle_b (dvs (fd s)) && match dwq (fd s) with [] => true | _ => false end.

  (* ---- executable runs: an explicit schedule (index of the successor taken at each step) *)
  Fixpoint frun (fflush : bool) (sched : list nat) (s : fstate) : option fstate :=
    match sched with
    | [] => Some s
    | k :: t => match nth_error (fsuccs fflush s) k with Some s' => frun fflush t s' | None => None end
    end.

  (* the arrival-history driver of the harness, inside the model: deliver ONE batch, let the chain and the writer
     run until nothing but the reader can move (bufio never spills: outputs are tiny), look at stdout; repeat *)
  Fixpoint settle (fflush : bool) (fuel : nat) (s : fstate) : fstate :=
    match fuel with
    | 0 => s
    | S f => match nonreader_fsuccs fflush s with [] => s | s' :: _ => settle fflush f s' end
    end.
  Definition deliver (s : fstate) : fstate :=
    match map (lift s) (reader_succs (fd s)) with s' :: _ => s' | [] => s end.
  Fixpoint arrivals (fflush : bool) (fuel n : nat) (s : fstate) : list (list item) :=
    match n with
    | 0 => []
    | S n' => let s' := settle fflush fuel (deliver s) in
              skipn (length (flushed s)) (flushed s') :: arrivals fflush fuel n' s'
    end.
End Flush.

(* ------------------------------------------------------------------------------------------------------------ *)
(* verbs as per-record state machines (the shape of Batch.v = runSingleTransformerBatch): one step per record plus
   an end-of-stream step; the per-batch function DataPipeline wants is derived. *)
Section Streaming.
  Variables item st : Type.

  Record sverb := mkSV { svstep : st -> item -> st * list item; svfin : st -> list item }.

  (* runSingleTransformerBatch: fold the verb over the records of the batch; the end-of-stream marker, if the batch
     carries it, is handed to the verb last and stays last in the output batch *)
  Definition sv_batch (v : sverb) (x : st) (b : batch item) : st * batch item :=
    let '(x', o) := run_items item st (svstep v) x (fst b) in
    (x', (o ++ (if snd b then svfin v x' else []), snd b)).
  Definition to_dverb (v : sverb) : dverb item st := mkDV item st (sv_batch v).
  Definition dchain (c : list (sverb * st)) : list (dverb item st * st) :=
    map (fun '(v, x0) => (to_dverb v, x0)) c.

  (* FULLY STREAMING: wherever the input stops, end of stream makes the verb emit nothing more -- everything it
     has to say about the records seen so far was emitted when it processed them; nothing is retained for later. *)
  Definition fully_streaming (v : sverb) (x0 : st) : Prop :=
    forall l, svfin v (fst (run_items item st (svstep v) x0 l)) = [].

  (* the complete (batch-mode) output of a chain on a finite list of records: what `mlr chain` prints for a file
     holding exactly these records *)
  Fixpoint chain_out (c : list (sverb * st)) (l : list item) : list item :=
    match c with
    | [] => l
    | (v, x0) :: rest => chain_out rest (run item st (svstep v) (svfin v) x0 l)
    end.

  (* --records-per-batch 1: every record is a batch of its own; the pipe is still open (no end-of-stream marker) *)
  Definition singletons (l : list item) : list (batch item) := map (fun r => ([r], false)) l.
  Definition noeos (bs : list (batch item)) : bool := forallb (fun b => negb (snd b)) bs.

  (* ---- instances *)
  Definition v_cat : sverb := mkSV (fun x r => (x, [r])) (fun _ => []).                       (* cat, and any pure per-record map is v_map *)
  Definition v_map (g : st -> item -> item) (upd : st -> item -> st) : sverb :=               (* put with an assignment, sec2gmt, rename, fill-down, step -a delta, ... *)
    mkSV (fun x r => (upd x r, [g x r])) (fun _ => []).
  Definition v_filter (p : st -> item -> bool) (upd : st -> item -> st) : sverb :=            (* filter, grep, having-fields, decimate, skip-trivial-records *)
    mkSV (fun x r => (upd x r, if p x r then [r] else [])) (fun _ => []).
  Definition v_flatmap (g : st -> item -> list item) (upd : st -> item -> st) : sverb :=      (* nest --explode, repeat, reshape long: 0..n outputs per record *)
    mkSV (fun x r => (upd x r, g x r)) (fun _ => []).
  Definition v_tee (log : st -> item -> st) : sverb :=                                        (* tee: identity on the stream + a side effect kept in the state *)
    mkSV (fun x r => (log x r, [r])) (fun _ => []).
End Streaming.

(* head -n k: emits until its quota is reached, then nothing (state = number of records passed so far) *)
Definition v_head (item : Type) (k : nat) : sverb item nat :=
  mkSV item nat (fun c r => if c <? k then (S c, [r]) else (c, [])) (fun _ => []).
(* tac: retains every record, emits them reversed at end of stream *)
Definition v_tac (item : Type) : sverb item (list item) :=
  mkSV item (list item) (fun x r => (r :: x, [])) (fun x => x).
(* step -a shift_lead: retains ONE record (needs the next one to fill the new field) *)
Definition v_lead (item : Type) (g : item -> option item -> item) : sverb item (option item) :=
  mkSV item (option item)
       (fun x r => (Some r, match x with Some p => [g p (Some r)] | None => [] end))
       (fun x => match x with Some p => [g p None] | None => [] end).

(* ------------------------------------------------------------------------------------------------------------ *)
(* concrete chains for the correspondence with the real binary: a record is (marker i, value of the field z or 0);
   every verb's state is (a counter: NR for put, the count for head; the records retained: tac) *)
Local Open Scope Z_scope.
Definition rec := (Z * Z)%type.
Definition zst := (Z * list rec)%type.
Definition z0 : zst := (0, []).
Definition z_cat : sverb rec zst := v_cat rec zst.
Definition z_put_nr : sverb rec zst :=                                                                        (* put '$z = NR' *)
  v_map rec zst (fun x r => (fst r, fst x + 1)) (fun x _ => (fst x + 1, snd x)).
Definition z_head (k : Z) : sverb rec zst :=                                                                  (* head -n k *)
  mkSV rec zst (fun x r => if fst x <? k then ((fst x + 1, snd x), [r]) else (x, [])) (fun _ => []).
Definition z_filter_odd : sverb rec zst := v_filter rec zst (fun _ r => Z.odd (fst r)) (fun x _ => x).        (* filter '$i % 2 == 1' *)
Definition z_tac : sverb rec zst := mkSV rec zst (fun x r => ((fst x, r :: snd x), [])) (fun x => snd x).     (* tac *)
(* print text is an item of its own; on the wire it is the line p<i>, encoded here as the pair (i, -1) *)
Definition z_print_q : sverb rec zst := mkSV rec zst (fun x r => (x, [(fst r, -1)])) (fun _ => []).          (* put -q 'print "p".$i' *)
Definition z_print : sverb rec zst := mkSV rec zst (fun x r => (x, [(fst r, -1); r])) (fun _ => []).         (* put 'print "p".$i' *)

Definition zchain (cid : Z) : list (sverb rec zst * zst) :=
  match cid with
  | 0 => [(z_cat, z0)]
  | 1 => [(z_put_nr, z0)]
  | 2 => [(z_head 3, z0)]
  | 3 => [(z_filter_odd, z0)]
  | 4 => [(z_cat, z0); (z_put_nr, z0); (z_head 3, z0)]
  | 5 => [(z_put_nr, z0); (z_filter_odd, z0)]   (* NR is the input record number carried in the record context: put comes first *)
  | 6 => [(z_tac, z0)]
  | 7 => [(z_put_nr, z0); (z_tac, z0); (z_head 3, z0)]
  | 8 => [(z_print_q, z0)]                       (* output is text only: the flush must follow print strings too *)
  | 9 => [(z_print, z0); (z_head 3, z0)]
  | _ => [(z_cat, z0)]
  end.

(* the arrival history the model predicts: records delivered one per batch, then end of input; for each delivery the
   items that become visible on stdout *)
Definition z_history (fflush : bool) (cid : Z) (input : list Z) : list (list rec) :=
  let bs := singletons rec (map (fun i => (i, 0)) input) ++ [([], true)] in
  arrivals rec zst fflush (20 + 8 * length (zchain cid)) (S (length input)) (finit rec zst (dchain rec zst (zchain cid)) bs).

Definition rec_eqb (a b : rec) : bool := (fst a =? fst b) && (snd a =? snd b).
Fixpoint list_eqb {A} (e : A -> A -> bool) (a b : list A) : bool :=
  match a, b with
  | [], [] => true
  | x :: a', y :: b' => e x y && list_eqb e a' b'
  | _, _ => false
  end.

(* one observed case: ((fflush, chain id), (markers sent, per delivery the (i, z) pairs that became readable)) *)
Definition flush_chk (c : (bool * Z) * (list Z * list (list rec))) : bool :=
  let '((fl, cid), (input, observed)) := c in
  list_eqb (list_eqb rec_eqb) (z_history fl cid input) observed.
