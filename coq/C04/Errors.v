(* C17: a failure anywhere (reader, any verb, writer), at any position, under any interleaving and either
   done-flag protocol, is never lost: when main exits, its return value is an error. *)
From Coq Require Import List Bool Arith Lia.
Import ListNotations.
From Miller Require Import C04.Model C04.Search C04.Progress.

Definition ret_of (m : mpc) : bool := match m with MLoop r | MDrain1 r | MDrain2 r | MExit r => r end.
Definition quiet (s : state) : Prop := ret_of (mn s) = false /\ cerr (ch s) = false /\ wr s <> WErr.
Definition is_rerr (r : rpc) : bool := match r with RErr _ => true | _ => false end.
Definition verr_pc (v : vstage) : bool := match vp v with VSendE | VErrSig => true | _ => false end.

(* backward end-of-stream conservation, valid while no verb/writer failure has happened *)
Fixpoint chain_inv2 (prod_sent : bool) (vs : list vstage) (wq : list bool) (wc : bool) : Prop :=
  match vs with
  | [] => (has_eos wq = true -> prod_sent = true) /\ (wc = true -> prod_sent = true)
  | v :: rest => (has_eos (vin v) = true -> prod_sent = true) /\ (vclosed v = true -> prod_sent = true)
                 /\ verr_pc v = false /\ chain_inv2 (sent_eos v) rest wq wc
  end.

Definition J (s : state) : Prop :=
  (* J1 *) (cfailed (ch s) = true -> ierr s = true \/ cerr (ch s) = true \/ ret_of (mn s) = true
                                    \/ is_rerr (rd s) = true \/ wr s = WErr)
  (* J2 *) /\ (doneq s = true -> wr s = WDone) /\ (in_loop (mn s) = false -> wr s = WDone)
  (* K  *) /\ (quiet s -> chain_inv2 (rsent (rd s)) (cvs (ch s)) (cwq (ch s)) (wclosed (wr s)))
  (* J5 *) /\ (mn s = MExit false -> cerr (ch s) = false)
  (* J6 *) /\ ((mn s = MDrain2 false \/ mn s = MExit false) -> cerr (ch s) = false -> ierr s = false).

Lemma chain_inv2_fresh kinds : chain_inv2 false (map fresh_verb kinds) [] false.
Proof. induction kinds as [|y kinds IH]; cbn; [split; discriminate|]. repeat split; try discriminate. exact IH. Qed.

Lemma J_init k kinds : J (init k kinds).
Proof.
  unfold J, init; cbn. repeat split; try discriminate.
  intros _. apply chain_inv2_fresh.
Qed.

(* when everything downstream is closed and nothing failed, the whole pipeline has terminated *)
Lemma chain_inv2_all_done : forall vs ps wq,
  chain_inv2 ps vs wq true -> ps = true /\ Forall (fun v => vp v = VDone) vs.
Proof.
  induction vs as [|v rest IH]; intros ps wq H; cbn in H.
  - destruct H as [_ H]. split; [auto|constructor].
  - destruct H as (H1 & H2 & H3 & H4). destruct (IH _ _ H4) as [Hs Hf].
    assert (Hd : vp v = VDone).
    { unfold sent_eos in Hs. unfold verr_pc in H3. destruct (vp v); try discriminate. reflexivity. }
    split; [apply H2; unfold vclosed; now rewrite Hd|]. constructor; auto.
Qed.

Lemma all_done_no_steps blocking : forall vs d e f wq,
  Forall (fun v => vp v = VDone) vs -> chain_succs blocking d e f vs wq = [].
Proof.
  induction vs as [|v rest IH]; intros d e f wq H; [reflexivity|].
  inversion H as [|? ? Hv Hr]; subst. cbn. unfold local_steps. rewrite Hv. cbn. now rewrite IH.
Qed.

(* chain steps that do not raise the error flag preserve chain_inv2 *)
Lemma local_steps_inv2 blocking d e f v d' e' f' v' ps :
  In (d', e', f', v') (local_steps blocking d e f v) -> e' = false ->
  (has_eos (vin v) = true -> ps = true) -> (vclosed v = true -> ps = true) -> verr_pc v = false ->
  e = false /\ (has_eos (vin v') = true -> ps = true) /\ (vclosed v' = true -> ps = true) /\ verr_pc v' = false
  /\ sent_eos v' = sent_eos v.
Proof.
  unfold local_steps. destruct v as [p q dd sg sw]; cbn [vp vin vd vsig vswallow].
  intros Hin He H1 H2 H3.
  destruct p as [| b | b | b | b | | |]; cbn [In] in Hin.
  - destruct q as [|b q]; cbn in Hin; [tauto|]. destruct Hin as [H|[]]. inversion H; subst. cbn in *.
    repeat split; auto.
    + intros Hq. apply H1. now rewrite Hq, orb_true_r.
    + intros Hb. destruct b; [|discriminate]. now apply H1.
  - rewrite !in_app_iff in Hin. destruct Hin as [H|[H|[H|H]]].
    + destruct (0 <? dd); [|destruct H]. destruct H as [H|[]]. inversion H; subst.
      destruct sw; cbn in *; repeat split; auto.
    + destruct sg; [destruct H|]. destruct H as [H|[]]. inversion H; subst. cbn in *. repeat split; auto.
    + destruct H as [H|[]]. inversion H; subst. cbn in *. repeat split; auto.
    + destruct H as [H|[]]. inversion H; subst. discriminate.
  - destruct (send_flag blocking d); [|destruct Hin]. destruct Hin as [H|[]]. inversion H; subst. cbn in *. repeat split; auto.
  - destruct (send_flag blocking d); [|destruct Hin]. destruct Hin as [H|[]]. inversion H; subst. cbn in *. repeat split; auto.
  - destruct Hin.
  - destruct Hin.
  - discriminate.
  - destruct Hin.
Qed.

Lemma chain_succs_inv2 blocking : forall vs d e f wq wc ps c,
  chain_inv2 ps vs wq wc -> In c (chain_succs blocking d e f vs wq) -> cerr c = false ->
  e = false /\ chain_inv2 ps (cvs c) (cwq c) wc.
Proof.
  induction vs as [|v rest IH]; intros d e f wq wc ps c Hinv Hin Hce; cbn in Hin; [destruct Hin|].
  destruct Hinv as (H1 & H2 & H3 & Hrest).
  rewrite !in_app_iff in Hin. destruct Hin as [Hin|[Hin|Hin]].
  - apply in_map_iff in Hin as ([[[d' e'] f'] v'] & <- & Hl). cbn in *.
    destruct (local_steps_inv2 _ _ _ _ _ _ _ _ _ ps Hl Hce H1 H2 H3) as (He & A & B & C & D).
    split; [exact He|]. repeat split; auto. now rewrite D.
  - destruct (after_send (vp v)) as [[b p']|] eqn:Ha; [|destruct Hin].
    assert (Hvp : vp v = VSend b /\ p' = (if b then VDone else VRecv)).
    { destruct v as [p q dd sg sw]; cbn in *. unfold verr_pc in H3; cbn in H3.
      destruct p; try discriminate; inversion Ha; subst; auto. }
    destruct Hvp as [Hvp ->].
    assert (Hs' : sent_eos (set_vp v (if b then VDone else VRecv)) = b) by (destruct b; reflexivity).
    assert (Hc' : vclosed (set_vp v (if b then VDone else VRecv)) = vclosed v).
    { unfold vclosed at 2. rewrite Hvp. destruct b; reflexivity. }
    assert (He' : verr_pc (set_vp v (if b then VDone else VRecv)) = false) by (destruct b; reflexivity).
    assert (Hso : sent_eos v = false) by (unfold sent_eos; now rewrite Hvp).
    destruct rest as [|v2 rest2].
    + dif Hin; [|destruct Hin]. destruct Hin as [<-|[]]. cbn in *. split; [exact Hce|].
      rewrite Hc'. repeat split; auto; rewrite ?Hs'.
      * rewrite has_eos_app. destruct Hrest as [Hr1 Hr2]. intros Hq. apply orb_true_iff in Hq as [Hq|Hq]; [|exact Hq].
        specialize (Hr1 Hq). congruence.
      * destruct Hrest as [Hr1 Hr2]. intros Hw. specialize (Hr2 Hw). congruence.
    + dif Hin; [|destruct Hin]. destruct Hin as [<-|[]]. cbn in *. split; [exact Hce|].
      rewrite Hc'. destruct Hrest as (R1 & R2 & R3 & R4). repeat split; auto; rewrite ?Hs'.
      * rewrite has_eos_app. intros Hq. apply orb_true_iff in Hq as [Hq|Hq]; [|exact Hq]. specialize (R1 Hq). congruence.
      * intros Hw. specialize (R2 Hw). congruence.
  - apply in_map_iff in Hin as (c' & <- & Hc'). cbn in *.
    destruct (IH _ _ _ _ _ _ _ Hrest Hc' Hce) as [He Hi]. split; [exact He|]. repeat split; auto.
Qed.

Lemma chain_succs_flags blocking : forall vs d e f wq c,
  In c (chain_succs blocking d e f vs wq) ->
  (e = true -> cerr c = true) /\ (f = true -> cfailed c = true) /\ (cfailed c = true -> f = true \/ cerr c = true).
Proof.
  induction vs as [|v rest IH]; intros d e f wq c Hin; cbn in Hin; [destruct Hin|].
  rewrite !in_app_iff in Hin. destruct Hin as [Hin|[Hin|Hin]].
  - apply in_map_iff in Hin as ([[[d' e'] f'] v'] & <- & Hl). cbn.
    unfold local_steps in Hl. destruct (vp v); cbn [In] in Hl.
    + destruct (vin v); [destruct Hl|]. destruct Hl as [H|[]]; inversion H; subst; auto.
    + rewrite !in_app_iff in Hl. destruct Hl as [H|[H|[H|H]]].
      * dif H; [|destruct H]. destruct H as [H|[]]; inversion H; subst; auto.
      * dif H; [destruct H|]. destruct H as [H|[]]; inversion H; subst; auto.
      * destruct H as [H|[]]; inversion H; subst; auto.
      * destruct H as [H|[]]; inversion H; subst; auto.
    + destruct (send_flag blocking d); [|destruct Hl]. destruct Hl as [H|[]]; inversion H; subst; auto.
    + destruct (send_flag blocking d); [|destruct Hl]. destruct Hl as [H|[]]; inversion H; subst; auto.
    + destruct Hl.
    + destruct Hl.
    + destruct Hl as [H|[]]; inversion H; subst; auto.
    + destruct Hl.
  - destruct (after_send (vp v)) as [[b p']|]; [|destruct Hin].
    destruct rest as [|v2 rest2]; (dif Hin; [|destruct Hin]); destruct Hin as [<-|[]]; cbn; auto.
  - apply in_map_iff in Hin as (c' & <- & Hc'). cbn. eapply IH; eauto.
Qed.

Lemma chain_inv2_writer ps vs wq wc wq' wc' :
  (forall p, (has_eos wq = true -> p = true) -> (wc = true -> p = true) ->
             (has_eos wq' = true -> p = true) /\ (wc' = true -> p = true)) ->
  chain_inv2 ps vs wq wc -> chain_inv2 ps vs wq' wc'.
Proof.
  revert ps; induction vs as [|v rest IH]; intros ps Himp; cbn.
  - intros [H1 H2]. apply Himp; auto.
  - intros (H1 & H2 & H3 & H4). repeat split; auto.
Qed.

Ltac splitJ := unfold J; cbn; split; [|split; [|split; [|split; [|split]]]].
Ltac useJ1 J1 := let Hf := fresh "Hf" in
  intros Hf; specialize (J1 Hf); destruct J1 as [?|[?|[?|[?|?]]]]; auto 7; try discriminate; try congruence.

Lemma quiet_all_done r ie c w dq m :
  (quiet (mkS r ie c w dq m) -> chain_inv2 (rsent r) (cvs c) (cwq c) (wclosed w)) ->
  w = WDone -> ret_of m = false -> cerr c = false ->
  rsent r = true /\ Forall (fun v => vp v = VDone) (cvs c).
Proof.
  intros K -> Hr Hc. apply (chain_inv2_all_done _ _ (cwq c)). apply K. unfold quiet; cbn. repeat split; auto. discriminate.
Qed.

Lemma J_step_reader s s' : J s -> In s' (reader_steps s) -> J s'.
Proof.
  intros (J1 & J2a & J2b & K & J5 & J6) Hst. destruct s as [r ie c w dq m]; cbn in *.
  unfold reader_steps in Hst; cbn in Hst.
  assert (Hquiet_rd : forall r' ie' c', cerr c' = cerr c ->
            quiet (mkS r' ie' c' w dq m) -> quiet (mkS r ie c w dq m)).
  { unfold quiet; cbn. intros r' ie' c' E (A & B & C). rewrite E in B. auto. }
  destruct r as [k|k|k|].
  - rewrite in_app_iff in Hst. destruct Hst as [Hst|Hst].
    + dif Hst; destruct Hst as [<-|[]]; splitJ; auto.
      all: try (useJ1 J1).
      all: intros Hq; exact (K (Hquiet_rd _ _ _ eq_refl Hq)).
    + destruct k as [|k']; [destruct Hst|]. destruct Hst as [<-|[]]; splitJ; auto.
      all: try (intros _; right; right; right; left; reflexivity).
      all: try (intros Hq; exact (K (Hquiet_rd _ _ _ eq_refl Hq))).
  - destruct (push_first c (k =? 0)) as [c'|] eqn:Hp; [|destruct Hst]. destruct Hst as [<-|[]].
    unfold push_first in Hp. destruct (cvs c) as [|v rest] eqn:Hv; [discriminate|].
    dif Hp; [|discriminate]. inversion Hp; subst c'. splitJ; auto.
    + useJ1 J1.
    + intros Hq. assert (Hq0 : quiet (mkS (RSending k) ie c w dq m)) by (destruct Hq as (A & B & C); unfold quiet; cbn in *; auto).
      specialize (K Hq0). cbn in K. destruct K as (K1 & K2 & K3 & K4).
      split; [|split; [|split]]; auto.
      * cbn. rewrite has_eos_app. intros Hh. apply orb_true_iff in Hh as [Hh|Hh]; [specialize (K1 Hh); discriminate|].
        destruct k; [reflexivity|discriminate].
      * intros Hc. specialize (K2 Hc). discriminate.
  - destruct ie; [destruct Hst|]. destruct Hst as [<-|[]]; splitJ; auto.
    all: try (intros Hq; exact (K (Hquiet_rd _ _ _ eq_refl Hq))).
    all: try (useJ1 J1).
    intros Hm Hce. exfalso.
    assert (Hl : in_loop m = false) by (destruct Hm as [-> | ->]; reflexivity).
    assert (Hr : ret_of m = false) by (destruct Hm as [-> | ->]; reflexivity).
    destruct (quiet_all_done _ _ _ _ _ _ K (J2b Hl) Hr Hce) as [Hs _]. discriminate.
  - destruct Hst.
Qed.

Lemma J_step_chain blocking s c' : J s -> In c' (chain_steps blocking (ch s)) -> J (with_ch s c').
Proof.
  intros (J1 & J2a & J2b & K & J5 & J6) Hin. destruct s as [r ie c w dq m]; cbn in *.
  unfold chain_steps in Hin. unfold with_ch; cbn.
  destruct (chain_succs_flags _ _ _ _ _ _ _ Hin) as (F1 & F2 & F3).
  splitJ; auto.
  - intros Hf. destruct (F3 Hf) as [Hf0|Hce]; [|auto]. specialize (J1 Hf0).
    destruct J1 as [?|[Hce|[?|[?|?]]]]; auto 7.
  - intros (A & B & C). cbn in *.
    assert (Hq0 : quiet (mkS r ie c w dq m)).
    { unfold quiet; cbn. repeat split; auto. destruct (cerr c) eqn:E; [|reflexivity]. specialize (F1 eq_refl). congruence. }
    specialize (K Hq0). destruct (chain_succs_inv2 _ _ _ _ _ _ _ _ _ K Hin B) as [_ Hi]. exact Hi.
  - intros Hm. exfalso. specialize (J5 Hm).
    assert (Hl : in_loop m = false) by (rewrite Hm; reflexivity).
    assert (Hr : ret_of m = false) by (rewrite Hm; reflexivity).
    destruct (quiet_all_done _ _ _ _ _ _ K (J2b Hl) Hr J5) as [_ Hall].
    rewrite (all_done_no_steps _ _ _ _ _ _ Hall) in Hin. destruct Hin.
  - intros Hm Hce. apply J6; [exact Hm|].
    destruct (cerr c) eqn:E; [|reflexivity]. specialize (F1 eq_refl). congruence.
Qed.

Ltac j2 J2a J2b :=
  solve [ let H := fresh in intros H; specialize (J2a H); discriminate
        | let H := fresh in intros H; specialize (J2b H); discriminate
        | let H := fresh in intros H; specialize (J2b (f_equal in_loop H)); discriminate ].
Ltac notquiet := solve [ let A := fresh in let B := fresh in let C := fresh in
                         intros (A & B & C); cbn in *; try discriminate; try (now elim C) ].

Lemma J_step_writer s s' : J s -> In s' (writer_steps s) -> J s'.
Proof.
  intros (J1 & J2a & J2b & K & J5 & J6) Hst. destruct s as [r ie c w dq m]; cbn in *.
  unfold writer_steps in Hst; cbn in Hst. destruct w.
  - destruct (cwq c) as [|b q] eqn:Hq; [destruct Hst|].
    destruct Hst as [<-|[<-|[]]]; splitJ; auto.
    all: try (j2 J2a J2b).
    all: try notquiet.
    all: try solve [useJ1 J1].
    all: try solve [intros _; right; right; right; right; reflexivity].
    intros (A & B & C). cbn in *.
    assert (Hq0 : quiet (mkS r ie c WRecv dq m)) by (unfold quiet; cbn; repeat split; auto; discriminate).
    specialize (K Hq0). eapply chain_inv2_writer; [|exact K].
    intros p P1 P2. cbn in *. split.
    + intros Hh. apply P1. unfold has_eos in Hh. rewrite Hh. apply orb_true_r.
    + intros Hw. destruct b; [|discriminate]. now apply P1.
  - destruct Hst as [<-|[]]; splitJ; auto.
    all: try (j2 J2a J2b).
    all: try notquiet.
    all: try solve [intros _; right; left; reflexivity].
    all: try solve [intros _ Hce; discriminate].
  - destruct Hst as [<-|[]]; splitJ; auto.
    all: try (j2 J2a J2b).
    all: try solve [useJ1 J1].
    intros (A & B & C). cbn in *.
    assert (Hq0 : quiet (mkS r ie c WFin dq m)) by (unfold quiet; cbn; repeat split; auto; discriminate).
    exact (K Hq0).
  - destruct Hst.
Qed.

Lemma J_step_main s s' : J s -> In s' (main_steps s) -> J s'.
Proof.
  intros (J1 & J2a & J2b & K & J5 & J6) Hst. destruct s as [r ie c w dq m]; cbn in *.
  unfold main_steps in Hst; cbn in Hst.
  assert (Kq : forall m', ret_of m' = ret_of m -> quiet (mkS r ie c w dq m') -> quiet (mkS r ie c w dq m)).
  { unfold quiet; cbn. intros m' E (A & B & C). rewrite E in A. auto. }
  destruct m as [rr|rr|rr|rr].
  - rewrite !in_app_iff in Hst. destruct Hst as [Hst|[Hst|Hst]].
    + destruct ie; [|destruct Hst]. destruct Hst as [<-|[]]; splitJ; auto; try discriminate.
      all: try notquiet.
      all: try solve [intros [H|H]; discriminate].
    + destruct (cerr c) eqn:E; [|destruct Hst]. destruct Hst as [<-|[]]; splitJ; auto; try discriminate.
      all: try notquiet.
      all: try solve [intros [H|H]; discriminate].
    + destruct dq; [|destruct Hst]. destruct Hst as [<-|[]]; splitJ; auto; try discriminate.
      all: try solve [intros [H|H]; discriminate].
      all: try solve [intros Hq; exact (K (Kq _ eq_refl Hq))].
  - dif Hst; destruct Hst as [<-|[]]; splitJ; auto; try discriminate.
    all: try notquiet.
    all: try solve [intros Hq; exact (K (Kq _ eq_refl Hq))].
    all: try solve [intros [H|H]; discriminate].
    intros [H|H] Hce; [|discriminate]. inversion H; subst rr. cbn in *. destruct ie; [discriminate|reflexivity].
  - dif Hst; destruct Hst as [<-|[]]; splitJ; auto; try discriminate.
    all: try notquiet.
    all: try solve [intros Hq; exact (K (Kq _ eq_refl Hq))].
    all: try solve [intros [H|H]; discriminate].
    + intros H. inversion H; subst rr. cbn in *. destruct (cerr c); [discriminate|reflexivity].
    + intros [H|H] Hce; [discriminate|]. inversion H; subst rr. apply J6; auto.
  - destruct Hst.
Qed.

Lemma J_step blocking s s' : J s -> step blocking s s' -> J s'.
Proof.
  intros HJ Hst. unfold step, succs in Hst. rewrite !in_app_iff in Hst.
  destruct Hst as [Hst|[Hst|[Hst|Hst]]].
  - eapply J_step_reader; eauto.
  - apply in_map_iff in Hst as (c' & <- & Hin). eapply J_step_chain; eauto.
  - eapply J_step_writer; eauto.
  - eapply J_step_main; eauto.
Qed.

Lemma J_reachable blocking k kinds s : reachable blocking (init k kinds) s -> J s.
Proof. intros Hr. induction Hr; [apply J_init|eapply J_step; eauto]. Qed.

Theorem error_never_lost blocking k kinds s r :
  reachable blocking (init k kinds) s -> mn s = MExit r -> cfailed (ch s) = true -> r = true.
Proof.
  intros Hr Hm Hf. destruct (J_reachable _ _ _ _ Hr) as (J1 & J2a & J2b & K & J5 & J6).
  destruct r; [reflexivity|exfalso].
  pose proof (J5 Hm) as Hce. pose proof (J6 (or_intror Hm) Hce) as Hie.
  pose proof (J2b (f_equal in_loop Hm)) as Hw.
  assert (Hq : quiet s) by (unfold quiet; rewrite Hm, Hw; cbn; repeat split; auto; discriminate).
  specialize (K Hq). rewrite Hw in K. cbn in K. destruct (chain_inv2_all_done _ _ _ K) as [Hrs _].
  destruct (J1 Hf) as [H|[H|[H|[H|H]]]]; try congruence.
  - rewrite Hm in H. discriminate.
  - destruct (rd s); discriminate.
Qed.

(* exit status 0 implies the whole input was consumed and every stage has finished *)
Theorem exit0_implies_complete blocking k kinds s :
  reachable blocking (init k kinds) s -> mn s = MExit false ->
  rd s = RDone /\ Forall (fun v => vp v = VDone) (cvs (ch s)) /\ wr s = WDone /\ cfailed (ch s) = false.
Proof.
  intros Hr Hm. pose proof (J_reachable _ _ _ _ Hr) as HJ. destruct HJ as (J1 & J2a & J2b & K & J5 & J6).
  pose proof (J5 Hm) as Hce. pose proof (J2b (f_equal in_loop Hm)) as Hw.
  assert (Hq : quiet s) by (unfold quiet; rewrite Hm, Hw; cbn; repeat split; auto; discriminate).
  pose proof (K Hq) as K'. rewrite Hw in K'. cbn in K'. destruct (chain_inv2_all_done _ _ _ K') as [Hrs Hall].
  split; [destruct (rd s); try discriminate; reflexivity|]. split; [exact Hall|]. split; [exact Hw|].
  destruct (cfailed (ch s)) eqn:Hf; [|reflexivity]. pose proof (error_never_lost _ _ _ _ _ Hr Hm Hf). discriminate.
Qed.
