(* C04: every step of the transition system (either done-flag protocol, with failures) strictly decreases a
   natural-number measure: there are no infinite runs.  Together with deadlock freedom (Progress.v) every maximal
   run of the repaired protocol ends with main exited. *)
From Coq Require Import List Bool Arith Lia Wf_nat.
Import ListNotations.
From Miller Require Import C04.Model C04.Search C04.Progress.

Definition b2n (b : bool) : nat := if b then 1 else 0.

(* verb number i (0-based), m = number of verbs from this one to the end of the chain *)
Definition mu_pc (i m : nat) (p : vpc) : nat :=
  match p with
  | VRecv => 2 * i + 4
  | VWork _ => 2 * i + 4 + (8 * m + 4)
  | VRelay _ | VOwn _ => 2 * i + 4 + (8 * m + 4) + (2 * i + 3)
  | VSend _ | VSendE => 2 * i + 4 + (8 * m + 2)
  | VErrSig => 2 * i + 3
  | VDone => 0
  end.

Definition mu_v (i m : nat) (v : vstage) : nat :=
  length (vin v) * (8 * m + 6) + vd v * (2 * (i + 2)) + (if vsig v then 0 else 2 * i + 4) + mu_pc i m (vp v).

Fixpoint mu_chain (i : nat) (vs : list vstage) : nat :=
  match vs with
  | [] => 0
  | v :: rest => mu_v i (length vs) v + mu_chain (S i) rest
  end.

(* chain part, seen from verb i: flags waiting in its upstream channel weigh 2(i+1) each *)
Definition mu_c (i d : nat) (e : bool) (vs : list vstage) (wq : list bool) : nat :=
  2 * (i + 1) * d + b2n e + mu_chain i vs + 6 * length wq.

Definition mu_r (n : nat) (r : rpc) : nat :=
  match r with
  | RPoll k => (k + 1) * (8 * n + 16) + 2
  | RSending k => (k + 1) * (8 * n + 16) + 1
  | RErr k => (k + 1) * (8 * n + 16) + 4
  | RDone => 0
  end.
Definition mu_w (w : wpc) : nat := match w with WRecv => 4 | WErr => 3 | WFin => 1 | WDone => 0 end.
Definition mu_m (m : mpc) : nat := match m with MLoop _ => 4 | MDrain1 _ => 3 | MDrain2 _ => 2 | MExit _ => 0 end.

Definition mu (s : state) : nat :=
  mu_r (length (cvs (ch s))) (rd s) + b2n (ierr s)
  + mu_c 0 (cd (ch s)) (cerr (ch s)) (cvs (ch s)) (cwq (ch s)) + mu_w (wr s) + mu_m (mn s).

Lemma send_flag_le blocking d d' : send_flag blocking d = Some d' -> d' <= S d /\ d <= d'.
Proof. unfold send_flag. destruct (d <? 1); [intros H; inversion H; lia|]. destruct blocking; [discriminate|]. intros H; inversion H; lia. Qed.
Lemma send_flag_nb_le d : send_flag_nb d <= S d /\ d <= send_flag_nb d.
Proof. unfold send_flag_nb. destruct (d <? 1); lia. Qed.

(* a local step of verb i lowers (upstream flags, error flag, this verb) *)
Lemma local_step_decreases blocking i m d e f v d' e' f' v' :
  In (d', e', f', v') (local_steps blocking d e f v) ->
  2 * (i + 1) * d' + b2n e' + mu_v i m v' < 2 * (i + 1) * d + b2n e + mu_v i m v.
Proof.
  unfold local_steps, mu_v. destruct v as [p q dd sg sw]; cbn [vp vin vd vsig vswallow].
  destruct p as [| b | b | b | b | | |]; cbn [In].
  - destruct q as [|b q]; cbn; [tauto|]. intros [H|[]]. inversion H; subst. cbn. destruct sg; lia.
  - rewrite !in_app_iff. intros [H|[H|[H|H]]].
    + destruct (0 <? dd) eqn:E; [|destruct H]. apply Nat.ltb_lt in E. destruct H as [H|[]]. inversion H; subst.
      destruct sw; cbn; destruct sg; nia.
    + destruct sg; [destruct H|]. destruct H as [H|[]]. inversion H; subst. cbn. nia.
    + destruct H as [H|[]]. inversion H; subst. cbn. destruct sg; lia.
    + destruct H as [H|[]]. inversion H; subst. cbn. destruct e; destruct sg; cbn; lia.
  - destruct (send_flag blocking d) as [d1|] eqn:E; [|intros []]. intros [H|[]]. inversion H; subst. cbn.
    destruct (send_flag_le _ _ _ E). destruct sg; nia.
  - destruct (send_flag blocking d) as [d1|] eqn:E; [|intros []]. intros [H|[]]. inversion H; subst. cbn.
    destruct (send_flag_le _ _ _ E). destruct sg; nia.
  - intros [].
  - intros [].
  - intros [H|[]]. inversion H; subst. cbn. destruct (send_flag_nb_le d). destruct sg; nia.
  - intros [].
Qed.

Lemma chain_succs_length blocking : forall vs d e f wq c,
  In c (chain_succs blocking d e f vs wq) -> length (cvs c) = length vs.
Proof. intros. eapply chain_succs_nonempty; eauto. Qed.

Lemma chain_decreases blocking : forall vs i d e f wq c,
  In c (chain_succs blocking d e f vs wq) ->
  mu_c i (cd c) (cerr c) (cvs c) (cwq c) < mu_c i d e vs wq.
Proof.
  induction vs as [|v rest IH]; intros i d e f wq c Hin; cbn in Hin; [destruct Hin|].
  rewrite !in_app_iff in Hin. destruct Hin as [Hin|[Hin|Hin]].
  - apply in_map_iff in Hin as ([[[d' e'] f'] v'] & <- & Hl).
    pose proof (local_step_decreases blocking i (length (v :: rest)) _ _ _ _ _ _ _ _ Hl) as H.
    unfold mu_c; cbn [cd cerr cvs cwq mu_chain]. cbn [length] in *. lia.
  - destruct (after_send (vp v)) as [[b p']|] eqn:Ha; [|destruct Hin].
    assert (Hpc : forall m, 1 <= m -> mu_pc i m p' + 8 * m <= mu_pc i m (vp v) + 1).
    { intros m Hm. destruct (vp v); try discriminate; inversion Ha; subst; cbn; [destruct b; cbn; lia|lia]. }
    destruct rest as [|v2 rest2].
    + dif Hin; [|destruct Hin]. destruct Hin as [<-|[]].
      unfold mu_c; cbn [cd cerr cvs cwq mu_chain length]. unfold mu_v; cbn [vin vd vsig vp set_vp].
      rewrite app_length. cbn [length]. pose proof (Hpc 1 (le_n 1)). destruct (vsig v); lia.
    + dif Hin; [|destruct Hin]. destruct Hin as [<-|[]].
      unfold mu_c; cbn [cd cerr cvs cwq mu_chain]. unfold mu_v; cbn [length vin vd vsig vp set_vp set_vin].
      rewrite app_length. cbn [length]. pose proof (Hpc (S (S (length rest2))) ltac:(lia)). destruct (vsig v); destruct (vsig v2); nia.
  - apply in_map_iff in Hin as (c' & <- & Hc').
    pose proof (IH (S i) (vd v) e f wq c' Hc') as H. pose proof (chain_succs_length _ _ _ _ _ _ _ Hc') as HL.
    unfold mu_c in *; cbn [cd cerr cvs cwq mu_chain]. unfold mu_v; cbn [vin vd vsig vp set_vd length]. rewrite HL.
    replace (2 * (S i + 1)) with (2 * (i + 2)) in H by lia. lia.
Qed.

Theorem step_decreases blocking s s' : step blocking s s' -> mu s' < mu s.
Proof.
  unfold step, succs. rewrite !in_app_iff. intros [Hst|[Hst|[Hst|Hst]]].
  - (* reader *)
    destruct s as [r ie c w dq m]; unfold reader_steps in Hst; cbn [rd ierr ch wr doneq mn] in Hst.
    destruct r as [k|k|k|].
    + rewrite in_app_iff in Hst. destruct Hst as [Hst|Hst].
      * destruct (0 <? cd c) eqn:E; destruct Hst as [<-|[]]; unfold mu, mu_c; cbn.
        -- apply Nat.ltb_lt in E. assert (Nat.min k 1 <= k) by lia. nia.
        -- lia.
      * destruct k as [|k']; [destruct Hst|]. destruct Hst as [<-|[]]; unfold mu, mu_c; cbn. nia.
    + destruct (push_first c (k =? 0)) as [c'|] eqn:Hp; [|destruct Hst]. destruct Hst as [<-|[]].
      unfold push_first in Hp. destruct (cvs c) as [|v rest] eqn:Hv; [discriminate|].
      dif Hp; [|discriminate]. inversion Hp; subst c'. unfold mu, mu_c; cbn [rd ierr ch wr doneq mn cd cerr cvs cwq mu_chain length].
      rewrite Hv. cbn [mu_chain length]. unfold mu_v; cbn [vin vd vsig vp set_vin]. rewrite app_length. cbn [length].
      destruct k as [|k']; cbn [mu_r]; nia.
    + destruct ie; [destruct Hst|]. destruct Hst as [<-|[]]; unfold mu; cbn. lia.
    + destruct Hst.
  - (* chain *)
    apply in_map_iff in Hst as (c' & <- & Hin). unfold chain_steps in Hin.
    pose proof (chain_decreases _ _ 0 _ _ _ _ _ Hin) as H. pose proof (chain_succs_length _ _ _ _ _ _ _ Hin) as HL.
    unfold mu, with_ch; cbn [rd ierr ch wr doneq mn]. rewrite HL. lia.
  - (* writer *)
    destruct s as [r ie c w dq m]; unfold writer_steps in Hst; cbn [rd ierr ch wr doneq mn] in Hst.
    destruct w.
    + destruct (cwq c) as [|b q] eqn:Hq; [destruct Hst|].
      destruct Hst as [<-|[<-|[]]]; unfold mu, mu_c; cbn; rewrite Hq; cbn; destruct b; cbn; lia.
    + destruct Hst as [<-|[]]; unfold mu, mu_c; cbn. destruct (cerr c); cbn; lia.
    + destruct Hst as [<-|[]]; unfold mu, mu_c; cbn. lia.
    + destruct Hst.
  - (* main *)
    destruct s as [r ie c w dq m]; unfold main_steps in Hst; cbn [rd ierr ch wr doneq mn] in Hst.
    destruct m as [rr|rr|rr|rr].
    + rewrite !in_app_iff in Hst. destruct Hst as [Hst|[Hst|Hst]].
      * destruct ie; [|destruct Hst]. destruct Hst as [<-|[]]; unfold mu; cbn. lia.
      * destruct (cerr c) eqn:E; [|destruct Hst]. destruct Hst as [<-|[]]; unfold mu, mu_c; cbn. rewrite E. cbn. lia.
      * destruct dq; [|destruct Hst]. destruct Hst as [<-|[]]; unfold mu; cbn. lia.
    + dif Hst; destruct Hst as [<-|[]]; unfold mu; cbn; destruct ie; cbn; lia.
    + dif Hst; destruct Hst as [<-|[]]; unfold mu, mu_c; cbn; destruct (cerr c); cbn; lia.
    + destruct Hst.
Qed.

(* no infinite runs, under either protocol *)
Theorem no_infinite_runs blocking : well_founded (fun s' s => step blocking s s').
Proof.
  apply (well_founded_lt_compat _ mu). intros s' s H. exact (step_decreases _ _ _ H).
Qed.

(* every reachable state of the repaired protocol reaches a final state, in at most [mu s] steps *)
Lemma reachable_trans blocking a b c : reachable blocking a b -> reachable blocking b c -> reachable blocking a c.
Proof. intros Hab Hbc. induction Hbc; [exact Hab|eapply reach_step; eauto]. Qed.

Theorem every_run_reaches_final k kinds : kinds <> [] ->
  forall s, reachable false (init k kinds) s -> exists s', reachable false s s' /\ is_final s' = true.
Proof.
  intros Hk s. induction s as [s IH] using (well_founded_induction (no_infinite_runs false)).
  intros Hr. destruct (is_final s) eqn:Hf.
  - exists s. split; [apply reach_refl|exact Hf].
  - destruct (no_deadlock k kinds s Hk Hr Hf) as [s1 Hs1].
    destruct (IH s1 Hs1 (reach_step _ _ _ _ Hr Hs1)) as (s' & Hr' & Hf').
    exists s'. split; [|exact Hf']. eapply reachable_trans; [eapply reach_step; [apply reach_refl|exact Hs1]|exact Hr'].
Qed.
