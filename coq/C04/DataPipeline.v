(* C04: schedule independence of the output, for chains without early-exit flags and without failures.
   A data-carrying refinement of the channel protocol of Model.v: batches carry items, every verb is an arbitrary
   deterministic per-batch state machine (the shape runSingleTransformerBatch imposes: exactly one output batch per
   input batch, end-of-stream batch last), channels are bounded FIFOs with the capacities of the code.
   Theorem: under EVERY interleaving, whatever has been written plus what a sequential drain of everything in
   flight would still write is the same list of batches -- so every terminated run wrote exactly the sequential
   composition of the verbs applied to the input batches. *)
From Coq Require Import List Bool Arith Lia.
Import ListNotations.

Section Data.
  Variable item : Type.       (* records and print/emit strings *)
  Variable vst : Type.        (* verb state (a sum type when verbs differ) *)
  Definition batch := (list item * bool)%type.     (* items, carries the end-of-stream marker *)

  Record dverb := mkDV {
    dfun : vst -> batch -> vst * batch       (* Transform folded over one batch *)
  }.

  Inductive dpc := DRecv | DWork (b : batch) | DSend (b : batch) | DDone.

  Record dstage := mkDS { dv : dverb; dst : vst; dp : dpc; din : list batch }.

  Record dstate := mkD {
    rrem : list batch;          (* batches the reader has not sent yet (the last one carries end of stream) *)
    dvs : list dstage;
    dwq : list batch;           (* writer channel *)
    dwritten : list batch       (* what the writer has written, in order *)
  }.

  Definition reader_cap := 2.
  Definition chan_cap := 1.

  Definition set_dp (s : dstage) p := mkDS (dv s) (dst s) p (din s).
  Definition set_din (s : dstage) q := mkDS (dv s) (dst s) (dp s) q.
  Definition set_dst (s : dstage) x p := mkDS (dv s) x p (din s).

  (* one stage's own steps: receive a batch; run the verb on it *)
  Definition dlocal (s : dstage) : list dstage :=
    match dp s with
    | DRecv => match din s with b :: q => [set_din (set_dp s (DWork b)) q] | [] => [] end
    | DWork b => let '(x, o) := dfun (dv s) (dst s) b in [set_dst s x (DSend o)]
    | _ => []
    end.

  (* all successor configurations of (chain suffix, writer channel) *)
  Fixpoint dchain_succs (vs : list dstage) (wq : list batch) : list (list dstage * list batch) :=
    match vs with
    | [] => []
    | s :: rest =>
        map (fun s' => (s' :: rest, wq)) (dlocal s)
        ++ (match dp s with
            | DSend o =>
                let p' := if snd o then DDone else DRecv in
                match rest with
                | [] => if length wq <? chan_cap then [([set_dp s p'], wq ++ [o])] else []
                | s2 :: rest2 =>
                    if length (din s2) <? chan_cap
                    then [(set_dp s p' :: set_din s2 (din s2 ++ [o]) :: rest2, wq)] else []
                end
            | _ => []
            end)
        ++ map (fun '(rest', wq') => (s :: rest', wq')) (dchain_succs rest wq)
    end.

  Definition dsuccs (s : dstate) : list dstate :=
    (* reader sends its next batch *)
    (match rrem s, dvs s with
     | b :: r, v :: rest =>
         if length (din v) <? reader_cap then [mkD r (set_din v (din v ++ [b]) :: rest) (dwq s) (dwritten s)] else []
     | _, _ => []
     end)
    ++ map (fun '(vs', wq') => mkD (rrem s) vs' wq' (dwritten s)) (dchain_succs (dvs s) (dwq s))
    (* writer takes a batch and writes it *)
    ++ (match dwq s with
        | b :: q => [mkD (rrem s) (dvs s) q (dwritten s ++ [b])]
        | [] => []
        end).

  Definition dstep (s s' : dstate) : Prop := In s' (dsuccs s).

  Inductive dreach (s0 : dstate) : dstate -> Prop :=
  | dreach_refl : dreach s0 s0
  | dreach_step s s' : dreach s0 s -> dstep s s' -> dreach s0 s'.

  (* ---------------- the sequential semantics ---------------- *)
  (* a verb applied to a list of batches, from a given state *)
  Fixpoint run_verb (f : vst -> batch -> vst * batch) (x : vst) (bs : list batch) : list batch :=
    match bs with
    | [] => []
    | b :: t => let '(x', o) := f x b in o :: run_verb f x' t
    end.

  (* what a stage will still emit, given further incoming batches: its pending batch first, then its queue, then [inc] *)
  Definition stage_out (s : dstage) (inc : list batch) : list batch :=
    match dp s with
    | DRecv | DDone => run_verb (dfun (dv s)) (dst s) (din s ++ inc)
    | DWork b => run_verb (dfun (dv s)) (dst s) (b :: din s ++ inc)
    | DSend o => o :: run_verb (dfun (dv s)) (dst s) (din s ++ inc)
    end.

  Fixpoint drain (vs : list dstage) (inc : list batch) : list batch :=
    match vs with
    | [] => inc
    | s :: rest => drain rest (stage_out s inc)
    end.

  (* everything that has been or will be written, if the rest were run to completion *)
  Definition alpha (s : dstate) : list batch := dwritten s ++ dwq s ++ drain (dvs s) (rrem s).

  Ltac dif H := match type of H with context [if ?c then _ else _] => destruct c eqn:? end.

  (* pushing a batch onto a stage's queue = feeding it first *)
  Lemma stage_out_push s b inc : stage_out (set_din s (din s ++ [b])) inc = stage_out s (b :: inc).
  Proof. unfold stage_out. destruct s as [v x p q]; cbn. destruct p; now rewrite <- app_assoc. Qed.

  Lemma drain_push s rest b inc :
    drain (set_din s (din s ++ [b]) :: rest) inc = drain (s :: rest) (b :: inc).
  Proof. cbn. now rewrite stage_out_push. Qed.

  Lemma dlocal_out s s' inc : In s' (dlocal s) -> stage_out s' inc = stage_out s inc.
  Proof.
    unfold dlocal, stage_out. destruct s as [v x p q]; cbn.
    destruct p as [|b|o|]; cbn.
    - destruct q as [|b q]; cbn; [tauto|]. intros [<-|[]]. reflexivity.
    - destruct (dfun v x b) as [x' o] eqn:E. intros [<-|[]]. cbn. reflexivity.
    - tauto.
    - tauto.
  Qed.

  (* after its end-of-stream batch a stage emits nothing more, and nothing more arrives: we only need the
     weaker fact that sending a batch moves it from "pending" to the next queue *)
  Lemma stage_out_sent s o inc :
    dp s = DSend o ->
    stage_out s inc = o :: stage_out (set_dp s (if snd o then DDone else DRecv)) inc.
  Proof. unfold stage_out. destruct s as [v x p q]; cbn. intros ->. destruct (snd o); reflexivity. Qed.

  Lemma dchain_alpha : forall vs wq vs' wq' inc,
    In (vs', wq') (dchain_succs vs wq) -> wq' ++ drain vs' inc = wq ++ drain vs inc.
  Proof.
    induction vs as [|s rest IH]; intros wq vs' wq' inc Hin; cbn in Hin; [destruct Hin|].
    rewrite !in_app_iff in Hin. destruct Hin as [Hin|[Hin|Hin]].
    - apply in_map_iff in Hin as (s' & E & Hl). inversion E; subst. cbn. now rewrite (dlocal_out _ _ inc Hl).
    - destruct (dp s) as [|b|o|] eqn:Ep; try destruct Hin.
      destruct rest as [|s2 rest2].
      + dif Hin; [|destruct Hin]. destruct Hin as [E|[]]. inversion E; subst. cbn.
        rewrite (stage_out_sent s o inc Ep). rewrite <- app_assoc. reflexivity.
      + dif Hin; [|destruct Hin]. destruct Hin as [E|[]]. inversion E; subst.
        cbn [drain]. rewrite (stage_out_sent s o inc Ep). f_equal. now rewrite stage_out_push.
    - apply in_map_iff in Hin as ([rest' wq1] & E & Hin'). inversion E; subst. cbn. eapply IH; eauto.
  Qed.

  Theorem alpha_invariant s s' : dstep s s' -> alpha s' = alpha s.
  Proof.
    unfold dstep, dsuccs, alpha. rewrite !in_app_iff. intros [H|[H|H]].
    - destruct (rrem s) as [|b r] eqn:Er; [destruct H|]. destruct (dvs s) as [|v rest] eqn:Ev; [destruct H|].
      dif H; [|destruct H]. destruct H as [<-|[]]. cbn [dwritten dwq dvs rrem].
      now rewrite drain_push.
    - apply in_map_iff in H as ([vs' wq'] & <- & Hin). cbn [dwritten dwq dvs rrem].
      f_equal. eapply dchain_alpha; eauto.
    - destruct (dwq s) as [|b q] eqn:Eq; [destruct H|]. destruct H as [<-|[]]. cbn [dwritten dwq dvs rrem].
      now rewrite <- !app_assoc.
  Qed.

  Corollary alpha_reachable s0 s : dreach s0 s -> alpha s = alpha s0.
  Proof. induction 1 as [|s s' _ IH Hs]; [reflexivity|]. now rewrite (alpha_invariant _ _ Hs). Qed.

  (* the sequential composition of the chain, applied to the reader's batches *)
  Definition fresh (v : dverb) (x0 : vst) : dstage := mkDS v x0 DRecv [].
  Fixpoint seq_chain (vs : list (dverb * vst)) (bs : list batch) : list batch :=
    match vs with
    | [] => bs
    | (v, x0) :: rest => seq_chain rest (run_verb (dfun v) x0 bs)
    end.
  Definition dinit (vs : list (dverb * vst)) (bs : list batch) : dstate :=
    mkD bs (map (fun '(v, x0) => fresh v x0) vs) [] [].

  Lemma drain_fresh vs bs : drain (map (fun '(v, x0) => fresh v x0) vs) bs = seq_chain vs bs.
  Proof. revert bs; induction vs as [|[v x0] vs IH]; intros bs; cbn; [reflexivity|]. now rewrite IH. Qed.

  (* a run is over when the reader has sent everything, every stage is idle with an empty queue, and the writer
     channel is empty *)
  Definition idle (s : dstage) : Prop := (dp s = DRecv \/ dp s = DDone) /\ din s = [].
  Definition dquiescent (s : dstate) : Prop := rrem s = [] /\ Forall idle (dvs s) /\ dwq s = [].

  Lemma drain_idle vs : Forall idle vs -> drain vs [] = [].
  Proof.
    induction 1 as [|s rest [Hp Hq] _ IH]; cbn; [reflexivity|].
    unfold stage_out. rewrite Hq. destruct Hp as [-> | ->]; cbn; exact IH.
  Qed.

  Theorem schedule_independence vs bs s :
    dreach (dinit vs bs) s -> dquiescent s -> dwritten s = seq_chain vs bs.
  Proof.
    intros Hr (Hrem & Hidle & Hwq). pose proof (alpha_reachable _ _ Hr) as H.
    unfold alpha in H. rewrite Hrem, Hwq, (drain_idle _ Hidle) in H. cbn in H. rewrite !app_nil_r in H.
    rewrite H. unfold dinit; cbn. apply drain_fresh.
  Qed.

  (* at every moment, what has been written is a prefix of the sequential result *)
  Theorem written_is_prefix vs bs s :
    dreach (dinit vs bs) s -> exists rest, seq_chain vs bs = dwritten s ++ rest.
  Proof.
    intros Hr. pose proof (alpha_reachable _ _ Hr) as H. unfold alpha in H at 1.
    exists (dwq s ++ drain (dvs s) (rrem s)). rewrite H. unfold alpha, dinit; cbn. now rewrite drain_fresh.
  Qed.
End Data.
