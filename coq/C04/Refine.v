(* C04: the data-carrying model with done flags (DataFlags.v) refines the control skeleton (Model.v):
   [proj] forgets the data (a batch becomes its end-of-stream bit, a verb its tee bit); every step of the data model
   is a step of the skeleton between the projected states (forward simulation, no stuttering), and a data state
   whose projection can move can move itself.  Hence deadlock freedom (Progress.v) and termination
   (Termination.v), proved on the skeleton, hold for the data model. *)
From Coq Require Import List Bool Arith Lia Wf_nat.
Import ListNotations.
From Miller Require Import C04.Model C04.Search C04.Progress C04.Termination C04.DataFlags.

Section Refine.
  Context {rec str st : Type}.
  Notation Fstage := (@fstage rec str st).
  Notation Fstate := (@fstate rec str st).
  Notation Fbatch := (@fbatch rec str).
  Notation Verb := (@verb rec str st).

  Definition ppc (p : @fpc rec str) : vpc :=
    match p with
    | FRecv => VRecv | FWork b => VWork (snd b) | FRelay b => VRelay (snd b) | FOwn b => VOwn (snd b)
    | FSend o => VSend (snd o) | FDone => VDone
    end.
  Definition pstage (s : Fstage) : vstage := mkV (ppc (fp s)) (map snd (fq s)) (fd s) (fsig s) (vtee (fv s)).
  Definition prd (r : frpc) (k : nat) : rpc :=
    match r with FPoll => RPoll k | FSending => RSending k | FRDone => RDone end.
  Definition proj (s : Fstate) : state :=
    mkS (prd (frd s) (length (frem s))) false
        (mkC (fdn s) false false (map pstage (fvs s)) (map snd (fwq s))) (fwr s) (fdoneq s) (fmn s).

  Lemma run_batch_eos (v : Verb) x b : snd (snd (run_batch v x b)) = snd b.
  Proof. unfold run_batch. destruct (run_items v x (fst b)) as [x1 o]. destruct (snd b); reflexivity. Qed.

  Lemma map_snd_length (l : list Fbatch) : length (map snd l) = length l.
  Proof. apply map_length. Qed.

  Lemma send_flag_sf d : send_flag false d = Some (sf d).
  Proof. unfold send_flag, sf. destruct (d <? 1); reflexivity. Qed.

  Lemma flocal_sim d (s : Fstage) d' s' :
    In (d', s') (flocal d s) -> In (d', false, false, pstage s') (local_steps false d false false (pstage s)).
  Proof.
    unfold flocal, local_steps. destruct s as [v x p q dd sg]; cbn [fp fq fd fsig fv fx pstage vp vin vd vsig vswallow ppc].
    destruct p as [|b|b|b|o|]; cbn [ppc].
    - destruct q as [|b q]; cbn [map]; [intros []|]. intros [E|[]]. inversion E; subst. left. reflexivity.
    - rewrite !in_app_iff. intros [H|[H|H]].
      + left. destruct (0 <? dd); [|destruct H]. destruct H as [E|[]]. inversion E; subst. left.
        cbn. destruct (vtee v); reflexivity.
      + right; left. destruct sg; cbn [orb] in H; [destruct H|].
        destruct (negb _); [destruct H|]. destruct H as [E|[]]. inversion E; subst. left. reflexivity.
      + right; right; left. destruct H as [E|[]]. inversion E; subst.
        pose proof (run_batch_eos v x b) as He. destruct (run_batch v x b) as [x' o]. cbn [snd] in He.
        unfold set_fx, pstage, set_vp; cbn [fp fq fd fsig fv fx ppc vp vin vd vsig vswallow]. rewrite He. left. reflexivity.
    - rewrite send_flag_sf. intros [E|[]]. inversion E; subst. left. reflexivity.
    - rewrite send_flag_sf. intros [E|[]]. inversion E; subst. left. reflexivity.
    - intros [].
    - intros [].
  Qed.

  Lemma pstage_set_fp (s : Fstage) p : pstage (set_fp s p) = set_vp (pstage s) (ppc p).
  Proof. reflexivity. Qed.
  Lemma pstage_set_fq (s : Fstage) q : pstage (set_fq s q) = set_vin (pstage s) (map snd q).
  Proof. reflexivity. Qed.
  Lemma pstage_set_fd (s : Fstage) d : pstage (set_fd s d) = set_vd (pstage s) d.
  Proof. reflexivity. Qed.

  Lemma fchain_sim : forall (vs : list Fstage) d wq d' vs' wq',
    In (d', vs', wq') (fchain_succs d vs wq) ->
    In (mkC d' false false (map pstage vs') (map snd wq'))
       (chain_succs false d false false (map pstage vs) (map snd wq)).
  Proof.
    induction vs as [|s rest IH]; intros d wq d' vs' wq' Hin; cbn [fchain_succs] in Hin; [destruct Hin|].
    cbn [map chain_succs]. rewrite !in_app_iff in Hin. rewrite !in_app_iff. destruct Hin as [Hin|[Hin|Hin]].
    - left. apply in_map_iff in Hin as ([d1 s1] & E & Hl). inversion E; subst.
      apply in_map_iff. exists (d', false, false, pstage s1). split; [reflexivity|]. now apply flocal_sim.
    - right; left. destruct (fp s) as [|b|b|b|o|] eqn:Ep; try destruct Hin.
      assert (Hvp : vp (pstage s) = VSend (snd o)) by (unfold pstage; cbn; now rewrite Ep).
      rewrite Hvp. cbn [after_send].
      assert (Hpp : ppc (if snd o then FDone else FRecv) = (if snd o then VDone else VRecv)) by (destruct (snd o); reflexivity).
      destruct rest as [|s2 rest2]; cbn [map].
      + rewrite map_snd_length. destruct (length wq <? chan_cap); [|destruct Hin]. destruct Hin as [E|[]]. inversion E; subst.
        left. cbn [map]. rewrite map_app, pstage_set_fp, Hpp. reflexivity.
      + cbn [pstage vin]. rewrite map_snd_length. destruct (length (fq s2) <? chan_cap); [|destruct Hin].
        destruct Hin as [E|[]]. inversion E; subst. left. cbn [map].
        rewrite pstage_set_fp, Hpp, pstage_set_fq, map_app. reflexivity.
    - right; right. apply in_map_iff in Hin as ([[d2 rest'] wq1] & E & Hin'). inversion E; subst.
      apply in_map_iff. exists (mkC d2 false false (map pstage rest') (map snd wq')). split.
      + cbn. now rewrite pstage_set_fd.
      + apply IH. exact Hin'.
  Qed.

  (* ---- forward simulation: every step of the data model is a step of the skeleton ---- *)
  Theorem forward_simulation (s s' : Fstate) : fstep 1 s s' -> step false (proj s) (proj s').
  Proof.
    unfold fstep, fsuccs, step, succs. rewrite !in_app_iff. intros [H|[H|[H|H]]].
    - (* reader *) left. destruct s as [r rem dn vs wq w out dq m]; unfold freader_steps in H; cbn [frd frem fdn fvs fwq fwr fout fdoneq fmn] in H.
      unfold reader_steps, proj; cbn [frd frem fdn fvs fwq fwr fout fdoneq fmn rd ch cd prd].
      destruct r.
      + apply in_app_iff. left. destruct (0 <? dn); destruct H as [<-|[]]; left; cbn; [|reflexivity].
        destruct rem as [|b0 [|b1 r1]]; reflexivity.
      + destruct vs as [|v rest]; [destruct H|]. unfold push_first; cbn [cvs map pstage vin]. rewrite map_snd_length.
        destruct (length (fq v) <? reader_cap); [|destruct H].
        destruct rem as [|b r]; destruct H as [<-|[]]; left; cbn; rewrite pstage_set_fq, map_app; reflexivity.
      + destruct H.
    - (* chain *) right; left. unfold fchain_steps in H. apply in_map_iff in H as ([[d' vs'] wq'] & <- & Hin).
      apply in_map_iff. exists (mkC d' false false (map pstage vs') (map snd wq')). split; [reflexivity|].
      unfold chain_steps, proj; cbn. now apply fchain_sim.
    - (* writer *) right; right; left. destruct s as [r rem dn vs wq w out dq m]; unfold fwriter_steps in H; cbn [frd frem fdn fvs fwq fwr fout fdoneq fmn] in H.
      unfold writer_steps, proj; cbn [frd frem fdn fvs fwq fwr fout fdoneq fmn wr ch cwq].
      destruct w; [|destruct H| |destruct H].
      + destruct wq as [|b q]; [destruct H|]. destruct H as [<-|[]]. cbn. left. reflexivity.
      + destruct H as [<-|[]]. left. reflexivity.
    - (* main *) right; right; right. destruct s as [r rem dn vs wq w out dq m]; unfold fmain_steps in H; cbn [frd frem fdn fvs fwq fwr fout fdoneq fmn] in H.
      unfold main_steps, proj; cbn [frd frem fdn fvs fwq fwr fout fdoneq fmn mn ierr ch cerr doneq].
      destruct m as [rr|rr|rr|rr].
      + destruct dq; [|destruct H]. destruct H as [<-|[]]. cbn. left. reflexivity.
      + destruct H as [<-|[]]. rewrite andb_false_r. left. reflexivity.
      + destruct H as [<-|[]]. rewrite andb_false_r. left. reflexivity.
      + destruct H.
  Qed.

  (* ---- converse enabledness: a data state that cannot move projects to a skeleton state that cannot move ---- *)
  Lemma flocal_stuck d (s : Fstage) : flocal d s = [] -> local_steps false d false false (pstage s) = [].
  Proof.
    unfold flocal, local_steps. destruct s as [v x p q dd sg]; cbn [fp fq fd fsig fv fx pstage vp vin vd vsig vswallow ppc].
    destruct p as [|b|b|b|o|]; cbn [ppc]; try reflexivity; try discriminate.
    - destruct q; [reflexivity|discriminate].
    - intros H. apply app_eq_nil in H as [_ H]. apply app_eq_nil in H as [_ H]. discriminate.
  Qed.

  Lemma fchain_stuck : forall (vs : list Fstage) d wq,
    fchain_succs d vs wq = [] -> chain_succs false d false false (map pstage vs) (map snd wq) = [].
  Proof.
    induction vs as [|s rest IH]; intros d wq H; [reflexivity|].
    cbn [fchain_succs] in H. apply app_eq_nil in H as [Hl H]. apply app_eq_nil in H as [Hs Hd].
    apply map_eq_nil in Hl. apply map_eq_nil in Hd.
    cbn [map chain_succs]. rewrite (flocal_stuck _ _ Hl). cbn [map app].
    change (vd (pstage s)) with (fd s). rewrite (IH _ _ Hd). cbn [map]. rewrite app_nil_r.
    destruct (fp s) as [|b|b|b|o|] eqn:Ep; unfold pstage at 1; cbn [vp]; rewrite Ep; cbn [ppc after_send]; try reflexivity.
    destruct rest as [|s2 rest2]; cbn [map].
    - rewrite map_snd_length. destruct (length wq <? chan_cap); [discriminate|reflexivity].
    - cbn [pstage vin]. rewrite map_snd_length. destruct (length (fq s2) <? chan_cap); [discriminate|reflexivity].
  Qed.

  Theorem stuck_projects (s : Fstate) : fwr s <> WErr -> fsuccs 1 s = [] -> succs false (proj s) = [].
  Proof.
    unfold fsuccs, succs. intros HW H. apply app_eq_nil in H as [Hr H]. apply app_eq_nil in H as [Hc H].
    apply app_eq_nil in H as [Hw Hm].
    destruct s as [r rem dn vs wq w out dq m].
    unfold freader_steps in Hr; unfold fchain_steps in Hc; unfold fwriter_steps in Hw; unfold fmain_steps in Hm.
    cbn [frd frem fdn fvs fwq fwr fout fdoneq fmn] in *. apply map_eq_nil in Hc.
    unfold proj; cbn [frd frem fdn fvs fwq fwr fout fdoneq fmn].
    assert (R : reader_steps (mkS (prd r (length rem)) false (mkC dn false false (map pstage vs) (map snd wq)) w dq m) = []).
    { unfold reader_steps; cbn [rd ch cd prd]. destruct r; cbn [prd].
      - destruct (0 <? dn); discriminate.
      - unfold push_first; cbn [cvs]. destruct vs as [|v rest]; [reflexivity|]. cbn [map pstage vin]. rewrite map_snd_length.
        destruct (length (fq v) <? reader_cap); [|reflexivity]. destruct rem; discriminate.
      - reflexivity. }
    rewrite R. cbn [app]. unfold chain_steps; cbn [ch cd cerr cfailed cvs cwq]. rewrite (fchain_stuck _ _ _ Hc). cbn [map app].
    assert (W : writer_steps (mkS (prd r (length rem)) false (mkC dn false false (map pstage vs) (map snd wq)) w dq m) = []).
    { unfold writer_steps; cbn [wr ch cwq]. destruct w; try reflexivity; try discriminate; [|now elim HW].
      destruct wq; [reflexivity|discriminate]. }
    rewrite W. cbn [app]. unfold main_steps; cbn [mn ierr ch cerr doneq].
    destruct m as [rr|rr|rr|rr]; try discriminate; try reflexivity.
    destruct dq; [discriminate|reflexivity].
  Qed.

  (* the data model has no failures: its writer is never on the error path *)
  Lemma no_werr_step keep (s s' : Fstate) : fwr s <> WErr -> fstep keep s s' -> fwr s' <> WErr.
  Proof.
    intros HW. unfold fstep, fsuccs. rewrite !in_app_iff. intros [H|[H|[H|H]]].
    - unfold freader_steps in H. destruct (frd s); [| |destruct H].
      + destruct (0 <? fdn s); destruct H as [<-|[]]; exact HW.
      + destruct (fvs s); [destruct H|]. destruct (length (fq f) <? reader_cap); [|destruct H].
        destruct (frem s); destruct H as [<-|[]]; exact HW.
    - unfold fchain_steps in H. apply in_map_iff in H as ([[d' vs'] wq'] & <- & _). exact HW.
    - unfold fwriter_steps in H. destruct (fwr s); [|destruct H| |destruct H].
      + destruct (fwq s); [destruct H|]. destruct H as [<-|[]]. cbn. destruct (snd f); discriminate.
      + destruct H as [<-|[]]. discriminate.
    - unfold fmain_steps in H. destruct (fmn s); [| | |destruct H].
      + destruct (fdoneq s); [|destruct H]. destruct H as [<-|[]]; exact HW.
      + destruct H as [<-|[]]; exact HW.
      + destruct H as [<-|[]]; exact HW.
  Qed.

  Lemma no_werr keep (vs : list (Verb * st)) bs s : freach keep (finit vs bs) s -> fwr s <> WErr.
  Proof. induction 1 as [|s s' _ IH Hs]; [discriminate|]. eapply no_werr_step; eauto. Qed.

  (* ---- transfer ---- *)
  Definition kinds_of (vs : list (Verb * st)) : list bool := map (fun vx => vtee (fst vx)) vs.

  Lemma proj_init (vs : list (Verb * st)) bs : proj (finit vs bs) = init (length bs) (kinds_of vs).
  Proof.
    unfold proj, finit, init, kinds_of; cbn. rewrite !map_map. reflexivity.
  Qed.

  Lemma freach_proj (vs : list (Verb * st)) bs s :
    freach 1 (finit vs bs) s -> reachable false (init (length bs) (kinds_of vs)) (proj s).
  Proof.
    induction 1 as [|s s' _ IH Hs].
    - rewrite proj_init. apply reach_refl.
    - eapply reach_step; [exact IH|]. now apply forward_simulation.
  Qed.

  Lemma ffinal_proj (s : Fstate) : is_final (proj s) = ffinal s.
  Proof. reflexivity. Qed.

  (* no deadlock in the data model: for every chain, every input, every interleaving *)
  Theorem data_no_deadlock (vs : list (Verb * st)) bs s :
    vs <> [] -> freach 1 (finit vs bs) s -> ffinal s = false -> exists s', fstep 1 s s'.
  Proof.
    intros Hne Hr Hf.
    assert (Hk : kinds_of vs <> []) by (destruct vs; [contradiction|discriminate]).
    pose proof (progress _ (Inv_reachable _ _ _ _ Hk (freach_proj _ _ _ Hr))) as Hp.
    rewrite ffinal_proj in Hp. specialize (Hp Hf).
    destruct (fsuccs 1 s) as [|s' l] eqn:E.
    - exfalso. apply Hp. apply stuck_projects; [eapply no_werr; eauto|exact E].
    - exists s'. unfold fstep. rewrite E. now left.
  Qed.

  (* no infinite run of the data model: the skeleton's measure of the projection decreases *)
  Theorem data_no_infinite_runs : well_founded (fun (s' s : Fstate) => fstep 1 s s').
  Proof.
    apply (well_founded_lt_compat _ (fun s => mu (proj s))). intros s' s H.
    apply (step_decreases false). now apply forward_simulation.
  Qed.

  Lemma freach_trans keep (a b c : Fstate) : freach keep a b -> freach keep b c -> freach keep a c.
  Proof. intros Hab Hbc. induction Hbc; [exact Hab|eapply freach_step; eauto]. Qed.

  (* every run of the data model terminates with main exited *)
  Theorem data_every_run_terminates (vs : list (Verb * st)) bs : vs <> [] ->
    forall s, freach 1 (finit vs bs) s -> exists s', freach 1 s s' /\ ffinal s' = true.
  Proof.
    intros Hne s. induction s as [s IH] using (well_founded_induction data_no_infinite_runs).
    intros Hr. destruct (ffinal s) eqn:Hf.
    - exists s. split; [apply freach_refl|exact Hf].
    - destruct (data_no_deadlock vs bs s Hne Hr Hf) as [s1 Hs1].
      destruct (IH s1 Hs1 (freach_step _ _ _ _ Hr Hs1)) as (s' & Hr' & Hf').
      exists s'. split; [|exact Hf']. eapply freach_trans; [eapply freach_step; [apply freach_refl|exact Hs1]|exact Hr'].
  Qed.
End Refine.
