(* C04: cutting the stream into batches never changes a verb's (or a chain's) output: the shape
   runSingleTransformerBatch imposes -- every verb is a per-record state machine plus an end-of-stream step. *)
From Coq Require Import List.
Import ListNotations.

Section Verb.
  Variables item st : Type.
  Variable vstep : st -> item -> st * list item.
  Variable vfin : st -> list item.

  Fixpoint run_items (s : st) (l : list item) : st * list item :=
    match l with
    | [] => (s, [])
    | x :: t => let '(s1, o1) := vstep s x in let '(s2, o2) := run_items s1 t in (s2, o1 ++ o2)
    end.

  Definition run (s0 : st) (l : list item) : list item :=
    let '(s, o) := run_items s0 l in o ++ vfin s.

  (* one output batch per input batch, as in runSingleTransformerBatch *)
  Fixpoint run_batches (s : st) (bs : list (list item)) : st * list (list item) :=
    match bs with
    | [] => (s, [])
    | b :: t => let '(s1, o1) := run_items s b in let '(s2, os) := run_batches s1 t in (s2, o1 :: os)
    end.

  Definition run_batched (s0 : st) (bs : list (list item)) : list item :=
    let '(s, os) := run_batches s0 bs in concat os ++ vfin s.

  Lemma run_items_app s a b :
    run_items s (a ++ b) =
    let '(s1, o1) := run_items s a in let '(s2, o2) := run_items s1 b in (s2, o1 ++ o2).
  Proof.
    revert s; induction a as [|x a IH]; intros s; cbn.
    - destruct (run_items s b); reflexivity.
    - destruct (vstep s x) as [s1 o1]. rewrite IH.
      destruct (run_items s1 a) as [s2 o2]. destruct (run_items s2 b) as [s3 o3]. now rewrite app_assoc.
  Qed.

  Lemma run_batches_concat s bs :
    let '(s1, os) := run_batches s bs in run_items s (concat bs) = (s1, concat os).
  Proof.
    revert s; induction bs as [|b bs IH]; intros s; cbn; [reflexivity|].
    rewrite run_items_app. destruct (run_items s b) as [s1 o1]. specialize (IH s1).
    destruct (run_batches s1 bs) as [s2 os]. rewrite IH. reflexivity.
  Qed.

  Theorem batch_independence s0 bs : run_batched s0 bs = run s0 (concat bs).
  Proof.
    unfold run_batched, run. pose proof (run_batches_concat s0 bs) as H.
    destruct (run_batches s0 bs) as [s os]. now rewrite H.
  Qed.

  Corollary any_two_batchings_agree s0 bs bs' :
    concat bs = concat bs' -> run_batched s0 bs = run_batched s0 bs'.
  Proof. intros H. now rewrite !batch_independence, H. Qed.
End Verb.
