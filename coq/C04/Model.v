(* C04/C17 model: the goroutine/channel protocol of pkg/stream/stream.go, pkg/transformers/aaa_chain_transformer.go,
   pkg/output/channel_writer.go and the reader side (pkg/input/line_reader.go + record readers), as an executable
   small-step transition system.  Data is abstracted to "is this batch the end-of-stream batch"; every verb may,
   nondeterministically, relay a downstream-done flag, raise its own (head), swallow it (tee) or fail (Transform
   error).  Channels are bounded FIFOs with the capacities in the code.

   [blocking = true]  : done-flag sends are blocking channel sends (the code before the fix: commit).
   [blocking = false] : done-flag sends are non-blocking (select/default), the repaired protocol.            *)
From Coq Require Import List Bool Arith Lia.
Import ListNotations.

Inductive vpc :=
| VRecv                       (* blocked in  <-inputRecordChannel *)
| VWork (eos : bool)          (* inside runSingleTransformerBatch, batch in hand *)
| VRelay (eos : bool)         (* HandleDefaultDownstreamDone: flag taken from idchan, about to send on odchan *)
| VOwn (eos : bool)           (* head: about to send its own flag on odchan *)
| VSend (eos : bool)          (* outputRecordChannel <- batch *)
| VSendE                      (* error path: error posted, forwarding the end-of-stream marker *)
| VErrSig                     (* error path: non-blocking done flag upstream, then return *)
| VDone.

Record vstage := mkV {
  vp : vpc;
  vin : list bool;      (* this verb's input record channel; true = batch carrying the end-of-stream marker *)
  vd : nat;             (* this verb's idchan: flags sent by the next verb (capacity 1) *)
  vsig : bool;          (* wroteDownstreamDone *)
  vswallow : bool       (* tee: reads the flag and does not forward it *)
}.

Definition set_vp (v : vstage) p := mkV p (vin v) (vd v) (vsig v) (vswallow v).
Definition set_vin (v : vstage) q := mkV (vp v) q (vd v) (vsig v) (vswallow v).
Definition set_vd (v : vstage) d := mkV (vp v) (vin v) d (vsig v) (vswallow v).
Definition set_vsig (v : vstage) b := mkV (vp v) (vin v) (vd v) b (vswallow v).

Inductive rpc :=
| RPoll (k : nat)      (* about to poll the done channel; k data batches remain *)
| RSending (k : nat)   (* readerChannel <- batch;  k = 0: the end-of-stream batch *)
| RErr (k : nat)       (* errorChannel <- err  (blocking, capacity 1), then carries on *)
| RDone.

Inductive wpc := WRecv | WErr | WFin | WDone.
Inductive mpc := MLoop (ret : bool) | MDrain1 (ret : bool) | MDrain2 (ret : bool) | MExit (ret : bool).

(* the part of the state the chain of verbs can touch *)
Record cst := mkC {
  cd : nat;              (* the done channel of the stage upstream of this chain suffix (capacity 1) *)
  cerr : bool;           (* dataProcessingErrorChannel holds an error (capacity 1) *)
  cfailed : bool;        (* ghost: some stage has failed *)
  cvs : list vstage;
  cwq : list bool        (* writerChannel (capacity 1) *)
}.

Record state := mkS {
  rd : rpc;
  ierr : bool;           (* inputErrorChannel holds an error (capacity 1) *)
  ch : cst;              (* cd ch = readerDownstreamDoneChannel *)
  wr : wpc;
  doneq : bool;          (* doneWritingChannel *)
  mn : mpc
}.

Definition reader_cap := 2.
Definition chan_cap := 1.

Section Protocol.
  Variable blocking : bool.

  (* send a done flag on a capacity-1 channel currently holding d flags: Some d' = the send completes *)
  Definition send_flag (d : nat) : option nat :=
    if d <? 1 then Some (S d) else if blocking then None else Some d.
  (* the error path always uses select/default *)
  Definition send_flag_nb (d : nat) : nat := if d <? 1 then S d else d.

  (* steps of the first verb of a chain suffix that do not touch its successor.
     Result: (new upstream flag count, new error-channel flag, new failed flag, new verb) *)
  Definition local_steps (d : nat) (e f : bool) (v : vstage) : list (nat * bool * bool * vstage) :=
    match vp v with
    | VRecv =>
        match vin v with
        | b :: q => [(d, e, f, set_vin (set_vp v (VWork b)) q)]
        | [] => []
        end
    | VWork b =>
        (if 0 <? vd v then
           [(d, e, f, if vswallow v then set_vd v 0 else set_vp (set_vd v 0) (VRelay b))]
         else []) ++
        (if vsig v then [] else [(d, e, f, set_vp (set_vsig v true) (VOwn b))]) ++
        [(d, e, f, set_vp v (VSend b))] ++
        [(d, true, true, set_vp v VSendE)]            (* Transform returned an error: non-blocking post *)
    | VRelay b | VOwn b =>
        match send_flag d with
        | Some d' => [(d', e, f, set_vp v (VWork b))]
        | None => []
        end
    | VErrSig => [(send_flag_nb d, e, f, set_vp v VDone)]
    | VSend _ | VSendE | VDone => []
    end.

  Definition after_send (p : vpc) : option (bool * vpc) :=
    match p with
    | VSend b => Some (b, if b then VDone else VRecv)
    | VSendE => Some (true, VErrSig)
    | _ => None
    end.

  (* all successor configurations of a chain suffix *)
  Fixpoint chain_succs (d : nat) (e f : bool) (vs : list vstage) (wq : list bool) : list cst :=
    match vs with
    | [] => []
    | v :: rest =>
        map (fun '(d', e', f', v') => mkC d' e' f' (v' :: rest) wq) (local_steps d e f v)
        ++ (match after_send (vp v) with
            | Some (b, p') =>
                match rest with
                | [] => if length wq <? chan_cap then [mkC d e f [set_vp v p'] (wq ++ [b])] else []
                | v2 :: rest2 =>
                    if length (vin v2) <? chan_cap
                    then [mkC d e f (set_vp v p' :: set_vin v2 (vin v2 ++ [b]) :: rest2) wq] else []
                end
            | None => []
            end)
        ++ map (fun c => mkC d (cerr c) (cfailed c) (set_vd v (cd c) :: cvs c) (cwq c))
               (chain_succs (vd v) e f rest wq)
    end.

  Definition chain_steps (c : cst) : list cst := chain_succs (cd c) (cerr c) (cfailed c) (cvs c) (cwq c).

  Definition with_ch (s : state) (c : cst) := mkS (rd s) (ierr s) c (wr s) (doneq s) (mn s).
  Definition set_failed (c : cst) := mkC (cd c) (cerr c) true (cvs c) (cwq c).
  Definition set_cd (c : cst) d := mkC d (cerr c) (cfailed c) (cvs c) (cwq c).
  Definition set_cerr (c : cst) e := mkC (cd c) e (cfailed c) (cvs c) (cwq c).
  Definition set_cwq (c : cst) q := mkC (cd c) (cerr c) (cfailed c) (cvs c) q.

  Definition push_first (c : cst) (b : bool) : option cst :=
    match cvs c with
    | v :: rest => if length (vin v) <? reader_cap
                   then Some (mkC (cd c) (cerr c) (cfailed c) (set_vin v (vin v ++ [b]) :: rest) (cwq c)) else None
    | [] => None
    end.

  Definition reader_steps (s : state) : list state :=
    match rd s with
    | RPoll k =>
        (if 0 <? cd (ch s)
         then [mkS (RSending (Nat.min k 1)) (ierr s) (set_cd (ch s) 0) (wr s) (doneq s) (mn s)]
         else [mkS (RSending k) (ierr s) (ch s) (wr s) (doneq s) (mn s)])
        ++ (match k with
            | S k' => [mkS (RErr k') (ierr s) (set_failed (ch s)) (wr s) (doneq s) (mn s)]
            | O => []
            end)   (* open/parse error: the failing batch is dropped, reading goes on with the next one *)
    | RErr k => if ierr s then [] else [mkS (RPoll k) true (ch s) (wr s) (doneq s) (mn s)]
    | RSending k =>
        match push_first (ch s) (Nat.eqb k 0) with
        | Some c => [mkS (match k with 0 => RDone | S k' => RPoll k' end) (ierr s) c (wr s) (doneq s) (mn s)]
        | None => []
        end
    | RDone => []
    end.

  Definition writer_steps (s : state) : list state :=
    match wr s with
    | WRecv =>
        match cwq (ch s) with
        | b :: q =>
            [mkS (rd s) (ierr s) (set_cwq (ch s) q) (if b then WFin else WRecv) (doneq s) (mn s);
             mkS (rd s) (ierr s) (set_failed (set_cwq (ch s) q)) WErr (doneq s) (mn s)]   (* Write error *)
        | [] => []
        end
    | WErr => [mkS (rd s) (ierr s) (set_cerr (ch s) true) WFin (doneq s) (mn s)]          (* non-blocking post *)
    | WFin => [mkS (rd s) (ierr s) (ch s) WDone true (mn s)]
    | WDone => []
    end.

  Definition main_steps (s : state) : list state :=
    match mn s with
    | MLoop r =>
        (if ierr s then [mkS (rd s) false (ch s) (wr s) (doneq s) (MLoop true)] else []) ++
        (if cerr (ch s) then [mkS (rd s) (ierr s) (set_cerr (ch s) false) (wr s) (doneq s) (MLoop true)] else []) ++
        (if doneq s then [mkS (rd s) (ierr s) (ch s) (wr s) false (MDrain1 r)] else [])
    | MDrain1 r =>
        if negb r && ierr s then [mkS (rd s) false (ch s) (wr s) (doneq s) (MDrain2 true)]
        else [mkS (rd s) (ierr s) (ch s) (wr s) (doneq s) (MDrain2 r)]
    | MDrain2 r =>
        if negb r && cerr (ch s) then [mkS (rd s) (ierr s) (set_cerr (ch s) false) (wr s) (doneq s) (MExit true)]
        else [mkS (rd s) (ierr s) (ch s) (wr s) (doneq s) (MExit r)]
    | MExit _ => []
    end.

  Definition succs (s : state) : list state :=
    reader_steps s ++ map (with_ch s) (chain_steps (ch s)) ++ writer_steps s ++ main_steps s.

  Definition step (s s' : state) : Prop := In s' (succs s).

  Inductive reachable (s0 : state) : state -> Prop :=
  | reach_refl : reachable s0 s0
  | reach_step s s' : reachable s0 s -> step s s' -> reachable s0 s'.

  Definition final (s : state) : Prop := exists r, mn s = MExit r.
End Protocol.

Definition fresh_verb (swallow : bool) : vstage := mkV VRecv [] 0 false swallow.

(* initial state: k data batches to read, verbs given by their swallow flags *)
Definition init (k : nat) (kinds : list bool) : state :=
  mkS (RPoll k) false (mkC 0 false false (map fresh_verb kinds) []) WRecv false (MLoop false).

Definition exit_status (s : state) : option bool :=
  match mn s with MExit r => Some r | _ => None end.
