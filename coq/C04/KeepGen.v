(* C04: deadlock freedom and termination of the data-carrying model for EVERY producer shape [keep] (keep = 1: the
   line readers, which hand over the batch already in hand after seeing the done flag; keep = 0: seqgen, which hands
   over nothing more; any other value as well).
   Refine.v projects the keep = 1 model onto the skeleton step by step.  For a general [keep] exactly one kind of step
   differs: the producer's poll that finds the flag set (it then keeps [firstn keep] of its remaining batches).  That
   step is not a skeleton step when keep <> 1, but (a) it strictly decreases the skeleton's termination measure of
   the projection (fewer batches remain, the flag is consumed) and (b) it preserves the skeleton's progress
   invariant (which does not look at the number of remaining batches).  Every other step is a keep = 1 step. *)
From Coq Require Import List Bool Arith Lia Wf_nat.
Import ListNotations.
From Miller Require Import C04.Model C04.Search C04.Progress C04.Termination C04.DataFlags C04.Refine.

Section KeepGen.
  Context {rec str st : Type}.
  Notation Fstage := (@fstage rec str st).
  Notation Fstate := (@fstate rec str st).
  Notation Verb := (@verb rec str st).
  Variable keep : nat.

  Definition flag_poll (s s' : Fstate) : Prop :=
    frd s = FPoll /\ 0 < fdn s /\
    s' = mkFS FSending (firstn keep (frem s)) 0 (fvs s) (fwq s) (fwr s) (fout s) (fdoneq s) (fmn s).

  (* every step of the general model is a step of the keep = 1 model, or the flag-finding poll *)
  Lemma fstep_cases (s s' : Fstate) : fstep keep s s' -> fstep 1 s s' \/ flag_poll s s'.
  Proof.
    unfold fstep, fsuccs. rewrite !in_app_iff. intros [H|H]; [|left; right; exact H].
    unfold freader_steps in *. destruct (frd s) eqn:Er.
    - destruct (0 <? fdn s) eqn:Ed.
      + right. destruct H as [<-|[]]. split; [exact Er|]. split; [now apply Nat.ltb_lt|reflexivity].
      + left. left. exact H.
    - left. left. exact H.
    - destruct H.
  Qed.

  Lemma fsuccs_nil_keep (s : Fstate) : fsuccs keep s = [] -> fsuccs 1 s = [].
  Proof.
    unfold fsuccs. intros H. apply app_eq_nil in H as [Hr Hrest]. rewrite Hrest, app_nil_r.
    unfold freader_steps in *. destruct (frd s); [|exact Hr|reflexivity].
    destruct (0 <? fdn s); discriminate.
  Qed.

  (* (a) the measure of the projection decreases *)
  Lemma flag_poll_decreases (s s' : Fstate) : flag_poll s s' -> mu (proj s') < mu (proj s).
  Proof.
    intros (Hr & Hd & ->). unfold mu, proj. cbn [frd frem fdn fvs fwq fwr fout fdoneq fmn rd ierr ch cd cerr cvs cwq wr mn].
    rewrite Hr. cbn [prd mu_r]. unfold mu_c. pose proof (firstn_length keep (frem s)) as Hl.
    assert (Hm : (length (firstn keep (frem s)) + 1) * (8 * length (map pstage (fvs s)) + 16)
                 <= (length (frem s) + 1) * (8 * length (map pstage (fvs s)) + 16)) by (apply Nat.mul_le_mono_r; lia).
    lia.
  Qed.

  Lemma general_step_decreases (s s' : Fstate) : fstep keep s s' -> mu (proj s') < mu (proj s).
  Proof.
    intros H. destruct (fstep_cases _ _ H) as [H1|H2]; [|now apply flag_poll_decreases].
    apply (step_decreases false). now apply forward_simulation.
  Qed.

  Theorem data_no_infinite_runs_keep : well_founded (fun (s' s : Fstate) => fstep keep s s').
  Proof. apply (well_founded_lt_compat _ (fun s => mu (proj s))). intros s' s H. now apply general_step_decreases. Qed.

  (* (b) the progress invariant of the skeleton is preserved *)
  Lemma flag_poll_Inv (s s' : Fstate) : flag_poll s s' -> Inv (proj s) -> Inv (proj s').
  Proof.
    intros (Hr & Hd & ->). unfold Inv, proj. cbn [frd frem fdn fvs fwq fwr fout fdoneq fmn rd ierr ch cd cerr cvs cwq wr mn doneq].
    rewrite Hr. cbn [prd rsent]. auto.
  Qed.

  Lemma Inv_freach (vs : list (Verb * st)) bs s : vs <> [] -> freach keep (finit vs bs) s -> Inv (proj s).
  Proof.
    intros Hne. induction 1 as [|s s' _ IH Hs].
    - rewrite proj_init. apply Inv_init. destruct vs; [contradiction|discriminate].
    - destruct (fstep_cases _ _ Hs) as [H1|H2]; [|eapply flag_poll_Inv; eauto].
      eapply Inv_step; [exact IH|]. now apply forward_simulation.
  Qed.

  (* no deadlock, every producer shape *)
  Theorem data_no_deadlock_keep (vs : list (Verb * st)) bs s :
    vs <> [] -> freach keep (finit vs bs) s -> ffinal s = false -> exists s', fstep keep s s'.
  Proof.
    intros Hne Hr Hf. pose proof (progress _ (Inv_freach _ _ _ Hne Hr)) as Hp.
    rewrite ffinal_proj in Hp. specialize (Hp Hf).
    destruct (fsuccs keep s) as [|s' l] eqn:E.
    - exfalso. apply Hp. apply stuck_projects; [eapply no_werr; eauto|]. now apply fsuccs_nil_keep.
    - exists s'. unfold fstep. rewrite E. now left.
  Qed.

  (* every run terminates with main exited, every producer shape *)
  Theorem data_every_run_terminates_keep (vs : list (Verb * st)) bs : vs <> [] ->
    forall s, freach keep (finit vs bs) s -> exists s', freach keep s s' /\ ffinal s' = true.
  Proof.
    intros Hne s. induction s as [s IH] using (well_founded_induction data_no_infinite_runs_keep).
    intros Hr. destruct (ffinal s) eqn:Hf.
    - exists s. split; [apply freach_refl|exact Hf].
    - destruct (data_no_deadlock_keep vs bs s Hne Hr Hf) as [s1 Hs1].
      destruct (IH s1 Hs1 (freach_step _ _ _ _ Hr Hs1)) as (s' & Hr' & Hf').
      exists s'. split; [|exact Hf']. eapply freach_trans; [eapply freach_step; [apply freach_refl|exact Hs1]|exact Hr'].
  Qed.
End KeepGen.
