(* Executable helpers over the transition system: schedules, state equality, depth-first search for stuck states. *)
From Coq Require Import List Bool Arith Lia.
Import ListNotations.
From Miller Require Import C04.Model.

Scheme Equality for vpc.
Scheme Equality for rpc.
Scheme Equality for wpc.
Scheme Equality for mpc.

Fixpoint lbeq (a b : list bool) : bool :=
  match a, b with [], [] => true | x :: a', y :: b' => Bool.eqb x y && lbeq a' b' | _, _ => false end.

Definition vstage_eqb (a b : vstage) : bool :=
  vpc_beq (vp a) (vp b) && lbeq (vin a) (vin b) && Nat.eqb (vd a) (vd b) && Bool.eqb (vsig a) (vsig b)
  && Bool.eqb (vswallow a) (vswallow b).

Fixpoint lveq (a b : list vstage) : bool :=
  match a, b with [], [] => true | x :: a', y :: b' => vstage_eqb x y && lveq a' b' | _, _ => false end.

Definition state_eqb (a b : state) : bool :=
  rpc_beq (rd a) (rd b) && Bool.eqb (ierr a) (ierr b) && Nat.eqb (cd (ch a)) (cd (ch b))
  && Bool.eqb (cerr (ch a)) (cerr (ch b)) && Bool.eqb (cfailed (ch a)) (cfailed (ch b))
  && lveq (cvs (ch a)) (cvs (ch b)) && lbeq (cwq (ch a)) (cwq (ch b))
  && wpc_beq (wr a) (wr b) && Bool.eqb (doneq a) (doneq b) && mpc_beq (mn a) (mn b).

Definition is_final (s : state) : bool := match mn s with MExit _ => true | _ => false end.

(* follow a schedule: at each step take the n-th successor *)
Fixpoint run_sched (blocking : bool) (sched : list nat) (s : state) : option state :=
  match sched with
  | [] => Some s
  | n :: rest => match nth_error (succs blocking s) n with
                 | Some s' => run_sched blocking rest s'
                 | None => None
                 end
  end.

Lemma run_sched_reachable blocking sched : forall s0 s s',
  reachable blocking s0 s -> run_sched blocking sched s = Some s' -> reachable blocking s0 s'.
Proof.
  induction sched as [|n rest IH]; intros s0 s s' Hr H; cbn in H.
  - now inversion H; subst.
  - destruct (nth_error (succs blocking s) n) as [s1|] eqn:E; [|discriminate].
    eapply IH; [|exact H]. eapply reach_step; [exact Hr|]. unfold step. eapply nth_error_In; eauto.
Qed.

(* depth-first search for a stuck, non-final state; returns the schedule leading to it *)
Fixpoint dfs (blocking : bool) (fuel : nat) (stack : list (state * list nat)) (visited : list state)
  : option (list nat) * nat :=
  match fuel with
  | O => (None, length visited)
  | S fuel' =>
      match stack with
      | [] => (None, length visited)
      | (s, path) :: stack' =>
          if existsb (state_eqb s) visited then dfs blocking fuel' stack' visited
          else
            let nx := succs blocking s in
            match nx with
            | [] => if is_final s then dfs blocking fuel' stack' (s :: visited) else (Some (rev path), length visited)
            | _ =>
                let fix number (i : nat) (l : list state) :=
                  match l with [] => [] | x :: t => (x, i :: path) :: number (S i) t end in
                dfs blocking fuel' (number 0 nx ++ stack') (s :: visited)
            end
      end
  end.

Definition find_stuck blocking fuel s0 := dfs blocking fuel [(s0, [])] [].

(* breadth of the reachable state space (exhaustive when the stack empties before the fuel does) *)
Fixpoint explore (blocking : bool) (fuel : nat) (stack : list state) (visited : list state) (trans : nat)
  : option (nat * nat * bool * bool) :=     (* states, transitions, found stuck non-final, all finals agree with [failed] *)
  match fuel with
  | O => None
  | S fuel' =>
      match stack with
      | [] => Some (length visited, trans, false, true)
      | s :: stack' =>
          if existsb (state_eqb s) visited then explore blocking fuel' stack' visited trans
          else
            let nx := succs blocking s in
            match nx with
            | [] => if is_final s
                    then (if implb (cfailed (ch s)) (match mn s with MExit r => r | _ => false end)
                          then explore blocking fuel' stack' (s :: visited) trans
                          else Some (length visited, trans, false, false))
                    else Some (length visited, trans, true, true)
            | _ => explore blocking fuel' (nx ++ stack') (s :: visited) (trans + length nx)
            end
      end
  end.
