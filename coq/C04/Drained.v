(* C04: every EXITED run of the data-carrying model with done flags (DataFlags.v) is DRAINED -- queue contents, not
   only control: when main has exited, the producer has sent its end-of-stream marker, every verb goroutine has
   forwarded it and holds an empty input channel, and the writer channel is empty.  Hence the early-exit determinism
   theorem (EarlyExit.v) holds for every run that has exited: "the run has drained" is no longer a hypothesis.

   Invariant (for every chain, every input, every producer shape [keep], every interleaving): the end-of-stream marker
   is the LAST batch in flight.  Walking down the pipeline with [up] = "the stage upstream has sent the marker":
     up = false : this stage has not finished and none of the batches it holds (in hand or queued) carries the marker;
     up = true  : either it has finished with an empty queue, or the marker is exactly the last of its batches.
   The writer has left its receive loop only if it took the marker, and then the writer channel is empty; main leaves
   its select loop only after the writer signalled done. *)
From Coq Require Import List Bool Arith Lia.
Import ListNotations.
From Miller Require Import C04.Model C04.DataFlags C04.EarlyExit.

Section Drained.
  Context {rec str st : Type}.
  Notation Fstage := (@fstage rec str st).
  Notation Fstate := (@fstate rec str st).
  Notation Fbatch := (@fbatch rec str).
  Notation Verb := (@verb rec str st).
  Variable keep : nat.

  Fixpoint noeos (l : list bool) : bool := match l with [] => true | b :: t => negb b && noeos t end.
  Fixpoint eoslast (l : list bool) : bool :=
    match l with [] => false | b :: t => match t with [] => b | _ => negb b && eoslast t end end.

  Lemma noeos_app_false l : noeos l = true -> noeos (l ++ [false]) = true.
  Proof. induction l as [|b t IH]; [reflexivity|]. cbn. intros H. apply andb_true_iff in H as [Hb Ht]. now rewrite Hb, IH. Qed.

  Lemma noeos_app_true l : noeos l = true -> eoslast (l ++ [true]) = true.
  Proof.
    induction l as [|b t IH]; [reflexivity|]. cbn [noeos app]. intros H. apply andb_true_iff in H as [Hb Ht].
    specialize (IH Ht). cbn [eoslast]. destruct (t ++ [true]) as [|x y] eqn:E0; [destruct t; discriminate|].
    rewrite Hb. exact IH.
  Qed.

  Lemma eoslast_false_cons t : eoslast (false :: t) = true -> eoslast t = true.
  Proof. destruct t; cbn; [discriminate|auto]. Qed.

  Lemma eoslast_true_cons t : eoslast (true :: t) = true -> t = [].
  Proof. destruct t; cbn; [reflexivity|discriminate]. Qed.

  Lemma map_snd_nil (l : list Fbatch) : map snd l = [] -> l = [].
  Proof. destruct l; [reflexivity|discriminate]. Qed.

  Definition sbits (s : Fstage) : list bool := map snd (hand (fp s) ++ fq s).
  Definition isdone (s : Fstage) : bool := match fp s with FDone => true | _ => false end.

  Definition stage_ok (up : bool) (s : Fstage) : Prop :=
    if up then (isdone s = true /\ fq s = []) \/ (isdone s = false /\ eoslast (sbits s) = true)
    else isdone s = false /\ noeos (sbits s) = true.

  Definition writer_ok (up : bool) (wq : list Fbatch) (w : wpc) : Prop :=
    if up then (w = WRecv /\ eoslast (map snd wq) = true) \/ (w <> WRecv /\ wq = [])
    else w = WRecv /\ noeos (map snd wq) = true.

  Fixpoint E (up : bool) (vs : list Fstage) (wq : list Fbatch) (w : wpc) : Prop :=
    match vs with
    | [] => writer_ok up wq w
    | s :: rest => stage_ok up s /\ E (isdone s) rest wq w
    end.

  Lemma stage_ok_ext up (s s' : Fstage) :
    isdone s = false -> isdone s' = false -> sbits s' = sbits s -> stage_ok up s -> stage_ok up s'.
  Proof.
    intros H0 H1 Hb. unfold stage_ok. rewrite H0, H1, Hb. destruct up; [|auto].
    intros [[A _]|B]; [discriminate|now right].
  Qed.

  Lemma run_batch_eos' (v : Verb) x b : snd (snd (run_batch v x b)) = snd b.
  Proof. unfold run_batch. destruct (run_items v x (fst b)) as [x1 o]. destruct (snd b); reflexivity. Qed.

  (* local steps of a stage keep its batches' end-of-stream bits *)
  Lemma flocal_bits d (s : Fstage) d' s' :
    In (d', s') (flocal d s) -> isdone s = false /\ isdone s' = false /\ sbits s' = sbits s.
  Proof.
    unfold flocal, isdone, sbits. destruct s as [v x p q dd sg]; cbn [fp fq fd fsig fv fx].
    destruct p as [|b|b|b|o|].
    - destruct q as [|b q]; [intros []|]. intros [E0|[]]. inversion E0; subst. cbn. auto.
    - rewrite !in_app_iff. intros [H|[H|H]].
      + destruct (0 <? dd); [|destruct H]. destruct H as [E0|[]]. inversion E0; subst. destruct (vtee v); cbn; auto.
      + destruct (sg || _); [destruct H|]. destruct H as [E0|[]]. inversion E0; subst. cbn; auto.
      + destruct H as [E0|[]]. inversion E0; subst. pose proof (run_batch_eos' v x b) as He.
        destruct (run_batch v x b) as [x' o]. cbn in *. rewrite He. auto.
    - intros [E0|[]]. inversion E0; subst. cbn; auto.
    - intros [E0|[]]. inversion E0; subst. cbn; auto.
    - intros [].
    - intros [].
  Qed.

  (* the sender side of a batch hand-over *)
  Lemma send_src up (s : Fstage) o :
    fp s = FSend o -> stage_ok up s ->
    stage_ok up (set_fp s (if snd o then FDone else FRecv)) /\ isdone (set_fp s (if snd o then FDone else FRecv)) = snd o.
  Proof.
    intros Ep H. unfold stage_ok, isdone, sbits in *. rewrite Ep in H. cbn [set_fp fp fq hand app map] in *.
    destruct (snd o) eqn:Eo; cbn [hand app].
    - split; [|reflexivity]. destruct up.
      + destruct H as [[A _]|[_ B]]; [discriminate|]. apply eoslast_true_cons in B. apply map_snd_nil in B. left. auto.
      + destruct H as [_ B]. cbn in B. discriminate.
    - split; [|reflexivity]. destruct up.
      + destruct H as [[A _]|[_ B]]; [discriminate|]. right. split; [reflexivity|]. now apply eoslast_false_cons.
      + destruct H as [_ B]. cbn in B. auto.
  Qed.

  (* the receiver side: a stage whose upstream had not finished gets one more batch *)
  Lemma push_stage (s : Fstage) (o : Fbatch) :
    stage_ok false s -> stage_ok (snd o) (set_fq s (fq s ++ [o])).
  Proof.
    unfold stage_ok, isdone, sbits. cbn [set_fq fp fq]. intros [A B].
    rewrite app_assoc, map_app. cbn [map]. destruct (snd o).
    - right. split; [exact A|]. now apply noeos_app_true.
    - split; [exact A|]. now apply noeos_app_false.
  Qed.

  Lemma push_writer (wq : list Fbatch) w (o : Fbatch) : writer_ok false wq w -> writer_ok (snd o) (wq ++ [o]) w.
  Proof.
    unfold writer_ok. intros [A B]. rewrite map_app. cbn [map]. destruct (snd o).
    - left. split; [exact A|]. now apply noeos_app_true.
    - split; [exact A|]. now apply noeos_app_false.
  Qed.

  Lemma E_chain_step : forall (vs : list Fstage) up d wq w d' vs' wq',
    E up vs wq w -> In (d', vs', wq') (fchain_succs d vs wq) -> E up vs' wq' w.
  Proof.
    induction vs as [|s rest IH]; intros up d wq w d' vs' wq' HE Hin; cbn [fchain_succs] in Hin; [destruct Hin|].
    destruct HE as [Hs Hrest]. rewrite !in_app_iff in Hin. destruct Hin as [Hin|[Hin|Hin]].
    - apply in_map_iff in Hin as ([d1 s1] & E0 & Hl). inversion E0; subst d1 vs' wq'. clear E0.
      destruct (flocal_bits _ _ _ _ Hl) as (A & B & C). cbn [E]. split; [now apply (stage_ok_ext up s s1)|].
      now rewrite B, <- A.
    - destruct (fp s) as [|b|b|b|o|] eqn:Ep; try destruct Hin.
      destruct (send_src up s o Ep Hs) as [Hs' Hd'].
      destruct rest as [|s2 rest2].
      + destruct (length wq <? chan_cap); [|destruct Hin]. destruct Hin as [E0|[]]. inversion E0; subst d' vs' wq'. clear E0.
        cbn [E]. split; [exact Hs'|]. rewrite Hd'. apply push_writer.
        assert (Hi : isdone s = false) by (unfold isdone; now rewrite Ep). cbn [E] in Hrest. now rewrite Hi in Hrest.
      + destruct (length (fq s2) <? chan_cap); [|destruct Hin]. destruct Hin as [E0|[]]. inversion E0; subst d' vs' wq'. clear E0.
        assert (Hi : isdone s = false) by (unfold isdone; now rewrite Ep). cbn [E] in Hrest. rewrite Hi in Hrest.
        destruct Hrest as [H2 Hrest2]. cbn [E]. split; [exact Hs'|]. rewrite Hd'. split; [now apply push_stage|exact Hrest2].
    - apply in_map_iff in Hin as ([[d2 rest'] wq1] & E0 & Hin'). inversion E0; subst d' vs' wq1. clear E0.
      cbn [E]. split; [exact Hs|]. change (isdone (set_fd s d2)) with (isdone s). eapply IH; eauto.
  Qed.

  Lemma E_writer : forall (vs : list Fstage) up wq w wq' w',
    (forall u, writer_ok u wq w -> writer_ok u wq' w') -> E up vs wq w -> E up vs wq' w'.
  Proof.
    induction vs as [|s rest IH]; intros up wq w wq' w' Hw; cbn [E]; [apply Hw|].
    intros [A B]. split; [exact A|]. eapply IH; eauto.
  Qed.

  Definition fidleb_stage (s : Fstage) : Prop := fp s = FDone /\ fq s = [].

  (* once the writer has left its receive loop everything upstream has finished and every channel is empty *)
  Lemma E_closed : forall (vs : list Fstage) up wq w,
    E up vs wq w -> w <> WRecv -> up = true /\ Forall fidleb_stage vs /\ wq = [].
  Proof.
    induction vs as [|s rest IH]; intros up wq w HE Hw; cbn [E] in HE.
    - unfold writer_ok in HE. destruct up.
      + destruct HE as [[A _]|[_ B]]; [contradiction|]. auto.
      + destruct HE as [A _]. contradiction.
    - destruct HE as [Hs Hrest]. destruct (IH _ _ _ Hrest Hw) as (Hd & Hall & Hq).
      unfold stage_ok in Hs. rewrite Hd in Hs. destruct up.
      + destruct Hs as [[_ B]|[A _]]; [|discriminate]. split; [reflexivity|]. split; [|exact Hq].
        constructor; [|exact Hall]. split; [|exact B]. unfold isdone in Hd. destruct (fp s); try discriminate. reflexivity.
      + destruct Hs as [A _]. discriminate.
  Qed.

  (* ---------- the whole state ---------- *)
  Definition rdone (s : Fstate) : bool := match frd s with FRDone => true | _ => false end.
  Definition GE (s : Fstate) : Prop :=
    E (rdone s) (fvs s) (fwq s) (fwr s)
    /\ (fdoneq s = true -> fwr s = WDone)
    /\ match fmn s with MLoop _ => True | _ => fwr s = WDone end.

  Lemma E_fresh (vs : list (Verb * st)) : E false (map ffresh vs) [] WRecv.
  Proof.
    induction vs as [|vx vs IH]; cbn [map E]; [split; reflexivity|]. split; [split; reflexivity|exact IH].
  Qed.

  Lemma GE_init vs bs : GE (finit vs bs).
  Proof. unfold GE, finit; cbn. split; [apply E_fresh|]. split; [discriminate|exact I]. Qed.

  Lemma GE_step (s s' : Fstate) : GE s -> fstep keep s s' -> GE s'.
  Proof.
    intros (HE & H2 & H3). unfold fstep, fsuccs. rewrite !in_app_iff. intros [H|[H|[H|H]]].
    - unfold freader_steps in H. unfold rdone in HE. destruct (frd s) eqn:Er; [| |destruct H].
      + destruct (0 <? fdn s); destruct H as [<-|[]]; unfold GE, rdone; cbn; auto.
      + destruct (fvs s) as [|v rest] eqn:Ev; [destruct H|]. destruct (length (fq v) <? reader_cap); [|destruct H].
        cbn [E] in HE. destruct HE as [Hv Hrest].
        destruct (frem s) as [|b r]; destruct H as [<-|[]]; unfold GE, rdone; cbn [frd fvs fwq fwr fdoneq fmn E].
        * split; [|auto]. split; [exact (push_stage v ([], true) Hv)|exact Hrest].
        * split; [|auto]. split; [exact (push_stage v (b, false) Hv)|exact Hrest].
    - unfold fchain_steps in H. apply in_map_iff in H as ([[d' vs'] wq'] & <- & Hin). unfold GE, rdone; cbn.
      split; [|auto]. eapply E_chain_step; eauto.
    - unfold fwriter_steps in H. destruct (fwr s) eqn:Ew; [|destruct H| |destruct H].
      + destruct (fwq s) as [|b q] eqn:Eq; [destruct H|]. destruct H as [<-|[]]. unfold GE, rdone; cbn.
        split; [|split].
        * eapply E_writer; [|exact HE]. intros u. unfold writer_ok. cbn [map]. destruct u.
          -- intros [[_ B]|[A _]]; [|now elim A]. destruct (snd b) eqn:Eb.
             ++ apply eoslast_true_cons in B. apply map_snd_nil in B. right. split; [discriminate|exact B].
             ++ left. split; [reflexivity|now apply eoslast_false_cons].
          -- intros [_ B]. cbn in B. apply andb_true_iff in B as [B1 B2]. apply negb_true_iff in B1. rewrite B1. auto.
        * intros Hd. specialize (H2 Hd). discriminate.
        * destruct (fmn s); [exact I|discriminate|discriminate|discriminate].
      + destruct H as [<-|[]]. unfold GE, rdone; cbn. split; [|split].
        * eapply E_writer; [|exact HE]. intros u. unfold writer_ok. destruct u.
          -- intros [[A _]|[_ B]]; [discriminate|]. right. split; [discriminate|exact B].
          -- intros [A _]. discriminate.
        * reflexivity.
        * destruct (fmn s); [exact I|reflexivity|reflexivity|reflexivity].
    - unfold fmain_steps in H. destruct (fmn s) eqn:Em; [| | |destruct H].
      + destruct (fdoneq s) eqn:Ed; [|destruct H]. destruct H as [<-|[]]. unfold GE, rdone; cbn.
        split; [exact HE|]. split; [discriminate|]. now apply H2.
      + destruct H as [<-|[]]. unfold GE, rdone; cbn. auto.
      + destruct H as [<-|[]]. unfold GE, rdone; cbn. auto.
  Qed.

  Lemma GE_reachable vs bs s : freach keep (finit vs bs) s -> GE s.
  Proof. induction 1 as [|s s' _ IH Hs]; [apply GE_init|eapply GE_step; eauto]. Qed.

  (* ---------- every exited run is drained ---------- *)
  Theorem exited_run_is_drained (vs : list (Verb * st)) bs s :
    freach keep (finit vs bs) s -> ffinal s = true -> fquiescent s.
  Proof.
    intros Hr Hf. destruct (GE_reachable _ _ _ Hr) as (HE & _ & H3).
    assert (Hw : fwr s = WDone) by (unfold ffinal in Hf; destruct (fmn s); try discriminate; exact H3).
    assert (Hne : fwr s <> WRecv) by (rewrite Hw; discriminate).
    destruct (E_closed _ _ _ _ HE Hne) as (Hd & Hall & Hq).
    unfold fquiescent. split; [unfold rdone in Hd; destruct (frd s); try discriminate; reflexivity|]. split; [|exact Hq].
    eapply Forall_impl; [|exact Hall]. intros a [A B]. split; [now right|exact B].
  Qed.

  (* ... and so is every run whose writer has signalled done (main may still be in its loop) *)
  Theorem writer_done_is_drained (vs : list (Verb * st)) bs s :
    freach keep (finit vs bs) s -> fwr s = WDone -> fquiescent s /\ Forall (fun g => fp g = FDone) (fvs s).
  Proof.
    intros Hr Hw. destruct (GE_reachable _ _ _ Hr) as (HE & _ & _).
    assert (Hne : fwr s <> WRecv) by (rewrite Hw; discriminate).
    destruct (E_closed _ _ _ _ HE Hne) as (Hd & Hall & Hq). split.
    - unfold fquiescent. split; [unfold rdone in Hd; destruct (frd s); try discriminate; reflexivity|]. split; [|exact Hq].
      eapply Forall_impl; [|exact Hall]. intros a [A B]. split; [now right|exact B].
    - eapply Forall_impl; [|exact Hall]. intros a [A _]. exact A.
  Qed.

  (* the early-exit determinism theorem, for every run that has EXITED: no "drained" hypothesis *)
  Theorem early_exit_determinism_exited nq (vs : list (Verb * st)) bs s :
    chain_ok nq vs -> forallb recs_only bs = true -> freach keep (finit vs bs) s -> ffinal s = true ->
    flat (fout s) = flat (seq_chain vs (whole bs)).
  Proof.
    intros Hc Hb Hr Hf. apply (early_exit_determinism keep nq vs bs s Hc Hb Hr). eapply exited_run_is_drained; eauto.
  Qed.

  (* any two exited runs of the same chain on the same input wrote the same bytes *)
  Corollary early_exit_two_exited_runs_agree nq (vs : list (Verb * st)) bs s1 s2 :
    chain_ok nq vs -> forallb recs_only bs = true ->
    freach keep (finit vs bs) s1 -> ffinal s1 = true -> freach keep (finit vs bs) s2 -> ffinal s2 = true ->
    flat (fout s1) = flat (fout s2).
  Proof.
    intros Hc Hb H1 F1 H2 F2.
    rewrite (early_exit_determinism_exited nq vs bs s1 Hc Hb H1 F1), (early_exit_determinism_exited nq vs bs s2 Hc Hb H2 F2).
    reflexivity.
  Qed.
End Drained.
