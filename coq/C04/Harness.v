(* C04/C17 trace validation: per-goroutine event sequences recorded by lib.VerifPoint in the real binary must be
   paths of the control automata of the model (Model.v: vpc / rpc / wpc / mpc), prefix-closed because the
   process may exit while upstream goroutines are still running. *)
From Coq Require Import List Bool Arith ZArith.
Import ListNotations.
From Miller Require Import C04.Model.

(* events, numbered as the Python harness numbers the sites *)
Inductive ev :=
| Evrecv | Evrelay | Evown | Evsend | Evsendeos | Everr | EvsendE | Everrsig      (* verb *)
| Erpoll | Erlines                                                            (* line reader *)
| Ersend | Ererr | Ersendeos                                                  (* record reader *)
| Ewrecv | Ewerr | Ewfin                                                      (* writer *)
| Emselect | Emdrain1 | Emdrain2 | Emexit.                                    (* main *)

Definition ev_of (n : Z) : option ev :=
  nth_error [Evrecv; Evrelay; Evown; Evsend; Evsendeos; Everr; EvsendE; Everrsig; Erpoll; Erlines;
             Ersend; Ererr; Ersendeos; Ewrecv; Ewerr; Ewfin; Emselect; Emdrain1; Emdrain2; Emexit] (Z.to_nat n).

(* verb goroutine: abstract view of vpc.  VRecv; VWork (relay/own)*; VSend -> VRecv | VDone; error path *)
Inductive vq := QIdle | QWork (own : bool) | QErr1 | QErr2 | QDone | QBad.
Definition vstepq (q : vq) (e : ev) : vq :=
  match q, e with
  | QIdle, Evrecv => QWork false
  | QWork o, Evrelay => QWork o
  | QWork false, Evown => QWork true
  | QWork _, Evsend => QIdle
  | QWork _, Evsendeos => QDone
  | QWork _, Everr => QErr1
  | QErr1, EvsendE => QErr2
  | QErr2, Everrsig => QDone
  | _, _ => QBad
  end.
(* head raises its own flag at most once in its lifetime: tracked across batches *)
Fixpoint verb_ok (q : vq) (owned : bool) (l : list ev) : bool :=
  match l with
  | [] => true
  | e :: t =>
      match e with
      | Evown => if owned then false else
                 match q with QWork _ => verb_ok q true t | _ => false end
      | _ => match vstepq q e with QBad => false | q' => verb_ok q' owned t end
      end
  end.

Fixpoint linereader_ok (polled : bool) (l : list ev) : bool :=
  match l with
  | [] => true
  | Erpoll :: t => if polled then false else linereader_ok true t
  | Erlines :: t => if polled then linereader_ok false t else false
  | _ => false
  end.

Fixpoint recreader_ok (l : list ev) : bool :=
  match l with
  | [] => true
  | Ersend :: t | Ererr :: t => recreader_ok t
  | [Ersendeos] => true
  | _ => false
  end.

Inductive wq_ := WQ0 | WQ1 | WQ2 | WQ3.
Fixpoint writer_ok (q : wq_) (l : list ev) : bool :=
  match l with
  | [] => true
  | e :: t =>
      match q, e with
      | WQ0, Ewrecv | WQ1, Ewrecv => writer_ok WQ1 t
      | WQ1, Ewerr => writer_ok WQ2 t
      | WQ1, Ewfin | WQ2, Ewfin => writer_ok WQ3 t
      | _, _ => false
      end
  end.

(* main: select+ drain1 drain2 exit -- prefix-closed, because a built-in (asserting_*, DSL fatal) may end the
   process from another goroutine *)
Fixpoint main_ok (q : nat) (l : list ev) : bool :=
  match l with
  | [] => true
  | e :: t =>
      match q, e with
      | 0, Emselect | 1, Emselect => main_ok 1 t
      | 1, Emdrain1 => main_ok 2 t
      | 2, Emdrain2 => main_ok 3 t
      | 3, Emexit => main_ok 4 t
      | _, _ => false
      end
  end.

Definition goroutine_ok (l : list ev) : bool :=
  match l with
  | [] => true
  | Evrecv :: _ => verb_ok QIdle false l
  | Erpoll :: _ => linereader_ok false l
  | Ersend :: _ | Ererr :: _ | Ersendeos :: _ => recreader_ok l
  | Ewrecv :: _ => writer_ok WQ0 l
  | Emselect :: _ => main_ok 0 l
  | _ => false
  end.

Fixpoint decode (l : list Z) : option (list ev) :=
  match l with
  | [] => Some []
  | n :: t => match ev_of n, decode t with Some e, Some r => Some (e :: r) | _, _ => None end
  end.

(* a trace = list of goroutines; at most one main; every goroutine accepted *)
Definition is_main (l : list Z) : bool := match l with 16%Z :: _ => true | _ => false end.
Definition chk (tr : list (list Z)) : bool :=
  forallb (fun g => match decode g with Some l => goroutine_ok l | None => false end) tr
  && Nat.leb (length (filter is_main tr)) 1.   (* at most one main; it may not have reached its select yet when a fatal built-in ends the process *)
