(* C04: deadlock freedom of the repaired (non-blocking done-flag) protocol, for every chain length, every
   number of batches, every verb behaviour and every interleaving; and the deadlock of the blocking protocol. *)
From Coq Require Import List Bool Arith Lia.
Import ListNotations.
From Miller Require Import C04.Model C04.Search.

Ltac dif H := match type of H with context [if ?c then _ else _] => destruct c eqn:? end.

(* will never receive again *)
Definition vclosed (v : vstage) : bool :=
  match vp v with
  | VRecv | VWork false | VRelay false | VOwn false | VSend false => false
  | _ => true
  end.
(* has forwarded its end-of-stream marker *)
Definition sent_eos (v : vstage) : bool :=
  match vp v with VErrSig | VDone => true | _ => false end.
Definition wclosed (w : wpc) : bool := match w with WRecv => false | _ => true end.
Definition has_eos (q : list bool) : bool := existsb (fun b => b) q.

Fixpoint chain_inv (prod_sent : bool) (vs : list vstage) (wq : list bool) (wc : bool) : Prop :=
  match vs with
  | [] => prod_sent = true -> has_eos wq = true \/ wc = true
  | v :: rest => (prod_sent = true -> has_eos (vin v) = true \/ vclosed v = true)
                 /\ chain_inv (sent_eos v) rest wq wc
  end.

Definition rsent (r : rpc) : bool := match r with RDone => true | _ => false end.
Definition in_loop (m : mpc) : bool := match m with MLoop _ => true | _ => false end.

Definition Inv (s : state) : Prop :=
  chain_inv (rsent (rd s)) (cvs (ch s)) (cwq (ch s)) (wclosed (wr s))
  /\ (wr s = WDone -> doneq s = true \/ in_loop (mn s) = false)
  /\ cvs (ch s) <> [].

Lemma has_eos_app q b : has_eos (q ++ [b]) = has_eos q || b.
Proof. unfold has_eos. rewrite existsb_app. cbn. now rewrite orb_false_r. Qed.

(* ---- chain_inv is preserved by every chain step (both protocol variants) ---- *)
Lemma local_steps_inv blocking d e f v d' e' f' v' :
  In (d', e', f', v') (local_steps blocking d e f v) ->
  sent_eos v' = sent_eos v /\ (forall ps, (ps = true -> has_eos (vin v) = true \/ vclosed v = true) ->
                                          (ps = true -> has_eos (vin v') = true \/ vclosed v' = true))
  /\ vswallow v' = vswallow v.
Proof.
  unfold local_steps. destruct v as [p q dd sg sw]; cbn [vp vin vd vsig vswallow].
  destruct p as [| b | b | b | b | | |]; cbn [In].
  - destruct q as [|b q]; cbn; [tauto|]. intros [H|[]]. inversion H; subst. cbn. split; [reflexivity|split; [|reflexivity]].
    intros ps Hps Hp. specialize (Hps Hp). destruct b; cbn in *; [now right|]. destruct Hps as [Hps|Hps]; [now left|discriminate].
  - rewrite !in_app_iff. intros [H|[H|[H|H]]].
    + destruct (0 <? dd); [|destruct H]. destruct H as [H|[]]. inversion H; subst.
      destruct sw; cbn; (split; [reflexivity|split; [|reflexivity]]); intros ps Hps Hp; specialize (Hps Hp); destruct b; cbn in *; auto.
    + destruct sg; [destruct H|]. destruct H as [H|[]]. inversion H; subst. cbn.
      split; [reflexivity|split; [|reflexivity]]. intros ps Hps Hp; specialize (Hps Hp); destruct b; cbn in *; auto.
    + destruct H as [H|[]]. inversion H; subst. cbn.
      split; [reflexivity|split; [|reflexivity]]. intros ps Hps Hp; specialize (Hps Hp); destruct b; cbn in *; auto.
    + destruct H as [H|[]]. inversion H; subst. cbn.
      split; [reflexivity|split; [|reflexivity]]. intros ps Hps Hp. now right.
  - destruct (send_flag blocking d); [|intros []]. intros [H|[]]. inversion H; subst. cbn.
    split; [reflexivity|split; [|reflexivity]]. intros ps Hps Hp; specialize (Hps Hp); destruct b; cbn in *; auto.
  - destruct (send_flag blocking d); [|intros []]. intros [H|[]]. inversion H; subst. cbn.
    split; [reflexivity|split; [|reflexivity]]. intros ps Hps Hp; specialize (Hps Hp); destruct b; cbn in *; auto.
  - intros [].
  - intros [].
  - intros [H|[]]. inversion H; subst. cbn. split; [reflexivity|split; [|reflexivity]]. intros ps Hps Hp. now right.
  - intros [].
Qed.

Lemma chain_inv_weaken ps vs wq wc : chain_inv true vs wq wc -> chain_inv ps vs wq wc.
Proof. destruct vs; cbn; [tauto|]. intros [H1 H2]. split; auto. Qed.

Lemma chain_succs_inv blocking : forall vs d e f wq wc ps c,
  chain_inv ps vs wq wc -> In c (chain_succs blocking d e f vs wq) ->
  chain_inv ps (cvs c) (cwq c) wc.
Proof.
  induction vs as [|v rest IH]; intros d e f wq wc ps c Hinv Hin; cbn in Hin; [destruct Hin|].
  destruct Hinv as [Hv Hrest].
  rewrite !in_app_iff in Hin. destruct Hin as [Hin|[Hin|Hin]].
  - (* local *)
    apply in_map_iff in Hin as ([[[d' e'] f'] v'] & <- & Hl). cbn.
    destruct (local_steps_inv _ _ _ _ _ _ _ _ _ Hl) as (Hs & Hc & _).
    split; [apply Hc; exact Hv|]. now rewrite Hs.
  - (* send *)
    destruct (after_send (vp v)) as [[b p']|] eqn:Ha; [|destruct Hin].
    assert (Hb : sent_eos (set_vp v p') = true -> b = true).
    { destruct v as [p q dd sg sw]; cbn in *. destruct p; try discriminate; inversion Ha; subst; cbn; auto. destruct b; auto. }
    assert (Hc : forall ps0, (ps0 = true -> has_eos (vin v) = true \/ vclosed v = true) ->
                            (ps0 = true -> has_eos (vin (set_vp v p')) = true \/ vclosed (set_vp v p') = true)).
    { intros ps0 H0 Hp. specialize (H0 Hp). destruct H0 as [H0|H0]; [now left|]. right.
      destruct v as [p q dd sg sw]; cbn in *. destruct p; try discriminate; inversion Ha; subst; cbn in *; auto.
      destruct b; auto. }
    destruct rest as [|v2 rest2].
    + dif Hin; [|destruct Hin]. destruct Hin as [<-|[]]. cbn.
      split; [apply Hc; exact Hv|]. cbn in Hrest. intros Hs. left. rewrite has_eos_app. rewrite (Hb Hs). apply orb_true_r.
    + dif Hin; [|destruct Hin]. destruct Hin as [<-|[]]. cbn.
      split; [apply Hc; exact Hv|]. cbn in Hrest. destruct Hrest as [H2 H3]. split; [|exact H3].
      intros Hs. left. rewrite has_eos_app. rewrite (Hb Hs). apply orb_true_r.
  - (* deeper *)
    apply in_map_iff in Hin as (c' & <- & Hc'). cbn.
    split; [exact Hv|]. eapply IH; eauto.
Qed.

Lemma chain_succs_nonempty blocking : forall vs d e f wq c,
  In c (chain_succs blocking d e f vs wq) -> cvs c <> [] /\ length (cvs c) = length vs.
Proof.
  induction vs as [|v rest IH]; intros d e f wq c Hin; cbn in Hin; [destruct Hin|].
  rewrite !in_app_iff in Hin. destruct Hin as [Hin|[Hin|Hin]].
  - apply in_map_iff in Hin as ([[[d' e'] f'] v'] & <- & Hl). cbn. split; [discriminate|reflexivity].
  - destruct (after_send (vp v)) as [[b p']|]; [|destruct Hin].
    destruct rest as [|v2 rest2].
    + dif Hin; [|destruct Hin]. destruct Hin as [<-|[]]. cbn. split; [discriminate|reflexivity].
    + dif Hin; [|destruct Hin]. destruct Hin as [<-|[]]. cbn. split; [discriminate|reflexivity].
  - apply in_map_iff in Hin as (c' & <- & Hc'). cbn. split; [discriminate|]. f_equal. eapply IH; eauto.
Qed.

(* the last clause of chain_inv under a change of the writer queue / writer state *)
Lemma chain_inv_writer ps vs wq wc wq' wc' :
  (has_eos wq = true \/ wc = true -> has_eos wq' = true \/ wc' = true) ->
  chain_inv ps vs wq wc -> chain_inv ps vs wq' wc'.
Proof.
  revert ps; induction vs as [|v rest IH]; intros ps Himp; cbn.
  - intros H Hp. auto.
  - intros [H1 H2]. split; auto.
Qed.

Lemma chain_inv_push ps v rest wq wc b :
  chain_inv ps (v :: rest) wq wc ->
  chain_inv (ps || b) (set_vin v (vin v ++ [b]) :: rest) wq wc.
Proof.
  cbn. intros [H1 H2]. split; [|exact H2].
  intros Hp. rewrite has_eos_app. destruct b; [left; apply orb_true_r|].
  rewrite orb_false_r in *. destruct (H1 Hp) as [H|H]; [left; now rewrite H|now right].
Qed.

Lemma chain_inv_fresh kinds : chain_inv false (map fresh_verb kinds) [] false.
Proof. induction kinds as [|y kinds IH]; cbn; [discriminate|]. split; [discriminate|exact IH]. Qed.

Lemma Inv_init k kinds : kinds <> [] -> Inv (init k kinds).
Proof.
  intros Hk. unfold Inv, init; cbn. split; [apply chain_inv_fresh|]. split; [discriminate|].
  destruct kinds; [contradiction|discriminate].
Qed.

Lemma Inv_step blocking s s' : Inv s -> step blocking s s' -> Inv s'.
Proof.
  intros (Hc & Hd & Hne) Hst. unfold step, succs in Hst. rewrite !in_app_iff in Hst.
  destruct s as [r ie c w dq m]; cbn in *.
  destruct Hst as [Hst|[Hst|[Hst|Hst]]].
  - (* reader *)
    unfold reader_steps in Hst; cbn in Hst. destruct r as [k|k|k|].
    + rewrite in_app_iff in Hst. destruct Hst as [Hst|Hst].
      * dif Hst; destruct Hst as [<-|[]]; unfold Inv; cbn; repeat split; auto.
      * destruct k as [|k']; [destruct Hst|]. destruct Hst as [<-|[]]; unfold Inv; cbn; repeat split; auto.
    + destruct (push_first c (k =? 0)) as [c'|] eqn:Hp; [|destruct Hst]. destruct Hst as [<-|[]].
      unfold push_first in Hp. destruct (cvs c) as [|v rest] eqn:Hv; [discriminate|].
      destruct (length (vin v) <? reader_cap); [|discriminate]. inversion Hp; subst c'. unfold Inv; cbn.
      split; [|split; [exact Hd|discriminate]].
      pose proof (chain_inv_push false v rest (cwq c) (wclosed w) (k =? 0)) as Hpush.
      assert (Hpre : chain_inv false (v :: rest) (cwq c) (wclosed w)).
      { cbn. cbn in Hc. destruct Hc as [_ Hc2]. split; [discriminate|exact Hc2]. }
      specialize (Hpush Hpre). cbn [orb] in Hpush. cbn in Hpush.
      destruct Hpush as [Hp1 Hp2]. split; [|exact Hp2].
      intros Hrs. destruct k; cbn in Hrs; [|discriminate]. apply Hp1. reflexivity.
    + destruct ie; [destruct Hst|]. destruct Hst as [<-|[]]; unfold Inv; cbn; repeat split; auto.
    + destruct Hst.
  - (* chain *)
    apply in_map_iff in Hst as (c' & <- & Hin). unfold chain_steps in Hin. unfold Inv, with_ch; cbn.
    repeat split; auto.
    + eapply chain_succs_inv; eauto.
    + eapply chain_succs_nonempty; eauto.
  - (* writer *)
    unfold writer_steps in Hst; cbn in Hst. destruct w.
    + destruct (cwq c) as [|b q] eqn:Hq; [destruct Hst|].
      destruct Hst as [<-|[<-|[]]]; unfold Inv; cbn; repeat split; auto.
      * eapply chain_inv_writer; [|exact Hc]. cbn. intros [H|H]; [|discriminate].
        destruct b; cbn in *; [now right|now left].
      * destruct b; discriminate.
      * eapply chain_inv_writer; [|exact Hc]. cbn. now right.
      * discriminate.
    + destruct Hst as [<-|[]]; unfold Inv; cbn; repeat split; auto. discriminate.
    + destruct Hst as [<-|[]]; unfold Inv; cbn; repeat split; auto.
    + destruct Hst.
  - (* main *)
    unfold main_steps in Hst; cbn in Hst. destruct m as [rr|rr|rr|rr].
    + rewrite !in_app_iff in Hst. destruct Hst as [Hst|[Hst|Hst]].
      * destruct ie; [|destruct Hst]. destruct Hst as [<-|[]]; unfold Inv; cbn; repeat split; auto.
      * destruct (cerr c); [|destruct Hst]. destruct Hst as [<-|[]]; unfold Inv; cbn; repeat split; auto.
      * destruct dq; [|destruct Hst]. destruct Hst as [<-|[]]; unfold Inv; cbn; repeat split; auto.
    + dif Hst; destruct Hst as [<-|[]]; unfold Inv; cbn; repeat split; auto.
      all: intros Hw; specialize (Hd Hw); destruct Hd; auto.
    + dif Hst; destruct Hst as [<-|[]]; unfold Inv; cbn; repeat split; auto.
      all: intros Hw; specialize (Hd Hw); destruct Hd; auto.
    + destruct Hst.
Qed.

Lemma Inv_reachable blocking k kinds s :
  kinds <> [] -> reachable blocking (init k kinds) s -> Inv s.
Proof. intros Hk Hr. induction Hr; [now apply Inv_init|eapply Inv_step; eauto]. Qed.

(* ---- progress for the non-blocking protocol ---- *)
Lemma send_flag_nb_some d : exists d', send_flag false d = Some d'.
Proof. unfold send_flag. destruct (d <? 1); eauto. Qed.

Lemma chain_stuck_shape : forall vs d e f ps,
  vs <> [] -> chain_inv ps vs [] false -> chain_succs false d e f vs [] = [] ->
  exists v rest, vs = v :: rest /\ vp v = VRecv /\ vin v = [].
Proof.
  induction vs as [|v rest IH]; intros d e f ps Hne Hinv Hs; [contradiction|].
  cbn in Hs. apply app_eq_nil in Hs as [Hl Hs]. apply app_eq_nil in Hs as [Hsend Hdeep].
  apply map_eq_nil in Hl. apply map_eq_nil in Hdeep.
  destruct Hinv as [Hv Hrest].
  assert (Hnext : match rest with [] => True | v2 :: _ => vp v2 = VRecv /\ vin v2 = [] end).
  { destruct rest as [|v2 rest2]; [exact I|].
    destruct (IH (vd v) e f (sent_eos v)) as (v2' & r2' & E & H1 & H2); [discriminate|exact Hrest|exact Hdeep|].
    inversion E; subst. auto. }
  exists v, rest. split; [reflexivity|].
  destruct v as [p q dd sg sw]; cbn in *. unfold local_steps in Hl; cbn in Hl.
  destruct p as [| b | b | b | b | | |]; cbn in *.
  - destruct q; [auto|discriminate].
  - exfalso. destruct dd; destruct sg; cbn in Hl; discriminate.
  - exfalso. destruct d as [|d0]; cbn in Hl; [discriminate|]. destruct d0; cbn in Hl; discriminate.
  - exfalso. destruct d as [|d0]; cbn in Hl; [discriminate|]. destruct d0; cbn in Hl; discriminate.
  - exfalso. destruct rest as [|v2 rest2]; cbn in Hsend; [discriminate|].
    destruct Hnext as [_ Hq]. rewrite Hq in Hsend. cbn in Hsend. discriminate.
  - exfalso. destruct rest as [|v2 rest2]; cbn in Hsend; [discriminate|].
    destruct Hnext as [_ Hq]. rewrite Hq in Hsend. cbn in Hsend. discriminate.
  - discriminate.
  - exfalso. destruct rest as [|v2 rest2]; cbn in Hrest.
    + destruct (Hrest eq_refl); discriminate.
    + destruct Hrest as [H _]. destruct Hnext as [Hp Hq]. rewrite Hq in H. unfold vclosed in H. rewrite Hp in H.
      destruct (H eq_refl); discriminate.
Qed.

Theorem progress s : Inv s -> is_final s = false -> succs false s <> [].
Proof.
  intros (Hc & Hd & Hne) Hnf Hs. unfold succs in Hs.
  apply app_eq_nil in Hs as [Hr Hs]. apply app_eq_nil in Hs as [Hch Hs]. apply app_eq_nil in Hs as [Hw Hm].
  apply map_eq_nil in Hch.
  destruct s as [r ie c w dq m]; cbn in *.
  (* main is waiting in its select with nothing ready *)
  unfold main_steps in Hm; cbn in Hm.
  destruct m as [rr|rr|rr|rr]; try discriminate.
  2:{ destruct (negb rr && ie); discriminate. }
  2:{ destruct (negb rr && cerr c); discriminate. }
  assert (ie = false /\ cerr c = false /\ dq = false) as (-> & Hce & ->).
  { destruct ie; [discriminate|]. destruct (cerr c); [discriminate|]. destruct dq; [discriminate|]. auto. }
  (* the writer is waiting on an empty channel *)
  unfold writer_steps in Hw; cbn in Hw.
  destruct w; try discriminate.
  2:{ destruct (Hd eq_refl); discriminate. }
  unfold chain_steps in Hch.
  destruct (cwq c) as [|b q] eqn:Hq; [|discriminate].
  (* so the first verb waits on an empty channel *)
  destruct (chain_stuck_shape _ _ _ _ _ Hne Hc Hch) as (v & rest & Hvs & Hp & Hvin).
  (* and the reader can always move *)
  unfold reader_steps in Hr; cbn in Hr.
  destruct r as [k|k|k|].
  - destruct (cd c); discriminate.
  - unfold push_first in Hr. rewrite Hvs, Hvin in Hr. cbn in Hr. discriminate.
  - discriminate.
  - rewrite Hvs in Hc. cbn in Hc. destruct Hc as [Hc _]. rewrite Hvin in Hc. unfold vclosed in Hc. rewrite Hp in Hc.
    destruct (Hc eq_refl); discriminate.
Qed.

Theorem no_deadlock k kinds s :
  kinds <> [] -> reachable false (init k kinds) s -> is_final s = false -> exists s', step false s s'.
Proof.
  intros Hk Hr Hnf. pose proof (progress s (Inv_reachable _ _ _ _ Hk Hr) Hnf) as Hp.
  destruct (succs false s) as [|s' l] eqn:E; [contradiction|]. exists s'. unfold step. rewrite E. now left.
Qed.

(* the blocking protocol (the code before the fix) deadlocks: head then head, two batches *)
Definition deadlock_schedule : list nat :=
  [0; 0; 0; 0; 0; 0; 0; 0; 0; 0; 0; 0; 0; 0; 0; 0; 2; 2; 0; 0; 0; 0; 0; 0; 0; 0].

Theorem blocking_relay_deadlocks :
  exists s, reachable true (init 2 [false; false]) s /\ succs true s = [] /\ is_final s = false
            /\ cfailed (ch s) = false.
Proof.
  destruct (run_sched true deadlock_schedule (init 2 [false; false])) as [s|] eqn:E; [|vm_compute in E; discriminate].
  exists s. split; [eapply run_sched_reachable; [apply reach_refl|exact E]|].
  vm_compute in E. inversion E; subst. vm_compute. auto.
Qed.
