(* C04: instances of the data model with done flags (cat, tee, head -n k, tac, put 'print ...'), a computable
   chain condition, the refuted known-finding class on the model, and the correspondence checker used by the
   harness: the stdout of the real binary for such chains must be an outcome the model allows. *)
From Coq Require Import List Bool Arith ZArith Lia.
Import ListNotations.
From Miller Require Import C04.Model C04.DataFlags C04.EarlyExit.

(* records and strings are numbers (the harness uses the field i=<n> and the text p<n>) *)
Definition ist := (nat * list nat)%type.          (* head's counter; tac's retained records *)
Definition IVerb := @verb nat nat ist.

Inductive vdesc := DCat | DTee | DPrint | DTac | DHead (n : nat).

Definition verb_of (d : vdesc) : IVerb :=
  match d with
  | DCat => mkVerb (fun x r => (x, [inl r])) (fun _ => []) (fun _ => false) false
  | DTee => mkVerb (fun x r => (x, [inl r])) (fun _ => []) (fun _ => false) true
  | DPrint => mkVerb (fun x r => (x, [inr r; inl r])) (fun _ => []) (fun _ => false) false      (* put 'print "p".$i' *)
  | DTac => mkVerb (fun x r => ((fst x, r :: snd x), [])) (fun x => map inl (snd x)) (fun _ => false) false
  | DHead n =>                                                     (* head.go: transformUnkeyed *)
      mkVerb (fun x r => ((S (fst x), snd x), if S (fst x) <=? n then [inl r] else []))
             (fun _ => []) (fun x => n <? fst x) false
  end.
Definition x0 : ist := (0, []).
Definition chain_of (ds : list vdesc) : list (IVerb * ist) := map (fun d => (verb_of d, x0)) ds.

Definition quietb (d : vdesc) : bool := match d with DPrint => false | _ => true end.
Definition is_head (d : vdesc) : bool := match d with DHead _ => true | _ => false end.

Fixpoint okb (nq : nat) (ds : list vdesc) : bool :=
  match ds with
  | [] => true
  | d :: t => match nq with S n => quietb d && okb n t | O => negb (is_head d) && okb O t end
  end.
(* some split  Q ++ R  with Q quiet and R free of early-exit verbs *)
Definition chain_okb (ds : list vdesc) : bool := existsb (fun nq => okb nq ds) (seq 0 (S (length ds))).

Lemma quiet_of d : quietb d = true -> quiet (verb_of d).
Proof.
  destruct d; cbn [quietb]; try discriminate; intros _; split; intros; cbn [verb_of vstep vfin snd]; try reflexivity.
  - unfold recs_only. induction (snd x) as [|a l IH]; [reflexivity|exact IH].
  - destruct (S (fst x) <=? n); reflexivity.
Qed.

Lemma discards_of d : discards (verb_of d).
Proof.
  destruct d; intros x Hx; cbn [verb_of vraise] in Hx; try discriminate.
  apply Nat.ltb_lt in Hx. split; [|reflexivity]. intros r. cbn [verb_of vstep vraise fst snd]. split.
  - destruct (S (fst x) <=? n) eqn:E; [apply Nat.leb_le in E; lia|reflexivity].
  - apply Nat.ltb_lt. lia.
Qed.

Lemma never_of d : is_head d = false -> never_raises (verb_of d).
Proof. destruct d; cbn; try discriminate; intros _ x; reflexivity. Qed.

Lemma okb_ok : forall ds nq, okb nq ds = true -> chain_ok nq (chain_of ds).
Proof.
  induction ds as [|d t IH]; intros nq H; [exact I|]. cbn in *. destruct nq as [|n].
  - apply andb_true_iff in H as [H1 H2]. split; [apply never_of; now apply negb_true_iff in H1|now apply IH].
  - apply andb_true_iff in H as [H1 H2]. split; [now apply quiet_of|]. split; [apply discards_of|now apply IH].
Qed.

Definition rec_batches (bs : list (list nat)) : list (list (@item nat nat)) := map (map inl) bs.

Lemma rec_batches_recs bs : forallb recs_only (rec_batches bs) = true.
Proof.
  induction bs as [|b bs IH]; [reflexivity|]. unfold rec_batches in *. cbn [map forallb]. apply andb_true_iff. split; [|exact IH].
  unfold recs_only. induction b as [|a b IHb]; [reflexivity|exact IHb].
Qed.

(* the instance theorem, with a computable hypothesis on the chain *)
Theorem early_exit_determinism_inst keep (ds : list vdesc) (bs : list (list nat)) s :
  chain_okb ds = true ->
  freach keep (finit (chain_of ds) (rec_batches bs)) s -> fquiescent s ->
  flat (fout s) = flat (seq_chain (chain_of ds) (whole (rec_batches bs))).
Proof.
  intros H Hr Hq. unfold chain_okb in H. apply existsb_exists in H as (nq & _ & Hok).
  apply (early_exit_determinism keep nq (chain_of ds) (rec_batches bs) s); [now apply okb_ok|apply rec_batches_recs|exact Hr|exact Hq].
Qed.

(* ---- schedules ---- *)
Lemma frun_sched_reach {rec str st : Type} keep sched : forall (s s' : @fstate rec str st),
  frun_sched keep sched s = Some s' -> freach keep s s'.
Proof.
  induction sched as [|n rest IH]; intros s s' H; cbn in H.
  - inversion H; subst. apply freach_refl.
  - destruct (nth_error (fsuccs keep s) n) as [s1|] eqn:E; [|discriminate].
    assert (Hs : freach keep s s1) by (eapply freach_step; [apply freach_refl|]; unfold fstep; eapply nth_error_In; eauto).
    specialize (IH _ _ H). clear - Hs IH. induction IH; [exact Hs|eapply freach_step; eauto].
Qed.

(* the schedule that always takes the first / the last enabled step *)
Fixpoint sched_first {rec str st : Type} keep (fuel : nat) (s : @fstate rec str st) : list nat :=
  match fuel with O => [] | S f => match fsuccs keep s with [] => [] | s1 :: _ => 0 :: sched_first keep f s1 end end.
Fixpoint sched_last {rec str st : Type} keep (fuel : nat) (s : @fstate rec str st) : list nat :=
  match fuel with
  | O => []
  | S f => match fsuccs keep s with [] => [] | s1 :: l => length l :: sched_last keep f (last l s1) end
  end.

(* the schedule in which the producer only moves when nothing else can: flags are seen as early as possible *)
Fixpoint sched_lazy {rec str st : Type} keep (fuel : nat) (s : @fstate rec str st) : list nat :=
  match fuel with
  | O => []
  | S f =>
      let i := match fchain_steps s ++ fwriter_steps s ++ fmain_steps s with [] => 0 | _ => length (freader_steps keep s) end in
      match nth_error (fsuccs keep s) i with Some s1 => i :: sched_lazy keep f s1 | None => [] end
  end.

Definition fquiescentb {rec str st : Type} (s : @fstate rec str st) : bool :=
  match frd s with FRDone => true | _ => false end
  && forallb (fun g => match fp g with FRecv | FDone => true | _ => false end && match fq g with [] => true | _ => false end) (fvs s)
  && match fwq s with [] => true | _ => false end.

Lemma fquiescentb_ok {rec str st : Type} (s : @fstate rec str st) : fquiescentb s = true -> fquiescent s.
Proof.
  unfold fquiescentb, fquiescent. intros H. apply andb_true_iff in H as [H Hw]. apply andb_true_iff in H as [Hr Hv].
  split; [destruct (frd s); try discriminate; reflexivity|]. split; [|destruct (fwq s); [reflexivity|discriminate]].
  apply Forall_forall. intros g Hg. rewrite forallb_forall in Hv. specialize (Hv g Hg). apply andb_true_iff in Hv as [Hp Hq].
  split; [destruct (fp g); try discriminate; auto|destruct (fq g); [reflexivity|discriminate]].
Qed.

(* ---- the known-finding class on the model: print upstream of head is schedule-dependent ---- *)
Definition print_head : list (IVerb * ist) := chain_of [DPrint; DHead 1].
Definition four : list (list (@item nat nat)) := rec_batches [[1]; [2]; [3]; [4]; [5]; [6]].
Definition schedA : list nat := Eval vm_compute in sched_first 1 400 (finit print_head four).
Definition schedB : list nat := Eval vm_compute in sched_lazy 1 400 (finit print_head four).

Theorem print_upstream_of_head_refuted :
  exists s1 s2, freach 1 (finit print_head four) s1 /\ freach 1 (finit print_head four) s2
                /\ fquiescent s1 /\ fquiescent s2 /\ ffinal s1 = true /\ ffinal s2 = true
                /\ flat (fout s1) <> flat (fout s2).
Proof.
  destruct (frun_sched 1 schedA (finit print_head four)) as [s1|] eqn:E1; [|vm_compute in E1; discriminate].
  destruct (frun_sched 1 schedB (finit print_head four)) as [s2|] eqn:E2; [|vm_compute in E2; discriminate].
  exists s1, s2. split; [now apply frun_sched_reach in E1|]. split; [now apply frun_sched_reach in E2|].
  vm_compute in E1. vm_compute in E2. inversion E1; subst s1. inversion E2; subst s2.
  split; [apply fquiescentb_ok; vm_compute; reflexivity|]. split; [apply fquiescentb_ok; vm_compute; reflexivity|].
  split; [reflexivity|]. split; [reflexivity|]. vm_compute. discriminate.
Qed.

(* non-vacuity of the determinism theorem: head after head with a tee upstream, under the last-first schedule *)
Definition hh : list vdesc := [DCat; DHead 3; DTee; DHead 2; DTac].
Definition schedH : list nat := Eval vm_compute in sched_lazy 1 600 (finit (chain_of hh) four).
Example early_exit_nonvacuous :
  chain_okb hh = true /\
  exists s, frun_sched 1 schedH (finit (chain_of hh) four) = Some s /\ fquiescentb s = true /\ ffinal s = true
            /\ length (frem s) < 3 /\ flat (fout s) = [inl 2; inl 1].
Proof.
  split; [reflexivity|].
  destruct (frun_sched 1 schedH (finit (chain_of hh) four)) as [s|] eqn:E; [|vm_compute in E; discriminate].
  exists s. split; [reflexivity|]. vm_compute in E. inversion E; subst s. vm_compute. repeat split; lia.
Qed.

(* ---- correspondence with the real binary (harness): chain, (records, batch size), observed stdout ---- *)
Open Scope Z_scope.
Definition desc_of (z : Z) : vdesc :=
  if z =? 0 then DCat else if z =? 1 then DTee else if z =? 2 then DPrint else if z =? 3 then DTac
  else DHead (Z.to_nat (z - 10)).
Fixpoint chunks (fuel : nat) (b : nat) (l : list nat) : list (list nat) :=
  match fuel with
  | O => []
  | S f => match l with [] => [] | _ => firstn b l :: chunks f b (skipn b l) end
  end.
Definition enc (i : @item nat nat) : Z := match i with inl r => 2 * Z.of_nat r | inr s => 2 * Z.of_nat s + 1 end.
Definition zeqb (a b : list Z) : bool := if list_eq_dec Z.eq_dec a b then true else false.
Definition model_out (ds : list vdesc) (bs : list (list nat)) : list Z :=
  map enc (flat (seq_chain (chain_of ds) (whole (rec_batches bs)))).
(* the outcomes the model allows: the sequential result on the whole input when the chain condition holds;
   in any case the sequential result on some truncation of the input at a batch boundary *)
Definition early_chk (c : list Z * (Z * Z) * list Z) : bool :=
  let '(ch, (n, b), obs) := c in
  let ds := map desc_of ch in
  let bs := chunks (S (Z.to_nat n)) (Z.to_nat b) (seq 1 (Z.to_nat n)) in
  if chain_okb ds then zeqb obs (model_out ds bs)
  else existsb (fun j => zeqb obs (model_out ds (firstn j bs))) (seq 0 (S (length bs))).
