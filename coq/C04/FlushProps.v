(* C04, the `tail -f` contract: property theorems (statements only; model in FlushModel.v, proofs in Flush.v).
   To be merged into C04/Props.v. *)
From Coq Require Import List Bool Arith.
Import ListNotations.
From Miller Require Import C04.DataPipeline C04.Batch C04.FlushModel C04.Flush.

(* With --fflush (the writer flushes its bufio.Writer after every item): for EVERY chain of verbs (arbitrary
   deterministic per-batch state machines), every input cut into batches in any way, every interleaving of reader,
   verbs and writer: in every reachable state in which the reader has handed over exactly the batches [delivered]
   (the lines of [pending] have not arrived yet) and the verbs and the writer have come to rest, a reader of mlr's
   stdout already sees exactly the chain's sequential output for the delivered batches, and nothing is left in the
   buffer -- whatever arrives later. *)
Theorem C04_tail_f_contract :
  forall (item vst : Type) (vs : list (dverb item vst * vst)) (delivered pending : list (batch item))
         (s : fstate item vst),
    freach item vst true (finit item vst vs (delivered ++ pending)) s ->
    rrem item vst (fd item vst s) = pending -> fquiet item vst s = true ->
    flushed item vst s = items item (seq_chain item vst vs delivered) /\ buffered item vst s = [].
Proof. exact tail_f_contract. Qed.
Print Assumptions C04_tail_f_contract.

(* the rest condition is what it says: no verb step and no writer step is enabled *)
Theorem C04_quiet_means_no_verb_or_writer_step :
  forall (item vst : Type) (fl : bool) (s : fstate item vst),
    fquiet item vst s = true -> nonreader_fsuccs item vst fl s = [].
Proof. exact quiet_no_step. Qed.
Print Assumptions C04_quiet_means_no_verb_or_writer_step.

(* The contract in the words of the property text: --fflush, --records-per-batch 1, a chain of FULLY STREAMING
   verbs (per-record state machines which, wherever the input stops, have nothing left to emit at end of stream):
   once the records [delivered] have arrived and the pipeline is at rest, stdout shows the COMPLETE output of the
   chain on those records (what `mlr chain` prints for a file holding exactly them) -- before any further input. *)
Theorem C04_tail_f_streaming_chain :
  forall (item st : Type) (c : list (sverb item st * st)) (delivered : list item) (pending : list (batch item))
         (s : fstate item st),
    all_streaming item st c ->
    freach item st true (finit item st (dchain item st c) (singletons item delivered ++ pending)) s ->
    rrem item st (fd item st s) = pending -> fquiet item st s = true ->
    flushed item st s = chain_out item st c delivered.
Proof. exact streaming_tail_f. Qed.
Print Assumptions C04_tail_f_streaming_chain.

(* ... for each i: after the i-th record of any input has been delivered *)
Theorem C04_tail_f_each_record :
  forall (item st : Type) (c : list (sverb item st * st)) (records : list item) (i : nat) (s : fstate item st),
    all_streaming item st c ->
    freach item st true (finit item st (dchain item st c) (singletons item records)) s ->
    rrem item st (fd item st s) = singletons item (skipn i records) -> fquiet item st s = true ->
    flushed item st s = chain_out item st c (firstn i records).
Proof. exact streaming_tail_f_each_record. Qed.
Print Assumptions C04_tail_f_each_record.

(* while the pipe is open, a chain of fully streaming verbs has produced the complete output for what it was given *)
Theorem C04_streaming_chain_visible :
  forall (item st : Type) (c : list (sverb item st * st)),
    all_streaming item st c -> forall bs : list (batch item), noeos item bs = true ->
    items item (seq_chain item st (dchain item st c) bs) = chain_out item st c (items item bs).
Proof. exact streaming_chain_visible. Qed.
Print Assumptions C04_streaming_chain_visible.

(* without --fflush only stdout + buffer is determined ... *)
Theorem C04_no_fflush_only_sum_determined :
  forall (item vst : Type) (fl : bool) (vs : list (dverb item vst * vst)) (delivered pending : list (batch item))
         (s : fstate item vst),
    freach item vst fl (finit item vst vs (delivered ++ pending)) s ->
    rrem item vst (fd item vst s) = pending -> fquiet item vst s = true ->
    flushed item vst s ++ buffered item vst s = items item (seq_chain item vst vs delivered).
Proof. exact no_fflush_partial. Qed.
Print Assumptions C04_no_fflush_only_sum_determined.

(* ... and the contract FAILS without --fflush: cat, one record delivered, at rest, nothing visible *)
Theorem C04_tail_f_without_fflush_refuted :
  exists s : fstate nat nat,
    freach nat nat false (finit nat nat (dchain nat nat [(v_cat nat nat, 0)]) (singletons nat [7] ++ [])) s /\
    rrem nat nat (fd nat nat s) = [] /\ fquiet nat nat s = true /\ flushed nat nat s = [] /\ buffered nat nat s = [7]
    /\ chain_out nat nat [(v_cat nat nat, 0)] [7] = [7].
Proof. exact no_fflush_refuted. Qed.
Print Assumptions C04_tail_f_without_fflush_refuted.

(* ... and FAILS for a retaining verb even with --fflush: tac *)
Theorem C04_tail_f_retaining_verb_refuted :
  exists s : fstate nat (list nat),
    freach nat (list nat) true (finit nat (list nat) (dchain nat (list nat) [(v_tac nat, [])]) (singletons nat [7] ++ [])) s /\
    rrem nat (list nat) (fd nat (list nat) s) = [] /\ fquiet nat (list nat) s = true /\ flushed nat (list nat) s = []
    /\ chain_out nat (list nat) [(v_tac nat, [])] [7] = [7].
Proof. exact retaining_verb_refuted. Qed.
Print Assumptions C04_tail_f_retaining_verb_refuted.

(* fully streaming: cat, put/sec2gmt/rename/... (stateful per-record maps), filter/grep/decimate (0 or 1 outputs),
   nest --explode/repeat (0..n outputs), tee (identity + side effect), head (until and after its quota);
   not fully streaming: tac, step -a shift_lead *)
Theorem C04_streaming_instances :
  forall (item st : Type) (x0 : st),
    (fully_streaming item st (v_cat item st) x0)
    /\ (forall g upd, fully_streaming item st (v_map item st g upd) x0)
    /\ (forall p upd, fully_streaming item st (v_filter item st p upd) x0)
    /\ (forall g upd, fully_streaming item st (v_flatmap item st g upd) x0)
    /\ (forall log, fully_streaming item st (v_tee item st log) x0)
    /\ (forall k c0, fully_streaming item nat (v_head item k) c0).
Proof.
  exact (fun item st x0 =>
    conj (cat_streaming item st x0)
   (conj (fun g upd => map_streaming item st g upd x0)
   (conj (fun p upd => filter_streaming item st p upd x0)
   (conj (fun g upd => flatmap_streaming item st g upd x0)
   (conj (fun log => tee_streaming item st log x0)
         (fun k c0 => head_streaming item k c0)))))).
Qed.
Print Assumptions C04_streaming_instances.

Theorem C04_retaining_verbs_not_streaming :
  ~ fully_streaming nat (list nat) (v_tac nat) [] /\ ~ fully_streaming nat (option nat) (v_lead nat (fun p _ => p)) None.
Proof. exact (conj tac_not_streaming lead_not_streaming). Qed.
Print Assumptions C04_retaining_verbs_not_streaming.

(* non-vacuity: cat then head -n 2, three records, two delivered: all hypotheses of the contract hold in a run of the
   model and both records are on stdout *)
Example C04_tail_f_nonvacuous :
  let c := [(v_cat nat nat, 0); (v_head nat 2, 0)] in
  all_streaming nat nat c /\
  exists s : fstate nat nat,
    freach nat nat true (finit nat nat (dchain nat nat c) (singletons nat [5; 6] ++ singletons nat [7])) s /\
    rrem nat nat (fd nat nat s) = singletons nat [7] /\ fquiet nat nat s = true /\ flushed nat nat s = [5; 6]
    /\ chain_out nat nat c [5; 6] = [5; 6].
Proof. exact tail_f_nonvacuous. Qed.
