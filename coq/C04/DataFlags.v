(* C04: the data-carrying model WITH the downstream-done protocol.  Same goroutines, channels and capacities as the
   control skeleton of Model.v (non-blocking flag sends: the repaired protocol), but batches carry items (records and
   print/emit strings), every verb is a per-record state machine driven by runSingleTransformerBatch, and the
   done-flag behaviour is tied to the data:
     - head (transformUnkeyed): raises its own flag when its state says the quota is exceeded, at most once, keeps
       consuming and discarding;
     - every verb polls its idchan inside Transform (HandleDefaultDownstreamDone) and relays the flag upstream with a
       non-blocking send; tee takes the flag and drops it;
     - the producer (channelizedLineReader; seqgen's ProduceStream has the same shape) polls its done channel
       between batches; on a flag it stops reading: it hands over at most [keep] more batches (the line reader: the
       batch already in hand, keep = 1; seqgen: none, keep = 0) and then the end-of-stream marker;
     - the writer appends each batch to stdout; main waits for the writer's done signal.
   Failures are not in this model (they are in the skeleton, onto which this model is projected in Refine.v). *)
From Coq Require Import List Bool Arith Lia.
Import ListNotations.
From Miller Require Import C04.Model.

Section Flags.
  Context {rec str st : Type}.
  Definition item := (rec + str)%type.            (* a record, or a string printed by put/filter *)
  Definition fbatch := (list item * bool)%type.   (* items; carries the end-of-stream marker *)

  Record verb := mkVerb {
    vstep : st -> rec -> st * list item;     (* Transform on a record *)
    vfin : st -> list item;                  (* Transform on the end-of-stream marker (end blocks, retained records) *)
    vraise : st -> bool;                     (* head: unkeyedRecordCount > headCount *)
    vtee : bool                              (* tee: takes the downstream-done flag and does not forward it *)
  }.

  (* runSingleTransformerBatch: records go through Transform, strings are passed along, the end-of-stream marker
     goes through Transform last *)
  Fixpoint run_items (v : verb) (x : st) (l : list item) : st * list item :=
    match l with
    | [] => (x, [])
    | inl r :: t => let '(x1, o1) := vstep v x r in let '(x2, o2) := run_items v x1 t in (x2, o1 ++ o2)
    | inr s :: t => let '(x2, o2) := run_items v x t in (x2, inr s :: o2)
    end.
  Definition run_batch (v : verb) (x : st) (b : fbatch) : st * fbatch :=
    let '(x1, o) := run_items v x (fst b) in
    if snd b then (x1, (o ++ vfin v x1, true)) else (x1, (o, false)).

  Inductive fpc :=
  | FRecv | FWork (b : fbatch) | FRelay (b : fbatch) | FOwn (b : fbatch) | FSend (o : fbatch) | FDone.

  Record fstage := mkF {
    fv : verb; fx : st; fp : fpc;
    fq : list fbatch;       (* input record channel *)
    fd : nat;               (* idchan: flags sent by the next verb *)
    fsig : bool             (* wroteDownstreamDone *)
  }.
  Definition set_fp (s : fstage) p := mkF (fv s) (fx s) p (fq s) (fd s) (fsig s).
  Definition set_fq (s : fstage) q := mkF (fv s) (fx s) (fp s) q (fd s) (fsig s).
  Definition set_fd (s : fstage) d := mkF (fv s) (fx s) (fp s) (fq s) d (fsig s).
  Definition set_fsig (s : fstage) b := mkF (fv s) (fx s) (fp s) (fq s) (fd s) b.
  Definition set_fx (s : fstage) x p := mkF (fv s) x p (fq s) (fd s) (fsig s).

  (* non-blocking send of a flag on a capacity-1 channel *)
  Definition sf (d : nat) : nat := if d <? 1 then S d else d.

  (* steps of the first verb of a chain suffix that do not touch its successor; d = its odchan *)
  Definition flocal (d : nat) (s : fstage) : list (nat * fstage) :=
    match fp s with
    | FRecv => match fq s with b :: q => [(d, set_fq (set_fp s (FWork b)) q)] | [] => [] end
    | FWork b =>
        (if 0 <? fd s then [(d, if vtee (fv s) then set_fd s 0 else set_fp (set_fd s 0) (FRelay b))] else [])
        ++ (if fsig s || negb (vraise (fv s) (fst (run_batch (fv s) (fx s) b))) then []
            else [(d, set_fp (set_fsig s true) (FOwn b))])
        ++ [(d, let '(x', o) := run_batch (fv s) (fx s) b in set_fx s x' (FSend o))]
    | FRelay b | FOwn b => [(sf d, set_fp s (FWork b))]
    | FSend _ | FDone => []
    end.

  Fixpoint fchain_succs (d : nat) (vs : list fstage) (wq : list fbatch)
    : list (nat * list fstage * list fbatch) :=
    match vs with
    | [] => []
    | s :: rest =>
        map (fun '(d', s') => (d', s' :: rest, wq)) (flocal d s)
        ++ (match fp s with
            | FSend o =>
                let p' := if snd o then FDone else FRecv in
                match rest with
                | [] => if length wq <? chan_cap then [(d, [set_fp s p'], wq ++ [o])] else []
                | s2 :: rest2 =>
                    if length (fq s2) <? chan_cap
                    then [(d, set_fp s p' :: set_fq s2 (fq s2 ++ [o]) :: rest2, wq)] else []
                end
            | _ => []
            end)
        ++ map (fun '(d2, rest', wq') => (d, set_fd s d2 :: rest', wq')) (fchain_succs (fd s) rest wq)
    end.

  Inductive frpc := FPoll | FSending | FRDone.

  Record fstate := mkFS {
    frd : frpc;
    frem : list (list item);     (* data batches the producer has not handed over yet *)
    fdn : nat;                   (* readerDownstreamDoneChannel *)
    fvs : list fstage;
    fwq : list fbatch;           (* writerChannel *)
    fwr : wpc;
    fout : list fbatch;          (* what the writer has written to stdout, in order *)
    fdoneq : bool;               (* doneWritingChannel *)
    fmn : mpc
  }.

  Variable keep : nat.           (* batches still handed over after the producer has seen the flag *)

  Definition freader_steps (s : fstate) : list fstate :=
    match frd s with
    | FPoll =>
        if 0 <? fdn s
        then [mkFS FSending (firstn keep (frem s)) 0 (fvs s) (fwq s) (fwr s) (fout s) (fdoneq s) (fmn s)]
        else [mkFS FSending (frem s) (fdn s) (fvs s) (fwq s) (fwr s) (fout s) (fdoneq s) (fmn s)]
    | FSending =>
        match fvs s with
        | v :: rest =>
            if length (fq v) <? reader_cap then
              match frem s with
              | [] => [mkFS FRDone [] (fdn s) (set_fq v (fq v ++ [([], true)]) :: rest) (fwq s) (fwr s) (fout s) (fdoneq s) (fmn s)]
              | b :: r => [mkFS FPoll r (fdn s) (set_fq v (fq v ++ [(b, false)]) :: rest) (fwq s) (fwr s) (fout s) (fdoneq s) (fmn s)]
              end
            else []
        | [] => []
        end
    | FRDone => []
    end.

  Definition fchain_steps (s : fstate) : list fstate :=
    map (fun '(d', vs', wq') => mkFS (frd s) (frem s) d' vs' wq' (fwr s) (fout s) (fdoneq s) (fmn s))
        (fchain_succs (fdn s) (fvs s) (fwq s)).

  Definition fwriter_steps (s : fstate) : list fstate :=
    match fwr s with
    | WRecv =>
        match fwq s with
        | b :: q => [mkFS (frd s) (frem s) (fdn s) (fvs s) q (if snd b then WFin else WRecv) (fout s ++ [b]) (fdoneq s) (fmn s)]
        | [] => []
        end
    | WFin => [mkFS (frd s) (frem s) (fdn s) (fvs s) (fwq s) WDone (fout s) true (fmn s)]
    | WErr | WDone => []
    end.

  Definition fmain_steps (s : fstate) : list fstate :=
    match fmn s with
    | MLoop r => if fdoneq s then [mkFS (frd s) (frem s) (fdn s) (fvs s) (fwq s) (fwr s) (fout s) false (MDrain1 r)] else []
    | MDrain1 r => [mkFS (frd s) (frem s) (fdn s) (fvs s) (fwq s) (fwr s) (fout s) (fdoneq s) (MDrain2 r)]
    | MDrain2 r => [mkFS (frd s) (frem s) (fdn s) (fvs s) (fwq s) (fwr s) (fout s) (fdoneq s) (MExit r)]
    | MExit _ => []
    end.

  Definition fsuccs (s : fstate) : list fstate :=
    freader_steps s ++ fchain_steps s ++ fwriter_steps s ++ fmain_steps s.

  Definition fstep (s s' : fstate) : Prop := In s' (fsuccs s).

  Inductive freach (s0 : fstate) : fstate -> Prop :=
  | freach_refl : freach s0 s0
  | freach_step s s' : freach s0 s -> fstep s s' -> freach s0 s'.

  Definition ffinal (s : fstate) : bool := match fmn s with MExit _ => true | _ => false end.

  Definition ffresh (vx : verb * st) : fstage := mkF (fst vx) (snd vx) FRecv [] 0 false.
  Definition finit (vs : list (verb * st)) (bs : list (list item)) : fstate :=
    mkFS FPoll bs 0 (map ffresh vs) [] WRecv [] false (MLoop false).

  (* follow a schedule: at each step take the n-th successor *)
  Fixpoint frun_sched (sched : list nat) (s : fstate) : option fstate :=
    match sched with
    | [] => Some s
    | n :: rest => match nth_error (fsuccs s) n with Some s' => frun_sched rest s' | None => None end
    end.

  (* the bytes on stdout: the items of the batches written, in order *)
  Definition flat (bs : list fbatch) : list item := concat (map fst bs).

  (* ---------------- the sequential semantics ---------------- *)
  Fixpoint run_verb (v : verb) (x : st) (bs : list fbatch) : list fbatch :=
    match bs with
    | [] => []
    | b :: t => let '(x', o) := run_batch v x b in o :: run_verb v x' t
    end.
  Fixpoint seq_chain (vs : list (verb * st)) (bs : list fbatch) : list fbatch :=
    match vs with
    | [] => bs
    | (v, x0) :: rest => seq_chain rest (run_verb v x0 bs)
    end.
  (* what the producer hands over when it reads everything *)
  Definition whole (bs : list (list item)) : list fbatch := map (fun b => (b, false)) bs ++ [([], true)].
End Flags.
