(* C04, the `tail -f` contract: proofs over FlushModel.v.
   Main results:
     tail_f_contract            with --fflush, in EVERY reachable state in which the chain and the writer are at rest, what
                                a reader of stdout sees is exactly the chain's sequential output on the batches delivered so far
                                (any chain, any verbs, any input, any batching, any schedule);
     streaming_tail_f           for chains of fully streaming verbs and one record per batch that output is the COMPLETE
                                (batch-mode) output of the chain on the records delivered so far;
     no_fflush_refuted, retaining_verb_refuted     both hypotheses are needed. *)
From Coq Require Import List Bool Arith ZArith Lia.
Import ListNotations.
From Miller Require Import C04.DataPipeline C04.Batch C04.FlushModel.

#[local] Arguments mkD {item vst}.
#[local] Arguments rrem {item vst}.
#[local] Arguments dvs {item vst}.
#[local] Arguments dwq {item vst}.
#[local] Arguments dwritten {item vst}.
#[local] Arguments din {item vst}.
#[local] Arguments dp {item vst}.
#[local] Arguments set_din {item vst}.
#[local] Arguments dchain_succs {item vst}.
#[local] Arguments dlocal {item vst}.
#[local] Arguments dinit {item vst}.
#[local] Arguments dsuccs {item vst}.
#[local] Arguments dstep {item vst}.
#[local] Arguments dreach {item vst}.
#[local] Arguments seq_chain {item vst}.
#[local] Arguments run_verb {item vst}.
#[local] Arguments idle {item vst}.
#[local] Arguments dquiescent {item vst}.
#[local] Arguments reader_succs {item vst}.
#[local] Arguments chain_succs {item vst}.
#[local] Arguments writer_succs {item vst}.
#[local] Arguments with_rrem {item vst}.
#[local] Arguments fd {item vst}.
#[local] Arguments flushed {item vst}.
#[local] Arguments buffered {item vst}.
#[local] Arguments mkF {item vst}.
#[local] Arguments lift {item vst}.
#[local] Arguments fwriter_succs {item vst}.
#[local] Arguments spill_succs {item vst}.
#[local] Arguments nonreader_fsuccs {item vst}.
#[local] Arguments fsuccs {item vst}.
#[local] Arguments fstep {item vst}.
#[local] Arguments freach {item vst}.
#[local] Arguments finit {item vst}.
#[local] Arguments items {item}.
#[local] Arguments idle_b {item vst}.
#[local] Arguments fquiet {item vst}.
#[local] Arguments frun {item vst}.
#[local] Arguments settle {item vst}.
#[local] Arguments deliver {item vst}.

Ltac dif H := match type of H with context [if ?c then _ else _] => destruct c eqn:? end.

Section FlushProofs.
  Variable item vst : Type.
  Notation dstate := (dstate item vst).
  Notation fstate := (fstate item vst).
  Notation batch := (batch item).

  Lemma dsuccs_split (s : dstate) : dsuccs s = reader_succs s ++ chain_succs s ++ writer_succs s.
  Proof. reflexivity. Qed.

  (* ---------- the pipeline does not look at the batches the reader has not sent yet ---------- *)
  Lemma reader_shift (s s' : dstate) :
    In s' (reader_succs s) ->
    exists b, rrem s = b :: rrem s' /\ forall r, In (with_rrem s' r) (reader_succs (with_rrem s (b :: r))).
  Proof.
    unfold reader_succs. destruct (rrem s) as [|b r0] eqn:Er; [intros []|].
    destruct (dvs s) as [|v rest] eqn:Ev; [intros []|].
    destruct (length (din v) <? reader_cap) eqn:Ec; [|intros []]. intros [<-|[]].
    exists b. split; [reflexivity|]. intros r. unfold with_rrem. cbn [rrem dvs dwq dwritten].
    rewrite Ev, Ec. left. reflexivity.
  Qed.

  Lemma nonreader_shift (s s' : dstate) :
    In s' (chain_succs s ++ writer_succs s) ->
    rrem s' = rrem s /\ forall r, In (with_rrem s' r) (chain_succs (with_rrem s r) ++ writer_succs (with_rrem s r)).
  Proof.
    rewrite in_app_iff. intros [H|H].
    - unfold chain_succs in H. apply in_map_iff in H as ([vs' wq'] & <- & Hin). split; [reflexivity|].
      intros r. apply in_or_app. left. unfold chain_succs, with_rrem. cbn [rrem dvs dwq dwritten].
      apply in_map_iff. exists (vs', wq'). split; [reflexivity|exact Hin].
    - unfold writer_succs in H. destruct (dwq s) as [|b q] eqn:Eq; [destruct H|]. destruct H as [<-|[]].
      split; [reflexivity|]. intros r. apply in_or_app. right. unfold writer_succs, with_rrem. cbn [rrem dvs dwq dwritten].
      rewrite Eq. left. reflexivity.
  Qed.

  Lemma step_shift (s s' : dstate) :
    dstep s s' -> exists pre, rrem s = pre ++ rrem s' /\ forall r, dstep (with_rrem s (pre ++ r)) (with_rrem s' r).
  Proof.
    unfold dstep. rewrite dsuccs_split, in_app_iff. intros [H|H].
    - apply reader_shift in H as (b & E & Hr). exists [b]. split; [exact E|]. intros r.
      rewrite dsuccs_split. apply in_or_app. left. apply Hr.
    - apply nonreader_shift in H as (E & Hr). exists []. split; [now rewrite E|]. intros r.
      rewrite dsuccs_split. apply in_or_app. right. apply Hr.
  Qed.

  (* every run on input bs is, at every moment, also a run on any other input that agrees on what has been read *)
  Lemma reach_retarget (s0 s : dstate) :
    dreach s0 s -> exists pre, rrem s0 = pre ++ rrem s /\ forall r, dreach (with_rrem s0 (pre ++ r)) (with_rrem s r).
  Proof.
    induction 1 as [|s s' _ (pre1 & E1 & H1) Hs].
    - exists []. split; [reflexivity|]. intros r. apply dreach_refl.
    - apply step_shift in Hs as (pre2 & E2 & H2). exists (pre1 ++ pre2). split.
      + now rewrite E1, E2, app_assoc.
      + intros r. rewrite <- app_assoc. eapply dreach_step; [apply H1|apply H2].
  Qed.

  Lemma reach_truncate vs bs (s : dstate) :
    dreach (dinit vs bs) s -> exists pre, bs = pre ++ rrem s /\ dreach (dinit vs pre) (with_rrem s []).
  Proof.
    intros H. apply reach_retarget in H as (pre & E & Hr). exists pre. split; [exact E|].
    specialize (Hr []). rewrite app_nil_r in Hr. exact Hr.
  Qed.

  (* ---------- the buffer ---------- *)
  Lemma items_app (a b : list batch) : items (a ++ b) = items a ++ items b.
  Proof. unfold items. now rewrite map_app, concat_app. Qed.

  Lemma reader_written (s d' : dstate) : In d' (reader_succs s) -> dwritten d' = dwritten s.
  Proof.
    unfold reader_succs. destruct (rrem s); [intros []|]. destruct (dvs s); [intros []|].
    destruct (_ <? _); [|intros []]. intros [<-|[]]. reflexivity.
  Qed.

  Lemma fstep_cases fl (s s' : fstate) :
    fstep fl s s' ->
    (dstep (fd s) (fd s') /\ dwritten (fd s') = dwritten (fd s) /\ flushed s' = flushed s /\ buffered s' = buffered s)
    \/ (exists b, dstep (fd s) (fd s') /\ dwritten (fd s') = dwritten (fd s) ++ [b] /\
                  ((fl || snd b = true /\ flushed s' = flushed s ++ buffered s ++ fst b /\ buffered s' = [])
                   \/ (fl || snd b = false /\ flushed s' = flushed s /\ buffered s' = buffered s ++ fst b)))
    \/ (fd s' = fd s /\ flushed s' = flushed s ++ buffered s /\ buffered s' = []).
  Proof.
    unfold fstep, fsuccs, nonreader_fsuccs. rewrite !in_app_iff. intros [H|[[H|H]|H]].
    - apply in_map_iff in H as (d & <- & Hd). left. cbn. split; [|split; [|split]]; try reflexivity.
      + unfold dstep. rewrite dsuccs_split. apply in_or_app. now left.
      + now apply reader_written.
    - apply in_map_iff in H as (d & <- & Hd). left. cbn. split; [|split; [|split]]; try reflexivity.
      + unfold dstep. rewrite dsuccs_split. apply in_or_app. right. apply in_or_app. now left.
      + unfold chain_succs in Hd. apply in_map_iff in Hd as ([vs' wq'] & <- & _). reflexivity.
    - unfold fwriter_succs in H. destruct (dwq (fd s)) as [|b q] eqn:Eq; [destruct H|].
      right. left. exists b.
      assert (Hst : dstep (fd s) (mkD (rrem (fd s)) (dvs (fd s)) q (dwritten (fd s) ++ [b]))).
      { unfold dstep. rewrite dsuccs_split. apply in_or_app. right. apply in_or_app. right.
        unfold writer_succs. rewrite Eq. now left. }
      destruct (fl || snd b) eqn:Ef; destruct H as [<-|[]]; cbn; (split; [exact Hst|]); (split; [reflexivity|]).
      + left. repeat split; reflexivity.
      + right. repeat split; reflexivity.
    - unfold spill_succs in H. destruct (buffered s) as [|x t] eqn:Eb; [destruct H|]. destruct H as [<-|[]].
      right. right. cbn. repeat split; reflexivity.
  Qed.

  Lemma freach_proj fl (s0 s : fstate) : freach fl s0 s -> dreach (fd s0) (fd s).
  Proof.
    induction 1 as [|s s' _ IH Hs]; [apply dreach_refl|].
    apply fstep_cases in Hs as [(Hd & _)|[(b & Hd & _)|(E & _)]].
    - eapply dreach_step; eauto.
    - eapply dreach_step; eauto.
    - now rewrite E.
  Qed.

  (* stdout + buffer = everything the writer has been handed; with --fflush the buffer is empty between steps *)
  Lemma buffer_invariant fl vs bs (s : fstate) :
    freach fl (finit vs bs) s ->
    flushed s ++ buffered s = items (dwritten (fd s)) /\ (fl = true -> buffered s = []).
  Proof.
    induction 1 as [|s s' _ (IH1 & IH2) Hs]; [split; reflexivity|].
    apply fstep_cases in Hs as [(_ & Ew & Ef & Eb)|[(b & _ & Ew & [(Ec & Ef & Eb)|(Ec & Ef & Eb)])|(E & Ef & Eb)]].
    - rewrite Ew, Ef, Eb. now split.
    - rewrite Ew, Ef, Eb, items_app, <- IH1. split; [|reflexivity].
      unfold items. cbn. now rewrite !app_nil_r, <- !app_assoc.
    - rewrite Ew, Ef, Eb, items_app, <- IH1. split.
      + unfold items. cbn. now rewrite !app_nil_r, <- !app_assoc.
      + intros ->. cbn in Ec. discriminate.
    - rewrite E, Ef, Eb, <- IH1. split; [now rewrite app_nil_r|reflexivity].
  Qed.

  (* ---------- at rest ---------- *)
  Lemma idle_b_spec (st : dstage item vst) : idle_b st = true -> idle st.
  Proof.
    unfold idle_b, idle. intros H. apply andb_prop in H as [H1 H2]. split.
    - destruct (dp st); try discriminate; auto.
    - destruct (din st); [reflexivity|discriminate].
  Qed.

  Lemma fquiet_spec (s : fstate) : fquiet s = true -> Forall idle (dvs (fd s)) /\ dwq (fd s) = [].
  Proof.
    unfold fquiet. intros H. apply andb_prop in H as [H1 H2]. split.
    - rewrite forallb_forall in H1. apply Forall_forall. intros x Hx. apply idle_b_spec. now apply H1.
    - destruct (dwq (fd s)); [reflexivity|discriminate].
  Qed.

  Lemma idle_chain_stuck (vs : list (dstage item vst)) wq : Forall idle vs -> dchain_succs vs wq = [].
  Proof.
    induction 1 as [|st rest [Hp Hq] _ IH]; [reflexivity|]. cbn [dchain_succs]. rewrite IH. cbn [map].
    unfold dlocal. rewrite Hq. destruct Hp as [-> | ->]; reflexivity.
  Qed.

  (* the computable rest condition really means: nothing but the reader (and bufio itself) can move *)
  Lemma quiet_no_step fl (s : fstate) : fquiet s = true -> nonreader_fsuccs fl s = [].
  Proof.
    intros H. apply fquiet_spec in H as [Hi Hw]. unfold nonreader_fsuccs, chain_succs, fwriter_succs.
    now rewrite (idle_chain_stuck _ _ Hi), Hw.
  Qed.

  (* ---------- the contract ---------- *)
  (* before flushing is taken into account: at rest, the writer has been handed exactly the chain's sequential
     output on the batches delivered so far *)
  Lemma written_at_rest vs (delivered pending : list batch) (d : dstate) :
    dreach (dinit vs (delivered ++ pending)) d -> rrem d = pending ->
    Forall idle (dvs d) -> dwq d = [] ->
    dwritten d = seq_chain vs delivered.
  Proof.
    intros Hr Hrem Hi Hw. apply reach_truncate in Hr as (pre & E & Hr).
    rewrite Hrem in E. apply app_inv_tail in E. subst pre.
    apply (schedule_independence item vst vs delivered (with_rrem d [])) in Hr; [exact Hr|].
    unfold dquiescent, with_rrem. cbn. auto.
  Qed.

  Theorem tail_f_contract vs (delivered pending : list batch) (s : fstate) :
    freach true (finit vs (delivered ++ pending)) s ->
    rrem (fd s) = pending -> fquiet s = true ->
    flushed s = items (seq_chain vs delivered) /\ buffered s = [].
  Proof.
    intros Hr Hrem Hq. pose proof (buffer_invariant _ _ _ _ Hr) as [Hb1 Hb2]. specialize (Hb2 eq_refl).
    apply fquiet_spec in Hq as [Hi Hw]. apply freach_proj in Hr. cbn [fd finit] in Hr.
    rewrite (written_at_rest _ _ _ _ Hr Hrem Hi Hw), Hb2, app_nil_r in Hb1. now split.
  Qed.

  (* without --fflush only the sum stdout + buffer is determined *)
  Theorem no_fflush_partial fl vs (delivered pending : list batch) (s : fstate) :
    freach fl (finit vs (delivered ++ pending)) s ->
    rrem (fd s) = pending -> fquiet s = true ->
    flushed s ++ buffered s = items (seq_chain vs delivered).
  Proof.
    intros Hr Hrem Hq. pose proof (buffer_invariant _ _ _ _ Hr) as [Hb1 _].
    apply fquiet_spec in Hq as [Hi Hw]. apply freach_proj in Hr. cbn [fd finit] in Hr.
    now rewrite (written_at_rest _ _ _ _ Hr Hrem Hi Hw) in Hb1.
  Qed.

  (* after end of input (a batch carrying end of stream has been written) everything is on stdout, --fflush or not:
     the final Flush of stream.go *)

  (* ---------- executable runs are runs ---------- *)
  Lemma frun_reach fl sched : forall (s s' : fstate), frun fl sched s = Some s' -> freach fl s s'.
  Proof.
    assert (G : forall sched (s0 s s' : fstate), freach fl s0 s -> frun fl sched s = Some s' -> freach fl s0 s').
    { clear sched. induction sched as [|k t IH]; intros s0 s s' H0 H; cbn in H.
      - now inversion H; subst.
      - destruct (nth_error (fsuccs fl s) k) as [s1|] eqn:E; [|discriminate].
        eapply IH; [|exact H]. eapply freach_step; [exact H0|]. eapply nth_error_In; eauto. }
    intros s s' H. eapply G; [apply freach_refl|exact H].
  Qed.

  Lemma freach_trans fl (a b c : fstate) : freach fl a b -> freach fl b c -> freach fl a c.
  Proof. intros H1 H2. induction H2 as [|s s' _ IH Hs]; [exact H1|]. eapply freach_step; eauto. Qed.

  Lemma settle_reach fl fuel : forall s : fstate, freach fl s (settle fl fuel s).
  Proof.
    induction fuel as [|f IH]; intros s; cbn; [apply freach_refl|].
    destruct (nonreader_fsuccs fl s) as [|s' t] eqn:E; [apply freach_refl|].
    eapply freach_trans; [|apply IH]. eapply freach_step; [apply freach_refl|].
    unfold fstep, fsuccs. rewrite E. apply in_or_app. right. now left.
  Qed.

  Lemma deliver_reach fl (s : fstate) : freach fl s (deliver s).
  Proof.
    unfold deliver. destruct (map (lift s) (reader_succs (fd s))) as [|s' t] eqn:E; [apply freach_refl|].
    eapply freach_step; [apply freach_refl|]. unfold fstep, fsuccs. rewrite E. now left.
  Qed.
End FlushProofs.

(* ------------------------------------------------------------------------------------------------------------ *)
#[local] Arguments run_items {item st}.
#[local] Arguments run {item st}.
#[local] Arguments svstep {item st}.
#[local] Arguments svfin {item st}.
#[local] Arguments sv_batch {item st}.
#[local] Arguments to_dverb {item st}.
#[local] Arguments dchain {item st}.
#[local] Arguments fully_streaming {item st}.
#[local] Arguments chain_out {item st}.
#[local] Arguments singletons {item}.
#[local] Arguments noeos {item}.

Section StreamingProofs.
  Variables item st : Type.
  Notation sverb := (sverb item st).
  Notation batch := (batch item).

  Lemma items_singletons (l : list item) : items (singletons l) = l.
  Proof. unfold items, singletons. induction l as [|r l IH]; cbn; [reflexivity|]. now f_equal. Qed.

  Lemma noeos_singletons (l : list item) : noeos (singletons l) = true.
  Proof. unfold noeos, singletons. induction l as [|r l IH]; cbn; auto. Qed.

  Lemma noeos_app (a b : list batch) : noeos (a ++ b) = noeos a && noeos b.
  Proof. unfold noeos. apply forallb_app. Qed.

  (* while the pipe is open a verb's output batches carry exactly what its per-record steps emit *)
  Lemma run_verb_noeos (v : sverb) : forall (bs : list batch) (x : st),
    noeos bs = true ->
    noeos (run_verb (sv_batch v) x bs) = true /\
    items (run_verb (sv_batch v) x bs) = snd (run_items (svstep v) x (items bs)).
  Proof.
    induction bs as [|[l e] t IH]; intros x H; [split; reflexivity|].
    unfold noeos in H. cbn [forallb snd] in H. apply andb_prop in H as [He Ht]. destruct e; [discriminate|].
    cbn [run_verb]. unfold sv_batch at 1 3. cbn [fst snd].
    change (items ((l, false) :: t)) with (l ++ items t).
    rewrite (run_items_app item st (svstep v) x l (items t)).
    destruct (run_items (svstep v) x l) as [x1 o1].
    destruct (IH x1 Ht) as [N I].
    destruct (run_items (svstep v) x1 (items t)) as [x2 o2]. cbn [snd] in *. split.
    - unfold noeos in *. cbn [forallb snd negb andb]. exact N.
    - change (items ((o1 ++ [], false) :: run_verb (sv_batch v) x1 t))
        with ((o1 ++ []) ++ items (run_verb (sv_batch v) x1 t)).
      now rewrite I, app_nil_r.
  Qed.

  Lemma streaming_run (v : sverb) x0 l :
    fully_streaming v x0 -> run (svstep v) (svfin v) x0 l = snd (run_items (svstep v) x0 l).
  Proof.
    intros H. unfold run. specialize (H l). destruct (run_items (svstep v) x0 l) as [s o]. cbn in *.
    now rewrite H, app_nil_r.
  Qed.

  Definition all_streaming (c : list (sverb * st)) : Prop := Forall (fun p => fully_streaming (fst p) (snd p)) c.

  (* for a chain of fully streaming verbs, what the open pipeline produces from the batches delivered so far is the
     COMPLETE output of the chain on the records delivered so far (as if the input had ended there) *)
  Theorem streaming_chain_visible (c : list (sverb * st)) :
    all_streaming c -> forall bs : list batch, noeos bs = true ->
    items (seq_chain (dchain c) bs) = chain_out c (items bs).
  Proof.
    induction c as [|[v x0] c IH]; intros F bs N; [reflexivity|].
    inversion F as [|p c' Hv Hc]; subst. cbn [fst snd] in Hv.
    destruct (run_verb_noeos v bs x0 N) as [N' I].
    change (items (seq_chain (dchain c) (run_verb (sv_batch v) x0 bs)) = chain_out c (run (svstep v) (svfin v) x0 (items bs))).
    rewrite (IH Hc _ N'), I. now rewrite (streaming_run v x0 _ Hv).
  Qed.

  (* THE CONTRACT, in the words of the property: --fflush, --records-per-batch 1 (each record its own batch), a
     chain of fully streaming verbs; whenever the records [delivered] have arrived, whatever arrives later
     ([pending], not yet visible to the reader), and the pipeline has come to rest, stdout already shows the
     complete output of the chain for the delivered records *)
  Theorem streaming_tail_f (c : list (sverb * st)) (delivered : list item) (pending : list batch)
          (s : fstate item st) :
    all_streaming c ->
    freach true (finit (dchain c) (singletons delivered ++ pending)) s ->
    rrem (fd s) = pending -> fquiet s = true ->
    flushed s = chain_out c delivered.
  Proof.
    intros F Hr Hrem Hq. destruct (tail_f_contract item st _ _ _ _ Hr Hrem Hq) as [H _].
    rewrite H, (streaming_chain_visible c F _ (noeos_singletons delivered)). now rewrite items_singletons.
  Qed.

  (* ... record by record: after the i-th record of ANY input has been delivered *)
  Corollary streaming_tail_f_each_record (c : list (sverb * st)) (records : list item) (i : nat) (s : fstate item st) :
    all_streaming c ->
    freach true (finit (dchain c) (singletons records)) s ->
    rrem (fd s) = singletons (skipn i records) -> fquiet s = true ->
    flushed s = chain_out c (firstn i records).
  Proof.
    intros F Hr Hrem Hq. eapply streaming_tail_f; eauto.
    unfold singletons in *. now rewrite <- map_app, firstn_skipn.
  Qed.

  (* ---- instances: every verb that never has anything to say at end of stream *)
  Lemma fin_nil_streaming (v : sverb) x0 : (forall x, svfin v x = []) -> fully_streaming v x0.
  Proof. intros H l. apply H. Qed.

  Lemma cat_streaming x0 : fully_streaming (v_cat item st) x0.
  Proof. now apply fin_nil_streaming. Qed.
  Lemma map_streaming g upd x0 : fully_streaming (v_map item st g upd) x0.
  Proof. now apply fin_nil_streaming. Qed.
  Lemma filter_streaming p upd x0 : fully_streaming (v_filter item st p upd) x0.
  Proof. now apply fin_nil_streaming. Qed.
  Lemma flatmap_streaming g upd x0 : fully_streaming (v_flatmap item st g upd) x0.
  Proof. now apply fin_nil_streaming. Qed.
  Lemma tee_streaming log x0 : fully_streaming (v_tee item st log) x0.
  Proof. now apply fin_nil_streaming. Qed.
End StreamingProofs.

Lemma head_streaming item k c0 : fully_streaming (v_head item k) c0.
Proof. now apply fin_nil_streaming. Qed.

(* a retaining verb is not fully streaming: tac, and step -a shift_lead (one record of look-ahead) *)
Lemma tac_not_streaming : ~ fully_streaming (v_tac nat) [].
Proof. intros H. specialize (H [7]). discriminate H. Qed.
Lemma lead_not_streaming : ~ fully_streaming (v_lead nat (fun p _ => p)) None.
Proof. intros H. specialize (H [7]). discriminate H. Qed.

(* ---- both hypotheses are needed ---- *)
(* without --fflush: cat, one record delivered, pipeline at rest, and stdout shows nothing (the record sits in the
   bufio.Writer) *)
Theorem no_fflush_refuted :
  exists s : fstate nat nat,
    freach false (finit (dchain [(v_cat nat nat, 0)]) (singletons [7] ++ [])) s /\
    rrem (fd s) = [] /\ fquiet s = true /\ flushed s = [] /\ buffered s = [7]
    /\ chain_out [(v_cat nat nat, 0)] [7] = [7].
Proof.
  destruct (frun false [0;0;0;0;0] (finit (dchain [(v_cat nat nat, 0)]) (singletons [7] ++ []))) as [s|] eqn:E;
    [|vm_compute in E; discriminate].
  exists s. split; [eapply frun_reach; exact E|]. vm_compute in E. inversion E; subst. vm_compute. auto.
Qed.

(* with --fflush but a retaining verb (tac): one record delivered, pipeline at rest, stdout shows nothing although
   the chain's complete output for that record is the record *)
Theorem retaining_verb_refuted :
  exists s : fstate nat (list nat),
    freach true (finit (dchain [(v_tac nat, [])]) (singletons [7] ++ [])) s /\
    rrem (fd s) = [] /\ fquiet s = true /\ flushed s = [] /\ chain_out [(v_tac nat, [])] [7] = [7].
Proof.
  destruct (frun true [0;0;0;0;0] (finit (dchain [(v_tac nat, [])]) (singletons [7] ++ []))) as [s|] eqn:E;
    [|vm_compute in E; discriminate].
  exists s. split; [eapply frun_reach; exact E|]. vm_compute in E. inversion E; subst. vm_compute. auto.
Qed.

(* ---- non-vacuity: the hypotheses of tail_f_contract / streaming_tail_f hold in a non-trivial run:
   cat then head -n 2, three records of which two have been delivered; both are on stdout *)
Example tail_f_nonvacuous :
  let c := [(v_cat nat nat, 0); (v_head nat 2, 0)] in
  all_streaming nat nat c /\
  exists s : fstate nat nat,
    freach true (finit (dchain c) (singletons [5; 6] ++ singletons [7])) s /\
    rrem (fd s) = singletons [7] /\ fquiet s = true /\ flushed s = [5; 6] /\ chain_out c [5; 6] = [5; 6].
Proof.
  cbv zeta. split.
  - apply Forall_cons; [apply cat_streaming|]. apply Forall_cons; [apply head_streaming|]. apply Forall_nil.
  - set (s0 := finit (dchain [(v_cat nat nat, 0); (v_head nat 2, 0)]) (singletons [5; 6] ++ singletons [7])).
    exists (settle true 40 (deliver (settle true 40 (deliver s0)))). split.
    + eapply freach_trans; [apply deliver_reach|]. eapply freach_trans; [apply settle_reach|].
      eapply freach_trans; [apply deliver_reach|]. apply settle_reach.
    + vm_compute. auto.
Qed.

(* ------------------------------------------------------------------------------------------------------------ *)
(* The writer's flush decision, item by item (FlushModel.write_items = the loop body of channelWriterHandleBatch). *)
Section PerItem.
  Variable item vst : Type.
  Notation fstate := (fstate item vst).

  Lemma write_items_every (l fl : list item) :
    write_items item true (flush_every_item item) l fl [] = (fl ++ l, []).
  Proof.
    revert fl; induction l as [|i t IH]; intros fl; cbn [write_items flush_every_item andb].
    - now rewrite app_nil_r.
    - rewrite IH. cbn [app]. now rewrite <- !app_assoc.
  Qed.

  Lemma write_items_noflush after (l fl buf : list item) : write_items item false after l fl buf = (fl, buf ++ l).
  Proof.
    revert fl buf; induction l as [|i t IH]; intros fl buf; cbn [write_items andb].
    - now rewrite app_nil_r.
    - rewrite IH. now rewrite <- app_assoc.
  Qed.

  (* whatever the rule: nothing is lost or reordered between stdout and the buffer *)
  Lemma write_items_sum fflush after (l fl buf : list item) :
    fst (write_items item fflush after l fl buf) ++ snd (write_items item fflush after l fl buf) = fl ++ buf ++ l.
  Proof.
    revert fl buf; induction l as [|i t IH]; intros fl buf; cbn [write_items fst snd].
    - now rewrite app_nil_r.
    - destruct (fflush && after i); rewrite IH; cbn [app]; now rewrite <- !app_assoc.
  Qed.

  (* the merged writer step of the model IS the per-item loop with the code's rule (flush after every item, record
     or text), followed by stream.go's final Flush when the batch carries end of stream *)
  Theorem fwriter_succs_per_item fflush (s : fstate) b q :
    dwq (fd s) = b :: q -> (fflush = true -> buffered s = []) ->   (* with --fflush the buffer is empty between items: buffer_invariant *)
    fwriter_succs fflush s =
      let r := write_items item fflush (flush_every_item item) (fst b) (flushed s) (buffered s) in
      let d' := mkD (rrem (fd s)) (dvs (fd s)) q (dwritten (fd s) ++ [b]) in
      [if snd b then mkF d' (fst r ++ snd r) [] else mkF d' (fst r) (snd r)].
  Proof.
    intros E Hb. unfold fwriter_succs. rewrite E. cbv zeta. destruct fflush.
    - rewrite (Hb eq_refl), write_items_every. cbn [orb fst snd app]. rewrite app_nil_r. destruct (snd b); reflexivity.
    - rewrite write_items_noflush. cbn [orb fst snd]. destruct (snd b); reflexivity.
  Qed.
End PerItem.

(* a rule that flushes after records only (records = inl, print/dump/comment text = inr) leaves a text-only batch in
   the buffer although --fflush is on: nothing becomes visible.  (This is why the code's rule covers every item.) *)
Theorem flush_after_records_only_refuted :
  exists (after : nat + nat -> bool) (l : list (nat + nat)),
    (forall r, after (inl r) = true) /\ l <> [] /\
    write_items (nat + nat) true after l [] [] = ([], l) /\
    write_items (nat + nat) true (flush_every_item (nat + nat)) l [] [] = (l, []).
Proof.
  exists (fun i => match i with inl _ => true | inr _ => false end), [inr 7; inr 8].
  split; [reflexivity|]. split; [discriminate|]. split; reflexivity.
Qed.

(* ------------------------------------------------------------------------------------------------------------ *)
(* "At rest" is exactly "no verb step and no writer step is enabled" while the input is open.
   quiet_no_step is one direction; here the other: while every batch handed over so far is a non-end batch (the pipe
   is still open) and the verbs pass the end-of-stream bit through unchanged (true of everything driven by
   runSingleTransformerBatch: to_dverb_pres), no stage has finished, so a state in which neither the chain nor the
   writer can move has every verb waiting on an empty channel and an empty writer channel. *)
Section StuckIdle.
  Variable item vst : Type.
  Notation dstate := (dstate item vst).
  Notation fstate := (fstate item vst).
  Notation batch := (batch item).
  Notation dstage := (dstage item vst).

  Definition ne (b : batch) : bool := negb (snd b).
  Definition pres (v : dverb item vst) : Prop := forall x b, snd (snd (dfun item vst v x b)) = snd b.
  Definition stage_ne (g : dstage) : Prop :=
    pres (dv item vst g) /\ dp g <> DDone item /\ forallb ne (din g) = true /\
    match dp g with DWork _ b | DSend _ b => snd b = false | _ => True end.

  Lemma dlocal_ne (g g' : dstage) : stage_ne g -> In g' (dlocal g) -> stage_ne g'.
  Proof.
    intros (Hp & Hd & Hq & Hh). unfold dlocal. destruct g as [v x p q]; cbn [dp din dv DataPipeline.dst] in *.
    destruct p as [|b|o|].
    - destruct q as [|b q]; [intros []|]. intros [<-|[]]. cbn in Hq. apply andb_true_iff in Hq as [Hb Hq].
      unfold stage_ne; cbn. repeat split; auto; try discriminate. unfold ne in Hb. now apply negb_true_iff in Hb.
    - pose proof (Hp x b) as He. destruct (dfun item vst v x b) as [x' o]. intros [<-|[]].
      unfold stage_ne; cbn in *. repeat split; auto; try discriminate. congruence.
    - intros [].
    - intros [].
  Qed.

  Lemma forallb_ne_app (q : list batch) o : forallb ne q = true -> snd o = false -> forallb ne (q ++ [o]) = true.
  Proof. intros Hq Ho. rewrite forallb_app, Hq. cbn. unfold ne. now rewrite Ho. Qed.

  Lemma dchain_ne : forall (vs : list dstage) wq vs' wq',
    Forall stage_ne vs -> forallb ne wq = true -> In (vs', wq') (dchain_succs vs wq) ->
    Forall stage_ne vs' /\ forallb ne wq' = true.
  Proof.
    induction vs as [|g rest IH]; intros wq vs' wq' Hall Hw Hin; cbn [dchain_succs] in Hin; [destruct Hin|].
    inversion Hall as [|? ? Hg Hrest]; subst. rewrite !in_app_iff in Hin. destruct Hin as [Hin|[Hin|Hin]].
    - apply in_map_iff in Hin as (g' & E0 & Hl). inversion E0; subst. split; [|exact Hw].
      constructor; [eapply dlocal_ne; eauto|exact Hrest].
    - destruct (dp g) as [|b|o|] eqn:Ep; try destruct Hin.
      assert (Ho : snd o = false) by (destruct Hg as (_ & _ & _ & Hh); now rewrite Ep in Hh).
      assert (Hg' : stage_ne (set_dp item vst g (if snd o then DDone item else DRecv item))).
      { rewrite Ho. destruct Hg as (A & B & C & D). unfold stage_ne; cbn. repeat split; auto. discriminate. }
      destruct rest as [|g2 rest2].
      + dif Hin; [|destruct Hin]. destruct Hin as [E0|[]]. inversion E0; subst. split; [constructor; [exact Hg'|constructor]|].
        now apply forallb_ne_app.
      + dif Hin; [|destruct Hin]. destruct Hin as [E0|[]]. inversion E0; subst. split; [|exact Hw].
        inversion Hrest as [|? ? Hg2 Hrest2]; subst. constructor; [exact Hg'|]. constructor; [|exact Hrest2].
        destruct Hg2 as (A & B & C & D). unfold stage_ne; cbn. repeat split; auto. now apply forallb_ne_app.
    - apply in_map_iff in Hin as ([rest' wq1] & E0 & Hin'). inversion E0; subst.
      destruct (IH _ _ _ Hrest Hw Hin') as [A B]. split; [constructor; auto|exact B].
  Qed.

  Definition NE (d : dstate) : Prop := forallb ne (rrem d) = true /\ Forall stage_ne (dvs d) /\ forallb ne (dwq d) = true.

  Lemma NE_step (d d' : dstate) : NE d -> dstep d d' -> NE d'.
  Proof.
    intros (Hr & Hv & Hw). unfold dstep. rewrite dsuccs_split, !in_app_iff. intros [H|[H|H]].
    - unfold reader_succs in H. destruct (rrem d) as [|b r] eqn:Er; [destruct H|]. destruct (dvs d) as [|g rest] eqn:Ev; [destruct H|].
      dif H; [|destruct H]. destruct H as [<-|[]]. cbn in Hr. apply andb_true_iff in Hr as [Hb Hr]. unfold NE; cbn.
      split; [exact Hr|]. split; [|exact Hw]. inversion Hv as [|? ? Hg Hrest]; subst. constructor; [|exact Hrest].
      destruct Hg as (A & B & C & D). unfold stage_ne; cbn. repeat split; auto. apply forallb_ne_app; [exact C|].
      unfold ne in Hb. now apply negb_true_iff in Hb.
    - unfold chain_succs in H. apply in_map_iff in H as ([vs' wq'] & <- & Hin). unfold NE; cbn.
      destruct (dchain_ne _ _ _ _ Hv Hw Hin) as [A B]. auto.
    - unfold writer_succs in H. destruct (dwq d) as [|b q] eqn:Eq; [destruct H|]. destruct H as [<-|[]]. unfold NE; cbn.
      cbn in Hw. apply andb_true_iff in Hw as [_ Hw]. auto.
  Qed.

  Definition all_pres (vs : list (dverb item vst * vst)) : Prop := Forall (fun p => pres (fst p)) vs.

  Lemma NE_init vs bs : all_pres vs -> forallb ne bs = true -> NE (dinit vs bs).
  Proof.
    intros Hp Hb. unfold NE, dinit; cbn. split; [exact Hb|]. split; [|reflexivity].
    induction Hp as [|[v x0] vs Hv _ IH]; cbn; constructor; [|exact IH].
    unfold stage_ne, fresh; cbn. repeat split; auto. discriminate.
  Qed.

  Lemma NE_reach vs bs d : all_pres vs -> forallb ne bs = true -> dreach (dinit vs bs) d -> NE d.
  Proof. intros Hp Hb. induction 1 as [|d d' _ IH Hs]; [now apply NE_init|eapply NE_step; eauto]. Qed.

  (* no stage finished + nothing can move => every stage waits on an empty channel *)
  Lemma stuck_idle_chain : forall vs : list dstage,
    Forall (fun g => dp g <> DDone item) vs -> dchain_succs vs [] = [] -> forallb idle_b vs = true.
  Proof.
    induction vs as [|g rest IH]; intros Hall Hs; [reflexivity|]. inversion Hall as [|? ? Hg Hrest]; subst.
    cbn [dchain_succs] in Hs. apply app_eq_nil in Hs as [Hl Hs]. apply app_eq_nil in Hs as [Hsend Hdeep].
    apply map_eq_nil in Hl. apply map_eq_nil in Hdeep. specialize (IH Hrest Hdeep).
    cbn [forallb]. rewrite IH, andb_true_r. unfold idle_b. unfold dlocal in Hl.
    destruct (dp g) as [|b|o|] eqn:Ep.
    - destruct (din g); [reflexivity|discriminate].
    - destruct (dfun item vst (dv item vst g) (DataPipeline.dst item vst g) b); discriminate.
    - exfalso. destruct rest as [|g2 rest2]; [cbn in Hsend; discriminate|].
      cbn [forallb] in IH. apply andb_true_iff in IH as [I2 _]. unfold idle_b in I2. apply andb_true_iff in I2 as [_ I2].
      destruct (din g2); [cbn in Hsend; discriminate|discriminate].
    - now elim Hg.
  Qed.

  Theorem stuck_is_quiet fl vs (delivered pending : list batch) (s : fstate) :
    all_pres vs -> forallb ne delivered = true ->
    freach fl (finit vs (delivered ++ pending)) s -> rrem (fd s) = pending ->
    nonreader_fsuccs fl s = [] -> fquiet s = true.
  Proof.
    intros Hp Hd Hr Hrem Hs. unfold nonreader_fsuccs in Hs. apply app_eq_nil in Hs as [Hc Hw].
    apply map_eq_nil in Hc. unfold chain_succs in Hc. apply map_eq_nil in Hc.
    assert (Hq : dwq (fd s) = []).
    { unfold fwriter_succs in Hw. destruct (dwq (fd s)); [reflexivity|]. destruct (fl || snd b); discriminate. }
    apply (freach_proj item vst) in Hr. cbn [fd finit] in Hr. apply (reach_truncate item vst) in Hr as (pre & E0 & Hr).
    rewrite Hrem in E0. apply app_inv_tail in E0. subst pre.
    pose proof (NE_reach _ _ _ Hp Hd Hr) as (_ & Hv & _). unfold with_rrem in Hv; cbn in Hv.
    unfold fquiet. rewrite Hq. rewrite andb_true_r. rewrite Hq in Hc. apply stuck_idle_chain; [|exact Hc].
    eapply Forall_impl; [|exact Hv]. intros g (_ & A & _). exact A.
  Qed.

  (* both directions *)
  Corollary quiet_iff_no_step fl vs (delivered pending : list batch) (s : fstate) :
    all_pres vs -> forallb ne delivered = true ->
    freach fl (finit vs (delivered ++ pending)) s -> rrem (fd s) = pending ->
    (fquiet s = true <-> nonreader_fsuccs fl s = []).
  Proof. intros Hp Hd Hr Hrem. split; [apply quiet_no_step|now apply (stuck_is_quiet fl vs delivered pending)]. Qed.
End StuckIdle.

(* chains driven by runSingleTransformerBatch pass the end-of-stream bit through *)
Lemma to_dverb_pres item st (v : sverb item st) : pres item st (@to_dverb item st v).
Proof. intros x b. unfold to_dverb, sv_batch; cbn. destruct (@run_items item st (@svstep item st v) x (fst b)). reflexivity. Qed.

Lemma dchain_all_pres item st (c : list (sverb item st * st)) : all_pres item st (@dchain item st c).
Proof. induction c as [|[v x0] c IH]; cbn; constructor; [apply to_dverb_pres|exact IH]. Qed.

Lemma singletons_ne item (l : list item) : forallb (ne item) (@singletons item l) = true.
Proof. induction l; cbn; auto. Qed.

(* the tail -f contract with the rest condition stated as ENABLEDNESS: --fflush, one record per batch, a chain of
   fully streaming verbs, the records [delivered] handed over, and no verb step and no writer step possible:
   stdout shows the complete output of the chain on those records *)
Theorem streaming_tail_f_no_step item st (c : list (sverb item st * st)) (delivered : list item) (pending : list (batch item))
        (s : fstate item st) :
  all_streaming item st c ->
  freach true (finit (@dchain item st c) (@singletons item delivered ++ pending)) s ->
  rrem (fd s) = pending -> nonreader_fsuccs true s = [] ->
  flushed s = @chain_out item st c delivered /\ buffered s = [].
Proof.
  intros Ha Hr Hrem Hs.
  assert (Hq : fquiet s = true).
  { apply (stuck_is_quiet item st true (@dchain item st c) (@singletons item delivered) pending); auto.
    - apply dchain_all_pres.
    - apply singletons_ne. }
  split; [now apply (streaming_tail_f item st c delivered pending s)|].
  now destruct (tail_f_contract item st (@dchain item st c) (@singletons item delivered) pending s Hr Hrem Hq).
Qed.
