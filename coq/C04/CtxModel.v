(* C04: RECORD CONTEXT in the data-carrying model with done flags.
   Go: every RecordAndContext carries a Context (NR, FNR, FILENAME).  A record's context is stamped by the reader when
   the record is read and never changes: in the model a record IS its own context (the instances use rec = NR).  The
   END-OF-STREAM MARKER carries the reader's context at the moment the reader stops (pkg/input: the record reader's
   running context, NR = number of records it has handed over); every verb forwards that same marker, and put/filter
   run their end blocks with it (put_or_filter.go: runtimeState.Update(nil, &inrecAndContext.Context)).  So NR in an
   end block = the number of records the producer had handed over when it sent the marker -- one number per run, the
   same for every verb.
   Model: the state of DataFlags.v plus that counter ([handed]); a producer hand-over adds the records of the batch;
   text produced by an end block may contain the symbol "NR" ([inr None] in the instances), rendered with the final
   counter.  Steps, capacities, flags: exactly DataFlags.v (every step here projects to a step there).
   Results: (1) for chains WITHOUT early-exit verbs (no verb ever raises the flag; printing allowed anywhere) every
   exited run has handed over every record, so NR in end blocks and the whole stdout are the same for every schedule;
   (2) with an early-exit verb upstream the statement is FALSE of the faithful model: `head -n 1 then put -q
   'end{print NR}'` has two exited runs printing different NR (the known finding). *)
From Coq Require Import List Bool Arith ZArith Lia.
Import ListNotations.
From Miller Require Import C04.Model C04.DataFlags C04.EarlyExit C04.EarlyInst C04.Drained.
Local Open Scope nat_scope.

Section Ctx.
  Context {rec str st : Type}.
  Notation Fstage := (@fstage rec str st).
  Notation Fstate := (@fstate rec str st).
  Notation Item := (@item rec str).
  Notation Verb := (@verb rec str st).
  Variable keep : nat.

  Definition count_recs (b : list Item) : nat := length (filter is_rec b).
  Fixpoint total_recs (bs : list (list Item)) : nat :=
    match bs with [] => 0 | b :: t => count_recs b + total_recs t end.

  (* records handed over by the producer step enabled in s (0 if that step is not a hand-over of a data batch) *)
  Definition delta (s : Fstate) : nat :=
    match frd s, frem s with FSending, b :: _ => count_recs b | _, _ => 0 end.

  Definition cstate := (Fstate * nat)%type.
  Definition csuccs (c : cstate) : list cstate :=
    map (fun s' => (s', snd c + delta (fst c))) (freader_steps keep (fst c))
    ++ map (fun s' => (s', snd c)) (fchain_steps (fst c) ++ fwriter_steps (fst c) ++ fmain_steps (fst c)).
  Definition cstep (c c' : cstate) : Prop := In c' (csuccs c).
  Inductive creach (c0 : cstate) : cstate -> Prop :=
  | creach_refl : creach c0 c0
  | creach_step c c' : creach c0 c -> cstep c c' -> creach c0 c'.
  Definition cinit (vs : list (Verb * st)) (bs : list (list Item)) : cstate := (finit vs bs, 0).

  Fixpoint crun_sched (sched : list nat) (c : cstate) : option cstate :=
    match sched with
    | [] => Some c
    | i :: rest => match nth_error (csuccs c) i with Some c' => crun_sched rest c' | None => None end
    end.

  Lemma crun_sched_reach sched : forall c0 c c', creach c0 c -> crun_sched sched c = Some c' -> creach c0 c'.
  Proof.
    induction sched as [|i rest IH]; intros c0 c c' Hr H; cbn in H.
    - now inversion H; subst.
    - destruct (nth_error (csuccs c) i) as [c1|] eqn:E0; [|discriminate].
      eapply IH; [|exact H]. eapply creach_step; [exact Hr|]. unfold cstep. eapply nth_error_In; eauto.
  Qed.

  (* projection: the counter is a ghost *)
  Lemma cstep_fstep (c c' : cstate) : cstep c c' -> fstep keep (fst c) (fst c').
  Proof.
    unfold cstep, csuccs, fstep, fsuccs. rewrite !in_app_iff. intros [H|H].
    - apply in_map_iff in H as (s' & <- & Hin). left. exact Hin.
    - apply in_map_iff in H as (s' & <- & Hin). right. rewrite !in_app_iff in Hin. exact Hin.
  Qed.

  Lemma creach_freach vs bs c : creach (cinit vs bs) c -> freach keep (finit vs bs) (fst c).
  Proof. induction 1 as [|c c' _ IH Hs]; [apply freach_refl|]. eapply freach_step; [exact IH|now apply cstep_fstep]. Qed.

  (* ---------- chains without early-exit verbs: the done channel of the producer stays empty ---------- *)
  Definition rd_done (s : Fstate) : bool := match frd s with FRDone => true | _ => false end.
  Definition NoFlag (s : Fstate) : Prop := rd_done s = true \/ fdn s = 0.

  Lemma GI0_first (s : Fstate) : GI 0 s -> rd_done s = false ->
    match fvs s with [] => True | g :: _ => is_flag_pc (fp g) = false end.
  Proof.
    intros [H|[_ HC]] Hd; [unfold rd_done in Hd; rewrite H in Hd; discriminate|].
    destruct (fvs s) as [|g rest]; [exact I|]. cbn in HC. destruct HC as (_ & _ & (_ & _ & R3) & _). exact R3.
  Qed.

  Lemma NoFlag_step (s s' : Fstate) : GI 0 s -> NoFlag s -> fstep keep s s' -> NoFlag s'.
  Proof.
    intros HG HN. unfold fstep, fsuccs. rewrite !in_app_iff. intros [H|[H|[H|H]]].
    - unfold freader_steps in H. unfold NoFlag, rd_done in *. destruct (frd s) eqn:Er; [| |destruct H].
      + destruct HN as [HN|HN]; [discriminate|]. destruct (0 <? fdn s); destruct H as [<-|[]]; cbn; auto.
      + destruct HN as [HN|HN]; [discriminate|].
        destruct (fvs s) as [|v rest]; [destruct H|]. destruct (length (fq v) <? reader_cap); [|destruct H].
        destruct (frem s); destruct H as [<-|[]]; cbn; auto.
    - unfold fchain_steps in H. apply in_map_iff in H as ([[d' vs'] wq'] & <- & Hin). unfold NoFlag, rd_done in *. cbn.
      destruct (frd s) eqn:Er; auto.
      + right. destruct HN as [HN|HN]; [discriminate|].
        assert (Hd : rd_done s = false) by (unfold rd_done; now rewrite Er).
        pose proof (GI0_first s HG Hd) as HF. destruct (fvs s) as [|g rest]; [destruct Hin|].
        rewrite (fchain_d_same g rest (fdn s) (fwq s) d' vs' wq' HF Hin). exact HN.
      + right. destruct HN as [HN|HN]; [discriminate|].
        assert (Hd : rd_done s = false) by (unfold rd_done; now rewrite Er).
        pose proof (GI0_first s HG Hd) as HF. destruct (fvs s) as [|g rest]; [destruct Hin|].
        rewrite (fchain_d_same g rest (fdn s) (fwq s) d' vs' wq' HF Hin). exact HN.
    - unfold fwriter_steps in H. unfold NoFlag, rd_done in *. destruct (fwr s); [|destruct H| |destruct H].
      + destruct (fwq s); [destruct H|]. destruct H as [<-|[]]. exact HN.
      + destruct H as [<-|[]]. exact HN.
    - unfold fmain_steps in H. unfold NoFlag, rd_done in *. destruct (fmn s); [| | |destruct H].
      + destruct (fdoneq s); [|destruct H]. destruct H as [<-|[]]; exact HN.
      + destruct H as [<-|[]]; exact HN.
      + destruct H as [<-|[]]; exact HN.
  Qed.

  (* the counter: everything not handed over yet is still with the producer *)
  Definition Cnt (total : nat) (c : cstate) : Prop :=
    if rd_done (fst c) then snd c = total else snd c + total_recs (frem (fst c)) = total.

  Lemma Cnt_step total (c c' : cstate) : NoFlag (fst c) -> Cnt total c -> cstep c c' -> Cnt total c'.
  Proof.
    destruct c as [s n]. cbn [fst snd]. intros HN HC. unfold cstep, csuccs. cbn [fst snd]. rewrite in_app_iff. intros [H|H].
    - apply in_map_iff in H as (s' & <- & Hin). unfold Cnt, delta, rd_done in *. cbn [fst snd] in *.
      unfold freader_steps in Hin. unfold NoFlag, rd_done in HN. revert HC. destruct (frd s) eqn:Er; [| |destruct Hin]; intros HC.
      + destruct HN as [HN|HN]; [discriminate|]. rewrite HN in Hin. cbn in Hin. destruct Hin as [<-|[]]. cbn in *. lia.
      + destruct (fvs s) as [|v rest]; [destruct Hin|]. destruct (length (fq v) <? reader_cap); [|destruct Hin].
        destruct (frem s) as [|b r] eqn:Em; destruct Hin as [<-|[]]; cbn in *; lia.
    - apply in_map_iff in H as (s' & <- & Hin). unfold Cnt, rd_done in *. cbn [fst snd] in *.
      assert (E0 : frd s' = frd s /\ frem s' = frem s).
      { rewrite !in_app_iff in Hin. destruct Hin as [Hin|[Hin|Hin]].
        - unfold fchain_steps in Hin. apply in_map_iff in Hin as ([[d' vs'] wq'] & <- & _). auto.
        - unfold fwriter_steps in Hin. destruct (fwr s); [|destruct Hin| |destruct Hin].
          + destruct (fwq s); [destruct Hin|]. destruct Hin as [<-|[]]. auto.
          + destruct Hin as [<-|[]]. auto.
        - unfold fmain_steps in Hin. destruct (fmn s); [| | |destruct Hin].
          + destruct (fdoneq s); [|destruct Hin]. destruct Hin as [<-|[]]; auto.
          + destruct Hin as [<-|[]]; auto.
          + destruct Hin as [<-|[]]; auto. }
      destruct E0 as [-> ->]. exact HC.
  Qed.

  Lemma ctx_invariants (vs : list (Verb * st)) bs c :
    chain_ok 0 vs -> forallb recs_only bs = true -> creach (cinit vs bs) c ->
    NoFlag (fst c) /\ Cnt (total_recs bs) c.
  Proof.
    intros Hc Hb. induction 1 as [|c c' Hr [IN IC] Hs].
    - split; [right; reflexivity|]. unfold Cnt, cinit, rd_done; cbn. reflexivity.
    - destruct (flat_alpha_invariant keep 0 vs bs (fst c) Hc Hb (creach_freach _ _ _ Hr)) as [HG _].
      split; [eapply NoFlag_step; eauto; now apply cstep_fstep|eapply Cnt_step; eauto].
  Qed.

  (* (1) chains without early-exit verbs: every exited run handed over every record and wrote the sequential result *)
  Theorem ctx_determinism_no_early_exit (vs : list (Verb * st)) bs c :
    chain_ok 0 vs -> forallb recs_only bs = true -> creach (cinit vs bs) c -> ffinal (fst c) = true ->
    snd c = total_recs bs /\ flat (fout (fst c)) = flat (seq_chain vs (whole bs)).
  Proof.
    intros Hc Hb Hr Hf. pose proof (creach_freach _ _ _ Hr) as Hfr. split.
    - destruct (ctx_invariants vs bs c Hc Hb Hr) as [_ HC].
      destruct (exited_run_is_drained keep vs bs (fst c) Hfr Hf) as (Hd & _ & _).
      unfold Cnt, rd_done in HC. now rewrite Hd in HC.
    - now apply (early_exit_determinism_exited keep 0 vs bs (fst c)).
  Qed.

  (* ... hence, whatever the rendering of NR into the end-block text, any two exited runs print the same *)
  Corollary ctx_two_runs_agree {out : Type} (render : nat -> list Item -> out) (vs : list (Verb * st)) bs c1 c2 :
    chain_ok 0 vs -> forallb recs_only bs = true ->
    creach (cinit vs bs) c1 -> ffinal (fst c1) = true -> creach (cinit vs bs) c2 -> ffinal (fst c2) = true ->
    render (snd c1) (flat (fout (fst c1))) = render (snd c2) (flat (fout (fst c2))).
  Proof.
    intros Hc Hb H1 F1 H2 F2.
    destruct (ctx_determinism_no_early_exit vs bs c1 Hc Hb H1 F1) as [-> ->].
    destruct (ctx_determinism_no_early_exit vs bs c2 Hc Hb H2 F2) as [-> ->]. reflexivity.
  Qed.
End Ctx.

(* ---------------- instances: rec = the record's NR; text = Some p (literal) or None (the symbol NR of an end block) *)
Definition CVerb := @verb nat (option nat) ist.
Inductive cdesc := CCat | CHead (n : nat) | CPrintNR | CEndNR | CTac.
Definition cverb_of (d : cdesc) : CVerb :=
  match d with
  | CCat => mkVerb (fun x r => (x, [inl r])) (fun _ => []) (fun _ => false) false
  | CHead n => mkVerb (fun x r => ((S (fst x), snd x), if S (fst x) <=? n then [inl r] else []))
                      (fun _ => []) (fun x => n <? fst x) false
  | CPrintNR => mkVerb (fun x r => (x, [inr (Some r); inl r])) (fun _ => []) (fun _ => false) false   (* put 'print NR': the record's own NR *)
  | CEndNR => mkVerb (fun x r => (x, [])) (fun _ => [inr None]) (fun _ => false) false                (* put -q 'end{print NR}' *)
  | CTac => mkVerb (fun x r => ((fst x, r :: snd x), [])) (fun x => map inl (snd x)) (fun _ => false) false
  end.
Definition cchain (ds : list cdesc) : list (CVerb * ist) := map (fun d => (cverb_of d, x0)) ds.
Definition cbatches (bs : list (list nat)) : list (list (@item nat (option nat))) := map (map inl) bs.

(* what is on stdout: (0, r) a record, (1, p) literal text, (2, n) the end block's NR *)
Definition render (n : nat) (l : list (@item nat (option nat))) : list (nat * nat) :=
  map (fun i => match i with inl r => (0, r) | inr (Some p) => (1, p) | inr None => (2, n) end) l.

Definition no_head (d : cdesc) : bool := match d with CHead _ => false | _ => true end.

Lemma cchain_ok0 ds : forallb no_head ds = true -> chain_ok 0 (cchain ds).
Proof.
  induction ds as [|d t IH]; intros H; [exact I|]. cbn in H. apply andb_true_iff in H as [Hd Ht]. cbn. split; [|now apply IH].
  destruct d; try discriminate; intros x; reflexivity.
Qed.

Lemma cbatches_recs bs : forallb recs_only (cbatches bs) = true.
Proof.
  induction bs as [|b bs IH]; [reflexivity|]. unfold cbatches in *. cbn [map forallb]. apply andb_true_iff. split; [|exact IH].
  unfold recs_only. induction b as [|a b IHb]; [reflexivity|exact IHb].
Qed.

(* (1) for chains of cat / tac / put 'print NR' / put -q 'end{print NR}' (no head), any batching, any producer shape *)
Theorem ctx_determinism_inst keep (ds : list cdesc) (bs : list (list nat)) c1 c2 :
  forallb no_head ds = true ->
  creach keep (cinit (cchain ds) (cbatches bs)) c1 -> ffinal (fst c1) = true ->
  creach keep (cinit (cchain ds) (cbatches bs)) c2 -> ffinal (fst c2) = true ->
  render (snd c1) (flat (fout (fst c1))) = render (snd c2) (flat (fout (fst c2))).
Proof.
  intros H. apply (ctx_two_runs_agree keep render); [now apply cchain_ok0|apply cbatches_recs].
Qed.

(* (2) the known finding on the faithful model: head -n 1 then put -q 'end{print NR}', six one-record batches *)
Definition head_endnr : list (CVerb * ist) := cchain [CHead 1; CEndNR].
Definition six : list (list (@item nat (option nat))) := cbatches [[1]; [2]; [3]; [4]; [5]; [6]].
Definition cschedA : list nat := Eval vm_compute in sched_first 1 400 (finit head_endnr six).
Definition cschedB : list nat := Eval vm_compute in sched_lazy 1 400 (finit head_endnr six).

Theorem end_NR_downstream_of_head_refuted :
  exists c1 c2, creach 1 (cinit head_endnr six) c1 /\ creach 1 (cinit head_endnr six) c2
                /\ ffinal (fst c1) = true /\ ffinal (fst c2) = true
                /\ render (snd c1) (flat (fout (fst c1))) <> render (snd c2) (flat (fout (fst c2))).
Proof.
  destruct (crun_sched 1 cschedA (cinit head_endnr six)) as [c1|] eqn:E1; [|vm_compute in E1; discriminate].
  destruct (crun_sched 1 cschedB (cinit head_endnr six)) as [c2|] eqn:E2; [|vm_compute in E2; discriminate].
  exists c1, c2.
  split; [eapply crun_sched_reach; [apply creach_refl|exact E1]|].
  split; [eapply crun_sched_reach; [apply creach_refl|exact E2]|].
  vm_compute in E1. vm_compute in E2. inversion E1; subst c1. inversion E2; subst c2.
  split; [reflexivity|]. split; [reflexivity|]. vm_compute. discriminate.
Qed.

(* non-vacuity of (1): put 'print NR' then tac then put -q 'end{print NR}' has an exited run; NR in the end block is 6 *)
Definition ctx_chain : list cdesc := [CPrintNR; CTac; CEndNR].
Definition cschedC : list nat := Eval vm_compute in sched_lazy 1 600 (finit (cchain ctx_chain) six).
Example ctx_nonvacuous :
  forallb no_head ctx_chain = true /\
  exists c, crun_sched 1 cschedC (cinit (cchain ctx_chain) six) = Some c /\ ffinal (fst c) = true /\ snd c = 6
            /\ render (snd c) (flat (fout (fst c))) = [(1,1);(1,2);(1,3);(1,4);(1,5);(1,6);(2,6)].
Proof.
  split; [reflexivity|].
  destruct (crun_sched 1 cschedC (cinit (cchain ctx_chain) six)) as [c|] eqn:E0; [|vm_compute in E0; discriminate].
  exists c. split; [reflexivity|]. vm_compute in E0. inversion E0; subst c. vm_compute. auto.
Qed.

(* ---- correspondence with the real binary (harness): chain, (records, batch size), observed stdout as (tag, value):
   (0, i) a record i=<i>, (1, p) the line p<NR of the record>, (2, n) the line e<NR in the end block> ---- *)
Local Open Scope Z_scope.
Definition cdesc_of (z : Z) : cdesc :=
  if z =? 0 then CCat else if z =? 1 then CPrintNR else if z =? 2 then CEndNR else if z =? 3 then CTac
  else CHead (Z.to_nat (z - 10)).
Local Open Scope nat_scope.
Definition cmodel_out (ds : list cdesc) (bs : list (list nat)) : list (nat * nat) :=
  render (length (concat bs)) (flat (seq_chain (cchain ds) (whole (cbatches bs)))).
Definition pair_eqb (a b : nat * nat) : bool := Nat.eqb (fst a) (fst b) && Nat.eqb (snd a) (snd b).
Fixpoint plist_eqb (a b : list (nat * nat)) : bool :=
  match a, b with
  | [], [] => true
  | x :: a', y :: b' => pair_eqb x y && plist_eqb a' b'
  | _, _ => false
  end.
(* outcomes the model allows: without an early-exit verb exactly the sequential result with NR = all records
   (C04_context_determinism_without_early_exit); with one, the sequential result on some truncation of the input at a
   batch boundary with NR = the records of that truncation *)
Definition ctx_chk (c : list Z * (Z * Z) * list (Z * Z)) : bool :=
  let '(ch, (n, b), obs) := c in
  let ds := map cdesc_of ch in
  let bs := chunks (S (Z.to_nat n)) (Z.to_nat b) (seq 1 (Z.to_nat n)) in
  let obs' := map (fun p => (Z.to_nat (fst p), Z.to_nat (snd p))) obs in
  if forallb no_head ds then plist_eqb obs' (cmodel_out ds bs)
  else existsb (fun j => plist_eqb obs' (cmodel_out ds (firstn j bs))) (seq 0 (S (length bs))).

Example ctx_chk_examples :
  ctx_chk ([1; 3; 2], (3, 2), [(1, 1); (1, 2); (1, 3); (2, 3)])%Z = true
  /\ ctx_chk ([2], (5, 2), [(2, 5)])%Z = true
  /\ ctx_chk ([2], (5, 2), [(2, 4)])%Z = false
  /\ ctx_chk ([11; 2], (7, 2), [(2, 4)])%Z = true
  /\ ctx_chk ([11; 2], (7, 2), [(2, 3)])%Z = false.
Proof. vm_compute. auto. Qed.
