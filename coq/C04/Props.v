(* C04 property theorems (statements only; proofs in Progress.v / Batch.v). *)
From Coq Require Import List Bool Arith.
Import ListNotations.
From Miller Require Import C04.Model C04.Search C04.Progress C04.Batch C04.Termination C04.DataPipeline.

(* Every run of the repaired protocol (non-blocking done-flag sends) can always take a step until main has
   exited: no deadlock, for every number of verbs, every number of batches, every verb behaviour (relaying,
   raising its own flag like head, swallowing it like tee, failing) and every interleaving. *)
Theorem C04_no_deadlock :
  forall (k : nat) (kinds : list bool) (s : state),
    kinds <> [] -> reachable false (init k kinds) s -> is_final s = false -> exists s', step false s s'.
Proof. exact no_deadlock. Qed.
Print Assumptions C04_no_deadlock.

(* The protocol with BLOCKING done-flag sends (the code before the fix: commit) deadlocks without any failure:
   two verbs that both raise the flag (head then head), two batches. *)
Theorem C04_blocking_relay_deadlocks :
  exists s, reachable true (init 2 [false; false]) s /\ succs true s = [] /\ is_final s = false
            /\ cfailed (ch s) = false.
Proof. exact blocking_relay_deadlocks. Qed.
Print Assumptions C04_blocking_relay_deadlocks.

(* Output does not depend on how the stream is cut into batches, for every per-record state machine verb. *)
Theorem C04_batch_independence :
  forall (item st : Type) (vstep : st -> item -> st * list item) (vfin : st -> list item)
         (s0 : st) (bs : list (list item)),
    run_batched item st vstep vfin s0 bs = run item st vstep vfin s0 (concat bs).
Proof. exact batch_independence. Qed.
Print Assumptions C04_batch_independence.

Theorem C04_any_two_batchings_agree :
  forall (item st : Type) (vstep : st -> item -> st * list item) (vfin : st -> list item)
         (s0 : st) (bs bs' : list (list item)),
    concat bs = concat bs' ->
    run_batched item st vstep vfin s0 bs = run_batched item st vstep vfin s0 bs'.
Proof. exact any_two_batchings_agree. Qed.
Print Assumptions C04_any_two_batchings_agree.

(* No run is infinite: every step strictly decreases a natural-number measure (batches move towards the writer,
   flags move upstream or are dropped, every failure is charged once) -- under BOTH done-flag protocols and with
   failures of reader, verbs and writer. *)
Theorem C04_no_infinite_runs : forall blocking, well_founded (fun s' s => step blocking s s').
Proof. exact no_infinite_runs. Qed.
Print Assumptions C04_no_infinite_runs.

(* Hence every run of the repaired protocol terminates with main exited: from every reachable state a final state
   is reached (no deadlock + no infinite run), for every chain length, number of batches and interleaving. *)
Theorem C04_every_run_terminates :
  forall (k : nat) (kinds : list bool), kinds <> [] ->
  forall s, reachable false (init k kinds) s -> exists s', reachable false s s' /\ is_final s' = true.
Proof. exact every_run_reaches_final. Qed.
Print Assumptions C04_every_run_terminates.

(* Schedule independence of the output, for chains without early-exit flags and without failures: in the
   data-carrying refinement of the protocol (batches of items, every verb an arbitrary deterministic per-batch
   state machine, bounded FIFO channels), under EVERY interleaving a run that has drained wrote exactly the
   sequential composition of the verbs applied to the reader's batches -- records in chain-defined order, none
   lost or duplicated, print/emit text at the position where it was produced (strings are items of the batches). *)
Theorem C04_schedule_independence_signal_free :
  forall (item vst : Type) (vs : list (dverb item vst * vst)) (bs : list (batch item)) (s : dstate item vst),
    dreach item vst (dinit item vst vs bs) s -> dquiescent item vst s ->
    dwritten item vst s = seq_chain item vst vs bs.
Proof. exact schedule_independence. Qed.
Print Assumptions C04_schedule_independence_signal_free.

(* ... and at every moment of every run, what has been written so far is a prefix of that sequential result *)
Theorem C04_written_is_prefix_of_sequential_result :
  forall (item vst : Type) (vs : list (dverb item vst * vst)) (bs : list (batch item)) (s : dstate item vst),
    dreach item vst (dinit item vst vs bs) s ->
    exists rest, seq_chain item vst vs bs = dwritten item vst s ++ rest.
Proof. exact written_is_prefix. Qed.
Print Assumptions C04_written_is_prefix_of_sequential_result.

(* non-vacuity: the initial state is reachable and not final; a three-verb run exists that terminates *)
Example C04_nonvacuous :
  is_final (init 3 [false; true; false]) = false /\ [false; true; false] <> []
  /\ exists sched s, run_sched false sched (init 1 [false]) = Some s /\ is_final s = true.
Proof.
  split; [reflexivity|]. split; [discriminate|].
  exists [0;0;0;0;0;0;0;0;0;0;0;0;0;0;0;0;0;0].
  destruct (run_sched false [0;0;0;0;0;0;0;0;0;0;0;0;0;0;0;0;0;0] (init 1 [false])) as [s|] eqn:E.
  - exists s. split; [reflexivity|]. vm_compute in E. inversion E; subst. reflexivity.
  - vm_compute in E. discriminate.
Qed.

(* ======================= the tail -f contract (model in FlushModel.v, proofs in Flush.v) ======================= *)
From Miller Require Import C04.DataPipeline C04.Batch C04.FlushModel C04.Flush.

(* With --fflush (the writer flushes its bufio.Writer after every item): for EVERY chain of verbs (arbitrary
   deterministic per-batch state machines), every input cut into batches in any way, every interleaving of reader,
   verbs and writer: in every reachable state in which the reader has handed over exactly the batches [delivered]
   (the lines of [pending] have not arrived yet) and the verbs and the writer have come to rest, a reader of mlr's
   stdout already sees exactly the chain's sequential output for the delivered batches, and nothing is left in the
   buffer -- whatever arrives later. *)
Theorem C04_tail_f_contract :
  forall (item vst : Type) (vs : list (dverb item vst * vst)) (delivered pending : list (batch item))
         (s : fstate item vst),
    freach item vst true (finit item vst vs (delivered ++ pending)) s ->
    rrem item vst (fd item vst s) = pending -> fquiet item vst s = true ->
    flushed item vst s = items item (seq_chain item vst vs delivered) /\ buffered item vst s = [].
Proof. exact tail_f_contract. Qed.
Print Assumptions C04_tail_f_contract.

(* the rest condition is what it says: no verb step and no writer step is enabled *)
Theorem C04_quiet_means_no_verb_or_writer_step :
  forall (item vst : Type) (fl : bool) (s : fstate item vst),
    fquiet item vst s = true -> nonreader_fsuccs item vst fl s = [].
Proof. exact quiet_no_step. Qed.
Print Assumptions C04_quiet_means_no_verb_or_writer_step.

(* The contract in the words of the property text: --fflush, --records-per-batch 1, a chain of FULLY STREAMING
   verbs (per-record state machines which, wherever the input stops, have nothing left to emit at end of stream):
   once the records [delivered] have arrived and the pipeline is at rest, stdout shows the COMPLETE output of the
   chain on those records (what `mlr chain` prints for a file holding exactly them) -- before any further input. *)
Theorem C04_tail_f_streaming_chain :
  forall (item st : Type) (c : list (sverb item st * st)) (delivered : list item) (pending : list (batch item))
         (s : fstate item st),
    all_streaming item st c ->
    freach item st true (finit item st (dchain item st c) (singletons item delivered ++ pending)) s ->
    rrem item st (fd item st s) = pending -> fquiet item st s = true ->
    flushed item st s = chain_out item st c delivered.
Proof. exact streaming_tail_f. Qed.
Print Assumptions C04_tail_f_streaming_chain.

(* ... for each i: after the i-th record of any input has been delivered *)
Theorem C04_tail_f_each_record :
  forall (item st : Type) (c : list (sverb item st * st)) (records : list item) (i : nat) (s : fstate item st),
    all_streaming item st c ->
    freach item st true (finit item st (dchain item st c) (singletons item records)) s ->
    rrem item st (fd item st s) = singletons item (skipn i records) -> fquiet item st s = true ->
    flushed item st s = chain_out item st c (firstn i records).
Proof. exact streaming_tail_f_each_record. Qed.
Print Assumptions C04_tail_f_each_record.

(* while the pipe is open, a chain of fully streaming verbs has produced the complete output for what it was given *)
Theorem C04_streaming_chain_visible :
  forall (item st : Type) (c : list (sverb item st * st)),
    all_streaming item st c -> forall bs : list (batch item), noeos item bs = true ->
    items item (seq_chain item st (dchain item st c) bs) = chain_out item st c (items item bs).
Proof. exact streaming_chain_visible. Qed.
Print Assumptions C04_streaming_chain_visible.

(* without --fflush only stdout + buffer is determined ... *)
Theorem C04_no_fflush_only_sum_determined :
  forall (item vst : Type) (fl : bool) (vs : list (dverb item vst * vst)) (delivered pending : list (batch item))
         (s : fstate item vst),
    freach item vst fl (finit item vst vs (delivered ++ pending)) s ->
    rrem item vst (fd item vst s) = pending -> fquiet item vst s = true ->
    flushed item vst s ++ buffered item vst s = items item (seq_chain item vst vs delivered).
Proof. exact no_fflush_partial. Qed.
Print Assumptions C04_no_fflush_only_sum_determined.

(* ... and the contract FAILS without --fflush: cat, one record delivered, at rest, nothing visible *)
Theorem C04_tail_f_without_fflush_refuted :
  exists s : fstate nat nat,
    freach nat nat false (finit nat nat (dchain nat nat [(v_cat nat nat, 0)]) (singletons nat [7] ++ [])) s /\
    rrem nat nat (fd nat nat s) = [] /\ fquiet nat nat s = true /\ flushed nat nat s = [] /\ buffered nat nat s = [7]
    /\ chain_out nat nat [(v_cat nat nat, 0)] [7] = [7].
Proof. exact no_fflush_refuted. Qed.
Print Assumptions C04_tail_f_without_fflush_refuted.

(* ... and FAILS for a retaining verb even with --fflush: tac *)
Theorem C04_tail_f_retaining_verb_refuted :
  exists s : fstate nat (list nat),
    freach nat (list nat) true (finit nat (list nat) (dchain nat (list nat) [(v_tac nat, [])]) (singletons nat [7] ++ [])) s /\
    rrem nat (list nat) (fd nat (list nat) s) = [] /\ fquiet nat (list nat) s = true /\ flushed nat (list nat) s = []
    /\ chain_out nat (list nat) [(v_tac nat, [])] [7] = [7].
Proof. exact retaining_verb_refuted. Qed.
Print Assumptions C04_tail_f_retaining_verb_refuted.

(* fully streaming: cat, put/sec2gmt/rename/... (stateful per-record maps), filter/grep/decimate (0 or 1 outputs),
   nest --explode/repeat (0..n outputs), tee (identity + side effect), head (until and after its quota);
   not fully streaming: tac, step -a shift_lead *)
Theorem C04_streaming_instances :
  forall (item st : Type) (x0 : st),
    (fully_streaming item st (v_cat item st) x0)
    /\ (forall g upd, fully_streaming item st (v_map item st g upd) x0)
    /\ (forall p upd, fully_streaming item st (v_filter item st p upd) x0)
    /\ (forall g upd, fully_streaming item st (v_flatmap item st g upd) x0)
    /\ (forall log, fully_streaming item st (v_tee item st log) x0)
    /\ (forall k c0, fully_streaming item nat (v_head item k) c0).
Proof.
  exact (fun item st x0 =>
    conj (cat_streaming item st x0)
   (conj (fun g upd => map_streaming item st g upd x0)
   (conj (fun p upd => filter_streaming item st p upd x0)
   (conj (fun g upd => flatmap_streaming item st g upd x0)
   (conj (fun log => tee_streaming item st log x0)
         (fun k c0 => head_streaming item k c0)))))).
Qed.
Print Assumptions C04_streaming_instances.

Theorem C04_retaining_verbs_not_streaming :
  ~ fully_streaming nat (list nat) (v_tac nat) [] /\ ~ fully_streaming nat (option nat) (v_lead nat (fun p _ => p)) None.
Proof. exact (conj tac_not_streaming lead_not_streaming). Qed.
Print Assumptions C04_retaining_verbs_not_streaming.

(* non-vacuity: cat then head -n 2, three records, two delivered: all hypotheses of the contract hold in a run of the
   model and both records are on stdout *)
Example C04_tail_f_nonvacuous :
  let c := [(v_cat nat nat, 0); (v_head nat 2, 0)] in
  all_streaming nat nat c /\
  exists s : fstate nat nat,
    freach nat nat true (finit nat nat (dchain nat nat c) (singletons nat [5; 6] ++ singletons nat [7])) s /\
    rrem nat nat (fd nat nat s) = singletons nat [7] /\ fquiet nat nat s = true /\ flushed nat nat s = [5; 6]
    /\ chain_out nat nat c [5; 6] = [5; 6].
Proof. exact tail_f_nonvacuous. Qed.

(* ======================= the writer's flush decision; at rest = no enabled step (coq/C04/Flush.v) ======================= *)
(* The writer step of the tail -f model IS channelWriterHandleBatch's loop item by item with the code's rule "flush
   after EVERY item, record or print/dump/comment text, when --fflush" (then stream.go's final Flush on end of stream) *)
Theorem C04_writer_step_is_per_item_flush :
  forall (item vst : Type) (fflush : bool) (s : fstate item vst) (b : batch item) (q : list (batch item)),
    dwq item vst (fd item vst s) = b :: q -> (fflush = true -> buffered item vst s = []) ->
    fwriter_succs item vst fflush s =
      let r := write_items item fflush (flush_every_item item) (fst b) (flushed item vst s) (buffered item vst s) in
      let d' := mkD item vst (rrem item vst (fd item vst s)) (dvs item vst (fd item vst s)) q (dwritten item vst (fd item vst s) ++ [b]) in
      [if snd b then mkF item vst d' (fst r ++ snd r) [] else mkF item vst d' (fst r) (snd r)].
Proof. exact fwriter_succs_per_item. Qed.
Print Assumptions C04_writer_step_is_per_item_flush.

(* a rule that flushes after records only leaves a text-only batch (put -q 'print ...', dump, passed comments) in the
   buffer although --fflush is on, while the code's rule makes it visible *)
Theorem C04_flush_after_records_only_refuted :
  exists (after : nat + nat -> bool) (l : list (nat + nat)),
    (forall r, after (inl r) = true) /\ l <> [] /\
    write_items (nat + nat) true after l [] [] = ([], l) /\
    write_items (nat + nat) true (flush_every_item (nat + nat)) l [] [] = (l, []).
Proof. exact flush_after_records_only_refuted. Qed.
Print Assumptions C04_flush_after_records_only_refuted.

(* "at rest" is EXACTLY "no verb step and no writer step is enabled", while the batches handed over so far are non-end
   batches (the pipe is open) and the verbs pass the end-of-stream bit through (true of every verb driven by
   runSingleTransformerBatch) *)
Theorem C04_at_rest_iff_no_enabled_step :
  forall (item vst : Type) (fl : bool) (vs : list (dverb item vst * vst)) (delivered pending : list (batch item))
         (s : fstate item vst),
    all_pres item vst vs -> forallb (ne item) delivered = true ->
    freach item vst fl (finit item vst vs (delivered ++ pending)) s -> rrem item vst (fd item vst s) = pending ->
    (fquiet item vst s = true <-> nonreader_fsuccs item vst fl s = []).
Proof. exact quiet_iff_no_step. Qed.
Print Assumptions C04_at_rest_iff_no_enabled_step.

(* the tail -f contract with the rest condition as enabledness: --fflush, one record per batch, fully streaming verbs,
   the records [delivered] handed over and neither the chain nor the writer able to move: stdout shows the complete
   output of the chain on those records and the buffer is empty *)
Theorem C04_tail_f_streaming_chain_no_enabled_step :
  forall (item st : Type) (c : list (sverb item st * st)) (delivered : list item) (pending : list (batch item))
         (s : fstate item st),
    all_streaming item st c ->
    freach item st true (finit item st (dchain item st c) (singletons item delivered ++ pending)) s ->
    rrem item st (fd item st s) = pending -> nonreader_fsuccs item st true s = [] ->
    flushed item st s = chain_out item st c delivered /\ buffered item st s = [].
Proof. exact streaming_tail_f_no_step. Qed.
Print Assumptions C04_tail_f_streaming_chain_no_enabled_step.

(* ======================= refinement: the data-carrying model with done flags projects onto the skeleton ======================= *)
From Miller Require Import C04.DataFlags C04.Refine C04.EarlyExit C04.EarlyInst.

(* Forward simulation (no stuttering): every step of the data-carrying model (batches of records and strings, per-record
   verbs, head's own flag tied to its counter, relay, tee's swallow, the producer that stops reading on a flag) is a
   step of the control skeleton between the projected states. *)
Theorem C04_data_model_refines_skeleton :
  forall (rec str st : Type) (s s' : @DataFlags.fstate rec str st),
    DataFlags.fstep 1 s s' -> step false (proj s) (proj s').
Proof. exact (@forward_simulation). Qed.
Print Assumptions C04_data_model_refines_skeleton.

(* Converse enabledness: a data state that cannot move projects to a skeleton state that cannot move. *)
Theorem C04_stuck_data_state_projects_to_stuck_skeleton_state :
  forall (rec str st : Type) (s : @DataFlags.fstate rec str st),
    DataFlags.fwr s <> WErr -> DataFlags.fsuccs 1 s = [] -> succs false (proj s) = [].
Proof. exact (@stuck_projects). Qed.
Print Assumptions C04_stuck_data_state_projects_to_stuck_skeleton_state.

(* Transferred: no deadlock and termination of the data-carrying model, for every chain of verbs, every input and
   every interleaving. *)
Theorem C04_data_model_no_deadlock :
  forall (rec str st : Type) (vs : list (@verb rec str st * st)) (bs : list (list (@item rec str))) s,
    vs <> [] -> DataFlags.freach 1 (DataFlags.finit vs bs) s -> ffinal s = false -> exists s', DataFlags.fstep 1 s s'.
Proof. exact (@data_no_deadlock). Qed.
Print Assumptions C04_data_model_no_deadlock.

Theorem C04_data_model_every_run_terminates :
  forall (rec str st : Type) (vs : list (@verb rec str st * st)) (bs : list (list (@item rec str))), vs <> [] ->
  forall s, DataFlags.freach 1 (DataFlags.finit vs bs) s -> exists s', DataFlags.freach 1 s s' /\ ffinal s' = true.
Proof. exact (@data_every_run_terminates). Qed.
Print Assumptions C04_data_model_every_run_terminates.

(* ======================= stdout determinism WITH early-exit verbs ======================= *)
(* For chains Q ++ R (nq = length of Q) in which every verb of Q emits records only (no print/emit text) and obeys
   head's discard invariant (once it wants to raise its flag it never emits again), and no verb of R raises a flag:
   under EVERY interleaving of producer, verbs (own flags, relays, tee swallowing), writer and main, and for both
   producer shapes (keep = 1: line readers; keep = 0: seqgen), a run that has drained wrote -- up to the cutting into
   batches -- exactly the sequential composition of the verbs applied to the WHOLE input: the done signal only
   truncates input the chain would have discarded anyway.
   Here "has drained" is the hypothesis [fquiescent]; C04_exited_run_is_drained below proves it of every exited run, and
   C04_early_exit_determinism_exited is the statement without it. *)
Theorem C04_early_exit_determinism :
  forall (rec str st : Type) (keep nq : nat) (vs : list (@verb rec str st * st)) (bs : list (list (@item rec str))) s,
    chain_ok nq vs -> forallb recs_only bs = true -> DataFlags.freach keep (DataFlags.finit vs bs) s -> fquiescent s ->
    flat (fout s) = flat (DataFlags.seq_chain vs (whole bs)).
Proof. exact (@early_exit_determinism). Qed.
Print Assumptions C04_early_exit_determinism.

(* ... and at every moment of every run what has been written is a prefix of that *)
Theorem C04_early_exit_written_is_prefix :
  forall (rec str st : Type) (keep nq : nat) (vs : list (@verb rec str st * st)) (bs : list (list (@item rec str))) s,
    chain_ok nq vs -> forallb recs_only bs = true -> DataFlags.freach keep (DataFlags.finit vs bs) s ->
    exists rest, flat (DataFlags.seq_chain vs (whole bs)) = flat (fout s) ++ rest.
Proof. exact (@early_exit_prefix). Qed.
Print Assumptions C04_early_exit_written_is_prefix.

(* the same with a COMPUTABLE hypothesis, for chains of cat / tee / head -n k / tac / put 'print': chain_okb holds
   iff no printing verb is upstream of a head *)
Theorem C04_early_exit_determinism_head_tee_tac_chains :
  forall (keep : nat) (ds : list vdesc) (bs : list (list nat)) s,
    chain_okb ds = true ->
    DataFlags.freach keep (DataFlags.finit (chain_of ds) (rec_batches bs)) s -> fquiescent s ->
    flat (fout s) = flat (DataFlags.seq_chain (chain_of ds) (whole (rec_batches bs))).
Proof. exact early_exit_determinism_inst. Qed.
Print Assumptions C04_early_exit_determinism_head_tee_tac_chains.

(* The known-finding class "output statement upstream of an early-exit verb" on the model: put 'print' then head -n 1
   on six one-record batches has two terminated, drained runs with different stdout. *)
Theorem C04_print_upstream_of_head_refuted :
  exists s1 s2, DataFlags.freach 1 (DataFlags.finit print_head four) s1 /\ DataFlags.freach 1 (DataFlags.finit print_head four) s2
                /\ fquiescent s1 /\ fquiescent s2 /\ ffinal s1 = true /\ ffinal s2 = true
                /\ flat (fout s1) <> flat (fout s2).
Proof. exact print_upstream_of_head_refuted. Qed.
Print Assumptions C04_print_upstream_of_head_refuted.

(* non-vacuity: cat, head -n 3, tee, head -n 2, tac satisfies the chain condition and has a terminated drained run
   (in which the producer was cut short) writing records 2 1 *)
Example C04_early_exit_nonvacuous :
  chain_okb hh = true /\
  exists s, frun_sched 1 schedH (DataFlags.finit (chain_of hh) four) = Some s /\ fquiescentb s = true /\ ffinal s = true
            /\ length (frem s) < 3 /\ flat (fout s) = [inl 2; inl 1].
Proof. exact early_exit_nonvacuous. Qed.

(* ======================= every exited run is drained (coq/C04/Drained.v) ======================= *)
From Miller Require Import C04.Drained.

(* For every chain, input, producer shape and interleaving: when main has exited, the producer has sent its
   end-of-stream marker, every verb goroutine has forwarded it and its input channel is EMPTY, and the writer channel is
   EMPTY (queue contents, not only control points: the end-of-stream marker is always the last batch in flight). *)
Theorem C04_exited_run_is_drained :
  forall (rec str st : Type) (keep : nat) (vs : list (@verb rec str st * st)) (bs : list (list (@item rec str))) s,
    DataFlags.freach keep (DataFlags.finit vs bs) s -> ffinal s = true -> fquiescent s.
Proof. exact (@exited_run_is_drained). Qed.
Print Assumptions C04_exited_run_is_drained.

Theorem C04_writer_done_is_drained :
  forall (rec str st : Type) (keep : nat) (vs : list (@verb rec str st * st)) (bs : list (list (@item rec str))) s,
    DataFlags.freach keep (DataFlags.finit vs bs) s -> fwr s = WDone ->
    fquiescent s /\ Forall (fun g => fp g = FDone) (fvs s).
Proof. exact (@writer_done_is_drained). Qed.
Print Assumptions C04_writer_done_is_drained.

(* the early-exit determinism theorem for every run that has EXITED (no "drained" hypothesis) ... *)
Theorem C04_early_exit_determinism_exited :
  forall (rec str st : Type) (keep nq : nat) (vs : list (@verb rec str st * st)) (bs : list (list (@item rec str))) s,
    chain_ok nq vs -> forallb recs_only bs = true -> DataFlags.freach keep (DataFlags.finit vs bs) s -> ffinal s = true ->
    flat (fout s) = flat (DataFlags.seq_chain vs (whole bs)).
Proof. exact (@early_exit_determinism_exited). Qed.
Print Assumptions C04_early_exit_determinism_exited.

(* ... so any two exited runs (any two schedules) of such a chain on the same input wrote the same bytes *)
Theorem C04_two_exited_runs_agree :
  forall (rec str st : Type) (keep nq : nat) (vs : list (@verb rec str st * st)) (bs : list (list (@item rec str))) s1 s2,
    chain_ok nq vs -> forallb recs_only bs = true ->
    DataFlags.freach keep (DataFlags.finit vs bs) s1 -> ffinal s1 = true ->
    DataFlags.freach keep (DataFlags.finit vs bs) s2 -> ffinal s2 = true ->
    flat (fout s1) = flat (fout s2).
Proof. exact (@early_exit_two_exited_runs_agree). Qed.
Print Assumptions C04_two_exited_runs_agree.

(* non-vacuity: the run of C04_early_exit_nonvacuous has exited (ffinal) -- its hypotheses are those of the theorems above *)
Example C04_exited_nonvacuous :
  exists s, DataFlags.freach 1 (DataFlags.finit (chain_of hh) four) s /\ ffinal s = true /\ fquiescent s
            /\ flat (fout s) = [inl 2; inl 1].
Proof.
  destruct early_exit_nonvacuous as (_ & s & Hrun & Hq & Hf & _ & Hout).
  exists s. split; [now apply frun_sched_reach in Hrun|]. split; [exact Hf|]. split; [now apply fquiescentb_ok|exact Hout].
Qed.

(* ======================= every producer shape: no deadlock, termination (coq/C04/KeepGen.v) ======================= *)
From Miller Require Import C04.KeepGen.

(* For EVERY producer shape [keep] (1: line readers; 0: seqgen, `seqgen then head`; any other value): the only step that
   is not a step of the keep = 1 model -- the producer's poll that finds the done flag -- strictly decreases the
   skeleton's termination measure of the projection and preserves its progress invariant.  Hence: *)
Theorem C04_data_model_no_infinite_runs_any_producer :
  forall (rec str st : Type) (keep : nat), well_founded (fun (s' s : @DataFlags.fstate rec str st) => DataFlags.fstep keep s s').
Proof. exact (@data_no_infinite_runs_keep). Qed.
Print Assumptions C04_data_model_no_infinite_runs_any_producer.

Theorem C04_data_model_no_deadlock_any_producer :
  forall (rec str st : Type) (keep : nat) (vs : list (@verb rec str st * st)) (bs : list (list (@item rec str))) s,
    vs <> [] -> DataFlags.freach keep (DataFlags.finit vs bs) s -> ffinal s = false -> exists s', DataFlags.fstep keep s s'.
Proof. exact (@data_no_deadlock_keep). Qed.
Print Assumptions C04_data_model_no_deadlock_any_producer.

Theorem C04_data_model_every_run_terminates_any_producer :
  forall (rec str st : Type) (keep : nat) (vs : list (@verb rec str st * st)) (bs : list (list (@item rec str))), vs <> [] ->
  forall s, DataFlags.freach keep (DataFlags.finit vs bs) s -> exists s', DataFlags.freach keep s s' /\ ffinal s' = true.
Proof. exact (@data_every_run_terminates_keep). Qed.
Print Assumptions C04_data_model_every_run_terminates_any_producer.

(* non-vacuity for the seqgen shape: cat then head -n 2 with keep = 0 has an exited run in which the producer was cut
   short, and it wrote the first two records *)
Definition seqgen_head : list vdesc := [DCat; DHead 2].
Definition schedS : list nat := Eval vm_compute in sched_lazy 0 400 (DataFlags.finit (chain_of seqgen_head) four).
Example C04_seqgen_shape_nonvacuous :
  exists s, frun_sched 0 schedS (DataFlags.finit (chain_of seqgen_head) four) = Some s /\ ffinal s = true
            /\ flat (fout s) = [inl 1; inl 2].
Proof.
  destruct (frun_sched 0 schedS (DataFlags.finit (chain_of seqgen_head) four)) as [s|] eqn:E; [|vm_compute in E; discriminate].
  exists s. split; [reflexivity|]. vm_compute in E. inversion E; subst s. vm_compute. split; reflexivity.
Qed.

(* ======================= record context: NR in end blocks (coq/C04/CtxModel.v) ======================= *)
From Miller Require Import C04.CtxModel.

(* The data model with done flags PLUS the context of the end-of-stream marker (the producer's record count when it
   sends the marker; every verb forwards the same marker, end blocks run with its context).  For chains WITHOUT
   early-exit verbs (no verb ever raises the done flag; printing allowed anywhere), every producer shape, every
   batching and interleaving: an exited run has handed over EVERY record (so NR in every end block is the total record
   count) and wrote the sequential result. *)
Theorem C04_context_determinism_without_early_exit :
  forall (rec str st : Type) (keep : nat) (vs : list (@verb rec str st * st)) (bs : list (list (@item rec str))) (c : cstate),
    chain_ok 0 vs -> forallb recs_only bs = true -> creach keep (CtxModel.cinit vs bs) c -> ffinal (fst c) = true ->
    snd c = total_recs bs /\ flat (fout (fst c)) = flat (DataFlags.seq_chain vs (whole bs)).
Proof. exact (@ctx_determinism_no_early_exit). Qed.
Print Assumptions C04_context_determinism_without_early_exit.

(* ... for chains of cat / tac / put 'print NR' / put -q 'end{print NR}': any two exited runs render the same stdout *)
Theorem C04_context_two_runs_agree_without_head :
  forall (keep : nat) (ds : list cdesc) (bs : list (list nat)) (c1 c2 : cstate),
    forallb no_head ds = true ->
    creach keep (CtxModel.cinit (cchain ds) (cbatches bs)) c1 -> ffinal (fst c1) = true ->
    creach keep (CtxModel.cinit (cchain ds) (cbatches bs)) c2 -> ffinal (fst c2) = true ->
    render (snd c1) (flat (fout (fst c1))) = render (snd c2) (flat (fout (fst c2))).
Proof. exact ctx_determinism_inst. Qed.
Print Assumptions C04_context_two_runs_agree_without_head.

(* the counter is a ghost: every run of the context model is a run of the data model with done flags *)
Theorem C04_context_model_projects :
  forall (rec str st : Type) (keep : nat) (vs : list (@verb rec str st * st)) (bs : list (list (@item rec str))) (c : cstate),
    creach keep (CtxModel.cinit vs bs) c -> DataFlags.freach keep (DataFlags.finit vs bs) (fst c).
Proof. exact (@creach_freach). Qed.
Print Assumptions C04_context_model_projects.

(* The known-finding class "end-block context downstream of an early-exit verb" on the faithful model:
   head -n 1 then put -q 'end{print NR}' on six one-record batches has two exited runs printing different NR. *)
Theorem C04_end_NR_downstream_of_head_refuted :
  exists c1 c2, creach 1 (CtxModel.cinit head_endnr six) c1 /\ creach 1 (CtxModel.cinit head_endnr six) c2
                /\ ffinal (fst c1) = true /\ ffinal (fst c2) = true
                /\ render (snd c1) (flat (fout (fst c1))) <> render (snd c2) (flat (fout (fst c2))).
Proof. exact end_NR_downstream_of_head_refuted. Qed.
Print Assumptions C04_end_NR_downstream_of_head_refuted.

(* non-vacuity: put 'print NR' then tac then put -q 'end{print NR}': an exited run, NR in the end block is 6 *)
Example C04_context_nonvacuous :
  forallb no_head ctx_chain = true /\
  exists c, crun_sched 1 cschedC (CtxModel.cinit (cchain ctx_chain) six) = Some c /\ ffinal (fst c) = true /\ snd c = 6
            /\ render (snd c) (flat (fout (fst c))) = [(1,1);(1,2);(1,3);(1,4);(1,5);(1,6);(2,6)].
Proof. exact ctx_nonvacuous. Qed.
