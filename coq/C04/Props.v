(* C04 property theorems (statements only; proofs in Progress.v / Batch.v). *)
From Coq Require Import List Bool Arith.
Import ListNotations.
From Miller Require Import C04.Model C04.Search C04.Progress C04.Batch C04.Termination C04.DataPipeline.

(* Every run of the repaired protocol (non-blocking done-flag sends) can always take a step until main has
   exited: no deadlock, for every number of verbs, every number of batches, every verb behaviour (relaying,
   raising its own flag like head, swallowing it like tee, failing) and every interleaving. *)
Theorem C04_no_deadlock :
  forall (k : nat) (kinds : list bool) (s : state),
    kinds <> [] -> reachable false (init k kinds) s -> is_final s = false -> exists s', step false s s'.
Proof. exact no_deadlock. Qed.
Print Assumptions C04_no_deadlock.

(* The protocol with BLOCKING done-flag sends (the code before the fix: commit) deadlocks without any failure:
   two verbs that both raise the flag (head then head), two batches. *)
Theorem C04_blocking_relay_deadlocks :
  exists s, reachable true (init 2 [false; false]) s /\ succs true s = [] /\ is_final s = false
            /\ cfailed (ch s) = false.
Proof. exact blocking_relay_deadlocks. Qed.
Print Assumptions C04_blocking_relay_deadlocks.

(* Output does not depend on how the stream is cut into batches, for every per-record state machine verb. *)
Theorem C04_batch_independence :
  forall (item st : Type) (vstep : st -> item -> st * list item) (vfin : st -> list item)
         (s0 : st) (bs : list (list item)),
    run_batched item st vstep vfin s0 bs = run item st vstep vfin s0 (concat bs).
Proof. exact batch_independence. Qed.
Print Assumptions C04_batch_independence.

Theorem C04_any_two_batchings_agree :
  forall (item st : Type) (vstep : st -> item -> st * list item) (vfin : st -> list item)
         (s0 : st) (bs bs' : list (list item)),
    concat bs = concat bs' ->
    run_batched item st vstep vfin s0 bs = run_batched item st vstep vfin s0 bs'.
Proof. exact any_two_batchings_agree. Qed.
Print Assumptions C04_any_two_batchings_agree.

(* No run is infinite: every step strictly decreases a natural-number measure (batches move towards the writer,
   flags move upstream or are dropped, every failure is charged once) -- under BOTH done-flag protocols and with
   failures of reader, verbs and writer. *)
Theorem C04_no_infinite_runs : forall blocking, well_founded (fun s' s => step blocking s s').
Proof. exact no_infinite_runs. Qed.
Print Assumptions C04_no_infinite_runs.

(* Hence every run of the repaired protocol terminates with main exited: from every reachable state a final state
   is reached (no deadlock + no infinite run), for every chain length, number of batches and interleaving. *)
Theorem C04_every_run_terminates :
  forall (k : nat) (kinds : list bool), kinds <> [] ->
  forall s, reachable false (init k kinds) s -> exists s', reachable false s s' /\ is_final s' = true.
Proof. exact every_run_reaches_final. Qed.
Print Assumptions C04_every_run_terminates.

(* Schedule independence of the output, for chains without early-exit flags and without failures: in the
   data-carrying refinement of the protocol (batches of items, every verb an arbitrary deterministic per-batch
   state machine, bounded FIFO channels), under EVERY interleaving a run that has drained wrote exactly the
   sequential composition of the verbs applied to the reader's batches -- records in chain-defined order, none
   lost or duplicated, print/emit text at the position where it was produced (strings are items of the batches). *)
Theorem C04_schedule_independence_signal_free :
  forall (item vst : Type) (vs : list (dverb item vst * vst)) (bs : list (batch item)) (s : dstate item vst),
    dreach item vst (dinit item vst vs bs) s -> dquiescent item vst s ->
    dwritten item vst s = seq_chain item vst vs bs.
Proof. exact schedule_independence. Qed.
Print Assumptions C04_schedule_independence_signal_free.

(* ... and at every moment of every run, what has been written so far is a prefix of that sequential result *)
Theorem C04_written_is_prefix_of_sequential_result :
  forall (item vst : Type) (vs : list (dverb item vst * vst)) (bs : list (batch item)) (s : dstate item vst),
    dreach item vst (dinit item vst vs bs) s ->
    exists rest, seq_chain item vst vs bs = dwritten item vst s ++ rest.
Proof. exact written_is_prefix. Qed.
Print Assumptions C04_written_is_prefix_of_sequential_result.

(* non-vacuity: the initial state is reachable and not final; a three-verb run exists that terminates *)
Example C04_nonvacuous :
  is_final (init 3 [false; true; false]) = false /\ [false; true; false] <> []
  /\ exists sched s, run_sched false sched (init 1 [false]) = Some s /\ is_final s = true.
Proof.
  split; [reflexivity|]. split; [discriminate|].
  exists [0;0;0;0;0;0;0;0;0;0;0;0;0;0;0;0;0;0].
  destruct (run_sched false [0;0;0;0;0;0;0;0;0;0;0;0;0;0;0;0;0;0] (init 1 [false])) as [s|] eqn:E.
  - exists s. split; [reflexivity|]. vm_compute in E. inversion E; subst. reflexivity.
  - vm_compute in E. discriminate.
Qed.
