(* C04: stdout determinism WITH early-exit verbs.  In the data-carrying model with done flags (DataFlags.v) the only
   effect of a downstream-done flag on data is that the producer stops reading: the input is truncated.  Theorem:
   for chains  Q ++ R  where every verb of Q is "quiet" (emits records only: no print/emit-to-stdout/dump text) and
   satisfies head's discard invariant (once it wants to raise its flag it emits nothing more, ever), and no verb of
   R raises a flag, every interleaving writes -- up to the cutting into batches -- exactly what the sequential
   composition of the verbs writes on the WHOLE input: the done signal only truncates input the chain would have
   discarded anyway.  (Verbs upstream of an early-exit verb which print are excluded: that is the known-finding
   class, refuted below on the model.) *)
From Coq Require Import List Bool Arith Lia.
Import ListNotations.
From Miller Require Import C04.Model C04.DataFlags.

Section Early.
  Context {rec str st : Type}.
  Notation Fstage := (@fstage rec str st).
  Notation Fstate := (@fstate rec str st).
  Notation Fbatch := (@fbatch rec str).
  Notation Item := (@item rec str).
  Notation Verb := (@verb rec str st).
  Variable keep : nat.

  (* ---------- what is still to come out of a stage / a chain suffix, given further incoming batches ---------- *)
  Definition stage_out (s : Fstage) (inc : list Fbatch) : list Fbatch :=
    match fp s with
    | FRecv | FDone => run_verb (fv s) (fx s) (fq s ++ inc)
    | FWork b | FRelay b | FOwn b => run_verb (fv s) (fx s) (b :: fq s ++ inc)
    | FSend o => o :: run_verb (fv s) (fx s) (fq s ++ inc)
    end.
  Fixpoint drain (vs : list Fstage) (inc : list Fbatch) : list Fbatch :=
    match vs with [] => inc | s :: rest => drain rest (stage_out s inc) end.
  Definition rrest (s : Fstate) : list Fbatch := match frd s with FRDone => [] | _ => whole (frem s) end.
  Definition alpha (s : Fstate) : list Fbatch := fout s ++ fwq s ++ drain (fvs s) (rrest s).

  Lemma flat_app (a b : list Fbatch) : flat (a ++ b) = flat a ++ flat b.
  Proof. unfold flat. now rewrite map_app, concat_app. Qed.

  Lemma stage_out_push (s : Fstage) b inc : stage_out (set_fq s (fq s ++ [b])) inc = stage_out s (b :: inc).
  Proof. unfold stage_out. destruct s as [v x p q d g]; cbn. destruct p; now rewrite <- app_assoc. Qed.

  Lemma flocal_out d (s : Fstage) d' s' inc : In (d', s') (flocal d s) -> stage_out s' inc = stage_out s inc.
  Proof.
    unfold flocal, stage_out. destruct s as [v x p q dd sg]; cbn [fp fq fd fsig fv fx].
    destruct p as [|b|b|b|o|].
    - destruct q as [|b q]; [intros []|]. intros [E|[]]. inversion E; subst. reflexivity.
    - rewrite !in_app_iff. intros [H|[H|H]].
      + destruct (0 <? dd); [|destruct H]. destruct H as [E|[]]. inversion E; subst. destruct (vtee v); reflexivity.
      + destruct (sg || _); [destruct H|]. destruct H as [E|[]]. inversion E; subst. reflexivity.
      + destruct H as [E|[]]. inversion E; subst. cbn [run_verb]. destruct (run_batch v x b) as [x' o]. reflexivity.
    - intros [E|[]]. inversion E; subst. reflexivity.
    - intros [E|[]]. inversion E; subst. reflexivity.
    - intros [].
    - intros [].
  Qed.

  Lemma stage_out_set_fd (s : Fstage) d inc : stage_out (set_fd s d) inc = stage_out s inc.
  Proof. reflexivity. Qed.

  Lemma stage_out_sent (s : Fstage) o inc :
    fp s = FSend o -> stage_out s inc = o :: stage_out (set_fp s (if snd o then FDone else FRecv)) inc.
  Proof. unfold stage_out. destruct s as [v x p q d g]; cbn. intros ->. destruct (snd o); reflexivity. Qed.

  (* every chain step keeps  (writer channel ++ what the suffix will still emit)  and only appends to the writer channel *)
  Lemma fchain_alpha : forall (vs : list Fstage) d wq d' vs' wq',
    In (d', vs', wq') (fchain_succs d vs wq) ->
    exists Y, wq' = wq ++ Y /\ forall inc, drain vs inc = Y ++ drain vs' inc.
  Proof.
    induction vs as [|s rest IH]; intros d wq d' vs' wq' Hin; cbn [fchain_succs] in Hin; [destruct Hin|].
    rewrite !in_app_iff in Hin. destruct Hin as [Hin|[Hin|Hin]].
    - apply in_map_iff in Hin as ([d1 s1] & E & Hl). inversion E; subst. exists []. split; [now rewrite app_nil_r|].
      intros inc. cbn. now rewrite (flocal_out _ _ _ _ inc Hl).
    - destruct (fp s) as [|b|b|b|o|] eqn:Ep; try destruct Hin.
      destruct rest as [|s2 rest2].
      + destruct (length wq <? chan_cap); [|destruct Hin]. destruct Hin as [E|[]]. inversion E; subst.
        exists [o]. split; [reflexivity|]. intros inc. cbn. now rewrite (stage_out_sent s o inc Ep).
      + destruct (length (fq s2) <? chan_cap); [|destruct Hin]. destruct Hin as [E|[]]. inversion E; subst.
        exists []. split; [now rewrite app_nil_r|]. intros inc. cbn [drain app].
        rewrite (stage_out_sent s o inc Ep). now rewrite stage_out_push.
    - apply in_map_iff in Hin as ([[d2 rest'] wq1] & E & Hin'). inversion E; subst.
      destruct (IH _ _ _ _ _ Hin') as (Y & HY & Hd). exists Y. split; [exact HY|].
      intros inc. cbn [drain]. rewrite stage_out_set_fd. apply Hd.
  Qed.

  (* ---------- records-only streams ending in exactly one end-of-stream batch ---------- *)
  Definition is_rec (i : Item) : bool := match i with inl _ => true | inr _ => false end.
  Definition recs_only (l : list Item) : bool := forallb is_rec l.
  Definition data_batch (b : Fbatch) : bool := negb (snd b) && recs_only (fst b).
  Arguments recs_only : simpl never.
  Fixpoint wfb (inc : list Fbatch) : bool :=
    match inc with
    | [] => false
    | b :: t => match t with [] => snd b && recs_only (fst b) | _ => data_batch b && wfb t end
    end.

  Lemma wfb_cons b t : data_batch b = true -> wfb t = true -> wfb (b :: t) = true.
  Proof. intros Hb Ht. destruct t; [discriminate|]. cbn [wfb] in *. now rewrite Hb, Ht. Qed.

  Lemma wfb_app pre t : forallb data_batch pre = true -> wfb t = true -> wfb (pre ++ t) = true.
  Proof.
    induction pre as [|b pre IH]; intros Hp Ht; [exact Ht|]. cbn in Hp. apply andb_true_iff in Hp as [Hb Hp].
    cbn [app]. apply wfb_cons; auto.
  Qed.

  Lemma wfb_whole (bs : list (list Item)) : forallb recs_only bs = true -> wfb (whole bs) = true.
  Proof.
    intros H. unfold whole. apply wfb_app; [|reflexivity].
    induction bs as [|b bs IH]; [reflexivity|]. cbn [map forallb] in *. apply andb_true_iff in H as [Hb H].
    unfold data_batch at 1; cbn [fst snd negb andb]. rewrite Hb. auto.
  Qed.

  Lemma recs_only_app a b : recs_only (a ++ b) = recs_only a && recs_only b.
  Proof. apply forallb_app. Qed.

  (* a chain suffix is truncation-insensitive: its flattened output does not depend on which (well-formed) stream
     is still to come *)
  Definition Tins (vs : list Fstage) : Prop :=
    forall inc1 inc2, wfb inc1 = true -> wfb inc2 = true -> flat (drain vs inc1) = flat (drain vs inc2).

  (* ---------- verb classes ---------- *)
  Definition quiet (v : Verb) : Prop :=
    (forall x r, recs_only (snd (vstep v x r)) = true) /\ (forall x, recs_only (vfin v x) = true).
  (* head's discard invariant *)
  Definition discards (v : Verb) : Prop :=
    forall x, vraise v x = true ->
      (forall r, snd (vstep v x r) = [] /\ vraise v (fst (vstep v x r)) = true) /\ vfin v x = [].
  Definition never_raises (v : Verb) : Prop := forall x, vraise v x = false.

  Lemma run_items_recs (v : Verb) : quiet v -> forall l x, recs_only l = true -> recs_only (snd (run_items v x l)) = true.
  Proof.
    intros [Hq _]. induction l as [|[r|s] l IH]; intros x Hl; cbn in *; [reflexivity| |discriminate].
    specialize (Hq x r). destruct (vstep v x r) as [x1 o1]. specialize (IH x1 Hl).
    destruct (run_items v x1 l) as [x2 o2]. cbn in *. rewrite recs_only_app. now rewrite Hq, IH.
  Qed.

  Lemma run_batch_data (v : Verb) x b : quiet v -> data_batch b = true -> data_batch (snd (run_batch v x b)) = true.
  Proof.
    intros Hq Hb. unfold data_batch in Hb. apply andb_true_iff in Hb as [He Hr]. unfold run_batch.
    pose proof (run_items_recs v Hq (fst b) x Hr) as H. destruct (run_items v x (fst b)) as [x1 o].
    destruct (snd b); [discriminate|]. unfold data_batch; cbn in *. exact H.
  Qed.

  Lemma run_verb_wf (v : Verb) : quiet v -> forall inc x, wfb inc = true -> wfb (run_verb v x inc) = true.
  Proof.
    intros Hq. induction inc as [|b t IH]; intros x H; [discriminate|].
    cbn [run_verb]. destruct t as [|b2 t2].
    - cbn in H. apply andb_true_iff in H as [He Hr]. unfold run_batch.
      pose proof (run_items_recs v Hq (fst b) x Hr) as H1. destruct (run_items v x (fst b)) as [x1 o].
      rewrite He. cbn in *. rewrite recs_only_app, H1. apply Hq.
    - cbn [wfb] in H. apply andb_true_iff in H as [Hb Ht].
      pose proof (run_batch_data v x b Hq Hb) as H1. destruct (run_batch v x b) as [x1 o]. cbn in H1.
      apply wfb_cons; [exact H1|]. apply IH. exact Ht.
  Qed.

  Lemma run_verb_wf_pre (v : Verb) : quiet v -> forall pre inc x,
    forallb data_batch pre = true -> wfb inc = true -> wfb (run_verb v x (pre ++ inc)) = true.
  Proof. intros Hq pre inc x Hp Hi. apply run_verb_wf; [exact Hq|]. now apply wfb_app. Qed.

  (* in-flight batches of a stage *)
  Definition hand (p : @fpc rec str) : list Fbatch :=
    match p with FRecv | FDone => [] | FWork b | FRelay b | FOwn b | FSend b => [b] end.
  Definition inflight_data (s : Fstage) : bool := forallb data_batch (hand (fp s)) && forallb data_batch (fq s).
  Definition noeos_stage (s : Fstage) : bool :=
    forallb (fun b => negb (snd b)) (hand (fp s)) && forallb (fun b => negb (snd b)) (fq s)
    && match fp s with FDone => false | _ => true end.

  Lemma wf_stage_out (s : Fstage) inc :
    quiet (fv s) -> inflight_data s = true -> fp s <> FDone -> wfb inc = true -> wfb (stage_out s inc) = true.
  Proof.
    intros Hq Hi Hnd Hw. unfold inflight_data in Hi. apply andb_true_iff in Hi as [Hh Hfq]. unfold stage_out.
    destruct (fp s) as [|b|b|b|o|]; cbn [hand forallb] in Hh; try rewrite andb_true_r in Hh.
    - now apply run_verb_wf_pre.
    - apply (run_verb_wf_pre (fv s) Hq (b :: fq s)); [cbn; now rewrite Hh, Hfq|exact Hw].
    - apply (run_verb_wf_pre (fv s) Hq (b :: fq s)); [cbn; now rewrite Hh, Hfq|exact Hw].
    - apply (run_verb_wf_pre (fv s) Hq (b :: fq s)); [cbn; now rewrite Hh, Hfq|exact Hw].
    - apply wfb_cons; [exact Hh|]. now apply run_verb_wf_pre.
    - contradiction.
  Qed.

  Lemma Tins_cons (s : Fstage) rest :
    quiet (fv s) -> inflight_data s = true -> fp s <> FDone -> Tins rest -> Tins (s :: rest).
  Proof. intros Hq Hi Hnd HT inc1 inc2 H1 H2. cbn [drain]. apply HT; now apply wf_stage_out. Qed.

  (* ---------- the discard invariant: a raised verb turns its input into empty batches ---------- *)
  Definition strip (b : Fbatch) : Fbatch := ([], snd b).

  Lemma run_items_discard (v : Verb) : discards v -> forall l x, vraise v x = true -> recs_only l = true ->
    snd (run_items v x l) = [] /\ vraise v (fst (run_items v x l)) = true.
  Proof.
    intros Hd. induction l as [|[r|s] l IH]; intros x Hx Hl; cbn in *; [auto| |discriminate].
    destruct (Hd x Hx) as [Hs _]. destruct (Hs r) as [Ho Hr]. destruct (vstep v x r) as [x1 o1]. cbn in *. subst o1.
    specialize (IH x1 Hr Hl). destruct (run_items v x1 l) as [x2 o2]. cbn in *. destruct IH as [-> IH2]. auto.
  Qed.

  Lemma run_verb_discard (v : Verb) : discards v -> forall bs x, vraise v x = true ->
    forallb (fun b => recs_only (fst b)) bs = true -> run_verb v x bs = map strip bs.
  Proof.
    intros Hd. induction bs as [|b t IH]; intros x Hx Hb; [reflexivity|].
    cbn in Hb. apply andb_true_iff in Hb as [Hb Ht]. cbn [run_verb map]. unfold run_batch.
    destruct (run_items_discard v Hd (fst b) x Hx Hb) as [Ho Hr]. destruct (run_items v x (fst b)) as [x1 o]. cbn in *. subst o.
    destruct (Hd x1 Hr) as [_ Hf]. unfold strip. destruct (snd b); rewrite ?Hf; cbn; f_equal; apply IH; auto.
  Qed.

  (* ---------- empty non-end batches are invisible to every verb ---------- *)
  Definition isnoop (b : Fbatch) : bool := match b with ([], false) => true | _ => false end.
  Definition squash (bs : list Fbatch) : list Fbatch := filter (fun b => negb (isnoop b)) bs.

  Lemma squash_app a b : squash (a ++ b) = squash a ++ squash b.
  Proof. apply filter_app. Qed.

  Lemma flat_squash bs : flat (squash bs) = flat bs.
  Proof.
    induction bs as [|[l e] t IH]; [reflexivity|].
    unfold squash in *. cbn [filter]. destruct (isnoop (l, e)) eqn:E; cbn [negb].
    - destruct l; [|discriminate]. destruct e; [discriminate|]. unfold flat in *; cbn. exact IH.
    - unfold flat in *; cbn. now rewrite IH.
  Qed.

  Lemma run_verb_squash (v : Verb) : forall bs x, squash (run_verb v x bs) = squash (run_verb v x (squash bs)).
  Proof.
    induction bs as [|[l e] t IH]; intros x; [reflexivity|].
    destruct l as [|i l]; [destruct e|].
    - cbn [squash filter isnoop negb run_verb]. destruct (run_batch v x ([], true)) as [x1 o]. cbn [filter]. now rewrite IH.
    - cbn [squash filter isnoop negb run_verb]. unfold run_batch; cbn. apply IH.
    - cbn [squash filter isnoop negb run_verb]. destruct (run_batch v x (i :: l, e)) as [x1 o]. cbn [filter]. now rewrite IH.
  Qed.

  Lemma stage_out_eqv (s : Fstage) i1 i2 : squash i1 = squash i2 -> squash (stage_out s i1) = squash (stage_out s i2).
  Proof.
    intros H. unfold stage_out.
    assert (E : forall pre, squash (run_verb (fv s) (fx s) (pre ++ i1)) = squash (run_verb (fv s) (fx s) (pre ++ i2))).
    { intros pre. rewrite run_verb_squash, squash_app, H, <- squash_app, <- run_verb_squash. reflexivity. }
    destruct (fp s) as [|b|b|b|o|]; try apply E; try apply (E (b :: fq s)).
    change (o :: ?x) with ([o] ++ x). now rewrite !squash_app, E.
  Qed.

  Lemma drain_eqv : forall (vs : list Fstage) i1 i2, squash i1 = squash i2 -> squash (drain vs i1) = squash (drain vs i2).
  Proof. induction vs as [|s rest IH]; intros i1 i2 H; [exact H|]. cbn. apply IH. now apply stage_out_eqv. Qed.

  Lemma squash_strip_wf inc : wfb inc = true -> squash (map strip inc) = [([], true)].
  Proof.
    induction inc as [|b t IH]; [discriminate|]. intros H. destruct t as [|b2 t2].
    - cbn in H. apply andb_true_iff in H as [He _]. cbn. unfold strip. rewrite He. reflexivity.
    - cbn [wfb] in H. apply andb_true_iff in H as [Hb Ht]. unfold data_batch in Hb. apply andb_true_iff in Hb as [He _].
      change (map strip (b :: b2 :: t2)) with ([strip b] ++ map strip (b2 :: t2)). rewrite squash_app, (IH Ht).
      unfold strip. destruct (snd b); [discriminate|]. reflexivity.
  Qed.

  Lemma wfb_recs inc : wfb inc = true -> forallb (fun b => recs_only (fst b)) inc = true.
  Proof.
    induction inc as [|b t IH]; [reflexivity|]. intros H. destruct t as [|b2 t2].
    - cbn in *. apply andb_true_iff in H as [_ H]. now rewrite H.
    - cbn [wfb] in H. apply andb_true_iff in H as [Hb Ht]. unfold data_batch in Hb. apply andb_true_iff in Hb as [_ Hr].
      cbn [forallb]. rewrite Hr. now apply IH.
  Qed.

  Lemma data_recs (q : list Fbatch) : forallb data_batch q = true -> forallb (fun b => recs_only (fst b)) q = true.
  Proof.
    induction q as [|q0 q IH]; [reflexivity|]. cbn [forallb]. intros H. apply andb_true_iff in H as [Hq0 Hq].
    unfold data_batch in Hq0. apply andb_true_iff in Hq0 as [_ Hq0]. rewrite Hq0. now apply IH.
  Qed.

  (* a stage holding batch b whose processing leaves the verb raised makes the whole suffix truncation-insensitive *)
  Lemma Tins_own (s : Fstage) b rest :
    discards (fv s) -> inflight_data s = true ->
    (fp s = FWork b \/ fp s = FOwn b) -> vraise (fv s) (fst (run_batch (fv s) (fx s) b)) = true ->
    Tins (s :: rest).
  Proof.
    intros Hd Hi Hp Hr inc1 inc2 H1 H2. cbn [drain]. apply (f_equal flat (x := squash _) (y := squash _)) || idtac.
    rewrite <- (flat_squash (drain rest (stage_out s inc1))), <- (flat_squash (drain rest (stage_out s inc2))).
    f_equal. apply drain_eqv.
    assert (E : forall inc, wfb inc = true ->
              squash (stage_out s inc) = squash (snd (run_batch (fv s) (fx s) b) :: map strip (fq s)) ++ [([], true)]).
    { intros inc Hw. unfold inflight_data in Hi. apply andb_true_iff in Hi as [_ Hfq].
      assert (Hso : stage_out s inc = run_verb (fv s) (fx s) (b :: fq s ++ inc)) by (unfold stage_out; destruct Hp as [-> | ->]; reflexivity).
      rewrite Hso. cbn [run_verb]. destruct (run_batch (fv s) (fx s) b) as [x' o]. cbn [fst snd] in *.
      rewrite (run_verb_discard (fv s) Hd (fq s ++ inc) x' Hr).
      - rewrite map_app. change (o :: ?a ++ ?c) with ((o :: a) ++ c). rewrite squash_app. now rewrite squash_strip_wf.
      - rewrite forallb_app. apply andb_true_iff. split; [now apply data_recs|now apply wfb_recs]. }
    now rewrite (E inc1 H1), (E inc2 H2).
  Qed.

  (* ---------- the chain invariant (valid while the producer has not sent the end-of-stream marker) ---------- *)
  Definition is_flag_pc (p : @fpc rec str) : bool := match p with FRelay _ | FOwn _ => true | _ => false end.
  Definition qstage (s : Fstage) : Prop := quiet (fv s) /\ discards (fv s) /\ inflight_data s = true.
  Definition rstage (s : Fstage) : Prop := never_raises (fv s) /\ fd s = 0 /\ is_flag_pc (fp s) = false.

  Fixpoint CI (nq : nat) (d : nat) (vs : list Fstage) : Prop :=
    match vs with
    | [] => d = 0
    | s :: rest =>
        noeos_stage s = true /\ (0 < d -> Tins (s :: rest)) /\
        match nq with
        | S nq' => qstage s /\ (is_flag_pc (fp s) = true -> Tins (s :: rest)) /\ CI nq' (fd s) rest
        | O => rstage s /\ CI O (fd s) rest
        end
    end.

  Lemma CI_Tins nq d vs : CI nq d vs -> 0 < d -> Tins vs.
  Proof. destruct vs as [|s rest]; cbn; [lia|]. intros (_ & H & _). exact H. Qed.

  Lemma CI_weaken nq d vs : CI nq d vs -> CI nq 0 vs.
  Proof.
    destruct vs as [|s rest]; cbn; [reflexivity|]. intros (H1 & _ & H3). split; [exact H1|]. split; [lia|exact H3].
  Qed.

  Lemma Tins_ext (vs vs' : list Fstage) : (forall inc, drain vs' inc = drain vs inc) -> Tins vs -> Tins vs'.
  Proof. intros E HT inc1 inc2 H1 H2. rewrite !E. now apply HT. Qed.

  Lemma Tins_cancel (vs vs' : list Fstage) Y : (forall inc, drain vs inc = Y ++ drain vs' inc) -> Tins vs -> Tins vs'.
  Proof.
    intros E HT inc1 inc2 H1 H2. specialize (HT inc1 inc2 H1 H2). rewrite !E, !flat_app in HT.
    now apply app_inv_head in HT.
  Qed.

  Lemma noeos_not_done (s : Fstage) : noeos_stage s = true -> fp s <> FDone.
  Proof. unfold noeos_stage. intros H E. rewrite E in H. now rewrite andb_false_r in H. Qed.

  (* pushing a non-end batch into the first stage of a suffix *)
  Lemma CI_push nq d (s : Fstage) rest o :
    CI nq d (s :: rest) -> snd o = false -> (recs_only (fst o) = true \/ (nq = 0 /\ d = 0)) ->
    CI nq d (set_fq s (fq s ++ [o]) :: rest).
  Proof.
    intros (Hn & HT & Hrest) He Ho.
    assert (HTp : Tins (s :: rest) -> recs_only (fst o) = true -> Tins (set_fq s (fq s ++ [o]) :: rest)).
    { intros H Hr inc1 inc2 H1 H2. cbn [drain]. rewrite !stage_out_push. apply (H (o :: inc1) (o :: inc2)).
      - apply wfb_cons; [unfold data_batch; now rewrite He, Hr|exact H1].
      - apply wfb_cons; [unfold data_batch; now rewrite He, Hr|exact H2]. }
    cbn [CI]. split; [|split].
    - unfold noeos_stage in *. cbn [set_fq fp fq]. rewrite forallb_app. cbn [forallb]. rewrite He. cbn [negb andb].
      rewrite andb_true_r. exact Hn.
    - intros Hd. destruct Ho as [Hr|[_ ->]]; [|lia]. apply HTp; auto.
    - destruct nq as [|nq'].
      + destruct Hrest as ((R1 & R2 & R3) & Hrest). split; [|exact Hrest]. split; [exact R1|]. split; [exact R2|exact R3].
      + destruct Hrest as ((Q1 & Q2 & Q3) & HF & Hrest). destruct Ho as [Hr|[Hz _]]; [|discriminate].
        split; [|split; [|exact Hrest]].
        * split; [exact Q1|]. split; [exact Q2|]. unfold inflight_data in *. cbn [set_fq fp fq]. rewrite forallb_app. cbn [forallb].
          apply andb_true_iff in Q3 as [Qh Qq]. rewrite Qh, Qq. unfold data_batch. now rewrite He, Hr.
        * intros Hp. apply HTp; auto.
  Qed.

  Lemma run_batch_noeos (v : Verb) x b : snd b = false -> snd (snd (run_batch v x b)) = false.
  Proof. intros H. unfold run_batch. destruct (run_items v x (fst b)). now rewrite H. Qed.

  (* local steps of a stage *)
  Lemma flocal_noeos d (s : Fstage) d' s' : In (d', s') (flocal d s) -> noeos_stage s = true -> noeos_stage s' = true.
  Proof.
    unfold flocal, noeos_stage. destruct s as [v x p q dd sg]; cbn [fp fq fd fsig fv fx].
    destruct p as [|b|b|b|o|]; cbn [hand forallb].
    - destruct q as [|b q]; [intros []|]. intros [E|[]]. inversion E; subst. cbn. intros H. rewrite !andb_true_r in *. exact H.
    - rewrite !in_app_iff. intros [H|[H|H]].
      + destruct (0 <? dd); [|destruct H]. destruct H as [E|[]]. inversion E; subst. destruct (vtee v); cbn; auto.
      + destruct (sg || _); [destruct H|]. destruct H as [E|[]]. inversion E; subst. cbn; auto.
      + destruct H as [E|[]]. inversion E; subst. intros Hn. rewrite !andb_true_r in Hn. apply andb_true_iff in Hn as [Hb Hq].
        apply negb_true_iff in Hb. pose proof (run_batch_noeos v x b Hb) as Ho. destruct (run_batch v x b) as [x' o]. cbn in *.
        now rewrite Ho, Hq.
    - intros [E|[]]. inversion E; subst. cbn; auto.
    - intros [E|[]]. inversion E; subst. cbn; auto.
    - intros [].
    - intros [].
  Qed.

  Lemma flocal_inflight d (s : Fstage) d' s' :
    In (d', s') (flocal d s) -> quiet (fv s) -> inflight_data s = true -> inflight_data s' = true /\ fv s' = fv s.
  Proof.
    unfold flocal, inflight_data. destruct s as [v x p q dd sg]; cbn [fp fq fd fsig fv fx].
    destruct p as [|b|b|b|o|]; cbn [hand forallb].
    - destruct q as [|b q]; [intros []|]. intros [E|[]]. inversion E; subst. cbn. intros _ H. rewrite !andb_true_r in *. auto.
    - rewrite !in_app_iff. intros [H|[H|H]].
      + destruct (0 <? dd); [|destruct H]. destruct H as [E|[]]. inversion E; subst. destruct (vtee v); cbn; auto.
      + destruct (sg || _); [destruct H|]. destruct H as [E|[]]. inversion E; subst. cbn; auto.
      + destruct H as [E|[]]. inversion E; subst. intros Hq Hn. rewrite !andb_true_r in Hn. apply andb_true_iff in Hn as [Hb Hfq].
        pose proof (run_batch_data v x b Hq Hb) as Ho. destruct (run_batch v x b) as [x' o]. cbn in *.
        now rewrite Ho, Hfq.
    - intros [E|[]]. inversion E; subst. cbn; auto.
    - intros [E|[]]. inversion E; subst. cbn; auto.
    - intros [].
    - intros [].
  Qed.

  (* a stage that is not about to send a flag leaves its upstream done channel alone *)
  Lemma fchain_d_same : forall (s : Fstage) rest d wq d' vs' wq',
    is_flag_pc (fp s) = false -> In (d', vs', wq') (fchain_succs d (s :: rest) wq) -> d' = d.
  Proof.
    intros s rest d wq d' vs' wq' Hp Hin. cbn [fchain_succs] in Hin. rewrite !in_app_iff in Hin. destruct Hin as [Hin|[Hin|Hin]].
    - apply in_map_iff in Hin as ([d1 s1] & E & Hl). inversion E; subst. unfold flocal in Hl.
      destruct (fp s) as [|b|b|b|o|]; try discriminate; try destruct Hl.
      + destruct (fq s); [destruct Hl|]. destruct Hl as [E1|[]]. now inversion E1.
      + rewrite !in_app_iff in Hl. destruct Hl as [H|[H|H]].
        * destruct (0 <? fd s); [|destruct H]. destruct H as [E1|[]]. now inversion E1.
        * destruct (fsig s || _); [destruct H|]. destruct H as [E1|[]]. now inversion E1.
        * destruct H as [E1|[]]. now inversion E1.
    - destruct (fp s); try destruct Hin. destruct rest as [|s2 rest2].
      + destruct (length wq <? chan_cap); [|destruct Hin]. destruct Hin as [E|[]]. now inversion E.
      + destruct (length (fq s2) <? chan_cap); [|destruct Hin]. destruct Hin as [E|[]]. now inversion E.
    - apply in_map_iff in Hin as ([[d2 rest'] wq1] & E & _). now inversion E.
  Qed.

  Lemma CI_step : forall (vs : list Fstage) nq d wq d' vs' wq',
    CI nq d vs -> In (d', vs', wq') (fchain_succs d vs wq) -> CI nq d' vs'.
  Proof.
    induction vs as [|s rest IH]; intros nq d wq d' vs' wq' HC Hin; [destruct Hin|].
    pose proof (fchain_alpha _ _ _ _ _ _ Hin) as (Y & _ & HY).
    assert (HTs : Tins (s :: rest) -> Tins vs') by (apply Tins_cancel with (Y := Y); exact HY).
    cbn [fchain_succs] in Hin. rewrite !in_app_iff in Hin.
    destruct HC as (Hn & HT & HC).
    destruct Hin as [Hin|[Hin|Hin]].
    - (* local step of s *)
      apply in_map_iff in Hin as ([d1 s1] & E & Hl). inversion E; subst d1 vs' wq'. clear E.
      pose proof (flocal_noeos _ _ _ _ Hl Hn) as Hn1.
      assert (Hfd : CI match nq with S n => n | O => O end (fd s) rest -> CI match nq with S n => n | O => O end (fd s1) rest).
      { intros H. unfold flocal in Hl. destruct (fp s) as [|b|b|b|o|]; [| | | |destruct Hl|destruct Hl].
        - destruct (fq s); [destruct Hl|]. destruct Hl as [E1|[]]. inversion E1; subst. exact H.
        - rewrite !in_app_iff in Hl. destruct Hl as [Hl|[Hl|Hl]].
          + destruct (0 <? fd s); [|destruct Hl]. destruct Hl as [E1|[]]. inversion E1; subst.
            destruct (vtee (fv s)); cbn; now apply CI_weaken in H.
          + destruct (fsig s || _); [destruct Hl|]. destruct Hl as [E1|[]]. inversion E1; subst. exact H.
          + destruct Hl as [E1|[]]. inversion E1; subst. destruct (run_batch (fv s) (fx s) b). exact H.
        - destruct Hl as [E1|[]]. inversion E1; subst. exact H.
        - destruct Hl as [E1|[]]. inversion E1; subst. exact H. }
      destruct nq as [|nq'].
      + (* R stage: no flag activity *)
        destruct HC as ((R1 & R2 & R3) & HC).
        assert (Hd' : d' = d).
        { eapply (fchain_d_same s rest d wq); [exact R3|]. cbn [fchain_succs]. apply in_app_iff. left.
          apply in_map_iff. exists (d', s1). split; [reflexivity|exact Hl]. }
        subst d'. cbn [CI]. split; [exact Hn1|]. split; [intros Hd; apply HTs, HT, Hd|].
        split; [|apply Hfd, HC].
        unfold flocal in Hl. destruct (fp s) as [|b|b|b|o|] eqn:Ep; try discriminate; try destruct Hl.
        * destruct (fq s); [destruct Hl|]. destruct Hl as [E1|[]]. inversion E1; subst. repeat split; auto.
        * rewrite !in_app_iff in Hl. destruct Hl as [Hl|[Hl|Hl]].
          -- rewrite R2 in Hl. cbn in Hl. destruct Hl.
          -- rewrite (R1 _) in Hl. cbn in Hl. rewrite orb_true_r in Hl. destruct Hl.
          -- destruct Hl as [E1|[]]. inversion E1; subst. destruct (run_batch (fv s) (fx s) b). repeat split; auto.
      + (* Q stage *)
        destruct HC as ((Q1 & Q2 & Q3) & HF & HC).
        destruct (flocal_inflight _ _ _ _ Hl Q1 Q3) as [Q3' Hv].
        assert (Hq1 : qstage s1) by (unfold qstage; rewrite Hv; auto).
        assert (HTflag : is_flag_pc (fp s1) = true -> Tins (s1 :: rest)).
        { intros Hp. unfold flocal in Hl. destruct (fp s) as [|b|b|b|o|] eqn:Ep; [| | | |destruct Hl|destruct Hl].
          - destruct (fq s); [destruct Hl|]. destruct Hl as [E1|[]]. inversion E1; subst. discriminate.
          - rewrite !in_app_iff in Hl. destruct Hl as [Hl|[Hl|Hl]].
            + destruct (0 <? fd s) eqn:Efd; [|destruct Hl]. destruct Hl as [E1|[]]. inversion E1; subst s1. apply Nat.ltb_lt in Efd.
              destruct (vtee (fv s)); cbn in Hp; [rewrite Ep in Hp; discriminate|].
              apply Tins_cons; auto. cbn. discriminate. eapply CI_Tins; eauto.
            + destruct (fsig s) eqn:Es; cbn [orb] in Hl; [destruct Hl|].
              destruct (vraise (fv s) (fst (run_batch (fv s) (fx s) b))) eqn:Er; cbn in Hl; [|destruct Hl].
              destruct Hl as [E1|[]]. inversion E1; subst s1.
              apply (Tins_own _ b); auto; try (right; reflexivity).
            + destruct Hl as [E1|[]]. inversion E1; subst s1. destruct (run_batch (fv s) (fx s) b). discriminate.
          - destruct Hl as [E1|[]]. inversion E1; subst. discriminate.
          - destruct Hl as [E1|[]]. inversion E1; subst. discriminate. }
        cbn [CI]. split; [exact Hn1|]. split; [|split; [exact Hq1|split; [exact HTflag|apply Hfd, HC]]].
        intros Hd'. apply HTs.
        (* either d was already positive, or s has just sent its flag *)
        destruct (is_flag_pc (fp s)) eqn:Efp; [now apply HF|]. apply HT.
        assert (d' = d); [|lia].
        eapply (fchain_d_same s rest d wq); [exact Efp|]. cbn [fchain_succs]. apply in_app_iff. left.
        apply in_map_iff. exists (d', s1). split; [reflexivity|exact Hl].
    - (* s sends its output batch *)
      destruct (fp s) as [|b|b|b|o|] eqn:Ep; try destruct Hin.
      assert (Heo : snd o = false).
      { unfold noeos_stage in Hn. rewrite Ep in Hn. cbn in Hn. apply andb_true_iff in Hn as [Hn _]. apply andb_true_iff in Hn as [Hn _].
        rewrite andb_true_r in Hn. now apply negb_true_iff in Hn. }
      assert (Hn' : noeos_stage (set_fp s (if snd o then FDone else FRecv)) = true).
      { rewrite Heo. unfold noeos_stage in *. cbn [set_fp fp fq hand forallb]. rewrite Ep in Hn. cbn in Hn.
        apply andb_true_iff in Hn as [Hn _]. apply andb_true_iff in Hn as [_ Hq]. now rewrite Hq. }
      assert (Hpc : is_flag_pc (fp (set_fp s (if snd o then FDone else FRecv))) = false) by (rewrite Heo; reflexivity).
      destruct rest as [|s2 rest2].
      + destruct (length wq <? chan_cap); [|destruct Hin]. destruct Hin as [E|[]]. inversion E; subst d' vs' wq'. clear E.
        cbn [CI]. split; [exact Hn'|]. split; [intros Hd; apply HTs, HT, Hd|].
        destruct nq as [|nq'].
        * destruct HC as ((R1 & R2 & R3) & HC). split; [|exact HC]. split; [exact R1|]. split; [exact R2|exact Hpc].
        * destruct HC as ((Q1 & Q2 & Q3) & HF & HC). split; [|split; [rewrite Hpc; discriminate|exact HC]].
          split; [exact Q1|]. split; [exact Q2|]. unfold inflight_data in *. rewrite Ep in Q3. rewrite Heo. cbn in *.
          apply andb_true_iff in Q3 as [_ Q3]. exact Q3.
      + destruct (length (fq s2) <? chan_cap); [|destruct Hin]. destruct Hin as [E|[]]. inversion E; subst d' vs' wq'. clear E.
        refine (conj Hn' (conj _ _)); [intros Hd; apply HTs, HT, Hd|].
        destruct nq as [|nq'].
        * destruct HC as ((R1 & R2 & R3) & HC). split; [split; [exact R1|split; [exact R2|exact Hpc]]|].
          change (CI 0 (fd s) (set_fq s2 (fq s2 ++ [o]) :: rest2)). apply CI_push; [exact HC|exact Heo|]. right. split; [reflexivity|exact R2].
        * destruct HC as ((Q1 & Q2 & Q3) & HF & HC).
          assert (Hro : recs_only (fst o) = true).
          { unfold inflight_data in Q3. rewrite Ep in Q3. cbn in Q3. apply andb_true_iff in Q3 as [Q3 _]. rewrite andb_true_r in Q3.
            unfold data_batch in Q3. now apply andb_true_iff in Q3 as [_ Q3]. }
          split; [|split; [rewrite Hpc; discriminate|]].
          -- split; [exact Q1|]. split; [exact Q2|]. unfold inflight_data in *. rewrite Ep in Q3. rewrite Heo. cbn in *.
             apply andb_true_iff in Q3 as [_ Q3]. exact Q3.
          -- change (CI nq' (fd s) (set_fq s2 (fq s2 ++ [o]) :: rest2)). apply CI_push; [exact HC|exact Heo|]. left. exact Hro.
    - (* a step further down the chain *)
      apply in_map_iff in Hin as ([[d2 rest'] wq1] & E & Hin'). inversion E; subst d' vs' wq1. clear E.
      assert (Hns : noeos_stage (set_fd s d2) = true) by exact Hn.
      cbn [CI]. split; [exact Hns|]. split; [intros Hd; apply HTs, HT, Hd|].
      destruct nq as [|nq'].
      + destruct HC as ((R1 & R2 & R3) & HC). pose proof (IH _ _ _ _ _ _ HC Hin') as HC'.
        assert (d2 = fd s).
        { destruct rest as [|s2 rest2]; [destruct Hin'|]. destruct HC as (_ & _ & (_ & _ & R3') & _).
          eapply fchain_d_same; eauto. }
        subst d2. split; [|exact HC']. split; [exact R1|]. split; [exact R2|exact R3].
      + destruct HC as ((Q1 & Q2 & Q3) & HF & HC). pose proof (IH _ _ _ _ _ _ HC Hin') as HC'.
        split; [split; [exact Q1|split; [exact Q2|exact Q3]]|]. split; [|exact HC'].
        intros Hp. apply HTs. now apply HF.
  Qed.

  (* ---------- the whole state ---------- *)
  Definition GI (nq : nat) (s : Fstate) : Prop :=
    frd s = FRDone \/ (forallb recs_only (frem s) = true /\ CI nq (fdn s) (fvs s)).

  Lemma forallb_firstn {A} (f : A -> bool) n l : forallb f l = true -> forallb f (firstn n l) = true.
  Proof.
    revert n; induction l as [|a l IH]; intros n H; destruct n; cbn in *; auto.
    apply andb_true_iff in H as [Ha Hl]. now rewrite Ha, IH.
  Qed.

  Lemma GI_step nq (s s' : Fstate) : GI nq s -> fstep keep s s' -> GI nq s'.
  Proof.
    intros HG. unfold fstep, fsuccs. rewrite !in_app_iff. intros [H|[H|[H|H]]].
    - unfold freader_steps in H. destruct (frd s) eqn:Er; [| |destruct H].
      + destruct HG as [HG|[Hr HC]]; [congruence|].
        destruct (0 <? fdn s); destruct H as [<-|[]]; right; cbn; split; auto.
        * now apply forallb_firstn.
        * eapply CI_weaken; eauto.
      + destruct HG as [HG|[Hr HC]]; [congruence|].
        destruct (fvs s) as [|v rest] eqn:Ev; [destruct H|]. destruct (length (fq v) <? reader_cap); [|destruct H].
        destruct (frem s) as [|b r] eqn:Em; destruct H as [<-|[]]; [left; reflexivity|].
        right; cbn. cbn in Hr. apply andb_true_iff in Hr as [Hb Hr]. split; [exact Hr|].
        apply CI_push; auto.
    - unfold fchain_steps in H. apply in_map_iff in H as ([[d' vs'] wq'] & <- & Hin). cbn.
      destruct HG as [HG|[Hr HC]]; [left; exact HG|]. right. split; [exact Hr|]. eapply CI_step; eauto.
    - unfold fwriter_steps in H. destruct (fwr s); [|destruct H| |destruct H].
      + destruct (fwq s); [destruct H|]. destruct H as [<-|[]]. exact HG.
      + destruct H as [<-|[]]. exact HG.
    - unfold fmain_steps in H. destruct (fmn s); [| | |destruct H].
      + destruct (fdoneq s); [|destruct H]. destruct H as [<-|[]]; exact HG.
      + destruct H as [<-|[]]; exact HG.
      + destruct H as [<-|[]]; exact HG.
  Qed.

  Lemma drain_push (s : Fstage) rest b inc : drain (set_fq s (fq s ++ [b]) :: rest) inc = drain (s :: rest) (b :: inc).
  Proof. cbn. now rewrite stage_out_push. Qed.

  (* every step keeps the flattened "written ++ still to be written" *)
  Lemma alpha_step nq (s s' : Fstate) : GI nq s -> fstep keep s s' -> flat (alpha s') = flat (alpha s).
  Proof.
    intros HG. unfold fstep, fsuccs. rewrite !in_app_iff. intros [H|[H|[H|H]]].
    - unfold freader_steps in H. destruct (frd s) eqn:Er; [| |destruct H].
      + destruct HG as [HG|[Hr HC]]; [congruence|].
        destruct (0 <? fdn s) eqn:Ed; destruct H as [<-|[]]; unfold alpha, rrest; cbn [frd frem fdn fvs fwq fout]; rewrite Er; [|reflexivity].
        apply Nat.ltb_lt in Ed. rewrite !flat_app. do 2 f_equal.
        apply (CI_Tins _ _ _ HC Ed); apply wfb_whole; [now apply forallb_firstn|exact Hr].
      + destruct (fvs s) as [|v rest] eqn:Ev; [destruct H|]. destruct (length (fq v) <? reader_cap); [|destruct H].
        destruct (frem s) as [|b r] eqn:Em; destruct H as [<-|[]]; unfold alpha, rrest; cbn [frd frem fvs fwq fout];
          rewrite Er, Ev, Em; rewrite drain_push; reflexivity.
    - unfold fchain_steps in H. apply in_map_iff in H as ([[d' vs'] wq'] & <- & Hin).
      destruct (fchain_alpha _ _ _ _ _ _ Hin) as (Y & -> & HY). unfold alpha, rrest; cbn. rewrite HY, <- !app_assoc. reflexivity.
    - unfold fwriter_steps in H. destruct (fwr s); [|destruct H| |destruct H].
      + destruct (fwq s) eqn:Eq; [destruct H|]. destruct H as [<-|[]]. unfold alpha, rrest; cbn. rewrite Eq, <- !app_assoc. reflexivity.
      + destruct H as [<-|[]]. reflexivity.
    - unfold fmain_steps in H. destruct (fmn s); [| | |destruct H].
      + destruct (fdoneq s); [|destruct H]. destruct H as [<-|[]]; reflexivity.
      + destruct H as [<-|[]]; reflexivity.
      + destruct H as [<-|[]]; reflexivity.
  Qed.

  (* ---------- chains ---------- *)
  Fixpoint chain_ok (nq : nat) (vs : list (Verb * st)) : Prop :=
    match vs with
    | [] => True
    | vx :: rest =>
        match nq with
        | S n => quiet (fst vx) /\ discards (fst vx) /\ chain_ok n rest
        | O => never_raises (fst vx) /\ chain_ok O rest
        end
    end.

  Lemma CI_fresh : forall (vs : list (Verb * st)) nq, chain_ok nq vs -> CI nq 0 (map ffresh vs).
  Proof.
    induction vs as [|vx rest IH]; intros nq H; [reflexivity|]. cbn [map CI].
    split; [reflexivity|]. split; [lia|]. destruct nq as [|n]; cbn in H.
    - destruct H as [H1 H2]. split; [|now apply IH]. split; [exact H1|split; reflexivity].
    - destruct H as (H1 & H2 & H3). split; [split; [exact H1|split; [exact H2|reflexivity]]|]. split; [discriminate|now apply IH].
  Qed.

  Lemma drain_fresh : forall (vs : list (Verb * st)) inc, drain (map ffresh vs) inc = seq_chain vs inc.
  Proof. induction vs as [|[v x0] vs IH]; intros inc; [reflexivity|]. cbn. apply IH. Qed.

  Theorem flat_alpha_invariant nq (vs : list (Verb * st)) bs s :
    chain_ok nq vs -> forallb recs_only bs = true -> freach keep (finit vs bs) s ->
    GI nq s /\ flat (alpha s) = flat (seq_chain vs (whole bs)).
  Proof.
    intros Hc Hb Hr. induction Hr as [|s s' _ [IG IA] Hs].
    - split; [right; split; [exact Hb|now apply CI_fresh]|]. unfold alpha, rrest, finit; cbn. now rewrite drain_fresh.
    - split; [eapply GI_step; eauto|]. rewrite (alpha_step nq s s' IG Hs). exact IA.
  Qed.

  (* a run is over when the producer has sent everything, every stage is idle with an empty queue and the writer
     channel is empty *)
  Definition fidle (s : Fstage) : Prop := (fp s = FRecv \/ fp s = FDone) /\ fq s = [].
  Definition fquiescent (s : Fstate) : Prop := frd s = FRDone /\ Forall fidle (fvs s) /\ fwq s = [].

  Lemma drain_idle (vs : list Fstage) : Forall fidle vs -> drain vs [] = [].
  Proof.
    induction 1 as [|s rest [Hp Hq] _ IH]; [reflexivity|]. cbn. unfold stage_out. rewrite Hq.
    destruct Hp as [-> | ->]; cbn; exact IH.
  Qed.

  Theorem early_exit_determinism nq (vs : list (Verb * st)) bs s :
    chain_ok nq vs -> forallb recs_only bs = true -> freach keep (finit vs bs) s -> fquiescent s ->
    flat (fout s) = flat (seq_chain vs (whole bs)).
  Proof.
    intros Hc Hb Hr (Hd & Hi & Hw). destruct (flat_alpha_invariant nq vs bs s Hc Hb Hr) as [_ H].
    unfold alpha, rrest in H. rewrite Hd, Hw, (drain_idle _ Hi) in H. cbn in H. now rewrite app_nil_r in H.
  Qed.

  Theorem early_exit_prefix nq (vs : list (Verb * st)) bs s :
    chain_ok nq vs -> forallb recs_only bs = true -> freach keep (finit vs bs) s ->
    exists rest, flat (seq_chain vs (whole bs)) = flat (fout s) ++ rest.
  Proof.
    intros Hc Hb Hr. destruct (flat_alpha_invariant nq vs bs s Hc Hb Hr) as [_ H].
    unfold alpha in H. rewrite flat_app in H. eexists. symmetry. exact H.
  Qed.
End Early.
