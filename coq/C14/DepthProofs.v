(* C14: block scoping over WHOLE executions: every task of the interpreter -- statements, blocks, loops with break/continue,
   function and subroutine calls, emits -- returns with the current frameset at the frame depth it started with.  Together
   with ScopeProofs (callers' framesets untouched, expressions restore the stack exactly) and the stack-level lemmas of
   StackProofs this is "after a block exits, the enclosing scopes are the ones that were there before". *)
From Miller Require Import C14.Value C14.Stack C14.Model C14.Proofs C14.ScopeProofs.
Open Scope Z_scope.

Definition depth (s : astack) : nat := List.length (hd [] s).

Definition dinv (f : recfn) : Prop :=
  forall t st r st', (1 <= depth (stk st))%nat -> f t st = Ok (r, st') -> depth (stk st') = depth (stk st).

Lemma depth_ne s : (1 <= depth s)%nat -> s <> [].
Proof. destruct s; cbn; [lia|discriminate]. Qed.

Lemma depth_a_top h s s' : a_top h s = Some s' -> depth s' = depth s.
Proof.
  unfold a_top. destruct s as [|[|sc fs] r]; try discriminate. destruct (h sc); [|discriminate].
  intros H; inversion H; subst. reflexivity.
Qed.
Lemma depth_define x t v s s' : a_define x t v s = Some s' -> depth s' = depth s.
Proof. apply depth_a_top. Qed.
Lemma depth_set_at_scope x v s s' : a_set_at_scope x v s = Some s' -> depth s' = depth s.
Proof. apply depth_a_top. Qed.
Lemma len_set_existing x v fs : forall fs', fs_set_existing x v fs = Some (Some fs') -> List.length fs' = List.length fs.
Proof.
  induction fs as [|sc fs IH]; cbn; intros fs' H; [discriminate|].
  destruct (sget x sc).
  - destruct (sc_set x v sc); inversion H; subst. reflexivity.
  - destruct (fs_set_existing x v fs) as [[t|]|]; try discriminate. inversion H; subst. cbn. f_equal. now apply IH.
Qed.
Lemma depth_set x v s s' : a_set x v s = Some s' -> depth s' = depth s.
Proof.
  unfold a_set. destruct s as [|fs r]; [discriminate|].
  destruct (fs_set_existing x v fs) as [[fs'|]|] eqn:E; [|discriminate|apply depth_set_at_scope].
  intros H; inversion H; subst. cbn. now apply len_set_existing in E.
Qed.
Lemma len_poke x v fs : forall fs', fs_poke x v fs = Some fs' -> List.length fs' = List.length fs.
Proof.
  induction fs as [|sc fs IH]; cbn; intros fs' H; [discriminate|].
  destruct (sget x sc).
  - inversion H; subst. reflexivity.
  - destruct (fs_poke x v fs) as [t|]; [|discriminate]. inversion H; subst. cbn. f_equal. now apply IH.
Qed.
Lemma depth_unset x s : depth (a_unset x s) = depth s.
Proof.
  unfold a_unset. destruct s as [|fs r]; [reflexivity|]. destruct (fs_poke x VAbsent fs) eqn:E; [|reflexivity].
  cbn. now apply len_poke in E.
Qed.
Lemma depth_push s : (1 <= depth s)%nat -> depth (a_push_frame s) = S (depth s).
Proof. destruct s; cbn; [lia|reflexivity]. Qed.
Lemma depth_pop s : (2 <= depth s)%nat -> S (depth (a_pop_frame s)) = depth s.
Proof. destruct s as [|[|sc [|sc2 fs]] r]; cbn; try lia. Qed.
Lemma depth_bind_params ps : forall vs s s', bind_params ps vs s = Some s' -> depth s' = depth s.
Proof.
  induction ps as [|[t x] ps IH]; intros [|v vs] s s'; cbn; try discriminate.
  - intros H; inversion H; reflexivity.
  - destruct (a_define x t v s) as [s1|] eqn:E; [|discriminate]. intros H.
    rewrite (IH _ _ _ H). now apply depth_define in E.
Qed.

Ltac pose_new H :=
  let T := type of H in
  lazymatch goal with
  | _ : T |- _ => fail
  | _ => pose proof H
  end.

Ltac dfacts :=
  repeat first
    [ match goal with
      | |- context [a_push_frame ?X] => pose_new (depth_push X)
      | H : context [a_push_frame ?X] |- _ => pose_new (depth_push X)
      | |- context [a_pop_frame ?X] => pose_new (depth_pop X)
      | H : context [a_pop_frame ?X] |- _ => pose_new (depth_pop X)
      | |- context [a_unset ?x ?X] => pose_new (depth_unset x X)
      | H : context [a_unset ?x ?X] |- _ => pose_new (depth_unset x X)
      | H : a_set ?x ?v ?s = Some ?s' |- _ => pose_new (depth_set x v s s' H)
      | H : a_define ?x ?t ?v ?s = Some ?s' |- _ => pose_new (depth_define x t v s s' H)
      | H : a_set_at_scope ?x ?v ?s = Some ?s' |- _ => pose_new (depth_set_at_scope x v s s' H)
      | H : stk ?a = stk ?b |- _ => pose_new (f_equal depth H)
      end ].

Ltac dd := simp_stk; dfacts; simp_stk; lia.
Ltac dne := apply depth_ne; dd.

Lemma ex_dinv f t st o st' : ex f t st = Ok (o, st') -> dinv f -> (1 <= depth (stk st))%nat -> depth (stk st') = depth (stk st).
Proof.
  intros H HD Hd. unfold ex in H. destruct (f t st) as [[r s]| | |] eqn:E; cbn [bind] in H; try discriminate.
  destruct r; try discriminate. inversion H; subst. exact (HD t st _ _ Hd E).
Qed.

Ltac dgo f HP HD :=
  repeat (first
    [ match goal with
      | H : Ok _ = Ok _ |- _ => inversion H; subst; clear H
      | H : Some _ = Some _ |- _ => inversion H; subst; clear H
      | H : Unsup = Ok _ |- _ => discriminate H
      | H : Fatal = Ok _ |- _ => discriminate H
      | H : OutOfFuel = Ok _ |- _ => discriminate H
      | H : bind (ev f ?e ?s) _ = Ok _ |- _ =>
          let E := fresh "E" in destruct (ev f e s) as [[? ?]| | |] eqn:E; cbn [bind] in H; try discriminate H;
          apply ev_inv in E; [|exact HP|dne]
      | H : bind (evs f ?e ?s) _ = Ok _ |- _ =>
          let E := fresh "E" in destruct (evs f e s) as [[? ?]| | |] eqn:E; cbn [bind] in H; try discriminate H;
          apply evs_inv in E; [|exact HP|dne]
      | H : bind (ex f ?t ?s) _ = Ok _ |- _ =>
          let E := fresh "E" in destruct (ex f t s) as [[? ?]| | |] eqn:E; cbn [bind] in H; try discriminate H;
          apply ex_dinv in E; [|exact HD|dd]
      | H : bind (f ?t ?s) _ = Ok _ |- _ =>
          let E := fresh "E" in destruct (f t s) as [[? ?]| | |] eqn:E; cbn [bind] in H; try discriminate H;
          first [ apply rec_expr_inv in E; [|exact HP|reflexivity|dne] | apply HD in E; [|dd] ]
      | H : f ?t ?s = Ok (_, _) |- _ =>
          first [ apply rec_expr_inv in H; [|exact HP|reflexivity|dne] | apply HD in H; [|dd] ]
      | H : bind (Ok _) _ = Ok _ |- _ => cbn [bind] in H
      | H : bind (ro _ _) _ = Ok _ |- _ => unfold ro in H; cbn [bind] in H
      | H : bind (rv _ _) _ = Ok _ |- _ => unfold rv in H; cbn [bind] in H
      | H : bind (match ?x with _ => _ end) _ = Ok _ |- _ => destruct x eqn:?; try discriminate H
      | H : match ?x with _ => _ end = Ok _ |- _ => destruct x eqn:?; try discriminate H
      | H : (if ?x then _ else _) = Ok _ |- _ => destruct x eqn:?; try discriminate H
      | H : rv _ _ = Ok _ |- _ => unfold rv in H
      | H : ro _ _ = Ok _ |- _ => unfold ro in H
      | H : lift _ _ = Ok _ |- _ => unfold lift in H
      end ]).

Section DepthStep.
Variable fns : list fdef.
Variable f : recfn.
Hypothesis HP : inv f.
Hypothesis HD : dinv f.

Lemma assign_direct_depth b v st r st' :
  (1 <= depth (stk st))%nat -> assign_direct b v st = Ok (r, st') -> depth (stk st') = depth (stk st).
Proof. intros Hd H. unfold assign_direct in H. destruct b; dgo f HP HD; dd. Qed.

Lemma assign_local_indexed_depth x vs v st r st' :
  (1 <= depth (stk st))%nat -> assign_local_indexed x vs v st = Ok (r, st') -> depth (stk st') = depth (stk st).
Proof.
  intros Hd H. unfold assign_local_indexed, of_pres in H.
  destruct (stk st) as [|fs r0] eqn:Es; [cbn in Hd; lia|].
  dgo f HP HD; simp_stk; try (rewrite Es; reflexivity); dfacts; try lia.
  all: match goal with H : fs_poke _ _ _ = Some _ |- _ => apply len_poke in H end; unfold depth in *; cbn in *; lia.
Qed.

Lemma assign_indexed_depth b vs v st r st' :
  (1 <= depth (stk st))%nat -> assign_indexed b vs v st = Ok (r, st') -> depth (stk st') = depth (stk st).
Proof.
  intros Hd H. unfold assign_indexed, of_pres in H. destruct b.
  - dgo f HP HD; dd.
  - dgo f HP HD; dd.
  - now apply assign_local_indexed_depth in H.
Qed.

Lemma unset_lvalue_depth b vs st : depth (stk (unset_lvalue b vs st)) = depth (stk st).
Proof.
  unfold unset_lvalue. destruct b as [k|k|x]; destruct vs as [|v0 vs]; simp_stk; try reflexivity.
  - destruct (inrec st); reflexivity.
  - destruct (inrec st); reflexivity.
  - apply depth_unset.
  - destruct (stk st) as [|fs r] eqn:Es; [simp_stk; now rewrite Es|].
    destruct (fs_get x fs) as [c|]; simp_stk; try (now rewrite Es).
    destruct (fs_poke x (remove_indexed c (v0 :: vs)) fs) eqn:E; simp_stk; rewrite ?Es; [|reflexivity].
    apply len_poke in E. unfold depth; cbn. now rewrite E.
Qed.

End DepthStep.

Section DepthStep2.
Variable fns : list fdef.
Variable f : recfn.
Hypothesis HP : inv f.
Hypothesis HD : dinv f.

Ltac dstmt :=
  unfold loop_after_body in *;
  dgo f HP HD;
  repeat match goal with
         | H : assign_direct _ _ _ = Ok _ |- _ => apply assign_direct_depth in H; [|dd]
         | H : assign_indexed _ _ _ _ = Ok _ |- _ => apply assign_indexed_depth in H; [|dd]
         end;
  try dd.

Lemma exec_stmt_depth s st r st' :
  (1 <= depth (stk st))%nat -> exec_stmt fns f s st = Ok (r, st') -> depth (stk st') = depth (stk st).
Proof.
  intros Hd H. destruct s; cbn [exec_stmt] in H.
  - dstmt.
  - dstmt.
  - dstmt.
  - (* SUnset *) dgo f HP HD. rewrite unset_lvalue_depth. dd.
  - dstmt.
  - dstmt.
  - dstmt.
  - dstmt.
  - dstmt.
  - (* SForMulti *) dstmt.
  - dstmt.
  - dstmt.
  - dstmt.
  - dstmt.
  - destruct e; dstmt.
  - dstmt.
  - dstmt.
  - dstmt.
  - dstmt.
  - dstmt.
  - dstmt.
  - (* SCall *) apply (exec_call_inv fns f HP) in H; [|now apply depth_ne]. now rewrite H.
  - dstmt.
  - dstmt.
  - dstmt.
  - dstmt.
  - dstmt.
  - dstmt.
  - dstmt.
  - destruct e; dstmt.
  - dstmt.
Qed.

Lemma step_dinv : dinv (step fns f).
Proof.
  intros t st r st' Hd H.
  destruct (is_expr_task t) eqn:Et.
  - pose proof (step_inv fns f HP t st r st' (depth_ne _ Hd) H) as Hp. unfold post in Hp. rewrite Et in Hp. now rewrite Hp.
  - destruct t; try discriminate Et; cbn [step] in H.
    + now apply exec_stmt_depth in H.
    + destruct ss; dstmt.
    + dstmt.
    + destruct arms as [|[c b] more]; [destruct els|]; dstmt.
    + dstmt.
    + dstmt.
    + destruct entries as [|[key val] more]; [dstmt|]. destruct v; dstmt.
    + destruct ks as [|k ks]; [dstmt|]. destruct entries as [|[key val] more]; [dstmt|]. destruct ks; dstmt.
    + dstmt.
    + destruct nvs as [|[n v] rest]; dstmt.
    + destruct entries as [|[k v] more]; [dstmt|]. destruct keys as [|key krest]; dstmt.
Qed.

End DepthStep2.

Lemma run_dinv fns fuel : dinv (run fns fuel).
Proof.
  induction fuel as [|n IH]; [intros t st r st' _ H; discriminate H|].
  change (run fns (S n)) with (step fns (run fns n)). apply step_dinv; [apply run_inv|exact IH].
Qed.

(* block scoping over whole executions: a block (with everything nested in it and everything it calls) returns with the
   current frameset at the same frame depth, the callers' framesets untouched *)
Lemma blocks_restore_scope_depth fns fuel ss st o st' :
  (1 <= depth (stk st))%nat -> run fns fuel (TBlock ss) st = Ok (RO o, st') ->
  depth (stk st') = depth (stk st) /\ tl (stk st') = tl (stk st).
Proof.
  intros Hd H. split; [exact (run_dinv fns fuel _ _ _ _ Hd H)|].
  exact (proj1 (run_inv fns fuel (TBlock ss) st _ _ (depth_ne _ Hd) H)).
Qed.
