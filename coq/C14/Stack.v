(* C14: the local-variable stack of pkg/runtime/stack.go, twice.
   - abstract: a list of framesets, each a list of scopes, each an association list  name -> (declared type, value)
   - concrete: mirrors Stack / StackFrameSet / StackFrame including the two POOLS of popped (dirty) framesets and
     frames that are cleared on reuse, the [vars] slice and the [namesToOffsets] map.
   Definitions only; the refinement proof is in StackProofs.v.  The interpreter (Model.v) runs on the abstract one. *)
From Miller Require Export C14.Value.
Open Scope Z_scope.

Record binding := { b_ty : tyname; b_val : value }.
Definition scope := list (bytes * binding).
Definition fset := list scope.    (* head = innermost frame of the frameset *)
Definition astack := list fset.   (* head = current frameset *)

(* NewStack(): one frameset holding one frame *)
Definition a_new : astack := [[ [] ]].

Fixpoint sget (x : bytes) (sc : scope) : option binding :=
  match sc with
  | [] => None
  | (y, b) :: t => if beqb x y then Some b else sget x t
  end.

(* replace the first binding of x *)
Fixpoint sreplace (x : bytes) (b : binding) (sc : scope) : scope :=
  match sc with
  | [] => []
  | (y, b') :: t => if beqb x y then (y, b) :: t else (y, b') :: sreplace x b t
  end.

Definition a_push_frame (s : astack) : astack :=
  match s with fs :: r => ([] :: fs) :: r | [] => [] end.
Definition a_pop_frame (s : astack) : astack :=
  match s with (_ :: ((_ :: _) as fs')) :: r => fs' :: r | _ => s end.
Definition a_push_set (s : astack) : astack := [ [] ] :: s.
Definition a_pop_set (s : astack) : astack :=
  match s with _ :: ((_ :: _) as r) => r | _ => s end.

(* StackFrameSet.get: scope walk, innermost first; a frame that has the name answers (even with an absent value) *)
Fixpoint fs_get (x : bytes) (fs : fset) : option value :=
  match fs with
  | [] => None
  | sc :: t => match sget x sc with Some b => Some (b_val b) | None => fs_get x t end
  end.
Definition a_get (x : bytes) (s : astack) : option value :=
  match s with fs :: _ => fs_get x fs | [] => None end.

(* an operation on the top frame of the current frameset *)
Definition a_top (h : scope -> option scope) (s : astack) : option astack :=
  match s with
  | (sc :: fs) :: r => match h sc with Some sc' => Some ((sc' :: fs) :: r) | None => None end
  | _ => None
  end.

(* StackFrame.defineTyped at the top frame: error when already defined in the same scope or when the gate rejects *)
Definition sc_define (x : bytes) (t : tyname) (v : value) (sc : scope) : option scope :=
  match sget x sc with
  | Some _ => None
  | None => if gate t v then Some (sc ++ [(x, {| b_ty := t; b_val := v |})]) else None
  end.
Definition a_define (x : bytes) (t : tyname) (v : value) (s : astack) : option astack := a_top (sc_define x t v) s.

(* StackFrame.set: Assign through the gate of the existing slot, else new "any" slot *)
Definition sc_set (x : bytes) (v : value) (sc : scope) : option scope :=
  match sget x sc with
  | Some b => if gate (b_ty b) v then Some (sreplace x {| b_ty := b_ty b; b_val := v |} sc) else None
  | None => Some (sc ++ [(x, {| b_ty := TAny; b_val := v |})])
  end.

Definition a_set_at_scope (x : bytes) (v : value) (s : astack) : option astack := a_top (sc_set x v) s.

(* StackFrameSet.set: the nearest enclosing frame that has the name, else the current frame.
   Result: None = no frame has it; Some None = gate error; Some (Some fs') = updated. *)
Fixpoint fs_set_existing (x : bytes) (v : value) (fs : fset) : option (option fset) :=
  match fs with
  | [] => None
  | sc :: t =>
      match sget x sc with
      | Some _ => Some (match sc_set x v sc with Some sc' => Some (sc' :: t) | None => None end)
      | None => match fs_set_existing x v t with
                | Some (Some t') => Some (Some (sc :: t'))
                | Some None => Some None
                | None => None
                end
      end
  end.

Definition a_set (x : bytes) (v : value) (s : astack) : option astack :=
  match s with
  | fs :: r =>
      match fs_set_existing x v fs with
      | Some (Some fs') => Some (fs' :: r)
      | Some None => None
      | None => a_set_at_scope x v s
      end
  | [] => None
  end.

(* raw overwrite of the value of the nearest binding, NOT going through the gate (what in-place PutIndexed on a
   stack variable does, and Unassign) *)
Fixpoint fs_poke (x : bytes) (v : value) (fs : fset) : option fset :=
  match fs with
  | [] => None
  | sc :: t =>
      match sget x sc with
      | Some b => Some (sreplace x {| b_ty := b_ty b; b_val := v |} sc :: t)
      | None => match fs_poke x v t with Some t' => Some (sc :: t') | None => None end
      end
  end.

(* declared type of the nearest binding *)
Fixpoint fs_type (x : bytes) (fs : fset) : option tyname :=
  match fs with
  | [] => None
  | sc :: t => match sget x sc with Some b => Some (b_ty b) | None => fs_type x t end
  end.

(* StackFrameSet.unset: Unassign the nearest binding (it stays bound, to absent, keeping its type) *)
Definition a_unset (x : bytes) (s : astack) : astack :=
  match s with
  | fs :: r => match fs_poke x VAbsent fs with Some fs' => fs' :: r | None => s end
  | [] => s
  end.

(* ------------------------------------------------------------------ concrete, pooled *)
Record cslot := { c_name : bytes; c_ty : tyname; c_val : value }.
Record cframe := { vars : list cslot; n2o : list (bytes * nat) }.
Record cfset := { frames : list cframe (* head = top *); fpool : list cframe (* popped, dirty *) }.
Record cstack := { sets : list cfset (* head = current *); spool : list cfset (* popped, dirty *) }.

Definition cf_new : cframe := {| vars := []; n2o := [] |}.
(* StackFrame.clear(): vars truncated, map cleared *)
Definition cf_clear (f : cframe) : cframe := {| vars := []; n2o := [] |}.
Definition cfs_new : cfset := {| frames := [cf_new]; fpool := [] |}.
Definition c_new : cstack := {| sets := [cfs_new]; spool := [] |}.

Fixpoint olookup (x : bytes) (m : list (bytes * nat)) : option nat :=
  match m with
  | [] => None
  | (y, n) :: t => if beqb x y then Some n else olookup x t
  end.

Definition cf_has (x : bytes) (f : cframe) : bool :=
  match olookup x (n2o f) with Some _ => true | None => false end.

Definition cf_get (x : bytes) (f : cframe) : option cslot :=
  match olookup x (n2o f) with
  | Some off => nth_error (vars f) off
  | None => None
  end.

Fixpoint list_set {A} (n : nat) (a : A) (l : list A) : list A :=
  match l, n with
  | [], _ => []
  | _ :: t, O => a :: t
  | h :: t, S n' => h :: list_set n' a t
  end.

(* append a new slot: frame.vars = append(frame.vars, slot); namesToOffsets[name] = len-1 *)
Definition cf_append (sl : cslot) (f : cframe) : cframe :=
  {| vars := vars f ++ [sl]; n2o := n2o f ++ [(c_name sl, List.length (vars f))] |}.

Definition cf_define (x : bytes) (t : tyname) (v : value) (f : cframe) : option cframe :=
  match olookup x (n2o f) with
  | Some _ => None
  | None => if gate t v then Some (cf_append {| c_name := x; c_ty := t; c_val := v |} f) else None
  end.

Definition cf_set (x : bytes) (v : value) (f : cframe) : option cframe :=
  match olookup x (n2o f) with
  | Some off =>
      match nth_error (vars f) off with
      | Some sl => if gate (c_ty sl) v
                   then Some {| vars := list_set off {| c_name := c_name sl; c_ty := c_ty sl; c_val := v |} (vars f); n2o := n2o f |}
                   else None
      | None => None
      end
  | None => Some (cf_append {| c_name := x; c_ty := TAny; c_val := v |} f)
  end.

Definition cf_poke (x : bytes) (v : value) (f : cframe) : cframe :=
  match olookup x (n2o f) with
  | Some off =>
      match nth_error (vars f) off with
      | Some sl => {| vars := list_set off {| c_name := c_name sl; c_ty := c_ty sl; c_val := v |} (vars f); n2o := n2o f |}
      | None => f
      end
  | None => f
  end.

(* pushStackFrame: reuse a pooled frame after clearing it, else allocate *)
Definition cfs_push (fs : cfset) : cfset :=
  match fpool fs with
  | f :: p => {| frames := cf_clear f :: frames fs; fpool := p |}
  | [] => {| frames := cf_new :: frames fs; fpool := [] |}
  end.
(* popStackFrame: the popped frame goes to the pool as it is *)
Definition cfs_pop (fs : cfset) : cfset :=
  match frames fs with
  | f :: ((_ :: _) as r) => {| frames := r; fpool := f :: fpool fs |}
  | _ => fs
  end.
(* reset(): pop down to one frame, clear it *)
Fixpoint cfs_pop_all (n : nat) (fs : cfset) : cfset :=
  match n with O => fs | S n' => cfs_pop_all n' (cfs_pop fs) end.
Definition cfs_reset (fs : cfset) : cfset :=
  let fs' := cfs_pop_all (List.length (frames fs)) fs in
  match frames fs' with
  | f :: r => {| frames := cf_clear f :: r; fpool := fpool fs' |}
  | [] => fs'
  end.

Definition c_push_frame (s : cstack) : cstack :=
  match sets s with
  | fs :: r => {| sets := cfs_push fs :: r; spool := spool s |}
  | [] => s
  end.
Definition c_pop_frame (s : cstack) : cstack :=
  match sets s with
  | fs :: r => {| sets := cfs_pop fs :: r; spool := spool s |}
  | [] => s
  end.
Definition c_push_set (s : cstack) : cstack :=
  match spool s with
  | fs :: p => {| sets := cfs_reset fs :: sets s; spool := p |}
  | [] => {| sets := cfs_new :: sets s; spool := [] |}
  end.
Definition c_pop_set (s : cstack) : cstack :=
  match sets s with
  | fs :: ((_ :: _) as r) => {| sets := r; spool := fs :: spool s |}
  | _ => s
  end.

Fixpoint cfl_get (x : bytes) (fl : list cframe) : option value :=
  match fl with
  | [] => None
  | f :: t => match cf_get x f with Some sl => Some (c_val sl) | None => cfl_get x t end
  end.
Definition c_get (x : bytes) (s : cstack) : option value :=
  match sets s with fs :: _ => cfl_get x (frames fs) | [] => None end.

Definition c_top (g : cframe -> option cframe) (s : cstack) : option cstack :=
  match sets s with
  | fs :: r =>
      match frames fs with
      | f :: fl => match g f with
                   | Some f' => Some {| sets := {| frames := f' :: fl; fpool := fpool fs |} :: r; spool := spool s |}
                   | None => None
                   end
      | [] => None
      end
  | [] => None
  end.

Definition c_define (x : bytes) (t : tyname) (v : value) (s : cstack) : option cstack := c_top (cf_define x t v) s.
Definition c_set_at_scope (x : bytes) (v : value) (s : cstack) : option cstack := c_top (cf_set x v) s.

Fixpoint cfl_set_existing (x : bytes) (v : value) (fl : list cframe) : option (option (list cframe)) :=
  match fl with
  | [] => None
  | f :: t =>
      if cf_has x f
      then Some (match cf_set x v f with Some f' => Some (f' :: t) | None => None end)
      else match cfl_set_existing x v t with
           | Some (Some t') => Some (Some (f :: t'))
           | Some None => Some None
           | None => None
           end
  end.

Definition c_set (x : bytes) (v : value) (s : cstack) : option cstack :=
  match sets s with
  | fs :: r =>
      match cfl_set_existing x v (frames fs) with
      | Some (Some fl) => Some {| sets := {| frames := fl; fpool := fpool fs |} :: r; spool := spool s |}
      | Some None => None
      | None => c_set_at_scope x v s
      end
  | [] => None
  end.

Fixpoint cfl_poke (x : bytes) (v : value) (fl : list cframe) : option (list cframe) :=
  match fl with
  | [] => None
  | f :: t => if cf_has x f then Some (cf_poke x v f :: t)
              else match cfl_poke x v t with Some t' => Some (f :: t') | None => None end
  end.

Definition c_unset (x : bytes) (s : cstack) : cstack :=
  match sets s with
  | fs :: r => match cfl_poke x VAbsent (frames fs) with
               | Some fl => {| sets := {| frames := fl; fpool := fpool fs |} :: r; spool := spool s |}
               | None => s
               end
  | [] => s
  end.

(* ------------------------------------------------------------------ operation sequences *)
Inductive sop :=
| OpPushFrame | OpPopFrame | OpPushSet | OpPopSet
| OpDefine (x : bytes) (t : tyname) (v : value)
| OpSet (x : bytes) (v : value)
| OpSetAtScope (x : bytes) (v : value)
| OpUnset (x : bytes)
| OpGet (x : bytes).

Inductive sobs := ObsUnit | ObsErr | ObsVal (v : option value).

Definition a_step (s : astack) (o : sop) : astack * sobs :=
  match o with
  | OpPushFrame => (a_push_frame s, ObsUnit)
  | OpPopFrame => (a_pop_frame s, ObsUnit)
  | OpPushSet => (a_push_set s, ObsUnit)
  | OpPopSet => (a_pop_set s, ObsUnit)
  | OpDefine x t v => match a_define x t v s with Some s' => (s', ObsUnit) | None => (s, ObsErr) end
  | OpSet x v => match a_set x v s with Some s' => (s', ObsUnit) | None => (s, ObsErr) end
  | OpSetAtScope x v => match a_set_at_scope x v s with Some s' => (s', ObsUnit) | None => (s, ObsErr) end
  | OpUnset x => (a_unset x s, ObsUnit)
  | OpGet x => (s, ObsVal (a_get x s))
  end.

Definition c_step (s : cstack) (o : sop) : cstack * sobs :=
  match o with
  | OpPushFrame => (c_push_frame s, ObsUnit)
  | OpPopFrame => (c_pop_frame s, ObsUnit)
  | OpPushSet => (c_push_set s, ObsUnit)
  | OpPopSet => (c_pop_set s, ObsUnit)
  | OpDefine x t v => match c_define x t v s with Some s' => (s', ObsUnit) | None => (s, ObsErr) end
  | OpSet x v => match c_set x v s with Some s' => (s', ObsUnit) | None => (s, ObsErr) end
  | OpSetAtScope x v => match c_set_at_scope x v s with Some s' => (s', ObsUnit) | None => (s, ObsErr) end
  | OpUnset x => (c_unset x s, ObsUnit)
  | OpGet x => (s, ObsVal (c_get x s))
  end.

Fixpoint a_run (s : astack) (ops : list sop) : astack * list sobs :=
  match ops with
  | [] => (s, [])
  | o :: t => let '(s', ob) := a_step s o in let '(s'', obs) := a_run s' t in (s'', ob :: obs)
  end.
Fixpoint c_run (s : cstack) (ops : list sop) : cstack * list sobs :=
  match ops with
  | [] => (s, [])
  | o :: t => let '(s', ob) := c_step s o in let '(s'', obs) := c_run s' t in (s'', ob :: obs)
  end.

(* abstraction function: forget the pools; a frame is its slots in order *)
Definition abs_frame (f : cframe) : scope :=
  map (fun sl => (c_name sl, {| b_ty := c_ty sl; b_val := c_val sl |})) (vars f).
Definition abs_fset (fs : cfset) : fset := map abs_frame (frames fs).
Definition abs_stack (s : cstack) : astack := map abs_fset (sets s).
