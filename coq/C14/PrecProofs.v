(* C14 precedence, mechanism (B): the operator chain regenerated from pkg/parsing/mlr.bnf equals the documented table. *)
From Miller Require Import Base.Bytes gen.Gen_Precedence.

(* docs/src/reference-dsl-operators.md "Operator precedence", entered once, LOWEST precedence first (the document lists
   highest first).  The document does not list the dot-prefixed integer-preserving arithmetic operators
   .+ .- .* ./ .// ; the builtin-functions reference describes them as variants of + - * / // , and they are entered here
   on the rows of their undotted counterparts.  The rows "() {} []" (primary expressions) and "=" (not an operator of
   the expression grammar) have no counterpart in the operator chain. *)
Definition documented_levels : list (list bytes * assoc * opkind) := [
  ([B "?:"], AssocR, KTernary);
  ([B "||"], AssocL, KBinary);
  ([B "^^"], AssocL, KBinary);
  ([B "&&"], AssocL, KBinary);
  ([B "=="; B "!="; B "=~"; B "!=~"; B "<=>"], AssocL, KBinary);
  ([B "<"; B "<="; B ">"; B ">="], AssocL, KBinary);
  ([B "|"], AssocL, KBinary);
  ([B "^"], AssocL, KBinary);
  ([B "&"], AssocL, KBinary);
  ([B "<<"; B ">>"; B ">>>"], AssocL, KBinary);
  ([B "+"; B "-"; B ".+"; B ".-"], AssocL, KBinary);
  ([B "*"; B "/"; B "//"; B "%"; B ".*"; B "./"; B ".//"], AssocL, KBinary);
  ([B "."], AssocL, KBinary);
  ([B "!"; B "~"; B "+"; B "-"; B ".+"; B ".-"], AssocR, KUnary);
  ([B "??"], AssocL, KBinary);
  ([B "???"], AssocL, KBinary);
  ([B "**"], AssocR, KBinary)
].

Definition memb (x : bytes) (l : list bytes) : bool := existsb (beqb x) l.
Definition same_set (a b : list bytes) : bool :=
  Nat.eqb (List.length a) (List.length b) && forallb (fun x => memb x b) a && forallb (fun x => memb x a) b.
Definition assoc_eqb (a b : assoc) : bool :=
  match a, b with AssocL, AssocL | AssocR, AssocR => true | _, _ => false end.
Definition kind_eqb (a b : opkind) : bool :=
  match a, b with KBinary, KBinary | KUnary, KUnary | KTernary, KTernary => true | _, _ => false end.
Definition level_eqb (a b : list bytes * assoc * opkind) : bool :=
  let '(oa, aa, ka) := a in let '(ob, ab, kb) := b in same_set oa ob && assoc_eqb aa ab && kind_eqb ka kb.
Fixpoint levels_eqb (a b : list (list bytes * assoc * opkind)) : bool :=
  match a, b with
  | [], [] => true
  | x :: a', y :: b' => level_eqb x y && levels_eqb a' b'
  | _, _ => false
  end.

(* same number of levels, in the same order, each with the same operator set, associativity and arity *)
Lemma precedence_matches_reference : levels_eqb gen_levels documented_levels = true.
Proof. vm_compute. reflexivity. Qed.

(* consequences in readable form *)
Definition level_index (op : bytes) (k : opkind) (ls : list (list bytes * assoc * opkind)) : option nat :=
  (fix go (i : nat) (l : list (list bytes * assoc * opkind)) : option nat :=
     match l with
     | [] => None
     | (ops, _, k') :: t => if memb op ops && kind_eqb k k' then Some i else go (S i) t
     end) O ls.

Lemma precedence_examples :
  (* multiplication binds tighter than addition, the dot operator tighter than multiplication, unary operators tighter
     than the dot, ?? and ??? and ** tighter still; comparison below bitwise, logical below comparison, ?: lowest *)
  level_index (B "+") KBinary gen_levels = Some 10%nat /\ level_index (B "*") KBinary gen_levels = Some 11%nat
  /\ level_index (B ".") KBinary gen_levels = Some 12%nat /\ level_index (B "-") KUnary gen_levels = Some 13%nat
  /\ level_index (B "??") KBinary gen_levels = Some 14%nat /\ level_index (B "???") KBinary gen_levels = Some 15%nat
  /\ level_index (B "**") KBinary gen_levels = Some 16%nat /\ level_index (B "<") KBinary gen_levels = Some 5%nat
  /\ level_index (B "==") KBinary gen_levels = Some 4%nat /\ level_index (B "&&") KBinary gen_levels = Some 3%nat
  /\ level_index (B "||") KBinary gen_levels = Some 1%nat /\ level_index (B "?:") KTernary gen_levels = Some 0%nat.
Proof. vm_compute. repeat split; reflexivity. Qed.
