(* C14 value domain: the part of pkg/mlrval the covered DSL subset can produce (no floats, arrays, funct values),
   insertion-ordered maps (pkg/mlrval/mlrmap_accessors.go), the type gate (pkg/types/mlrval_typing.go +
   pkg/mlrval/mlrval_type.go masks), and the operator dispositions of pkg/bifs for these kinds.
   Definitions only (plus the small lemmas about amap needed everywhere). *)
From Miller Require Export Base.Bytes.
Open Scope Z_scope.

Inductive value : Type :=
| VAbsent
| VError
| VInt (z : Z)
| VStr (s : bytes)                 (* the empty string is Miller's "empty"/void kind *)
| VBool (b : bool)
| VMap (m : list (bytes * value)).

Definition amap := list (bytes * value).

(* results of the fuelled interpreter.  Fatal: mlr exits non-zero.  Unsup: the program left the modelled
   fragment (arrays, floats by overflow, ...): the harness skips (and counts) such cases. *)
Inductive res (A : Type) : Type :=
| Ok (a : A)
| Fatal
| OutOfFuel
| Unsup.
Arguments Ok {A} a.
Arguments Fatal {A}.
Arguments OutOfFuel {A}.
Arguments Unsup {A}.

Definition bind {A B} (r : res A) (f : A -> res B) : res B :=
  match r with Ok a => f a | Fatal => Fatal | OutOfFuel => OutOfFuel | Unsup => Unsup end.
Notation "'do' x <- r ; k" := (bind r (fun x => k)) (at level 200, x pattern, r at level 100, k at level 200).

(* ---- insertion-ordered maps: Mlrmap Get / PutCopy / Remove *)
Fixpoint mget (k : bytes) (m : amap) : option value :=
  match m with
  | [] => None
  | (k', v) :: t => if beqb k k' then Some v else mget k t
  end.

Definition mhas (k : bytes) (m : amap) : bool := match mget k m with Some _ => true | None => false end.

(* PutCopy: overwrite in place, else append at the end *)
Fixpoint mput (k : bytes) (v : value) (m : amap) : amap :=
  match m with
  | [] => [(k, v)]
  | (k', v') :: t => if beqb k k' then (k', v) :: t else (k', v') :: mput k v t
  end.

Fixpoint mremove (k : bytes) (m : amap) : amap :=
  match m with
  | [] => []
  | (k', v') :: t => if beqb k k' then t else (k', v') :: mremove k t
  end.

Definition mkeys (m : amap) : list bytes := map fst m.

(* ---- kinds and the type gate *)
Inductive tyname := TAny | TVar | TInt | TNum | TStr | TBool | TMap | TFloat | TArr | TFunct.

Definition is_void (v : value) : bool := match v with VStr [] => true | _ => false end.

(* TypeGatedMlrvalName.Check: bit(value) & mask(type) <> 0, masks from mlrval_type.go *)
Definition gate (t : tyname) (v : value) : bool :=
  match t, v with
  | TAny, _ => true
  | TVar, (VInt _ | VStr _ | VBool _ | VMap _) => true
  | TInt, VInt _ => true
  | TNum, VInt _ => true
  | TStr, VStr _ => true
  | TBool, VBool _ => true
  | TMap, VMap _ => true
  | _, _ => false
  end.

(* ---- formatting: Mlrval.String() for ints (canonical decimal), bools *)
Definition digit (n : Z) : ascii := ascii_of_N (Z.to_N (48 + n)).
Fixpoint pos_digits (fuel : nat) (n : Z) (acc : bytes) : bytes :=
  match fuel with
  | O => acc
  | S f => if n <? 10 then digit n :: acc else pos_digits f (n / 10) (digit (n mod 10) :: acc)
  end.
Definition Z_to_bytes (z : Z) : bytes :=
  if z <? 0 then "-"%char :: pos_digits 25 (- z) [] else pos_digits 25 z [].

Definition bool_bytes (b : bool) : bytes := if b then B "true" else B "false".

(* String() of the scalar kinds; None for the others *)
Definition scalar_string (v : value) : option bytes :=
  match v with
  | VInt z => Some (Z_to_bytes z)
  | VStr s => Some s
  | VBool b => Some (bool_bytes b)
  | _ => None
  end.

(* ---- arithmetic: + - * with the dispositions of pkg/bifs/arithmetic.go restricted to our kinds.
   The int x int kernels overflow to float beyond int64; the model leaves the fragment (Unsup) well before that. *)
Definition int_limit : Z := 4503599627370496. (* 2^52 *)
Definition int_result (z : Z) : res value :=
  if (Z.abs z <? int_limit) then Ok (VInt z) else Unsup.

Inductive aop := OAdd | OSub | OMul.
Definition aop_kernel (o : aop) : Z -> Z -> Z :=
  match o with OAdd => Z.add | OSub => Z.sub | OMul => Z.mul end.

Definition is_map (v : value) : bool := match v with VMap _ => true | _ => false end.

Definition arith (o : aop) (a b : value) : res value :=
  if is_map a || is_map b then Ok VAbsent else
  match a, b with
  | VInt x, VInt y => int_result (aop_kernel o x y)
  | VInt _, VStr [] => Ok a
  | VInt _, VAbsent => Ok a
  | VStr [], VInt y => match o with OSub => int_result (- y) | _ => Ok b end
  | VAbsent, VInt _ => Ok b
  | VStr [], VStr [] => Ok (VStr [])
  | VStr [], VAbsent => Ok VAbsent
  | VAbsent, VStr [] => Ok VAbsent
  | VAbsent, VAbsent => Ok VAbsent
  | _, _ => Ok VError
  end.

(* unary minus: uneg_dispositions *)
Definition uneg (a : value) : res value :=
  match a with
  | VInt x => int_result (- x)
  | VStr [] => Ok (VInt 0)
  | VAbsent => Ok VAbsent
  | VMap _ => Ok VAbsent
  | _ => Ok VError
  end.

(* ---- dot: pkg/bifs/strings.go dot_dispositions *)
Definition dot (a b : value) : res value :=
  match a, b with
  | VMap _, _ => Unsup                    (* DotCallsiteNode: map.attribute access, not modelled *)
  | VError, VMap _ => Ok VAbsent
  | VError, _ => Ok VError
  | _, VError => Ok VError
  | VStr [], VMap _ => Ok VAbsent
  | VAbsent, VMap _ => Ok VAbsent
  | _, VMap _ => Ok VError
  | VStr [], VStr [] => Ok (VStr [])
  | VStr [], VAbsent => Ok (VStr [])
  | VAbsent, VStr [] => Ok (VStr [])
  | VAbsent, VAbsent => Ok VAbsent
  | VStr [], VStr s => Ok b
  | VAbsent, VStr s => Ok b
  | VStr [], _ => match scalar_string b with Some s => Ok (VStr s) | None => Ok VError end
  | VAbsent, _ => match scalar_string b with Some s => Ok (VStr s) | None => Ok VError end
  | VStr s, VStr [] => Ok a
  | VStr s, VAbsent => Ok a
  | _, VStr [] => match scalar_string a with Some s => Ok (VStr s) | None => Ok VError end
  | _, VAbsent => match scalar_string a with Some s => Ok (VStr s) | None => Ok VError end
  | _, _ => match scalar_string a, scalar_string b with
            | Some s, Some t => Ok (VStr (s ++ t))
            | _, _ => Ok VError
            end
  end.

(* ---- comparisons: pkg/bifs/cmp.go *)
Inductive cop := CEq | CNe | CLt | CLe | CGt | CGe.

(* lexical byte order, Go's string < *)
Fixpoint bytes_cmp (a b : bytes) : comparison :=
  match a, b with
  | [], [] => Eq
  | [], _ :: _ => Lt
  | _ :: _, [] => Gt
  | x :: a', y :: b' =>
      match (code x ?= code y)%N with
      | Eq => bytes_cmp a' b'
      | c => c
      end
  end.

Definition cop_of_cmp (o : cop) (c : comparison) : bool :=
  match o, c with
  | CEq, Eq => true | CEq, _ => false
  | CNe, Eq => false | CNe, _ => true
  | CLt, Lt => true | CLt, _ => false
  | CLe, Gt => false | CLe, _ => true
  | CGt, Gt => true | CGt, _ => false
  | CGe, Lt => false | CGe, _ => true
  end.

Definition bool_Z (b : bool) : Z := if b then 1 else 0.

(* the "different kinds" answer: false for everything except != *)
Definition cop_mixed (o : cop) : bool := match o with CNe => true | _ => false end.

Definition compare_values (o : cop) (a b : value) : res value :=
  match a, b with
  | VError, _ => Ok VError
  | _, VError => Ok VError
  | VAbsent, _ => Ok VAbsent
  | _, VAbsent => Ok VAbsent
  | VInt x, VInt y => Ok (VBool (cop_of_cmp o (x ?= y)))
  | VInt x, VStr s => Ok (VBool (cop_of_cmp o (bytes_cmp (Z_to_bytes x) s)))
  | VStr s, VInt y => Ok (VBool (cop_of_cmp o (bytes_cmp s (Z_to_bytes y))))
  | VStr s, VStr t => Ok (VBool (cop_of_cmp o (bytes_cmp s t)))
  | VBool x, VBool y => Ok (VBool (cop_of_cmp o (bool_Z x ?= bool_Z y)))
  | VMap _, VMap _ => Unsup          (* map equality / ordering errors: not modelled *)
  | _, _ => Ok (VBool (cop_mixed o))
  end.

(* ---- logical NOT: BIF_logical_NOT *)
Definition lnot (a : value) : value :=
  match a with VBool b => VBool (negb b) | _ => VError end.

(* ---- map indexing: Mlrval.MapGet via getWithMlrvalSingleIndex; ArrayOrMapIndexAccessNode *)
Definition key_for_get (k : value) : option bytes :=
  match k with
  | VInt z => Some (Z_to_bytes z)
  | VStr [] => None                  (* IsString() is false for void *)
  | VStr s => Some s
  | _ => None
  end.

(* keys accepted by PutCopyWithMlrvalIndex / MapPut: string, void, int *)
Definition key_for_put (k : value) : option bytes :=
  match k with
  | VInt z => Some (Z_to_bytes z)
  | VStr s => Some s
  | _ => None
  end.

Definition index_read (base k : value) : res value :=
  match base with
  | VMap m => match key_for_get k with
              | Some ks => match mget ks m with Some v => Ok v | None => Ok VAbsent end
              | None => Ok VError
              end
  | VStr _ => Unsup                  (* string indexing (UTF-8 runes) is outside the fragment *)
  | VAbsent => Ok VAbsent
  | _ => Ok VError
  end.

(* index is string or int in the strict sense used by PutIndexed (IsString / IsInt: void excluded) *)
Definition strict_key (k : value) : option bytes := key_for_get k.

(* Mlrval.PutIndexed / putIndexedOnMap for our kinds.  [put_indexed_map m idx v] handles a base that is a map;
   auto-create of intermediate levels (NewMlrvalForAutoDeepen), overwrite of scalars by maps when the index is a
   string; int index on an existing scalar would create an array: Unsup.  Errors are Go errors -> None (statement error). *)
Inductive pres := POk (m : amap) | PErr | PUnsup.

Fixpoint put_indexed_map (m : amap) (idx : list value) (v : value) : pres :=
  match idx with
  | [] => match v with VMap m' => POk m' | _ => PErr end
  | [k] => match key_for_put k with Some ks => POk (mput ks v m) | None => PErr end
  | k :: ((k2 :: _) as rest) =>
      match strict_key k with
      | None => PErr
      | Some ks =>
          match mget ks m with
          | None =>
              match strict_key k2 with
              | None => PErr
              | Some _ => match put_indexed_map [] rest v with
                          | POk sub => POk (mput ks (VMap sub) m)
                          | e => e
                          end
              end
          | Some (VMap sub) =>
              match put_indexed_map sub rest v with
              | POk sub' => POk (mput ks (VMap sub') m)
              | e => e
              end
          | Some _ =>
              (* existing non-collection: overwritten by an empty map when the next index is a string,
                 by an array when it is an int *)
              (* existing non-collection: overwritten by an empty map when the next index is a string,
                 by an array when it is an int *)
              match k2 with
              | VStr (_ :: _) => match put_indexed_map [] rest v with
                                 | POk sub => POk (mput ks (VMap sub) m)
                                 | e => e
                                 end
              | VInt _ => PUnsup
              | _ => PErr
              end
          end
      end
  end.

(* removeIndexedOnMap: errors are ignored by every caller ("unset of a non-existent path is a no-op") *)
Fixpoint remove_indexed_map (m : amap) (idx : list value) : amap :=
  match idx with
  | [] => m
  | [k] => match strict_key k with Some ks => mremove ks m | None => m end
  | k :: rest =>
      match strict_key k with
      | None => m
      | Some ks => match mget ks m with
                   | Some (VMap sub) => mput ks (VMap (remove_indexed_map sub rest)) m
                   | _ => m
                   end
      end
  end.

(* ---- unary built-in functions of the typing class (pkg/bifs/types.go) and length (pkg/bifs/collections.go) *)
Inductive fun1 := FTypeof | FIsAbsent | FIsPresent | FIsError | FIsMap | FIsString | FIsInt | FIsBool | FIsEmpty | FLength.

Definition type_name (v : value) : bytes :=
  match v with
  | VAbsent => B "absent" | VError => B "error" | VInt _ => B "int" | VStr [] => B "empty" | VStr _ => B "string"
  | VBool _ => B "bool" | VMap _ => B "map"
  end.

Definition apply_fun1 (f : fun1) (v : value) : value :=
  match f with
  | FTypeof => VStr (type_name v)
  | FIsAbsent => VBool (match v with VAbsent => true | _ => false end)
  | FIsPresent => VBool (match v with VAbsent => false | _ => true end)
  | FIsError => VBool (match v with VError => true | _ => false end)
  | FIsMap => VBool (is_map v)
  | FIsString => VBool (match v with VStr _ => true | _ => false end)
  | FIsInt => VBool (match v with VInt _ => true | _ => false end)
  | FIsBool => VBool (match v with VBool _ => true | _ => false end)
  | FIsEmpty => VBool (is_void v)
  | FLength => VInt (match v with VError => 0 | VAbsent => 0 | VMap m => Z.of_nat (List.length m) | _ => 1 end)
  end.

(* ---- value equality (executable), for the harness *)
Fixpoint value_eqb (a b : value) : bool :=
  match a, b with
  | VAbsent, VAbsent => true
  | VError, VError => true
  | VInt x, VInt y => x =? y
  | VStr s, VStr t => beqb s t
  | VBool x, VBool y => Bool.eqb x y
  | VMap m, VMap n =>
      (fix go (m n : amap) : bool :=
         match m, n with
         | [], [] => true
         | (k, v) :: m', (k', v') :: n' => beqb k k' && value_eqb v v' && go m' n'
         | _, _ => false
         end) m n
  | _, _ => false
  end.

Fixpoint amap_eqb (m n : amap) : bool :=
  match m, n with
  | [], [] => true
  | (k, v) :: m', (k', v') :: n' => beqb k k' && value_eqb v v' && amap_eqb m' n'
  | _, _ => false
  end.
