(* C14 value domain: the part of pkg/mlrval the covered DSL subset can produce (no floats, arrays, funct values),
   insertion-ordered maps (pkg/mlrval/mlrmap_accessors.go), the type gate (pkg/types/mlrval_typing.go +
   pkg/mlrval/mlrval_type.go masks), and the operator dispositions of pkg/bifs for these kinds.
   Definitions only (plus the small lemmas about amap needed everywhere). *)
From Miller Require Export Base.Bytes.
From Miller Require C15.Model.
Open Scope Z_scope.

Inductive value : Type :=
| VAbsent
| VError
| VInt (z : Z)
| VStr (s : bytes)                 (* the empty string is Miller's "empty"/void kind *)
| VBool (b : bool)
| VMap (m : list (bytes * value))
| VArr (l : list value).           (* arrays: 1-up in the DSL, elements may be absent (array literals keep them) *)

Definition amap := list (bytes * value).

(* results of the fuelled interpreter.  Fatal: mlr exits non-zero.  Unsup: the program left the modelled
   fragment (arrays, floats by overflow, ...): the harness skips (and counts) such cases. *)
Inductive res (A : Type) : Type :=
| Ok (a : A)
| Fatal
| OutOfFuel
| Unsup.
Arguments Ok {A} a.
Arguments Fatal {A}.
Arguments OutOfFuel {A}.
Arguments Unsup {A}.

Definition bind {A B} (r : res A) (f : A -> res B) : res B :=
  match r with Ok a => f a | Fatal => Fatal | OutOfFuel => OutOfFuel | Unsup => Unsup end.
Notation "'do' x <- r ; k" := (bind r (fun x => k)) (at level 200, x pattern, r at level 100, k at level 200).

(* ---- insertion-ordered maps: Mlrmap Get / PutCopy / Remove *)
Fixpoint mget (k : bytes) (m : amap) : option value :=
  match m with
  | [] => None
  | (k', v) :: t => if beqb k k' then Some v else mget k t
  end.

Definition mhas (k : bytes) (m : amap) : bool := match mget k m with Some _ => true | None => false end.

(* PutCopy: overwrite in place, else append at the end *)
Fixpoint mput (k : bytes) (v : value) (m : amap) : amap :=
  match m with
  | [] => [(k, v)]
  | (k', v') :: t => if beqb k k' then (k', v) :: t else (k', v') :: mput k v t
  end.

Fixpoint mremove (k : bytes) (m : amap) : amap :=
  match m with
  | [] => []
  | (k', v') :: t => if beqb k k' then t else (k', v') :: mremove k t
  end.

Definition mkeys (m : amap) : list bytes := map fst m.

(* ---- kinds and the type gate *)
Inductive tyname := TAny | TVar | TInt | TNum | TStr | TBool | TMap | TFloat | TArr | TFunct.

Definition is_void (v : value) : bool := match v with VStr [] => true | _ => false end.

(* TypeGatedMlrvalName.Check: bit(value) & mask(type) <> 0, masks from mlrval_type.go *)
Definition gate (t : tyname) (v : value) : bool :=
  match t, v with
  | TAny, _ => true
  | TVar, (VInt _ | VStr _ | VBool _ | VMap _ | VArr _) => true
  | TArr, VArr _ => true
  | TInt, VInt _ => true
  | TNum, VInt _ => true
  | TStr, VStr _ => true
  | TBool, VBool _ => true
  | TMap, VMap _ => true
  | _, _ => false
  end.

(* ---- formatting: Mlrval.String() for ints (canonical decimal), bools *)
Definition digit (n : Z) : ascii := ascii_of_N (Z.to_N (48 + n)).
Fixpoint pos_digits (fuel : nat) (n : Z) (acc : bytes) : bytes :=
  match fuel with
  | O => acc
  | S f => if n <? 10 then digit n :: acc else pos_digits f (n / 10) (digit (n mod 10) :: acc)
  end.
Definition Z_to_bytes (z : Z) : bytes :=
  if z <? 0 then "-"%char :: pos_digits 25 (- z) [] else pos_digits 25 z [].

Definition bool_bytes (b : bool) : bytes := if b then B "true" else B "false".

(* String() of the scalar kinds; None for the others *)
Definition scalar_string (v : value) : option bytes :=
  match v with
  | VInt z => Some (Z_to_bytes z)
  | VStr s => Some s
  | VBool b => Some (bool_bytes b)
  | _ => None
  end.

(* ---- arithmetic: + - * with the dispositions of pkg/bifs/arithmetic.go restricted to our kinds.
   The int x int kernels overflow to float beyond int64; the model leaves the fragment (Unsup) well before that. *)
Definition int_limit : Z := 4503599627370496. (* 2^52 *)
Definition int_result (z : Z) : res value :=
  if (Z.abs z <? int_limit) then Ok (VInt z) else Unsup.

Inductive aop := OAdd | OSub | OMul.
Definition aop_kernel (o : aop) : Z -> Z -> Z :=
  match o with OAdd => Z.add | OSub => Z.sub | OMul => Z.mul end.

Definition is_map (v : value) : bool := match v with VMap _ => true | _ => false end.
Definition is_arr (v : value) : bool := match v with VArr _ => true | _ => false end.
Definition is_coll (v : value) : bool := is_map v || is_arr v.

Definition arith (o : aop) (a b : value) : res value :=
  if is_coll a || is_coll b then Ok VAbsent else
  match a, b with
  | VInt x, VInt y => int_result (aop_kernel o x y)
  | VInt _, VStr [] => Ok a
  | VInt _, VAbsent => Ok a
  | VStr [], VInt y => match o with OSub => int_result (- y) | _ => Ok b end
  | VAbsent, VInt _ => Ok b
  | VStr [], VStr [] => Ok (VStr [])
  | VStr [], VAbsent => Ok VAbsent
  | VAbsent, VStr [] => Ok VAbsent
  | VAbsent, VAbsent => Ok VAbsent
  | _, _ => Ok VError
  end.

(* unary minus: uneg_dispositions *)
Definition uneg (a : value) : res value :=
  match a with
  | VInt x => int_result (- x)
  | VStr [] => Ok (VInt 0)
  | VAbsent => Ok VAbsent
  | VMap _ => Ok VAbsent
  | VArr _ => Ok VAbsent
  | _ => Ok VError
  end.

(* ---- dot: pkg/bifs/strings.go dot_dispositions *)
Definition dot (a b : value) : res value :=
  match a, b with
  | VMap _, _ => Unsup                    (* DotCallsiteNode: map.attribute access, not modelled *)
  | VArr _, _ => Ok VError
  | VError, (VMap _ | VArr _) => Ok VAbsent
  | VError, _ => Ok VError
  | _, VError => Ok VError
  | VStr [], (VMap _ | VArr _) => Ok VAbsent
  | VAbsent, (VMap _ | VArr _) => Ok VAbsent
  | _, (VMap _ | VArr _) => Ok VError
  | VStr [], VStr [] => Ok (VStr [])
  | VStr [], VAbsent => Ok (VStr [])
  | VAbsent, VStr [] => Ok (VStr [])
  | VAbsent, VAbsent => Ok VAbsent
  | VStr [], VStr s => Ok b
  | VAbsent, VStr s => Ok b
  | VStr [], _ => match scalar_string b with Some s => Ok (VStr s) | None => Ok VError end
  | VAbsent, _ => match scalar_string b with Some s => Ok (VStr s) | None => Ok VError end
  | VStr s, VStr [] => Ok a
  | VStr s, VAbsent => Ok a
  | _, VStr [] => match scalar_string a with Some s => Ok (VStr s) | None => Ok VError end
  | _, VAbsent => match scalar_string a with Some s => Ok (VStr s) | None => Ok VError end
  | _, _ => match scalar_string a, scalar_string b with
            | Some s, Some t => Ok (VStr (s ++ t))
            | _, _ => Ok VError
            end
  end.

(* ---- comparisons: pkg/bifs/cmp.go *)
Inductive cop := CEq | CNe | CLt | CLe | CGt | CGe.

(* lexical byte order, Go's string < *)
Fixpoint bytes_cmp (a b : bytes) : comparison :=
  match a, b with
  | [], [] => Eq
  | [], _ :: _ => Lt
  | _ :: _, [] => Gt
  | x :: a', y :: b' =>
      match (code x ?= code y)%N with
      | Eq => bytes_cmp a' b'
      | c => c
      end
  end.

Definition cop_of_cmp (o : cop) (c : comparison) : bool :=
  match o, c with
  | CEq, Eq => true | CEq, _ => false
  | CNe, Eq => false | CNe, _ => true
  | CLt, Lt => true | CLt, _ => false
  | CLe, Gt => false | CLe, _ => true
  | CGt, Gt => true | CGt, _ => false
  | CGe, Lt => false | CGe, _ => true
  end.

Definition bool_Z (b : bool) : Z := if b then 1 else 0.

(* the "different kinds" answer: false for everything except != *)
Definition cop_mixed (o : cop) : bool := match o with CNe => true | _ => false end.

Definition compare_values (o : cop) (a b : value) : res value :=
  match a, b with
  | VError, _ => Ok VError
  | _, VError => Ok VError
  | VAbsent, _ => Ok VAbsent
  | _, VAbsent => Ok VAbsent
  | VInt x, VInt y => Ok (VBool (cop_of_cmp o (x ?= y)))
  | VInt x, VStr s => Ok (VBool (cop_of_cmp o (bytes_cmp (Z_to_bytes x) s)))
  | VStr s, VInt y => Ok (VBool (cop_of_cmp o (bytes_cmp s (Z_to_bytes y))))
  | VStr s, VStr t => Ok (VBool (cop_of_cmp o (bytes_cmp s t)))
  | VBool x, VBool y => Ok (VBool (cop_of_cmp o (bool_Z x ?= bool_Z y)))
  | VMap _, VMap _ => Unsup          (* map equality / ordering errors: not modelled *)
  | VArr _, VArr _ => match o with CEq | CNe => Unsup | _ => Ok VError end   (* element-wise equality: not modelled *)
  | _, _ => Ok (VBool (cop_mixed o))
  end.

(* ---- logical NOT: BIF_logical_NOT *)
Definition lnot (a : value) : value :=
  match a with VBool b => VBool (negb b) | _ => VError end.

(* ---- map indexing: Mlrval.MapGet via getWithMlrvalSingleIndex; ArrayOrMapIndexAccessNode *)
Definition key_for_get (k : value) : option bytes :=
  match k with
  | VInt z => Some (Z_to_bytes z)
  | VStr [] => None                  (* IsString() is false for void *)
  | VStr s => Some s
  | _ => None
  end.

(* keys accepted by PutCopyWithMlrvalIndex / MapPut: string, void, int *)
Definition key_for_put (k : value) : option bytes :=
  match k with
  | VInt z => Some (Z_to_bytes z)
  | VStr s => Some s
  | _ => None
  end.

(* ---- arrays: pkg/mlrval/mlrval_collections.go UnaliasArrayLengthIndex (the zindex is C15.Model.unalias, shared with the
   string functions), ArrayGet, and bifs.MillerSliceAccess (C15.Model.slice_access) *)
Definition arr_inb (n m : Z) : bool := ((1 <=? m) && (m <=? n)) || ((m <=? -1) && (- n <=? m)).
Definition zidx (n m : Z) : nat := Z.to_nat (C15.Model.unalias n m).
Definition alen (a : list value) : Z := Z.of_nat (List.length a).
Definition arr_get (a : list value) (m : Z) : option value :=
  if arr_inb (alen a) m then nth_error a (zidx (alen a) m) else None.

Fixpoint arr_set {A} (l : list A) (i : nat) (x : A) : list A :=
  match l, i with
  | [], _ => []
  | _ :: t, O => x :: t
  | h :: t, S j => h :: arr_set t j x
  end.
Definition list_remove_at {A} (l : list A) (i : nat) : list A := firstn i l ++ skipn (S i) l.

Definition index_read (base k : value) : res value :=
  match k with
  | VArr _ => Unsup                  (* x[[n]] / x[[[n]]]: positional access through an array-valued index, not modelled *)
  | _ =>
  match base with
  | VMap m => match key_for_get k with
              | Some ks => match mget ks m with Some v => Ok v | None => Ok VAbsent end
              | None => Ok VError
              end
  | VArr a => match k with
              | VInt m => match arr_get a m with Some v => Ok v | None => Ok VAbsent end   (* out of bounds, 0 included: absent *)
              | _ => Ok VError
              end
  | VStr _ => Unsup                  (* string indexing (UTF-8 runes) is outside the fragment *)
  | VAbsent => Ok VAbsent
  | _ => Ok VError
  end
  end.

(* slices [lo:hi], both bounds inclusive, 1-up with negative aliases, trimmed to the array: ArraySliceAccessNode.Evaluate *)
Inductive sidx := SAbsent | SErr | SIdx (lo hi : Z).
Definition slice_bounds (n : Z) (lo hi : value) : sidx :=
  match lo, hi with
  | VAbsent, _ => SAbsent
  | _, VAbsent => SAbsent
  | _, _ =>
      match (match lo with VInt z => Some z | VStr [] => Some 1 | _ => None end) with
      | None => SErr
      | Some l => match (match hi with VInt z => Some z | VStr [] => Some n | _ => None end) with
                  | None => SErr
                  | Some h => SIdx l h
                  end
      end
  end.

Definition slice_list {A} (l : list A) (lo hi : Z) : list A :=
  match C15.Model.slice_access (Z.of_nat (List.length l)) lo hi false with
  | None => []
  | Some (l0, h0) => firstn (Z.to_nat (h0 - l0 + 1)) (skipn (Z.to_nat l0) l)
  end.

Definition slice_read (base lo hi : value) : value :=
  match base with
  | VAbsent => VAbsent
  | VStr (c :: s) =>                  (* BIF_substr_1_up on the runes *)
      match slice_bounds (Z.of_nat (List.length (C15.Model.runes (c :: s)))) lo hi with
      | SAbsent => VAbsent
      | SErr => VError
      | SIdx l h => VStr (C15.Model.substr1 (c :: s) l h)
      end
  | VArr a =>
      match slice_bounds (alen a) lo hi with
      | SAbsent => VAbsent
      | SErr => VError
      | SIdx l h => VArr (slice_list a l h)
      end
  | _ => VError
  end.

(* index is string or int in the strict sense used by PutIndexed (IsString / IsInt: void excluded) *)
Definition strict_key (k : value) : option bytes := key_for_get k.

(* Mlrval.PutIndexed / putIndexedOnMap / putIndexedOnArray.  Auto-create of intermediate levels below a MAP makes maps
   whatever the next index is (NewMlrvalForAutoDeepen); an existing non-collection is overwritten by an empty map when the
   index is a string, by an empty array when it is an int; an array is extended by exactly one when the index is its
   length + 1 (further out Miller fills the gap with JSON nulls: outside the fragment), index 0 and negative indices
   beyond the start are errors.  Errors are Go errors (statement errors). *)
Inductive vres := VOk (v : value) | VErr | VUnsup.

Fixpoint put_indexed (base : value) (idx : list value) (v : value) {struct idx} : vres :=
  match idx with
  | [] => VErr
  | k :: rest =>
      let base' := match base with
                   | VMap _ | VArr _ => Some base
                   | _ => match k with VStr (_ :: _) => Some (VMap []) | VInt _ => Some (VArr []) | _ => None end
                   end in
      match base' with
      | Some (VMap m) =>
          match rest with
          | [] => match key_for_put k with Some ks => VOk (VMap (mput ks v m)) | None => VErr end
          | k2 :: _ =>
              match strict_key k with
              | None => VErr
              | Some ks =>
                  match mget ks m with
                  | None =>
                      match strict_key k2 with
                      | None => VErr
                      | Some _ => match put_indexed (VMap []) rest v with
                                  | VOk sub => VOk (VMap (mput ks sub m))
                                  | e => e
                                  end
                      end
                  | Some bv => match put_indexed bv rest v with
                               | VOk sub => VOk (VMap (mput ks sub m))
                               | e => e
                               end
                  end
              end
          end
      | Some (VArr a) =>
          match k with
          | VInt mi =>
              let n := alen a in
              if arr_inb n mi then
                match rest with
                | [] => VOk (VArr (arr_set a (zidx n mi) v))
                | k2 :: _ =>
                    let cur := nth (zidx n mi) a VAbsent in
                    match (match k2 with
                           | VStr (_ :: _) => Some (if is_map cur then cur else VMap [])
                           | VInt _ => Some (if is_arr cur then cur else VArr [])
                           | _ => None
                           end) with
                    | None => VErr
                    | Some cur' => match put_indexed cur' rest v with
                                   | VOk sub => VOk (VArr (arr_set a (zidx n mi) sub))
                                   | e => e
                                   end
                    end
                end
              else if mi <=? 0 then VErr
              else if mi =? n + 1 then
                match rest with
                | [] => VOk (VArr (a ++ [v]))
                | _ => match put_indexed (VStr []) rest v with
                       | VOk sub => VOk (VArr (a ++ [sub]))
                       | e => e
                       end
                end
              else VUnsup
          | _ => VErr
          end
      | _ => VErr
      end
  end.

Inductive pres := POk (m : amap) | PErr | PUnsup.

(* a base that is a map (record, oosvars, a fresh map for a local): [] is the whole-map assignment of putIndexedOnMap *)
Definition put_indexed_map (m : amap) (idx : list value) (v : value) : pres :=
  match idx with
  | [] => match v with VMap m' => POk m' | _ => PErr end
  | _ => match put_indexed (VMap m) idx v with
         | VOk (VMap m') => POk m'
         | VOk _ => PErr
         | VErr => PErr
         | VUnsup => PUnsup
         end
  end.

(* Mlrval.RemoveIndexed / removeIndexedOnMap / removeIndexedOnArray: errors are ignored by every caller ("unset of a
   non-existent path is a no-op"); removing an array element shifts the later ones down *)
Fixpoint remove_indexed (base : value) (idx : list value) {struct idx} : value :=
  match idx with
  | [] => base
  | k :: rest =>
      match base with
      | VMap m =>
          match strict_key k with
          | None => base
          | Some ks =>
              match rest with
              | [] => VMap (mremove ks m)
              | _ => match mget ks m with
                     | Some bv => VMap (mput ks (remove_indexed bv rest) m)
                     | None => base
                     end
              end
          end
      | VArr a =>
          match k with
          | VInt mi =>
              let n := alen a in
              if arr_inb n mi then
                match rest with
                | [] => VArr (list_remove_at a (zidx n mi))
                | _ => VArr (arr_set a (zidx n mi) (remove_indexed (nth (zidx n mi) a VAbsent) rest))
                end
              else base
          | _ => base
          end
      | _ => base
      end
  end.

Definition remove_indexed_map (m : amap) (idx : list value) : amap :=
  match remove_indexed (VMap m) idx with VMap m' => m' | _ => m end.

(* ---- positional field names and values: Mlrmap.findEntryByPositionalIndex (1..n and the aliases -n..-1, else no entry),
   GetNameAtPositionalIndex, GetWithPositionalIndex, PutCopyWithPositionalIndex, PutNameWithPositionalIndex *)
Definition pos_idx (m : amap) (p : Z) : option nat :=
  let n := Z.of_nat (List.length m) in if arr_inb n p then Some (zidx n p) else None.
Definition pos_name (m : amap) (p : Z) : option bytes :=
  match pos_idx m p with Some i => option_map fst (nth_error m i) | None => None end.
Definition pos_value (m : amap) (p : Z) : option value :=
  match pos_idx m p with Some i => option_map snd (nth_error m i) | None => None end.
Fixpoint pos_set_value (m : amap) (i : nat) (v : value) : amap :=
  match m, i with
  | [], _ => []
  | (k, _) :: t, O => (k, v) :: t
  | kv :: t, S j => kv :: pos_set_value t j v
  end.
Definition pos_put_value (m : amap) (p : Z) (v : value) : amap :=
  match pos_idx m p with Some i => pos_set_value m i v | None => m end.      (* out of range: no-op *)
(* rename the i-th entry to s; another entry already called s is unlinked *)
Fixpoint pos_rename (m : amap) (i : nat) (s : bytes) : amap :=
  match m with
  | [] => []
  | (k, v) :: t =>
      match i with
      | O => (s, v) :: mremove s t
      | S j => if beqb k s then pos_rename t j s else (k, v) :: pos_rename t j s
      end
  end.
Definition pos_put_name (m : amap) (p : Z) (name : value) : amap :=
  match pos_idx m p, key_for_get name with                (* name.IsString() || name.IsInt(); anything else: no-op *)
  | Some i, Some s => pos_rename m i s
  | _, _ => m
  end.

(* ---- unary built-in functions of the typing class (pkg/bifs/types.go) and length (pkg/bifs/collections.go) *)
Inductive fun1 := FTypeof | FIsAbsent | FIsPresent | FIsError | FIsMap | FIsString | FIsInt | FIsBool | FIsEmpty | FLength | FIsArray.

Definition type_name (v : value) : bytes :=
  match v with
  | VAbsent => B "absent" | VError => B "error" | VInt _ => B "int" | VStr [] => B "empty" | VStr _ => B "string"
  | VBool _ => B "bool" | VMap _ => B "map" | VArr _ => B "array"
  end.

Definition apply_fun1 (f : fun1) (v : value) : value :=
  match f with
  | FTypeof => VStr (type_name v)
  | FIsAbsent => VBool (match v with VAbsent => true | _ => false end)
  | FIsPresent => VBool (match v with VAbsent => false | _ => true end)
  | FIsError => VBool (match v with VError => true | _ => false end)
  | FIsMap => VBool (is_map v)
  | FIsString => VBool (match v with VStr _ => true | _ => false end)
  | FIsInt => VBool (match v with VInt _ => true | _ => false end)
  | FIsBool => VBool (match v with VBool _ => true | _ => false end)
  | FIsEmpty => VBool (is_void v)
  | FLength => VInt (match v with VError => 0 | VAbsent => 0 | VMap m => Z.of_nat (List.length m) | VArr a => alen a | _ => 1 end)
  | FIsArray => VBool (is_arr v)
  end.

(* ---- value equality (executable), for the harness *)
Fixpoint value_eqb (a b : value) : bool :=
  match a, b with
  | VAbsent, VAbsent => true
  | VError, VError => true
  | VInt x, VInt y => x =? y
  | VStr s, VStr t => beqb s t
  | VBool x, VBool y => Bool.eqb x y
  | VMap m, VMap n =>
      (fix go (m n : amap) : bool :=
         match m, n with
         | [], [] => true
         | (k, v) :: m', (k', v') :: n' => beqb k k' && value_eqb v v' && go m' n'
         | _, _ => false
         end) m n
  | VArr m, VArr n =>
      (fix go (m n : list value) : bool :=
         match m, n with
         | [], [] => true
         | v :: m', v' :: n' => value_eqb v v' && go m' n'
         | _, _ => false
         end) m n
  | _, _ => false
  end.

Fixpoint amap_eqb (m n : amap) : bool :=
  match m, n with
  | [], [] => true
  | (k, v) :: m', (k', v') :: n' => beqb k k' && value_eqb v v' && amap_eqb m' n'
  | _, _ => false
  end.

(* ---- executable equality of declared types (for the stack comparison of function-literal calls) *)
Definition tyname_eqb (a b : tyname) : bool :=
  match a, b with
  | TAny, TAny | TVar, TVar | TInt, TInt | TNum, TNum | TStr, TStr | TBool, TBool | TMap, TMap | TFloat, TFloat
  | TArr, TArr | TFunct, TFunct => true
  | _, _ => false
  end.

(* ---- JSON text of a value: Mlrval.String() of maps and arrays (pkg/mlrval/mlrval_json.go, multi-line formatting):
   maps one "key": value per line, indented by two spaces per level, {} when empty; arrays of scalars on one line
   [1, 2], arrays holding a collection one element per line.  Strings with bytes below 0x20 and absent/error elements are
   outside the fragment (None). *)
Definition nl : ascii := ascii_of_N 10.
Definition dq : ascii := ascii_of_N 34.
Definition bsl : ascii := ascii_of_N 92.
Definition json_plain (s : bytes) : bool := forallb (fun c => (32 <=? code c)%N) s.
Fixpoint json_esc (s : bytes) : bytes :=
  match s with
  | [] => []
  | c :: t => if (code c =? 34)%N || (code c =? 92)%N then bsl :: c :: json_esc t else c :: json_esc t
  end.
Definition json_quote (s : bytes) : option bytes :=
  if json_plain s then Some (dq :: json_esc s ++ [dq]) else None.
Definition spaces (n : nat) : bytes := repeat " "%char n.
Definition is_scalar (v : value) : bool := match v with VMap _ | VArr _ => false | _ => true end.

Fixpoint json (ind : nat) (v : value) {struct v} : option bytes :=
  match v with
  | VInt z => Some (Z_to_bytes z)
  | VStr s => json_quote s
  | VBool b => Some (bool_bytes b)
  | VAbsent | VError => None
  | VMap [] => Some (B "{}")
  | VMap m =>
      match (fix go (m : amap) (first : bool) : option bytes :=
               match m with
               | [] => Some []
               | (k, x) :: t =>
                   match json_quote k, json (S (S ind)) x, go t false with
                   | Some jk, Some jx, Some jt =>
                       Some ((if first then [] else [","%char; nl]) ++ spaces (S (S ind)) ++ jk ++ B ": " ++ jx ++ jt)
                   | _, _, _ => None
                   end
               end) m true with
      | Some body => Some ("{"%char :: nl :: body ++ nl :: spaces ind ++ B "}")
      | None => None
      end
  | VArr [] => Some (B "[]")
  | VArr l =>
      if forallb is_scalar l then
        match (fix go (l : list value) (first : bool) : option bytes :=
                 match l with
                 | [] => Some []
                 | x :: t => match json ind x, go t false with
                             | Some jx, Some jt => Some ((if first then [] else B ", ") ++ jx ++ jt)
                             | _, _ => None
                             end
                 end) l true with
        | Some body => Some ("["%char :: body ++ B "]")
        | None => None
        end
      else
        match (fix go (l : list value) (first : bool) : option bytes :=
                 match l with
                 | [] => Some []
                 | x :: t => match json (S (S ind)) x, go t false with
                             | Some jx, Some jt => Some ((if first then [] else [","%char; nl]) ++ spaces (S (S ind)) ++ jx ++ jt)
                             | _, _ => None
                             end
                 end) l true with
        | Some body => Some ("["%char :: nl :: body ++ nl :: spaces ind ++ B "]")
        | None => None
        end
  end.
